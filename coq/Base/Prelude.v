(* Common imports and small list/byte utilities shared by every model.
   Bytes and code points are [Z]; byte strings are [list Z].  No proofs about the
   code live here; only generic facts. *)
From Coq Require Export ZArith List Bool Lia ZifyBool.
Export ListNotations.
Open Scope Z_scope.

Ltac Zify.zify_post_hook ::= Z.to_euclidean_division_equations.

Definition bytes := list Z.

Fixpoint zlist_eqb (a b : list Z) : bool :=
  match a, b with
  | [], [] => true
  | x :: a', y :: b' => (x =? y) && zlist_eqb a' b'
  | _, _ => false
  end.

Lemma zlist_eqb_spec a b : zlist_eqb a b = true <-> a = b.
Proof.
  revert b; induction a as [|x a IH]; intros [|y b]; simpl; split; intros H;
    try reflexivity; try discriminate.
  - apply andb_true_iff in H as [H1 H2]. apply Z.eqb_eq in H1. apply IH in H2. congruence.
  - inversion H; subst. rewrite Z.eqb_refl. simpl. apply IH. reflexivity.
Qed.

Lemma zlist_eqb_refl a : zlist_eqb a a = true.
Proof. apply zlist_eqb_spec. reflexivity. Qed.

Fixpoint list_eqb {A} (eqb : A -> A -> bool) (a b : list A) : bool :=
  match a, b with
  | [], [] => true
  | x :: a', y :: b' => eqb x y && list_eqb eqb a' b'
  | _, _ => false
  end.

Definition option_eqb {A} (eqb : A -> A -> bool) (a b : option A) : bool :=
  match a, b with
  | None, None => true
  | Some x, Some y => eqb x y
  | _, _ => false
  end.

(* prefix test on byte strings *)
Fixpoint zprefix (p l : list Z) : bool :=
  match p, l with
  | [], _ => true
  | x :: p', y :: l' => (x =? y) && zprefix p' l'
  | _ :: _, [] => false
  end.

Lemma zprefix_spec p l : zprefix p l = true <-> exists r, l = p ++ r.
Proof.
  revert l; induction p as [|x p IH]; intros l; simpl.
  - split; [intros _; exists l; reflexivity | reflexivity].
  - destruct l as [|y l].
    + split; [discriminate | intros [r Hr]; discriminate].
    + rewrite andb_true_iff, Z.eqb_eq, IH. split.
      * intros [-> [r ->]]. exists r. reflexivity.
      * intros [r Hr]. inversion Hr; subst. split; [reflexivity | exists r; reflexivity].
Qed.

(* ---------------------------------------------------------------------- *)
(* Correspondence support: evaluate a boolean check on every case and return
   the indices (as N) of the cases on which model and implementation differ. *)
Fixpoint mismatches_from {A} (chk : A -> bool) (l : list A) (i : N) : list N :=
  match l with
  | [] => []
  | x :: r => if chk x then mismatches_from chk r (N.succ i)
              else i :: mismatches_from chk r (N.succ i)
  end.
Definition mismatches {A} (chk : A -> bool) (l : list A) : list N := mismatches_from chk l 0%N.
