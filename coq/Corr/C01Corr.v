(* C01 correspondence: the adversary list applied by the harness to the encrypted stream of a real
   session, the application bytes each real packet carries, and what the real receiver delivered /
   how it ended, against the model's prediction. *)
From AV Require Import Base.Prelude Model.Recv.

(* observed end state: 0 = still running, everything fine; 1 = no error raised but the tail was
   not delivered (stalled); 2 = integrity / protocol error (MACError, ProtocolError, ...);
   3 = connection loss reported as an error; 4 = connection ended WITHOUT any error *)
Definition status_ok (model : status) (observed : Z) : bool :=
  match model with
  | Running => observed =? 0
  | Stalled | MacFailed => (observed =? 1) || (observed =? 2)
  | Lost => (observed =? 3) || (observed =? 2)
  end.

Fixpoint nth_content (cs : list (list Z)) (i : Z) : list Z :=
  match cs with
  | [] => []
  | c :: r => if i =? 0 then c else nth_content r (i - 1)
  end.

(* case: per-packet application contents (packet 0 is the first one after the tap point), the
   receiver's sequence number at that point, the adversary list, delivered bytes, end state *)
Definition chk_tamper (c : list (list Z) * Z * list item * list Z * Z) : bool :=
  let '(cs, s0, items, delivered, st) := c in
  let content := fun i => nth_content cs (i - s0) in
  let r := rx_run content s0 items in
  zlist_eqb (concat (rx_out r)) delivered && status_ok (rx_st r) st.
