From AV Require Import Base.Prelude Model.Packet.

(* (hdr, blocksize, payload length, observed padding length) *)
Definition chk_padlen (c : Z * Z * Z * Z) : bool :=
  let '(hdr, bs, len, got) := c in pad_len hdr bs len =? got.

(* clear-text receive loop: (chunks, payloads the real connection dispatched, failure observed,
   exact).  exact = the case contains only well-formed lengths: everything is compared.  Otherwise
   (a packet_length below 4 was injected) the mis-sliced payloads can be arbitrary bytes that the
   real dispatcher rejects for reasons outside this model, so only the payloads up to the first one
   whose type byte is not IGNORE / UNIMPLEMENTED / DEBUG are compared. *)
Definition plain_type (p : bytes) : bool :=
  match p with t :: _ => (t =? 2) || (t =? 3) || (t =? 4) | [] => false end.

Fixpoint take_plain (l : list bytes) : list bytes :=
  match l with
  | p :: r => if plain_type p then p :: take_plain r else []
  | [] => []
  end.

Definition chk_feed (c : list bytes * list bytes * bool * bool) : bool :=
  let '(chunks, payloads, failedp, exact) := c in
  let s := fold_left feed chunks rs_init in
  if exact then list_eqb zlist_eqb (got s) payloads && Bool.eqb (failed s) failedp
  else list_eqb zlist_eqb (take_plain (got s)) (take_plain payloads).

(* (digest size, k, h, x, sid, keylen, observed key) with the toy hash *)
Definition chk_derive (c : nat * bytes * bytes * bytes * bytes * Z * bytes) : bool :=
  let '(d, k, h, x, sid, keylen, key) := c in
  zlist_eqb (derive_key (toy_hash d) k h x sid keylen) key.

Definition chk_frame (c : bytes * bytes * bytes) : bool :=
  let '(payload, padding, wire) := c in zlist_eqb (frame payload padding) wire.
