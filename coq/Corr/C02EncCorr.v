(* Correspondence checkers for the encrypted-phase packet model (Model/PacketEnc.v) instantiated with
   the toy primitives, which harness/c02_enc.py implements identically and installs in the REAL
   asyncssh shim classes on a real connection object. *)
From AV Require Import Base.Prelude Model.Packet Model.PacketEnc.

Definition mode_of (z : Z) : emode :=
  if z =? 0 then Basic else if z =? 1 then ETM else if z =? 2 then GCM else Chacha.

Definition status_code (s : estatus) : Z :=
  match s with SOk => 0 | SMac => 1 | SDecode => 2 end.

(* payload types the real dispatcher hands to the connection's own process_packet (stubbed by the
   harness) whatever the connection phase: below MSG_KEX_FIRST *)
Definition eplain_type (p : bytes) : bool :=
  match p with t :: _ => (0 <=? t) && (t <? 20) | [] => false end.

Fixpoint etake_plain (l : list bytes) : list bytes :=
  match l with
  | p :: r => if eplain_type p then p :: etake_plain r else []
  | [] => []
  end.

(* receive side: ((mode, blocksize, tag length, key), (cipher state, seq), chunks,
                  (payloads dispatched, their sequence numbers, failure class 0 none / 1 MACError / 2 other,
                   final _recv_seq or -1 when unobservable)).
   When the model delivers a payload whose type byte is >= 20 (possible only for corrupted streams
   without integrity protection, or short lengths) the real dispatcher rejects it for reasons outside
   this model; then only the payloads before it are compared. *)
Definition chk_enc_feed (c : (Z * Z * nat * Z) * (Z * Z) * list bytes * (list bytes * list Z * Z * Z)) : bool :=
  let '((mz, bs, tl, k), (c0, sq0), chunks, (payloads, seqs, fail, fseq)) := c in
  let s := fold_left (toy_feed (mode_of mz) bs tl k) chunks (einit c0 sq0) in
  if forallb eplain_type (egot s)
  then list_eqb zlist_eqb (egot s) payloads && zlist_eqb (map vseq (elog s)) seqs &&
       (status_code (est s) =? fail) && ((fseq <? 0) || (eseq s =? fseq))
  else list_eqb zlist_eqb (etake_plain (egot s)) (etake_plain payloads).

(* send side: ((mode, _send_blocksize, tag length, key), (cipher state, seq), payloads passed to
   send_packet (type byte first), padding recovered from every transport write, the writes, final
   _send_seq or -1).  The model must produce the very same writes from those paddings, every padding
   must have the length pad_len prescribes, and the MSG_IGNORE rule must give the same frame count. *)
Definition chk_enc_send (c : (Z * Z * nat * Z) * (Z * Z) * list bytes * list bytes * list bytes * Z) : bool :=
  let '((mz, bs, tl, k), (c0, sq0), requested, paddings, writes, fseq) := c in
  let m := mode_of mz in
  let frames := flat_map (send_payloads true) requested in
  if (length frames =? length paddings)%nat
  then let pkts := combine frames paddings in
       let '(c', sq', ws) := toy_send_stream m tl k c0 sq0 pkts in
       list_eqb zlist_eqb ws writes && ((fseq <? 0) || (sq' =? fseq)) &&
       forallb (fun p => zlen (snd p) =? pad_len (hdrlen m) bs (zlen (fst p))) pkts
  else false.
