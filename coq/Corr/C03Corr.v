(* Checkers used by the C03 correspondence: each takes (input, observed implementation result) and says
   whether the model agrees.  Observations are built by harness/props/c03.py. *)
From AV Require Import Base.Prelude Model.Packet Model.Kex.
From Coq Require Import Uint63.

(* byte strings are written by the harness as their length and a list of 63-bit integer literals holding
   seven bytes each, big-endian, the last one holding the remainder (fast to parse):
   wx 3 [0x00ff1a] = [0; 255; 26] *)
Fixpoint wx (n : nat) (l : list int) : list Z :=
  match l with
  | [] => []
  | [w] => be n (Uint63.to_Z w)
  | w :: r => be 7 (Uint63.to_Z w) ++ wx (n - 7) r
  end.

(* integers are written as sign and big-endian magnitude *)
Definition wi (neg : bool) (b : list Z) : Z := let u := ube b in if neg then - u else u.

(* packet.py MPInt(v) = got *)
Definition chk_mpint (c : Z * bytes) : bool :=
  let '(v, got) := c in zlist_eqb (mpint v) got.

(* SSHPacket(b).get_mpint() followed by check_end(): Some value / None = PacketDecodeError *)
Definition chk_mpparse (c : bytes * option Z) : bool :=
  let '(b, got) := c in option_eqb Z.eqb (mp_parse b) got.

(* the bytes delivered in front of the LF of an identification line, and the version string the receiving
   connection reports through get_extra_info *)
Definition chk_version (c : bytes * bytes) : bool :=
  let '(line, got) := c in zlist_eqb (version_of_line line) got.

(* a view reconstructed from the wire and from send_newkeys(k, ..), and the exact bytes the real hash
   object of the real key exchange handler was fed.  When K is unknown (the handler failed before
   send_newkeys) the view carries kk = [] and only the prefix is compared. *)
Definition chk_hash (c : view * bytes * bool) : bool :=
  let '(v, got, exact) := c in
  if exact then zlist_eqb (hash_input v) got else zprefix (hash_input v) got.

(* negotiation: the AEAD ciphers (encryption_needs_mac = false), the two KEXINIT payloads as sent, and what
   the sides report: None = key exchange failed for lack of a common algorithm; Some [per side: the eight names
   in the order kex, host key, enc c->s, enc s->c, mac c->s, mac s->c, compression c->s, s->c where an entry
   None was not observable on that side *)
Definition neg_list (r : negres) : list bytes :=
  [n_kex r; n_hostkey r; n_enc_cs r; n_enc_sc r; n_mac_cs r; n_mac_sc r; n_cmp_cs r; n_cmp_sc r].

Fixpoint obs_match (model : list bytes) (obs : list (option bytes)) : bool :=
  match model, obs with
  | [], [] => true
  | m :: mr, o :: or_ => (match o with None => true | Some x => zlist_eqb m x end) && obs_match mr or_
  | _, _ => false
  end.

Definition chk_negotiate (c : list bytes * bytes * bytes * option (list (list (option bytes)))) : bool :=
  let '(aead, ic, is_, got) := c in
  match negotiate_payloads (fun e => negb (mem e aead)) ic is_, got with
  | None, None => true
  | Some r, Some os => forallb (obs_match (neg_list r)) os
  | _, _ => false
  end.

(* on-path edits: the client's local view as reconstructed from the wire (K left out), the fields in which
   the server's local view differs from it (the harness sends only those), whether the handshake ran to the
   authenticated state, and whether the edit is one for which the model predicts the outcome in both
   directions (a re-framed field-level edit): completion happens exactly when the views are equal *)
Inductive vdiff :=
| DB (i : Z) (b : bytes)       (* 0 v_c, 1 v_s, 2 i_c, 3 i_s, 4 k_s *)
| DF (x : kexfields).

Definition apply_diff (v : view) (d : vdiff) : view :=
  match d with
  | DB i b =>
      if i =? 0 then mkView b (v_s v) (i_c v) (i_s v) (k_s v) (kf v) (kk v)
      else if i =? 1 then mkView (v_c v) b (i_c v) (i_s v) (k_s v) (kf v) (kk v)
      else if i =? 2 then mkView (v_c v) (v_s v) b (i_s v) (k_s v) (kf v) (kk v)
      else if i =? 3 then mkView (v_c v) (v_s v) (i_c v) b (k_s v) (kf v) (kk v)
      else mkView (v_c v) (v_s v) (i_c v) (i_s v) b (kf v) (kk v)
  | DF x => mkView (v_c v) (v_s v) (i_c v) (i_s v) (k_s v) x (kk v)
  end.

Definition chk_sweep (c : view * list vdiff * bool * bool) : bool :=
  let '(vc, diffs, completed, exact) := c in
  let vs := fold_left apply_diff diffs vc in
  if completed then view_eqb vc vs else if exact then negb (view_eqb vc vs) else true.

(* the other public entry points (get_server_host_key, get_server_auth_methods, create_connection, the
   reverse direction): client view, the fields in which the server's view differs, whether the entry point
   delivered a result to its caller, the host key blob it returned (get_server_host_key only), exactness *)
Definition chk_entry (c : view * list vdiff * bool * option bytes * bool) : bool :=
  let '(vc, diffs, delivered, key, exact) := c in
  let vs := fold_left apply_diff diffs vc in
  if delivered then
    view_eqb vc vs && match key with Some k => zlist_eqb k (k_s vs) | None => true end
  else if exact then negb (view_eqb vc vs) else true.

(* group exchange: (preferred, max) of the request as the server received it and the bit size of the
   modulus it answered with *)
Definition chk_gex (c : Z * Z * Z) : bool :=
  let '(pref, maxsz, got) := c in gex_group_size pref maxsz =? got.
