(* Checkers used by the C04 correspondence: each takes (input, observed implementation result) and
   says whether the model agrees. *)
From AV Require Import Base.Prelude Model.HostTrust.

(* literals written by the harness *)
Definition mk_trust (o : option (list Z * list Z * list Z)) : option trust :=
  match o with
  | None => None
  | Some (ks, cas, rev) => Some (mkTrust ks cas rev)
  end.

Definition okey_eqb (a b : option key) : bool := option_eqb Z.eqb a b.

(* 1. the decision: SSHClientConnection.validate_server_host_key(blob) on a live client connection.
   case = (lookup result or None, callback answers, host, floor(now), presented, observed) with
   observed = Some k (the key returned) or None (HostKeyNotVerifiable). *)
Definition chk_decide
  (c : option (list Z * list Z * list Z) * bool * bool * list Z * Z * presented * option Z) : bool :=
  let '(tr, cbk, cbca, host, now, p, got) := c in
  okey_eqb (validate_host_key (mkEnv (mk_trust tr) cbk cbca host) now p) got.

(* the same against the decision as it was before 58fab7a (used to show the old code on replay) *)
Definition chk_decide_old
  (c : option (list Z * list Z * list Z) * bool * bool * list Z * Z * presented * option Z) : bool :=
  let '(tr, cbk, cbca, host, now, p, got) := c in
  okey_eqb (validate_host_key_old (mkEnv (mk_trust tr) cbk cbca host) now p) got.

(* 2. SSHOpenSSHCertificate.validate(cert_type, principal) called directly:
   case = (requested type, host, floor(now), certificate, observed ok?) *)
Definition chk_cert_validate (c : Z * list Z * Z * cert * bool) : bool :=
  let '(ty, host, now, ce, got) := c in
  (* validate(CERT_TYPE_HOST, host) is cert_valid; for another requested type only the type test differs *)
  let m := if ty =? CERT_TYPE_HOST then cert_valid host now ce
           else (c_type ce =? ty) && negb (now <? c_after ce) && negb (now >=? c_before ce) &&
                match c_principals ce with [] => true | _ => nmem host (c_principals ce) end in
  Bool.eqb m got.

(* 3. whole connection attempts and hostile message orders against a real asyncssh client:
   case = (env pieces, events, observed visible message numbers on the wire, observed closed?).
   visible: everything except DISCONNECT/IGNORE/UNIMPLEMENTED/DEBUG. *)
Definition visible (t : Z) : bool := negb ((1 <=? t) && (t <=? 4)).

Definition chk_run
  (c : option (list Z * list Z * list Z) * bool * bool * list Z * list ev * list Z * bool) : bool :=
  let '(tr, cbk, cbca, host, evs, got_out, got_closed) := c in
  let s := run (mkEnv (mk_trust tr) cbk cbca host) evs in
  zlist_eqb (filter visible (out s)) got_out && Bool.eqb (closed s) got_closed.

(* 4. outcome of a full asyncssh.connect(): 0 = host key accepted and authentication started,
   1 = HostKeyNotVerifiable, 2 = KeyExchangeFailed (no common algorithm or signature mismatch). *)
Definition outcome (e : env) (common : bool) (p : presented) (sg : sigv) (h now : Z) : Z :=
  if negb common then 2
  else match validate_host_key e now p with
       | None => 1
       | Some k => if verify k h sg then 0 else 2
       end.

Definition chk_connect
  (c : option (list Z * list Z * list Z) * bool * bool * list Z *
       (bool * presented * (Z * Z) * Z * Z) * (Z * bool * bool)) : bool :=
  let '(tr, cbk, cbca, host, (common, p, (signer, sh), h, now), (cls, sent_sr, sent_ua)) := c in
  let e := mkEnv (mk_trust tr) cbk cbca host in
  let sg := mkSig signer sh in
  let s := run e [EKexInit true false common; EKexReply p sg h now; ENewKeys; EServiceAccept true] in
  (outcome e common p sg h now =? cls) &&
  Bool.eqb (existsb (Z.eqb MSG_SERVICE_REQUEST) (out s)) sent_sr &&
  Bool.eqb (existsb (Z.eqb MSG_USERAUTH_REQUEST) (out s)) sent_ua.
