(* Correspondence checkers for C05: the harness (harness/props/c05.py) drives a REAL asyncssh server
   connection with an independent SSH peer (MiniSSH), an application whose awaitable callbacks are
   futures completed by the harness and a default executor whose jobs (reload_config) are completed by
   the harness, and records what it saw.  The same operation list is run through Model/Auth.v here and
   the observations are compared. *)
From AV Require Import Base.Prelude Model.Auth.
From Coq Require Import Init.Byte Strings.Byte.

(* byte strings are written as hexadecimal string literals: hx "00ff1a" = [0; 255; 26] *)
Inductive bstr := BStr (l : list byte).
Definition bstr_parse (l : list byte) : bstr := BStr l.
Definition bstr_print (b : bstr) : list byte := match b with BStr l => l end.
Declare Scope bstr_scope.
Delimit Scope bstr_scope with bstr.
String Notation bstr bstr_parse bstr_print : bstr_scope.
Bind Scope bstr_scope with bstr.
Definition hexval (b : byte) : Z :=
  let n := Z.of_N (Byte.to_N b) in if n <? 58 then n - 48 else n - 87.
Fixpoint hx_go (l : list byte) : list Z :=
  match l with
  | a :: b :: r => (hexval a * 16 + hexval b) :: hx_go r
  | _ => []
  end.
Definition hx (s : bstr) : list Z := hx_go (bstr_print s).

(* ---- the world as tables ------------------------------------------------------------------------- *)
Record tables := mkT {
  t_prep : list (bytes * option user);       (* strings on which utf-8 + saslprep is not the identity *)
  t_badutf8 : list bytes;
  t_noauth : list user;                      (* users for which begin_auth returns False *)
  t_ak : list (option user * list akentry);  (* authorized keys per source; absent = None *)
  t_pw : list (user * bytes * pwres);
  t_chpw : list (user * bytes * bytes * pwres);
  t_kchal : list (user * kbdres);
  t_kresp : list (user * list bytes * kbdres);
  t_cbkey : list (user * Z);
  t_cbca : list (user * Z);
  t_blobs : list (bytes * blob);
  t_sigs : list (Z * bytes * bytes);         (* (key, data, signature) triples that verify *)
  t_now : Z;
  t_pw_sup : bool; t_kbd : tri; t_pk_sup : bool;
  t_async : bool * bool * bool * bool * bool;  (* begin, pw, key, ca, kbd *)
  t_noinstall : list user;                    (* users for which begin_auth leaves the authorized keys alone *)
  t_sk : list Z                               (* keys that are FIDO security keys *)
}.

Definition ouser_eqb (a b : option user) : bool := option_eqb zlist_eqb a b.

Fixpoint assoc {K V} (eqb : K -> K -> bool) (k : K) (l : list (K * V)) : option V :=
  match l with [] => None | (k', v) :: r => if eqb k k' then Some v else assoc eqb k r end.

Definition world_of (t : tables) : world :=
  let '(ab, apw, akey, aca, akbd) := t_async t in
  mkWorld
    (fun b => match assoc zlist_eqb b (t_prep t) with Some r => r | None => Some b end)
    (fun b => negb (existsb (zlist_eqb b) (t_badutf8 t)))
    (fun u => negb (existsb (zlist_eqb u) (t_noauth t)))
    (fun src => assoc ouser_eqb src (t_ak t))
    (fun u p => match assoc (fun a b => zlist_eqb (fst a) (fst b) && zlist_eqb (snd a) (snd b)) (u, p)
                             (map (fun e => (fst e, snd e)) (t_pw t)) with Some r => r | None => PFalse end)
    (fun u p n => match assoc (fun a b => zlist_eqb (fst (fst a)) (fst (fst b)) && zlist_eqb (snd (fst a)) (snd (fst b))
                                          && zlist_eqb (snd a) (snd b)) (u, p, n)
                               (map (fun e => (fst e, snd e)) (t_chpw t)) with Some r => r | None => PFalse end)
    (fun u => match assoc zlist_eqb u (t_kchal t) with Some r => r | None => KFalse end)
    (fun u rs => match assoc (fun a b => zlist_eqb (fst a) (fst b) && list_eqb zlist_eqb (snd a) (snd b)) (u, rs)
                              (map (fun e => (fst e, snd e)) (t_kresp t)) with Some r => r | None => KFalse end)
    (fun u k => existsb (fun e => zlist_eqb (fst e) u && (snd e =? k)) (t_cbkey t))
    (fun u k => existsb (fun e => zlist_eqb (fst e) u && (snd e =? k)) (t_cbca t))
    (fun b => match assoc zlist_eqb b (t_blobs t) with Some r => r | None => BBad end)
    (fun k d sg => existsb (fun e => (fst (fst e) =? k) && zlist_eqb (snd (fst e)) d && zlist_eqb (snd e) sg) (t_sigs t))
    (t_now t) (t_pw_sup t) (t_kbd t) (t_pk_sup t) ab apw akey aca akbd
    (fun u => negb (existsb (zlist_eqb u) (t_noinstall t)))
    (fun k => existsb (Z.eqb k) (t_sk t)).

(* ---- operations and observations ------------------------------------------------------------------ *)
Inductive cop := ODeliver (p : bytes) | OComplete (fid : Z) | OSettle | OTurn.

(* one iteration of the event loop: exactly the continuations that are ready NOW run, oldest first; what
   they spawn runs in a later iteration.  A marker entry (blocked on a future that does not exist) is
   appended first: spawned continuations go behind it, cancellation leaves it alone. *)
Definition marker_fid : Z := -1.
Definition marker : option Z * kont := (Some marker_fid, KResume).
Definition is_marker (c : option Z * kont) : bool :=
  match c with (Some f, KResume) => f =? marker_fid | _ => false end.
Fixpoint ready_before_marker (l : list (option Z * kont)) (i : nat) : option nat :=
  match l with
  | [] => None
  | c :: r => if is_marker c then None
              else match fst c with None => Some i | Some _ => ready_before_marker r (S i) end
  end.
Fixpoint turn_go (w : world) (sid : bytes) (fixed : bool) (fuel : nat) (s : st) : st * bool :=
  match ready_before_marker (conts s) O with
  | None => (s, false)
  | Some i => match fuel with
              | O => (s, true)
              | S f => turn_go w sid fixed f (step w sid fixed s (Run i))
              end
  end.
Definition turn (w : world) (sid : bytes) (fixed : bool) (s : st) : st * bool :=
  if dead s then (s, false)
  else let '(s', oof) := turn_go w sid fixed 200 (set_conts (conts s ++ [marker]) s) in
       (set_conts (filter (fun c => negb (is_marker c)) (conts s')) s', oof).

(* after every OSettle: (number of replies so far, number of auth_completed() calls, dead) *)
Definition snap := (Z * Z * bool)%type.
Definition zcount {A} (l : list A) : Z := Z.of_nat (length l).
Definition snap_of (s : st) : snap := (zcount (out s), zcount (completed_as s), dead s).
(* once the connection is gone only that fact is compared: tasks that were already scheduled when the
   implementation decided to disconnect still run one step before _cleanup cancels them (their packets
   go nowhere, but application callbacks are still invoked); the model stops at once *)
Definition snap_eqb (a b : snap) : bool :=
  let '(a1, a2, a3) := a in let '(b1, b2, b3) := b in
  Bool.eqb a3 b3 && (a3 || ((a1 =? b1) && (a2 =? b2))).

Fixpoint run_ops (w : world) (sid : bytes) (fixed : bool) (ops : list cop) (s : st) : st * list snap * bool :=
  match ops with
  | [] => (s, [], false)
  | o :: r =>
      let '(s1, oof) := match o with
                        | ODeliver p => (step w sid fixed s (Deliver p), false)
                        | OComplete f => (step w sid fixed s (Complete f), false)
                        | OSettle => settle w sid fixed 200 s
                        | OTurn => turn w sid fixed s
                        end in
      let '(s2, tr, oof2) := run_ops w sid fixed r s1 in
      (s2, match o with OSettle => snap_of s1 :: tr | _ => tr end, oof || oof2)
  end.

Definition reply_eqb (a b : reply) : bool :=
  match a, b with
  | RFailure a1 a2 a3, RFailure b1 b2 b3 => Bool.eqb a1 b1 && Bool.eqb a2 b2 && Bool.eqb a3 b3
  | RSuccess, RSuccess | RPkOk, RPkOk | RChangeReq, RChangeReq | RUnimpl, RUnimpl => true
  | RInfoReq n, RInfoReq m => n =? m
  | RServed t, RServed u => t =? u
  | _, _ => false
  end.

Definition is_served (r : reply) : bool := match r with RServed _ => true | _ => false end.
Definition count_served (t : Z) (l : list reply) : Z :=
  zcount (filter (fun r => match r with RServed u => u =? t | _ => false end) l).

(* final observation: authentication replies oldest first; served global requests / channel opens;
   user reported at each auth_completed(); begin_auth calls; dead; enforced restrictions when probed
   (forced command, pty allowed, direct-tcpip to the probe target allowed) *)
Definition obs := (list reply * Z * Z * list user * list user * bool * option (option bytes * bool * bool * list start_req))%type.

Definition probe_host : bytes := [104; 49].     (* "h1" *)
Definition probe_port : Z := 80.

(* what the four probe channels ask for: exec "probe", shell, subsystem "other", subsystem "sftp" *)
Definition probe_starts : list start_req :=
  [SExec [112;114;111;98;101]; SShell; SSubsys [111;116;104;101;114]; SSubsys [115;102;116;112]].

Definition observe (s : st) (probe : bool) : obs :=
  (rev (filter (fun r => negb (is_served r)) (out s)), count_served 80 (out s), count_served 90 (out s),
   rev (completed_as s), rev (begun s), dead s,
   if probe then Some (forced_command s, pty_allowed s, fwd_allowed s probe_host probe_port,
                       map (start_session s) probe_starts) else None).

Definition start_eqb (a b : start_req) : bool :=
  match a, b with
  | SShell, SShell => true
  | SExec x, SExec y => zlist_eqb x y
  | SSubsys x, SSubsys y => zlist_eqb x y
  | _, _ => false
  end.
Definition enf_eqb (a b : option bytes * bool * bool * list start_req) : bool :=
  let '(a1, a2, a3, a4) := a in let '(b1, b2, b3, b4) := b in
  option_eqb zlist_eqb a1 b1 && Bool.eqb a2 b2 && Bool.eqb a3 b3 && list_eqb start_eqb a4 b4.

Fixpoint uprefix (a b : list user) : bool :=
  match a, b with
  | [], _ => true
  | x :: a', y :: b' => zlist_eqb x y && uprefix a' b'
  | _, [] => false
  end.

Fixpoint rprefix (a b : list reply) : bool :=
  match a, b with
  | [], _ => true
  | x :: a', y :: b' => reply_eqb x y && rprefix a' b'
  | _, [] => false
  end.

(* [a] = model, [b] = implementation.  On a live connection everything is compared exactly.  On a dead one
   the implementation may have done MORE than the model before it went down, never less or different:
   an exception raised inside a task only takes effect when its done-callback (_reap_task) runs, one loop
   turn later, and callbacks queued before it still run (packets buffered behind an asynchronous
   handler are processed and answered, application callbacks are invoked); the model stops at once.
   The answer to a channel open is produced by a later task and is lost when the connection dies first. *)
Definition obs_eqb (a b : obs) : bool :=
  let '(a1, a2, a3, a4, a5, a6, a7) := a in
  let '(b1, b2, b3, b4, b5, b6, b7) := b in
  Bool.eqb a6 b6 && option_eqb enf_eqb a7 b7 &&
  (if a6 then rprefix a1 b1 && uprefix a4 b4 && uprefix a5 b5
   else list_eqb reply_eqb a1 b1 && list_eqb zlist_eqb a4 b4 && list_eqb zlist_eqb a5 b5 && (a2 =? b2) && (a3 =? b3)).

(* one case: variant, world, session id, operations, per-operation snapshots, final observation, and for a
   list of users what the harness's own (Python) evaluation of the specification [granted] says *)
Definition case := (bool * tables * bytes * list cop * list snap * obs * list (user * bool))%type.

Definition chk_auth (c : case) : bool :=
  let '(fixed, t, sid, ops, tr, ob, gr) := c in
  let w := world_of t in
  let '(s, tr', oof) := run_ops w sid fixed ops init in
  let D := flat_map (fun o => match o with ODeliver p => [p] | _ => [] end) ops in
  negb oof && list_eqb snap_eqb tr' tr &&
  obs_eqb (observe s (match ob with (_, _, _, _, _, _, Some _) => true | _ => false end)) ob &&
  forallb (fun ug => Bool.eqb (granted w sid (fst ug) D) (snd ug)) gr.

(* diagnostic: what the model computes (printed by the harness for a mismatching case) *)
Definition model_view (c : case) :=
  let '(fixed, t, sid, ops, tr, ob, gr) := c in
  let w := world_of t in
  let '(s, tr', oof) := run_ops w sid fixed ops init in
  let D := flat_map (fun o => match o with ODeliver p => [p] | _ => [] end) ops in
  (oof, tr', observe s true, map (fun ug => granted w sid (fst ug) D) gr, conts s).

(* the specification alone, for the direct oracle: is U entitled, are the restrictions in force justified *)
Definition chk_spec (c : tables * bytes * list bytes * user * bool) : bool :=
  let '(t, sid, D, U, expect) := c in Bool.eqb (granted (world_of t) sid U D) expect.

(* host-based decision: (trust_client_host, claimed, resolved, known_client_hosts pairs, key, signature ok,
   validate_host_based_user) and whether the implementation accepted *)
Definition chk_hostbased (c : bool * bytes * bytes * list (bytes * Z) * Z * bool * bool * bool) : bool :=
  let '(trust, claimed, resolved, kh, k, sig_ok, user_ok, got) := c in
  Bool.eqb (hb_decide trust claimed resolved kh k sig_ok user_ok) got.
