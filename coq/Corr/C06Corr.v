(* Checkers used by the C06 correspondence: the hand model of record (Model/Transport.v: step = repaired code) against what real asyncssh
   endpoints were observed to do (harness/c06_probe.py).  Each checker takes one case and says whether
   the model agrees with the observation. *)
From AV Require Import Base.Prelude Model.Transport.

Definition task_eqb (a b : task) : bool :=
  match a, b with
  | TClientAuth m, TClientAuth n => m =? n
  | TChangePw, TChangePw => true
  | TServerPw u1 p1, TServerPw u2 p2 => (u1 =? u2) && (p1 =? p2)
  | TClientKbdResp a1, TClientKbdResp a2 => a1 =? a2
  | TClientPkSign, TClientPkSign => true
  | TServerKbd u1, TServerKbd u2 => u1 =? u2
  | TServerKbdResp u1 p1, TServerKbdResp u2 p2 => (u1 =? u2) && (p1 =? p2)
  | TServerPk, TServerPk => true
  | _, _ => false
  end.

Definition conn_eqb (a b : conn) : bool :=
  Bool.eqb (srv a) (srv b) &&
  Bool.eqb (strict a) (strict b) &&
  Bool.eqb (sid a) (sid b) &&
  Bool.eqb (kex a) (kex b) &&
  Bool.eqb (kexinit_sent a) (kexinit_sent b) &&
  Bool.eqb (kex_complete a) (kex_complete b) &&
  Bool.eqb (send_enc a) (send_enc b) &&
  Bool.eqb (recv_enc a) (recv_enc b) &&
  Bool.eqb (next_recv a) (next_recv b) &&
  Bool.eqb (can_recv_ext a) (can_recv_ext b) &&
  Bool.eqb (next_service a) (next_service b) &&
  Bool.eqb (auth_in_prog a) (auth_in_prog b) &&
  Z.eqb (auth a) (auth b) &&
  Bool.eqb (req_issued a) (req_issued b) &&
  zlist_eqb (methods a) (methods b) &&
  Bool.eqb (auth_complete a) (auth_complete b) &&
  Z.eqb (user a) (user b) &&
  zlist_eqb (deferred a) (deferred b) &&
  list_eqb task_eqb (pending a) (pending b) &&
  Bool.eqb (closed a) (closed b) &&
  Z.eqb (authed a) (authed b) &&
  Bool.eqb (unsolicited a) (unsolicited b) &&
  Z.eqb (app_events a) (app_events b) &&
  Bool.eqb (desync a) (desync b) &&
  Bool.eqb (gated a) (gated b) &&
  Bool.eqb (waiting a) (waiting b) &&
  true (* ignore_first: lowering it is what 'ignored' means *).

Definition pair_eqb (a b : Z * Z) : bool := (fst a =? fst b) && (snd a =? snd b).

(* ---- one observed step --------------------------------------------------------------------------------
   chunk: the packets delivered to the endpoint in one data_received call, (type, cls, malformed?);
          type -1 stands for the peer's identification string, type -2 for the application answering a suspended
          credential callback (cls 0 = nothing to offer)
   obs  : every packet the endpoint was seen to send until nothing was runnable any more: (type, arg, seq),
          arg = the sequence number echoed by an UNIMPLEMENTED
   closed: the endpoint closed its transport *)
Definition ostep := (list (Z * Z * bool) * list (Z * Z * Z) * bool)%type.

(* drop connection-layer packets (not modelled) together with the IGNORE sent in front of each *)
Fixpoint strip_conn (l : list (Z * Z * Z)) : list (Z * Z) :=
  match l with
  | [] => []
  | (t, a, _) :: r =>
    if 79 <? t then strip_conn r
    else if t =? 2 then
      match r with
      | (t2, _, _) :: r2 => if 79 <? t2 then strip_conn r2 else (t, a) :: strip_conn r
      | [] => [(t, a)]
      end
    else (t, a) :: strip_conn r
  end.

(* every observed packet must carry the sequence number the model's bookkeeping assigns *)
Fixpoint book_obs (s : st) (l : list (Z * Z * Z)) : option st :=
  match l with
  | [] => Some s
  | (t, _, q) :: r =>
    if q =? send_seq s
    then book_obs (mkst (cn s) (recv_seq s) (note_sent (strict (cn s)) (send_seq s) t) (last_recv s) t (clear_acc s)) r
    else None
  end.

(* the model on one chunk followed by a settle: new state, what it sent, delegated?, damaged body in the chunk? *)
Fixpoint feed_chunk (s : st) (l : list (Z * Z * bool)) : st * bool :=
  match l with
  | [] => (s, false)
  | (t, cls, mal) :: r =>
    let s1 := step s (if t =? -1 then EvVersion else if t =? -2 then EvRelease cls else EvRecv t cls) in
    (* _process_kexinit and _process_userauth_request hand a coroutine back: asyncssh buffers the rest of the chunk
       until that task has finished, and every task that became ready before its completion callback runs first
       (the harness applications never suspend) - so such a packet inside a chunk is followed by a settle point *)
    let s1' := match r with [] => s1 | _ => if (t =? 20) || (t =? 50) then step s1 EvSettle else s1 end in
    let '(s2, m2) := feed_chunk s1' r in (s2, mal || m2)
  end.

Definition model_step (s : st) (chunk : list (Z * Z * bool)) : st * list (Z * Z) * bool * bool :=
  let '(s1, m1) := feed_chunk (begin_step s) chunk in
  let s2 := step s1 EvSettle in
  (s2, olog (cn s2), deleg (cn s2), m1).

Inductive chk_res := Ok (s : st) | Accept | Bad.

Definition chk_step (s : st) (stp : ostep) : chk_res :=
  let '(chunk, obs, oclosed) := stp in
  let '(s1, mo, dg, mal) := model_step s chunk in
  match book_obs s1 obs with
  | None => Bad
  | Some s2 =>
    if desync (cn s2) then Accept
    else if (mal || dg) && oclosed then Accept
    else if dg then Ok s2
    else if list_eqb pair_eqb (strip_conn obs) mo && Bool.eqb (closed (cn s2)) oclosed
         then (if oclosed then Accept else Ok s2)
         else Bad
  end.

Fixpoint chk_steps (s : st) (l : list ostep) : bool :=
  match l with
  | [] => true
  | stp :: r => match chk_step s stp with
                | Ok s1 => chk_steps s1 r
                | Accept => true
                | Bad => false
                end
  end.

(* number of steps that agree before the first disagreement (diagnostics) *)
Fixpoint agree_len (s : st) (l : list ostep) (n : Z) : Z :=
  match l with
  | [] => n
  | stp :: r => match chk_step s stp with
                | Ok s1 => agree_len s1 r (n + 1)
                | Accept => -1
                | Bad => n
                end
  end.

(* a whole observed session *)
Definition chk_history (c : bool * bool * list ostep) : bool :=
  let '(server, gated_, steps) := c in chk_steps (init_gated server gated_) steps.

Definition where_history (c : bool * bool * list ostep) : Z :=
  let '(server, gated_, steps) := c in agree_len (init_gated server gated_) steps 0.

(* ---- one row of the generated table against the model ---------------------------------------------------
   prefix: the chunks of the untampered session delivered before the injection point; suffix: those after it;
   row: (type, cls, verdict) for the well-formed variant of every type *)
Fixpoint run_chunks (s : st) (l : list (list (Z * Z * bool))) : st :=
  match l with
  | [] => s
  | ch :: r => let '(s1, o1, _, _) := model_step s ch in run_chunks (note_all s1 (map fst o1)) r
  end.

Definition predicted_ok (s : st) (suffix : list (list (Z * Z * bool))) (e : Z * Z * verdict) : bool :=
  let '(t, cls, v) := e in
  let '(s1, mo, dg, _) := model_step s [(t, cls, false)] in
  if dg then true
  else if negb (app_events (cn s1) =? app_events (cn s)) then verdict_eqb v VH     (* an application callback ran *)
  else if closed (cn s1) then verdict_eqb v VF
  else
    let later := closed (cn (run_chunks (note_all s1 (map fst mo)) suffix)) in
    let same := conn_eqb (cn s1) (cn s) in
    match mo with
    | [] => if same then (if later then verdict_eqb v VL || verdict_eqb v VH      (* ends, or hangs, later on *)
                         else verdict_eqb v VI)
            else verdict_eqb v VH || verdict_eqb v VL
    | [(3, q)] => if same && (q =? recv_seq s) then (if later then verdict_eqb v VL || verdict_eqb v VH
                                                     else verdict_eqb v VU)
                  else verdict_eqb v VH || verdict_eqb v VL
    | _ => verdict_eqb v VH || verdict_eqb v VL
    end.

Definition chk_row (c : bool * bool * list (list (Z * Z * bool)) * list (list (Z * Z * bool)) * list (Z * Z * verdict)) : bool :=
  let '(server, gated_, prefix, suffix, row) := c in
  let s := run_chunks (init_gated server gated_) prefix in
  forallb (predicted_ok s suffix) row.

Definition bad_in_row (c : bool * bool * list (list (Z * Z * bool)) * list (list (Z * Z * bool)) * list (Z * Z * verdict)) : list Z :=
  let '(server, gated_, prefix, suffix, row) := c in
  let s := run_chunks (init_gated server gated_) prefix in
  map (fun e => fst (fst e)) (filter (fun e => negb (predicted_ok s suffix e)) row).
