(* Correspondence checkers for C07/C08: run the channel model on an op list and compare the
   observation (packets each side emitted, tokens delivered, error / stuck flags). *)
From AV Require Import Base.Prelude Model.Channel.

Definition tok_eqb (a b : tok) : bool :=
  match a, b with
  | TB d1 b1, TB d2 b2 => (d1 =? d2) && (b1 =? b2)
  | TEof, TEof => true
  | TClose, TClose => true
  | _, _ => false
  end.

Definition pkt_eqb (a b : pkt) : bool :=
  match a, b with
  | PData d1 l1, PData d2 l2 => (d1 =? d2) && zlist_eqb l1 l2
  | PEof, PEof => true
  | PClose, PClose => true
  | PAdjust n, PAdjust m => n =? m
  | _, _ => false
  end.

(* observation: after the whole op list: delivered tokens, packets still queued forward / back,
   receiver error flag, stuck flag *)
Definition obs := (list tok * list pkt * list pkt * bool * bool)%type.

Definition observe (y : sys) : obs :=
  (r_out (rcv_ y), fwd y, back y, r_err (rcv_ y), stuck y).

Definition obs_eqb (a b : obs) : bool :=
  let '(o1, f1, b1, e1, s1) := a in
  let '(o2, f2, b2, e2, s2) := b in
  (* once the implementation has raised its protocol error only the error flag is compared: the
     connection is gone and the queues are torn down *)
  if e2 then e1
  else list_eqb tok_eqb o1 o2 && list_eqb pkt_eqb f1 f2 && list_eqb pkt_eqb b1 b2 && negb e1 && Bool.eqb s1 s2.

(* a case: strict flag, window, pktsize, ops, and the observation after EACH prefix is too costly;
   the harness records the observation after every op as a list and we compare all of them *)
Fixpoint trace (strict : bool) (y : sys) (ops : list op) : list obs :=
  match ops with
  | [] => []
  | o :: r => let y' := step strict y o in observe y' :: trace strict y' r
  end.

Definition chk_channel (c : bool * Z * Z * list op * list obs) : bool :=
  let '(strict, window, pktsize, ops, got) := c in
  list_eqb obs_eqb (trace strict (init_sys window pktsize) ops) got.
