(* Correspondence checkers for C07/C08: run the channel model on an op list and compare the
   observation (packets each side emitted, tokens delivered, error / stuck flags). *)
From AV Require Import Base.Prelude Model.Channel.

Definition tok_eqb (a b : tok) : bool :=
  match a, b with
  | TB d1 b1, TB d2 b2 => (d1 =? d2) && (b1 =? b2)
  | TEof, TEof => true
  | TClose, TClose => true
  | _, _ => false
  end.

Definition pkt_eqb (a b : pkt) : bool :=
  match a, b with
  | PData d1 l1, PData d2 l2 => (d1 =? d2) && zlist_eqb l1 l2
  | PEof, PEof => true
  | PClose, PClose => true
  | PAdjust n, PAdjust m => n =? m
  | _, _ => false
  end.

(* observation: after the whole op list: delivered tokens, packets still queued forward / back,
   receiver error flag, stuck flag *)
Definition obs := (list tok * list pkt * list pkt * bool * bool)%type.

Definition observe (y : sys) : obs :=
  (r_out (rcv_ y), fwd y, back y, r_err (rcv_ y), stuck y).

Definition obs_eqb (a b : obs) : bool :=
  let '(o1, f1, b1, e1, s1) := a in
  let '(o2, f2, b2, e2, s2) := b in
  (* once the implementation has raised its protocol error only the error flag is compared: the
     connection is gone and the queues are torn down *)
  if e2 then e1
  else list_eqb tok_eqb o1 o2 && list_eqb pkt_eqb f1 f2 && list_eqb pkt_eqb b1 b2 && negb e1 && Bool.eqb s1 s2.

(* a case: strict flag, window, pktsize, ops, and the observation after EACH prefix is too costly;
   the harness records the observation after every op as a list and we compare all of them *)
Fixpoint trace (strict : bool) (y : sys) (ops : list op) : list obs :=
  match ops with
  | [] => []
  | o :: r => let y' := step strict y o in observe y' :: trace strict y' r
  end.

Definition chk_channel (c : bool * Z * Z * list op * list obs) : bool :=
  let '(strict, window, pktsize, ops, got) := c in
  list_eqb obs_eqb (trace strict (init_sys window pktsize) ops) got.

(* ---- several channels on one connection (Model/MultiChannel.v) --------------------------------- *)
From AV Require Import Model.MultiChannel.

Definition tpkt_eqb (a b : Z * pkt) : bool := (fst a =? fst b) && pkt_eqb (snd a) (snd b).

(* observation after each op: per channel (0..n-1) the tokens handed to its session, the shared
   forward wire, the shared backward wire (adjusts only), error flag *)
Definition mobs := (list (list tok) * list (Z * pkt) * list (Z * pkt) * bool)%type.

Fixpoint zrange (n : nat) : list Z :=
  match n with O => [] | S k => zrange k ++ [Z.of_nat k] end.

Definition mobserve (n : nat) (c : conn) : mobs :=
  (map (fun j => r_out (c_rcv c j)) (zrange n), c_fwd c, c_back c,
   existsb (fun j => r_err (c_rcv c j)) (zrange n)).

Definition mobs_eqb (a b : mobs) : bool :=
  let '(o1, f1, b1, e1) := a in
  let '(o2, f2, b2, e2) := b in
  if e2 then e1
  else list_eqb (list_eqb tok_eqb) o1 o2 && list_eqb tpkt_eqb f1 f2 && list_eqb tpkt_eqb b1 b2 && negb e1.

Fixpoint mtrace (strict : bool) (n : nat) (c : conn) (ms : list mop) : list mobs :=
  match ms with
  | [] => []
  | m :: r => let c' := mstep strict c m in mobserve n c' :: mtrace strict n c' r
  end.

Definition chk_multi (c : list Z * list Z * list mop * list mobs) : bool :=
  let '(windows, pktsizes, ms, got) := c in
  let w := fun i => nth (Z.to_nat i) windows 1 in
  let p := fun i => nth (Z.to_nat i) pktsizes 1 in
  list_eqb mobs_eqb (mtrace true (length windows) (conn_init w p) ms) got.
