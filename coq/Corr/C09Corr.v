(* C09 correspondence: the model of Model/Close.v is run on the endpoint-local op list the harness
   derived from a real run (application calls, packets delivered, cut, settle points) and its
   observation at every Settle is compared with what the real endpoint showed at that point.
   Numbers are codes chosen by harness/c09_sim.py; 9 = "not observable" (skipped). *)
From AV Require Import Base.Prelude Model.Close.
Local Open Scope nat_scope.

Definition ss_code (s : sstate) : nat :=
  match s with SOpen => 0 | SEofPending => 1 | SEof => 2 | SClosePending => 3 | SClosed => 4 end.
Definition rs_code (s : rstate) : nat :=
  match s with ROpen => 0 | REofPending => 1 | REof => 2 | RClosePending => 3 | RClosed => 4 end.
Definition cb_code (e : cb) : nat :=
  match e with CbMade => 0 | CbStarted => 1 | CbData => 2 | CbEof => 3 | CbLost false => 4 | CbLost true => 5 end.
Definition ocb_code (e : ocb) : nat :=
  match e with OMade => 0 | OAuth => 1 | OLost false => 2 | OLost true => 3 end.
Definition pc_code (p : cpc) : nat :=
  match p with CNone => 0 | CDone WOk => 2 | CDone _ => 3 | _ => 1 end.
Definition pkt_code (p : pkt) : nat * nat * nat :=
  match p with
  | KtOpen c => (0, c, 0) | KtConfirm c => (1, c, 0) | KtOpenFail => (2, 0, 0)
  | KtEof c => (3, c, 0) | KtClose c => (4, c, 0)
  | KtReq c StPty => (5, c, 0) | KtReq c StFinal => (5, c, 1)
  | KtReply c ok => (6, c, if ok then 1 else 0)
  | KtGlobal => (7, 0, 0) | KtDisconnect => (8, 0, 0)
  end.

(* consecutive data callbacks are one observation (the model has no chunk counts) *)
Fixpoint collapse (l : list nat) : list nat :=
  match l with
  | 2 :: ((2 :: _) as r) => collapse r
  | a :: r => a :: collapse r
  | [] => []
  end.

Definition cobs := (nat * nat * nat * list nat * nat * nat * nat * nat)%type.
Definition obs := (bool * list nat * nat * nat * list (nat * nat * nat) * list cobs)%type.

Definition obs_chan (ch : chan) : cobs :=
  (ss_code (ss ch), rs_code (rs ch), if reg ch then 1 else 0, collapse (map cb_code (clog ch)),
   pc_code (pc ch), closed_w ch, if st_rd ch then 1 else 0, st_dr ch).
Definition obs_conn (s : conn) : obs :=
  (closed s, map ocb_code (olog s), glob_w s, cclosed_w s, map pkt_code (out s), map obs_chan (chans s)).

Definition eqx (m r : nat) : bool := (r =? 9) || (m =? r).
Definition nat3_eqb (a b : nat * nat * nat) : bool :=
  let '(a1, a2, a3) := a in let '(b1, b2, b3) := b in (a1 =? b1) && eqx a2 b2 && (a3 =? b3).
Definition cobs_eqb (m r : cobs) : bool :=
  let '(m1, m2, m3, m4, m5, m6, m7, m8) := m in
  let '(r1, r2, r3, r4, r5, r6, r7, r8) := r in
  eqx m1 r1 && eqx m2 r2 && eqx m3 r3 && list_eqb Nat.eqb m4 (collapse r4) && (m5 =? r5) && (m6 =? r6)
  && (m7 =? r7) && (m8 =? r8).
Definition obs_eqb (m r : obs) : bool :=
  let '(m1, m2, m3, m4, m5, m6) := m in
  let '(r1, r2, r3, r4, r5, r6) := r in
  Bool.eqb m1 r1 && list_eqb Nat.eqb m2 r2 && (m3 =? r3) && (m4 =? r4) && list_eqb nat3_eqb m5 r5
  && list_eqb cobs_eqb m6 r6.

(* run the ops, collecting the model observation after every Settle *)
Fixpoint run_obs (ops : list op) (s : conn) : list obs :=
  match ops with
  | [] => []
  | Settle :: r => let s' := step s Settle in obs_conn s' :: run_obs r s'
  | o :: r => run_obs r (step s o)
  end.

(* every run starts from an established, authenticated connection *)
Definition established : conn := step init PAuthOk.

Definition chk_trace (c : list op * list obs) : bool :=
  list_eqb obs_eqb (run_obs (fst c) established) (snd c).

(* for diagnosis: the model's observations for an op list *)
Definition model_obs (ops : list op) : list obs := run_obs ops established.

(* ---------------------------------------------------------------------------------------------
   The pair model (Model/ClosePair.v, byte-counted close handshake) against a real client/server
   channel: after every op both endpoints' send/receive state, buffered and window byte counts,
   close notifications, registration, the packets in flight in both directions and whether a protocol
   error ended the connection are compared. *)
From AV Require Import Model.ClosePair.

Definition eobs := (nat * nat * nat * nat * nat * nat * nat * nat)%type.  (* ss rs sbuf swin rwin rbuf lost reg *)
Definition pobs := (eobs * eobs * list (nat * nat) * list (nat * nat) * bool)%type.
Definition ep_obs (e : ep) : eobs :=
  (ss_code (e_ss e), rs_code (e_rs e), e_sbuf e, e_swin e, e_rwin e, e_rbuf e, e_lost e, if e_reg e then 1 else 0).
Definition q_code (q : ppkt) : nat * nat :=
  match q with QData n => (0, n) | QAdjust n => (1, n) | QEof => (2, 0) | QClose => (3, 0) end.
Definition pair_obs (p : pair) : pobs :=
  (ep_obs (pa p), ep_obs (pb p), map q_code (wab p), map q_code (wba p), perr p).
Definition nat2_eqb (a b : nat * nat) : bool := (fst a =? fst b) && (snd a =? snd b).
Definition eobs_eqb (m r : eobs) : bool :=
  let '(m1, m2, m3, m4, m5, m6, m7, m8) := m in
  let '(r1, r2, r3, r4, r5, r6, r7, r8) := r in
  (m1 =? r1) && (m2 =? r2) && (m3 =? r3) && (m4 =? r4) && (m5 =? r5) && (m6 =? r6) && (m7 =? r7) && (m8 =? r8).
Definition pobs_eqb (m r : pobs) : bool :=
  let '(m1, m2, m3, m4, m5) := m in
  let '(r1, r2, r3, r4, r5) := r in
  eobs_eqb m1 r1 && eobs_eqb m2 r2 && list_eqb nat2_eqb m3 r3 && list_eqb nat2_eqb m4 r4 && Bool.eqb m5 r5.

Fixpoint run_pair (steps : list (list pop * pobs)) (p : pair) : bool :=
  match steps with
  | [] => true
  | (ops, o) :: r =>
      let p' := prun true ops p in
      (* once a protocol error has ended the connection only that fact is compared *)
      (if perr p' then (let '(_, _, _, _, e) := o in e) else pobs_eqb (pair_obs p') o) && run_pair r p'
  end.
Definition chk_pair (c : (nat * nat * bool * bool) * list (list pop * pobs)) : bool :=
  let '(wa, wb, ka, kb, steps) := c in run_pair steps (pair0 wa wb ka kb).
Fixpoint pair_trace (steps : list (list pop * pobs)) (p : pair) : list pobs :=
  match steps with
  | [] => []
  | (ops, _) :: r => let p' := prun true ops p in pair_obs p' :: pair_trace r p'
  end.
