(* Checkers used by the C10 correspondence: each takes (input, observed implementation behaviour) and says
   whether the model of Model/Hostile.v agrees. *)
From AV Require Import Base.Prelude Model.Hostile.

(* run-length encoded byte strings (long banner lines): [(byte, count); ...] *)
Fixpoint rle (l : list (Z * Z)) : bytes :=
  match l with [] => [] | (b, n) :: r => repeat b (Z.to_nat n) ++ rle r end.

(* ---- SSHPacket getters ------------------------------------------------------------------ *)
(* op codes: 0 get_byte, 1 get_boolean, 2 get_uint16, 3 get_uint32, 4 get_uint64, 5 get_string, 6 get_mpint,
   7 get_namelist, 8 check_end, (9, n) get_bytes(n) *)
Inductive oval := VZ (z : Z) | VB (b : bytes) | VL (l : list bytes) | VUnit | VErr.

Definition oval_eqb (a b : oval) : bool :=
  match a, b with
  | VZ x, VZ y => x =? y
  | VB x, VB y => zlist_eqb x y
  | VL x, VL y => list_eqb zlist_eqb x y
  | VUnit, VUnit | VErr, VErr => true
  | _, _ => false
  end.

Definition lift {A} (f : A -> oval) (r : res A) : oval * pk :=
  match r with Ok v p => (f v, p) | Err p => (VErr, p) end.

Definition run_op (op : Z * Z) (p : pk) : oval * pk :=
  let '(c, n) := op in
  if c =? 0 then lift VZ (get_byte p)
  else if c =? 1 then lift (fun b : bool => VZ (if b then 1 else 0)) (get_boolean p)
  else if c =? 2 then lift VZ (get_uint16 p)
  else if c =? 3 then lift VZ (get_uint32 p)
  else if c =? 4 then lift VZ (get_uint64 p)
  else if c =? 5 then lift VB (get_string p)
  else if c =? 6 then lift VZ (get_mpint p)
  else if c =? 7 then lift VL (get_namelist p)
  else if c =? 8 then lift (fun _ : unit => VUnit) (check_end p)
  else lift VB (get_bytes n p).

Fixpoint run_ops (ops : list (Z * Z)) (p : pk) : list oval * pk :=
  match ops with
  | [] => ([], p)
  | o :: r => let '(v, p1) := run_op o p in let '(vs, p2) := run_ops r p1 in (v :: vs, p2)
  end.

(* (packet, ops, observed values, observed final index = len(get_consumed_payload())) *)
Definition chk_getters (c : bytes * list (Z * Z) * list oval * Z) : bool :=
  let '(data, ops, got, idx) := c in
  let '(vs, p) := run_ops ops (mkPk data 0) in
  list_eqb oval_eqb vs got && (pidx p =? idx).

(* ---- agent client (agent.py): response framing + the two packet loops -------------------- *)
(* the whole byte stream the fake agent answers with, then EOF.  op: 0 get_keys, 1 query_extensions, 2 sign.
   observed: AVal = ValueError, AKeys [(blob, comment)], AStrs [names], ASig sig *)
Inductive aout := AVal | AKeys (l : list (bytes * bytes)) | AStrs (l : list bytes) | ASig (s : bytes).

Definition pair_eqb (a b : bytes * bytes) : bool := zlist_eqb (fst a) (fst b) && zlist_eqb (snd a) (snd b).

Definition aout_eqb (a b : aout) : bool :=
  match a, b with
  | AVal, AVal => true
  | AKeys x, AKeys y => list_eqb pair_eqb x y
  | AStrs x, AStrs y => list_eqb zlist_eqb x y
  | ASig x, ASig y => zlist_eqb x y
  | _, _ => false
  end.

(* get_keys additionally parses the algorithm name out of every key blob: SSHPacket(key_blob).get_string() *)
Definition blob_ok (kb : bytes * bytes) : bool :=
  match get_string (mkPk (fst kb) 0) with Ok _ _ => true | Err _ => false end.

Definition agent_model (op : Z) (stream : bytes) : aout :=
  match agent_response stream with
  | AWait => AVal                       (* EOF inside the response: IncompleteReadError -> ValueError *)
  | AValueError => AVal
  | AResp t body =>
      if op =? 0 then
        if t =? 12 then
          match counted_pairs (mkPk body 0) with
          | Some (Ok acc _, _) => if forallb blob_ok acc then AKeys acc else AVal
          | _ => AVal
          end
        else AVal
      else if op =? 1 then
        if t =? 6 then
          match strings_loop (S (length body)) (mkPk body 0) [] 0 with
          | Some (Ok acc _, _) => if forallb utf8_valid acc then AStrs acc else AVal
          | _ => AVal
          end
        else if t =? 5 then AStrs []
        else AVal
      else
        if t =? 14 then
          match get_string (mkPk body 0) with
          | Ok sig p => if more p then AVal else ASig sig
          | Err _ => AVal
          end
        else AVal
  end.

Definition chk_agent (c : Z * bytes * aout) : bool :=
  let '(op, stream, got) := c in aout_eqb (agent_model op stream) got.

(* iteration counts of the two loops on the same inputs stay within the proved bounds (sanity of the cost
   model on the generated inputs; the theorem is C10_counted_loop_linear) *)
Definition chk_agent_cost (c : Z * bytes * aout) : bool :=
  let '(op, stream, _) := c in
  match agent_response stream with
  | AResp t body =>
      match counted_pairs (mkPk body 0), strings_loop (S (length body)) (mkPk body 0) [] 0 with
      | Some (_, i1), Some (_, i2) => (i1 <=? blen body / 8 + 1) && (i2 <=? blen body / 4 + 1)
      | _, _ => false
      end
  | _ => true
  end.

(* ---- SOCKS ------------------------------------------------------------------------------- *)
(* observed: raised?, writes, transport still open?, forward() arguments: (host as UTF-8, packed address if
   the host string parses as an IP address, port), leftover _inpbuf if readable *)
Definition host_matches (h : shost) (utf8 : bytes) (packed : option bytes) : bool :=
  match h with
  | NoHost => match utf8 with [] => true | _ => false end
  | HostIP raw => option_eqb zlist_eqb packed (Some raw)
  | HostName b => zlist_eqb b utf8
  end.

Definition chk_socks (c : list bytes * (bool * list bytes * bool * option (bytes * option bytes * Z) * option bytes)) : bool :=
  let '(chunks, (raised, writes, open, fwd, lft)) := c in
  match s_run true true socks_init chunks 0 with
  | LFuel => false
  | LRaised _ => raised
  | LDone s _ =>
      negb raised && list_eqb zlist_eqb (swrites s) writes && Bool.eqb (sopen s) open &&
      match sfwd s, fwd with
      | None, None => true
      | Some (h, p), Some (u, pk, p') => host_matches h u pk && (p =? p')
      | _, _ => false
      end &&
      match lft with None => true | Some l => zlist_eqb (sbuf s) l end
  end.

(* what the same conversations did before fix 7ae04cf (handler left in place by close()): used to count how
   many generated inputs would have raised *)
Definition chk_socks_old_raises (c : list bytes * (bool * list bytes * bool * option (bytes * option bytes * Z) * option bytes)) : bool :=
  let '(chunks, _) := c in
  match s_run true false socks_init chunks 0 with LRaised _ => false | _ => true end.

(* ---- banner / version -------------------------------------------------------------------- *)
(* observed class: 0 open, no version yet; 1 version accepted, still open; 2 closed with ProtocolError;
   3 closed with ProtocolNotSupported; 4 closed through internal_error (UnicodeDecodeError);
   plus the version string the connection reports (extra info), if any *)
Definition bclass (s : bstate) : Z :=
  match bclosed s with
  | BOpen => match bver s with None => 0 | Some _ => 1 end
  | BLineTooLong | BTooManyLines | BVersionTooLong => 2
  | BUnsupported => 3
  | BInternal => 4
  end.

Definition chk_banner (c : (Z * Z * Z) * bool * list (list (Z * Z)) * (Z * option bytes)) : bool :=
  let '((l, n, v), client, chunks, (cls, ver)) := c in
  match b_run (mkLim l n v) client b_init (map rle chunks) 0 with
  | None => false
  | Some (s, _) => (bclass s =? cls) && option_eqb zlist_eqb (bver s) ver
  end.

(* ---- SFTP framing ------------------------------------------------------------------------ *)
(* stream after a valid FXP_INIT; observed: (type is not returned by the server) ids of the replies in
   order, and whether the session was ended by the server before EOF *)
Definition chk_sftp (c : bytes * (list Z * bool)) : bool :=
  let '(stream, (ids, ended)) := c in
  match sftp_feed stream with
  | None => false
  | Some (acc, _, st, _) =>
      list_eqb Z.eqb (map (fun x => snd (fst x)) acc) ids &&
      Bool.eqb (match st with FBad => true | FWait => false end) ended
  end.

(* ---- copy-data ---------------------------------------------------------------------------- *)
(* (same file?, source size, read offset, length, write offset, cap on read calls) ->
   observed (read calls made, bytes written, cap reached?) *)
Definition chk_copy (c : (bool * Z * Z * Z * Z * Z) * (Z * Z * bool)) : bool :=
  let '((same, sz, roff, len, woff, cap), (calls, written, capped)) := c in
  match copy_data (Z.to_nat cap) same sz roff len woff with
  | CDone it w => negb capped && (it =? calls) && (w =? written)
  | CFuel w => capped && (w =? written)
  end.

(* ---- X11 setup block ----------------------------------------------------------------------- *)
(* (remote cookie, local cookie, chunks) -> observed (bytes passed to the X server, bytes written back to the
   channel, EOF written back?) *)
Definition chk_x11 (c : (bytes * bytes * list bytes) * (bytes * bytes * bool)) : bool :=
  let '((remote, local, chunks), (fwd, reply, eof)) := c in
  match x_run remote local x11_init chunks 0 with
  | None => false
  | Some (s, _) => zlist_eqb (xfwd s) fwd && zlist_eqb (xreply s) reply && Bool.eqb (xeof s) eof
  end.
