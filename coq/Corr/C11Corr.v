(* C11 correspondence: the operation trace of one real asyncssh endpoint (what was handed to
   send_packet from outside the transport, which peer messages / completions / clock values arrived,
   in the order they happened) and, per operation, the packets that endpoint wrote, against the model. *)
From Coq Require Import String Ascii.
From AV Require Import Base.Prelude Model.Packet Model.Rekey.

(* long byte strings are written as hex literals *)
Definition hexval (a : ascii) : Z :=
  let n := Z.of_nat (nat_of_ascii a) in if n <? 58 then n - 48 else n - 87.
Fixpoint hx (s : string) : bytes :=
  match s with
  | String a (String b r) => (hexval a * 16 + hexval b) :: hx r
  | _ => []
  end.

(* the hash as a table recorded from the run (the harness feeds hashlib exactly the inputs the RFC
   derivation needs); a missing entry gives [] so that a model that asks for anything else mismatches *)
Fixpoint tbl_hash (tbl : list (bytes * bytes)) (x : bytes) : bytes :=
  match tbl with
  | [] => []
  | (i, d) :: r => if zlist_eqb i x then d else tbl_hash r x
  end.

(* live message numbers (asyncssh.constants) vs the model's *)
Definition chk_consts (c : list Z) : bool :=
  list_eqb Z.eqb c [MSG_IGNORE; MSG_DEBUG; MSG_SERVICE_REQUEST; MSG_SERVICE_ACCEPT; MSG_EXT_INFO; MSG_KEXINIT;
                    MSG_NEWKEYS; MSG_KEX_LAST; MSG_USERAUTH_BANNER; MSG_USERAUTH_LAST].

Definition keys_eqb (a b : keys) : bool :=
  zlist_eqb (k_iv a) (k_iv b) && zlist_eqb (k_enc a) (k_enc b) && zlist_eqb (k_mac a) (k_mac b).

Definition pair_eqb (a b : Z * Z) : bool := (fst a =? fst b) && (snd a =? snd b).

(* packets written between two states, as (type, tag) *)
Definition written (s s' : st) : list (Z * Z) :=
  map (fun w => (p_ty (w_pkt w), p_tag (w_pkt w))) (skipn (length (wire (sn s))) (wire (sn s'))).

(* one observed operation: the op, what was written during it, and (after a KexDone, when the run
   recorded them) the send keys installed and the receive keys staged *)
Definition oobs := (op * list (Z * Z) * option (keys * keys))%type.

Definition chk_keys_obs (s' : st) (ko : option (keys * keys)) : bool :=
  match ko with
  | None => true
  | Some (ks, kr) => option_eqb keys_eqb (send_keys s') (Some ks) && option_eqb keys_eqb (staged s') (Some kr)
  end.

Fixpoint chk_ops (Hf : bytes -> bytes) (c : cfg) (s : st) (l : list oobs) : bool :=
  match l with
  | [] => true
  | (o, w, ko) :: r =>
      let s' := step Hf c s o in
      list_eqb pair_eqb (written s s') w && chk_keys_obs s' ko && chk_ops Hf c s' r
  end.

(* index of the first operation whose observation differs, with what the model wrote (debugging aid) *)
Fixpoint first_bad (Hf : bytes -> bytes) (c : cfg) (s : st) (l : list oobs) (i : Z) : option (Z * list (Z * Z)) :=
  match l with
  | [] => None
  | (o, w, ko) :: r =>
      let s' := step Hf c s o in
      if list_eqb pair_eqb (written s s') w && chk_keys_obs s' ko then first_bad Hf c s' r (i + 1)
      else Some (i, written s s')
  end.

Definition err_code (s : st) : Z := match err s with None => 0 | Some e => e end.

(* final observation: error class (0 none, 1 kexinit during kex, 2 unsolicited newkeys), and - where the
   run could read them - the tags left in the deferred queue, the send sequence number, the session id *)
Definition final := (Z * option (list Z) * option Z * option bytes)%type.

Definition chk_final (s : st) (f : final) : bool :=
  let '(e, dq, sq, sd) := f in
  (err_code s =? e)
  && match dq with None => true | Some l => list_eqb Z.eqb (map p_tag (deferred (sn s))) l end
  && match sq with None => true | Some q => send_seq (sn s) =? q end
  && match sd with None => true | Some b => zlist_eqb (sid s) b end.

Definition case := (cfg * list (bytes * bytes) * list oobs * final)%type.

Definition chk_trace (x : case) : bool :=
  let '(c, tbl, l, f) := x in
  chk_ops (tbl_hash tbl) c init l && chk_final (run (tbl_hash tbl) c (map (fun o => fst (fst o)) l) init) f.

Definition diag_trace (x : case) : option (Z * list (Z * Z)) :=
  let '(c, tbl, l, f) := x in first_bad (tbl_hash tbl) c init l 0.
