(* Checkers used by the C12 correspondence: each takes (input, observed implementation result) and
   says whether the model agrees.  The harness completes one outstanding request per step, so every
   batch of the model's schedule has exactly one element. *)
From AV Require Import Base.Prelude Model.SftpIO.

Definition pair_eqb (a b : Z * Z) : bool := (fst a =? fst b) && (snd a =? snd b).

Definition singles {X} (l : list X) : list (list X) := map (fun x => [x]) l.

Definition res_eqb (a b : result bytes) : bool :=
  match a, b with
  | Running, Running => true
  | Failed, Failed => true
  | Done x, Done y => zlist_eqb x y
  | _, _ => false
  end.

(* reader: block size, max requests, start, size, schedule, requests observed at the handler, result *)
Definition chk_reader
  (c : Z * Z * Z * Z * list (nat * rreply) * list (Z * Z) * result bytes) : bool :=
  let '(bs, mx, start, size, sched, sent, obs) := c in
  let s := reader_run bs mx start size (singles sched) in
  res_eqb (mach_result s) obs && list_eqb pair_eqb (p_sent (m_pio s)) sent.

(* writer: ..., data, initial destination, schedule, requests observed, Done destination / Failed *)
Definition chk_writer
  (c : Z * Z * Z * bytes * bytes * list (nat * wreply) * list (Z * Z) * result bytes) : bool :=
  let '(bs, mx, start, data, dst0, sched, sent, obs) := c in
  let s := writer_run bs mx start data dst0 (singles sched) in
  res_eqb (mach_result s) obs && list_eqb pair_eqb (p_sent (m_pio s)) sent.

Definition status_eqb (a b : cstatus) : bool :=
  match a, b with
  | CRunning, CRunning | COk, COk | CFail, CFail => true
  | _, _ => false
  end.

(* copier: block size, max requests, total, sparse, ranges, schedule, requests observed, status, destination *)
Definition chk_copier
  (c : Z * Z * Z * bool * list (Z * Z) * list (nat * creply) * list (Z * Z) * cstatus * bytes) : bool :=
  let '(bs, mx, total, sparse, ranges, sched, sent, st, dst) := c in
  let s := copier_run bs mx total sparse false ranges (singles sched) in
  status_eqb (c_status s) st && zlist_eqb (copier_dst s) dst
  && list_eqb pair_eqb (p_sent (m_pio (c_m s))) sent.

(* the same with the repair of the sparse copy (destination extended to total_bytes) *)
Definition chk_copier_fixed
  (c : Z * Z * Z * bool * list (Z * Z) * list (nat * creply) * list (Z * Z) * cstatus * bytes) : bool :=
  let '(bs, mx, total, sparse, ranges, sched, sent, st, dst) := c in
  let s := copier_run bs mx total sparse true ranges (singles sched) in
  status_eqb (c_status s) st && zlist_eqb (copier_dst s) dst
  && list_eqb pair_eqb (p_sent (m_pio (c_m s))) sent.

(* _request_ranges over a file object whose seek implements SEEK_DATA/SEEK_HOLE for the extents *)
Definition chk_ranges (c : list (Z * Z) * Z * Z * list (Z * Z)) : bool :=
  let '(ext, off, len, got) := c in list_eqb pair_eqb (request_ranges ext off len) got.

(* SFTPClientFile.request_ranges against a server paging K ranges per reply *)
Definition chk_client_ranges (c : nat * list (Z * Z) * Z * list (Z * Z)) : bool :=
  let '(K, ext, size, got) := c in
  list_eqb pair_eqb (client_ranges (S (length ext)) (server_ranges K ext) 0 size size) got.

Definition fres_eqb (a b : fres) : bool :=
  match a, b with
  | FBytes x, FBytes y => zlist_eqb x y
  | FInt x, FInt y => x =? y
  | FExc, FExc => true
  | _, _ => false
  end.

(* file object: appending, read_len, write_len, max_read_len, server cap, initial file, operations,
   observed results, final file *)
Definition chk_fileobj
  (c : bool * Z * Z * Z * Z * bytes * list fop * list fres * bytes) : bool :=
  let '(app, rlen, wlen, maxr, cap, F0, ops, got, Fend) := c in
  let '((_, F'), xs) := fo_run (mkFobj (if app then None else Some 0) app rlen wlen maxr cap, F0) ops in
  list_eqb fres_eqb xs got && zlist_eqb F' Fend.

(* SFTPClient._copy: follow_symlinks, (type, size) from lstat, (type, size) from stat, and the
   total_bytes the implementation handed to _SFTPFileCopier (None: no copier started) *)
Definition chk_copy_total (c : bool * (Z * Z) * (Z * Z) * option Z) : bool :=
  let '(follow, l, s, got) := c in
  option_eqb Z.eqb (copy_total follow (mkFattrs (fst l) (snd l)) (mkFattrs (fst s) (snd s))) got.

(* whole run() of the copier against the fake file system: as chk_copier(_fixed), plus whether closing
   the source / the destination succeeds; observed: what run() raised (None = returned normally),
   whether the destination was closed, destination bytes, requests *)
Definition chk_copier_run (fixd : bool)
  (c : Z * Z * Z * bool * list (Z * Z) * list (nat * creply) * list (Z * Z) * bool * bool * option cerr * bool * bytes) : bool :=
  let '(bs, mx, total, sparse, ranges, sched, sent, sc, dc, out, closed, dst) := c in
  let s := copier_run bs mx total sparse fixd ranges (singles sched) in
  option_eqb cerr_eqb (fst (copier_outcome s sc dc)) out && Bool.eqb (snd (copier_outcome s sc dc)) closed
  && zlist_eqb (copier_dst s) dst && list_eqb pair_eqb (p_sent (m_pio (c_m s))) sent.

(* _process_ranges of the real server handler (K = _MAX_SPARSE_RANGES): extents, offset, length,
   reply (None = SSH_FX_EOF) *)
Definition ranges_reply_eqb (a b : option (list (Z * Z) * bool)) : bool :=
  match a, b with
  | None, None => true
  | Some (r1, e1), Some (r2, e2) => list_eqb pair_eqb r1 r2 && Bool.eqb e1 e2
  | _, _ => false
  end.

Definition chk_server_ranges (c : nat * list (Z * Z) * Z * Z * option (list (Z * Z) * bool)) : bool :=
  let '(K, ext, off, len, got) := c in ranges_reply_eqb (server_ranges K ext off len) got.

(* client iteration from an arbitrary start offset against the real server handler *)
Definition chk_client_ranges_from (c : nat * list (Z * Z) * Z * Z * list (Z * Z)) : bool :=
  let '(K, ext, off, len, got) := c in
  list_eqb pair_eqb (client_ranges (S (length ext)) (server_ranges K ext) off len (off + len)) got.

(* _pflags_to_flags *)
Definition chk_pflags_to_flags (c : Z * (Z * Z)) : bool :=
  let '(pflags, got) := c in pair_eqb (pflags_to_flags pflags) got.

(* SFTPServer.open on a real file: pflags, content before (None = absent), content after the open
   (None = the open raised) *)
Definition chk_open_v3 (c : Z * option bytes * option bytes) : bool :=
  let '(pflags, before, got) := c in
  option_eqb zlist_eqb (posix_open (server_open_v3 pflags) before) got.

(* SFTPServer.open56: desired access, flags *)
Definition chk_open_v56 (c : Z * Z * option bytes * option bytes) : bool :=
  let '(acc, fl, before, got) := c in
  option_eqb zlist_eqb (posix_open (server_open_v56 acc fl) before) got.
