(* Checker used by the C13 recursive-copy correspondence (harness/c13_copy.py): the operation
   sequence recorded from the real SFTPClient.get / mget / put / copy is compared with the model's
   plan evaluated on the same source tree, initial destination state and link-resolution table. *)
From AV Require Import Base.Prelude Model.Paths Model.CopyPlan.

Definition op_eqb (a b : op) : bool :=
  match a, b with
  | OIsdir p r t, OIsdir p' r' t' => zlist_eqb p p' && Bool.eqb r r' && Bool.eqb t t'
  | OMkdir p r t, OMkdir p' r' t' => zlist_eqb p p' && Bool.eqb r r' && Bool.eqb t t'
  | OSymlink g p r t, OSymlink g' p' r' t' =>
      zlist_eqb g g' && zlist_eqb p p' && Bool.eqb r r' && Bool.eqb t t'
  | OWrite p r t, OWrite p' r' t' => zlist_eqb p p' && Bool.eqb r r' && Bool.eqb t t'
  | OSetstat p f r t, OSetstat p' f' r' t' =>
      zlist_eqb p p' && Bool.eqb f f' && Bool.eqb r r' && Bool.eqb t t'
  | OErr c p, OErr c' p' => ecls_eqb c c' && zlist_eqb p p'
  | _, _ => false
  end.

Fixpoint table_get (p : bytes) (tab : list (bytes * res)) : res :=
  match tab with
  | [] => RNone
  | e :: r => if zlist_eqb (fst e) p then snd e else table_get p r
  end.

(* one case: ((preserve, recurse, follow_symlinks, error handler installed), destination,
   Some dir = the sources are the glob matches of dir/* over the listing [srcs] | None = [srcs] are
   (basename, node) of explicitly named sources, initial destination state, what the real file
   system answered for paths reached through a link, recorded operations, class of the exception
   that get/put/copy raised) *)
Definition copy_case : Type :=
  ((bool * bool * bool * bool) * bytes * option bytes * list (bytes * node) * fsT
   * list (bytes * res) * list op * option ecls)%type.

Definition model_of (c : copy_case) : list op * option ecls :=
  let '(cf, dst, gl, srcs, fs0, tab, _, _) := c in
  let '(pr, rc, fo, hn) := cf in
  let orc := fun p => table_get p tab in
  match gl with
  | None =>
      let '(ops, _, r) := begin_copy orc (mkcfg pr rc fo hn) (S (srcs_size srcs)) dst srcs fs0 in
      (ops, r)
  | Some dir =>
      (* a glob error handed to the error handler carries no destination path: recorded as OErr _ [] *)
      let '(ge, (ops, _, r)) := begin_copy_glob orc (mkcfg pr rc fo hn) true dst dir srcs fs0 in
      (match ge with Some e => [OErr e []] | None => [] end ++ ops, r)
  end.

Definition chk_copy_plan (c : copy_case) : bool :=
  let '(_, _, _, _, _, _, got, graised) := c in
  let '(ops, r) := model_of c in
  list_eqb op_eqb ops got && option_eqb ecls_eqb r graised.
