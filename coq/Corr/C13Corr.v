(* Checkers used by the C13 correspondence: each takes (input, observed implementation result)
   and says whether the model agrees. *)
From AV Require Import Base.Prelude Model.Paths.

Definition chk_map_path (c : bytes * bytes * bytes) : bool :=
  let '(root, path, got) := c in zlist_eqb (map_path root path) got.

Definition chk_map_path_old (c : bytes * bytes * bytes) : bool :=
  let '(root, path, got) := c in zlist_eqb (map_path_old root path) got.

Definition chk_reverse (c : bytes * bytes * option bytes) : bool :=
  let '(root, path, got) := c in option_eqb zlist_eqb (reverse_map_path root path) got.

Definition chk_normpath (c : bytes * bytes) : bool :=
  let '(p, got) := c in zlist_eqb (normpath p) got.

Definition chk_pjoin (c : bytes * bytes * bytes) : bool :=
  let '(a, b, got) := c in zlist_eqb (pjoin a b) got.

Definition chk_parse_cd (c : bytes * option bytes) : bool :=
  let '(args, got) := c in option_eqb zlist_eqb (parse_cd_name args) got.

(* recursive get: (name, observed: None = skipped/refused, Some p = destination path used) *)
Definition chk_get_name (c : bytes * bytes * option bytes) : bool :=
  let '(dst, name, got) := c in
  option_eqb zlist_eqb (if get_name_ok name then Some (get_dst dst name) else None) got.

(* the harness' fake file system answers isdir(p) = "last byte of p is not 'f'" *)
Definition fake_isdir (p : bytes) : bool :=
  match rev p with c :: _ => negb (c =? 102) | [] => true end.

Definition chk_scp_sink (c : bool * bytes * list scp_rec * list bytes) : bool :=
  let '(cont, dst, recs, got) := c in
  list_eqb zlist_eqb (scp_sink fake_isdir cont recs [dst] []) got.
