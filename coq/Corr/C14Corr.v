(* Checkers used by the C14 correspondence: each takes (input, observed implementation result)
   and says whether the model agrees. *)
From AV Require Import Base.Prelude Model.SftpProto.

Definition oz_eqb := option_eqb Z.eqb.
Definition ob_eqb := option_eqb zlist_eqb.
Definition pair_eqb {A B} (f : A -> A -> bool) (g : B -> B -> bool) (x y : A * B) : bool :=
  f (fst x) (fst y) && g (snd x) (snd y).

Definition attrs_eqb (x y : attrs) : bool :=
  (a_type x =? a_type y) && oz_eqb (a_size x) (a_size y) && oz_eqb (a_alloc x) (a_alloc y) &&
  oz_eqb (a_uid x) (a_uid y) && oz_eqb (a_gid x) (a_gid y) &&
  ob_eqb (a_owner x) (a_owner y) && ob_eqb (a_group x) (a_group y) && oz_eqb (a_perm x) (a_perm y) &&
  oz_eqb (a_atime x) (a_atime y) && oz_eqb (a_atime_ns x) (a_atime_ns y) &&
  oz_eqb (a_crtime x) (a_crtime y) && oz_eqb (a_crtime_ns x) (a_crtime_ns y) &&
  oz_eqb (a_mtime x) (a_mtime y) && oz_eqb (a_mtime_ns x) (a_mtime_ns y) &&
  oz_eqb (a_ctime x) (a_ctime y) && oz_eqb (a_ctime_ns x) (a_ctime_ns y) &&
  ob_eqb (a_acl x) (a_acl y) && oz_eqb (a_bits x) (a_bits y) && oz_eqb (a_valid x) (a_valid y) &&
  oz_eqb (a_hint x) (a_hint y) && ob_eqb (a_mime x) (a_mime y) && oz_eqb (a_nlink x) (a_nlink y) &&
  ob_eqb (a_untrans x) (a_untrans y) &&
  list_eqb (pair_eqb zlist_eqb zlist_eqb) (a_ext x) (a_ext y).

Definition name_eqb (x y : sname) : bool :=
  zlist_eqb (n_filename x) (n_filename y) && ob_eqb (n_longname x) (n_longname y) &&
  attrs_eqb (n_attrs x) (n_attrs y).

Definition err_eqb (x y : err) : bool :=
  match x, y with
  | EDecode, EDecode => true
  | ESftp a, ESftp b => a =? b
  | EOther, EOther => true
  | _, _ => false
  end.

Definition res_eqb {A} (f : A -> A -> bool) (x y : res A) : bool :=
  match x, y with
  | Ok a, Ok b => f a b
  | Err a, Err b => err_eqb a b
  | _, _ => false
  end.

(* encode: observed = Some bytes, or None when the implementation raised *)
Definition chk_attrs_enc (c : Z * attrs * option bytes) : bool :=
  let '(v, a, got) := c in
  ob_eqb (if attrs_enc_ok v a then Some (attrs_encode v a) else None) got.

Definition chk_attrs_dec (c : Z * bytes * res (attrs * bytes)) : bool :=
  let '(v, b, got) := c in res_eqb (pair_eqb attrs_eqb zlist_eqb) (attrs_decode v b) got.

Definition chk_carriable (c : Z * attrs * bool) : bool :=
  let '(v, a, got) := c in Bool.eqb (attrs_carriable v a) got.

Definition chk_name_enc (c : Z * sname * option bytes) : bool :=
  let '(v, n, got) := c in
  ob_eqb (if name_enc_ok v n then Some (name_encode v n) else None) got.

Definition chk_name_dec (c : Z * bytes * res (sname * bytes)) : bool :=
  let '(v, b, got) := c in res_eqb (pair_eqb name_eqb zlist_eqb) (name_decode v b) got.

Definition chk_name_carriable (c : Z * sname * bool) : bool :=
  let '(v, n, got) := c in Bool.eqb (name_carriable v n) got.

Definition chk_utf8 (c : bytes * bool) : bool := Bool.eqb (utf8_valid (fst c)) (snd c).

Definition chk_filetype (c : Z * Z) : bool := filetype_of_mode (fst c) =? snd c.

(* SFTPError(code).encode(v): observed wire code *)
Definition chk_status_code (c : Z * Z * Z) : bool :=
  let '(v, code, got) := c in status_code_for v code =? got.

(* client side: what the caller of a request of kind k gets for a reply (type, payload) *)
Definition cval_eqb (x y : cval) : bool :=
  match x, y with
  | VNone, VNone => true
  | VHandle a, VHandle b => zlist_eqb a b
  | VData a e, VData b f => zlist_eqb a b && Bool.eqb e f
  | VNames a e, VNames b f => list_eqb name_eqb a b && Bool.eqb e f
  | VAttrs a, VAttrs b => attrs_eqb a b
  | VExt a, VExt b => zlist_eqb a b
  | _, _ => false
  end.

(* statvfs/fstatvfs decode the extended reply themselves: 11 uint64 and nothing else; a body of another
   length is reported as SFTPBadMessage *)
Definition post_ext (k : hkey) (r : res cval) : res cval :=
  match k, r with
  | HExt _, Ok (VExt p) => if Z.of_nat (length p) =? 88 then r else Err (ESftp FX_BAD_MESSAGE)
  | _, _ => r
  end.

Definition chk_accept (c : Z * hkey * Z * bytes * res cval) : bool :=
  let '(v, k, resptype, payload, got) := c in
  res_eqb cval_eqb (post_ext k (accept v (return_type k) resptype payload)) got.

(* client sessions: start id, version, the event list, the request kind of each waiter (by serial)
   and, per waiter, what the implementation did: the id seen on the wire (None = nothing was sent)
   and what the caller got (None = still pending) *)
Definition sent_id (outs : list cout) (w : Z) : option Z :=
  match find (fun o => match o with OSent w' _ => w' =? w | _ => false end) outs with
  | Some (OSent _ id) => Some id
  | _ => None
  end.

Definition outcome_of (v : Z) (k : hkey) (outs : list cout) (w : Z) : option (res cval) :=
  match find (fun o => match o with
                       | ODeliver w' _ _ _ => w' =? w
                       | OFail w' _ => w' =? w
                       | ORefused w' => w' =? w
                       | OCancelled w' => w' =? w
                       | _ => false end) outs with
  | Some (ODeliver _ t _ p) => Some (post_ext k (accept v (return_type k) t p))
  | Some (OFail _ e) => Some (Err e)
  | Some (ORefused _) => Some (Err (ESftp FX_NO_CONNECTION))
  | Some (OCancelled _) => Some (Err EOther)
  | _ => None
  end.

Definition chk_client (c : Z * Z * list cev * list (hkey * option Z * option (res cval)) * bool) : bool :=
  let '(v, start, evs, got, still_open) := c in
  let '(s, outs) := c_run (mkc start 0 [] true []) evs in
  Bool.eqb (c_open s) still_open &&
  (Z.of_nat (length got) =? c_count s) &&
  forallb (fun iw => let '(i, (k, oid, ob)) := iw in
                     oz_eqb (sent_id outs i) oid &&
                     option_eqb (res_eqb cval_eqb) (outcome_of v k outs i) ob)
          (combine (map Z.of_nat (seq 0 (length got))) got).

(* server sessions: version, request packets with the scripted application outcome, and the
   replies observed for each packet: (type, id, status code or handle) *)
Definition rbody_eqb (x y : rbody) : bool :=
  match x, y with
  | RStatus a, RStatus b => a =? b
  | RHandle a, RHandle b => zlist_eqb a b
  | RValue, RValue => true
  | _, _ => false
  end.
Definition reply_eqb (x y : reply) : bool :=
  (r_type x =? r_type y) && (r_id x =? r_id y) && rbody_eqb (r_body x) (r_body y).

(* str(SFTPAttrs) on the harness platform (Linux, 64-bit time_t, UTC): time.ctime accepts up to the last
   second of year 2147485547 *)
Definition CTIME_MAX := 67768036191676799.
Definition fmt_ok_here (a : attrs) : bool :=
  forallb (fun t => match t with Some x => x <=? CTIME_MAX | None => true end)
          [a_atime a; a_crtime a; a_mtime a; a_ctime a].

Definition chk_server (c : Z * list (bytes * bres) * list (list reply) * bool) : bool :=
  let '(v, pkts, got, still_open) := c in
  let '(s, outs) := s_run fmt_ok_here v s_init pkts in
  Bool.eqb (s_open s) still_open && list_eqb (list_eqb reply_eqb) outs got.
