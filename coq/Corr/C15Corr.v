(* Checkers used by the C15 correspondence: each takes (input, observed implementation result) and
   says whether the model agrees.  Observations are built by harness/props/c15.py. *)
From AV Require Import Base.Prelude Model.DER Model.KeyFmt.
From Coq Require Import Init.Byte Strings.Byte.

(* byte strings are written by the harness as hexadecimal string literals (fast to parse):
   hx "00ff1a" = [0; 255; 26] *)
Inductive bstr := BStr (l : list byte).
Definition bstr_parse (l : list byte) : bstr := BStr l.
Definition bstr_print (b : bstr) : list byte := match b with BStr l => l end.
Declare Scope bstr_scope.
Delimit Scope bstr_scope with bstr.
String Notation bstr bstr_parse bstr_print : bstr_scope.
Definition hexval (b : byte) : Z :=
  let n := Z.of_N (Byte.to_N b) in if n <? 58 then n - 48 else n - 87.
Fixpoint hx_go (l : list byte) : list Z :=
  match l with
  | a :: b :: r => (hexval a * 16 + hexval b) :: hx_go r
  | _ => []
  end.
Definition hx (s : bstr) : list Z := hx_go (bstr_print s).

(* ------------------------------------------------------------------------------------------- *)
(* DER *)

(* frozensets are unordered: order every VSet by the encoding of its members before comparing *)
Fixpoint insert_by_enc (x : value) (l : list value) : list value :=
  match l with
  | [] => [x]
  | y :: r => if bytes_leb (enc x) (enc y) then x :: l else y :: insert_by_enc x r
  end.

Fixpoint canon (v : value) : value :=
  match v with
  | VSeq l => VSeq (map canon l)
  | VSet l => VSet (fold_right insert_by_enc [] (map canon l))
  | VTagged c t x => VTagged c t (canon x)
  | _ => v
  end.

Definition derr_eqb (a b : derr) : bool :=
  match a, b with
  | DecodeErr, DecodeErr | EncodeErr, EncodeErr | UnicodeErr, UnicodeErr | OutOfFuel, OutOfFuel => true
  | _, _ => false
  end.

Definition res_eqb {A} (eqb : A -> A -> bool) (a b : res A) : bool :=
  match a, b with
  | Ok x, Ok y => eqb x y
  | Err e, Err f => derr_eqb e f
  | _, _ => false
  end.

Definition value_ceqb (a b : value) : bool := value_eqb (canon a) (canon b).

(* der_encode: observed bytes or None when it raised *)
Definition chk_der_encode (c : value * option bytes) : bool :=
  let '(v, got) := c in option_eqb zlist_eqb (der_encode v) got.

(* der_decode: observed value or error class *)
Definition chk_der_decode (c : bytes * res value) : bool :=
  let '(d, got) := c in res_eqb value_ceqb (der_decode d) got.

(* der_decode_partial: observed (value, consumed) *)
Definition chk_der_partial (c : bytes * res (value * Z)) : bool :=
  let '(d, got) := c in
  res_eqb (fun a b => value_ceqb (fst a) (fst b) && (snd a =? snd b))
          (match der_decode_partial d with
           | Ok (v, rest) => Ok (v, zlen d - zlen rest)
           | Err e => Err e
           end) got.

(* the class `good` of the round-trip theorem: observed = der_decode(der_encode v) == v on the
   implementation.  good v must imply the observation; for values the encoder accepts that are
   not good nothing is claimed here. *)
Definition chk_good_roundtrips (c : value * bool) : bool :=
  let '(v, got) := c in implb (good v) got.

(* ------------------------------------------------------------------------------------------- *)
(* base64 and armour *)

Definition chk_b2a (c : bytes * bytes) : bool := let '(d, got) := c in zlist_eqb (b2a d) got.

Definition chk_a2b (c : bytes * option bytes) : bool :=
  let '(s, got) := c in option_eqb zlist_eqb (a2b s) got.

Definition chk_wrap (c : bytes * bytes * bytes * bool * Z * bytes) : bool :=
  let '(d, ty, hdrs, space, wrap, got) := c in
  zlist_eqb (wrap_base64 d ty hdrs space (Z.to_nat wrap)) got.

Definition pair_eqb (a b : bytes * bytes) : bool := zlist_eqb (fst a) (fst b) && zlist_eqb (snd a) (snd b).

(* headers: observed dict items; every observed item is what the model's last-wins lookup gives and
   the model has no other key *)
Definition hdrs_agree (model : list (bytes * bytes)) (got : list (bytes * bytes)) : bool :=
  forallb (fun kv => option_eqb zlist_eqb (lookup_last (fst kv) model) (Some (snd kv))) got &&
  forallb (fun kv => existsb (fun kv' => zlist_eqb (fst kv) (fst kv')) got) model.

Definition chk_parse_pem (c : bytes * option (list (bytes * bytes) * bytes)) : bool :=
  let '(d, got) := c in
  match parse_pem d, got with
  | Some (hs, x), Some (hs', x') => hdrs_agree hs hs' && zlist_eqb x x'
  | None, None => true
  | _, _ => false
  end.

Definition obytes_eqb := option_eqb zlist_eqb.

Definition chk_parse_rfc4716 (c : bytes * option (option bytes * bytes)) : bool :=
  let '(d, got) := c in
  match parse_rfc4716 d, got with
  | Some (cm, x), Some (cm', x') => obytes_eqb cm cm' && zlist_eqb x x'
  | None, None => true
  | _, _ => false
  end.

Definition in_algs (algs : list bytes) (a : bytes) : bool := existsb (zlist_eqb a) algs.

Definition chk_parse_openssh (c : list bytes * bytes * option (bytes * option bytes * bytes)) : bool :=
  let '(algs, line, got) := c in
  match parse_openssh (in_algs algs) line, got with
  | Some (a, cm, x), Some (a', cm', x') => zlist_eqb a a' && obytes_eqb cm cm' && zlist_eqb x x'
  | None, None => true
  | _, _ => false
  end.

(* _match_next: observed format tag, payload and end index *)
Inductive obs :=
| ODer (v : value) (e : Z)
| OPem (name : bytes) (headers : list (bytes * bytes)) (data : bytes) (e : Z)
| ORfc4716 (comment : option bytes) (data : bytes) (e : Z)
| OOpenSSH (alg : bytes) (comment : option bytes) (data : bytes) (e : Z)
| ONone (e : Z)
| OImportError
| ODerError (e : derr).

Definition chk_match_next (c : list bytes * bytes * bytes * bool * obs) : bool :=
  let '(algs, data, keytype, public, got) := c in
  let pos (rest : bytes) := zlen data - zlen rest in
  match match_next (in_algs algs) data keytype public, got with
  | FDer v rest, ODer v' e => value_ceqb v v' && (pos rest =? e)
  | FPem n hs d rest, OPem n' hs' d' e => zlist_eqb n n' && hdrs_agree hs hs' && zlist_eqb d d' && (pos rest =? e)
  | FRfc4716 cm d rest, ORfc4716 cm' d' e => obytes_eqb cm cm' && zlist_eqb d d' && (pos rest =? e)
  | FOpenSSH a cm d rest, OOpenSSH a' cm' d' e =>
      zlist_eqb a a' && obytes_eqb cm cm' && zlist_eqb d d' && (pos rest =? e)
  | FNone, ONone e => zlen data =? e
  | FErr ImportErr, OImportError => true
  | FErr (DerErr x), ODerError y => derr_eqb x y
  | _, _ => false
  end.

(* observed: the exported text, or None when export raised KeyExportError *)
Definition chk_export_openssh_public (c : bytes * bytes * option bytes * option bytes) : bool :=
  let '(alg, blob, cm, got) := c in option_eqb zlist_eqb (export_openssh_public alg blob cm) got.

Definition chk_export_rfc4716 (c : bytes * option bytes * option bytes) : bool :=
  let '(blob, cm, got) := c in option_eqb zlist_eqb (export_rfc4716 blob cm) got.

(* ------------------------------------------------------------------------------------------- *)
(* openssh-key-v1 container with the real field layout of the non-SK key types: the private section
   is String(alg) followed by a fixed number of length-prefixed fields (strings and mpints) *)

Definition kparams := krecord.
Definition enc_fields (p : kparams) : bytes := enc_record p.

(* table: algorithm name -> layout of its private record (true = string/mpint, false = one byte) *)
Fixpoint layout_in (table : list (bytes * list bool)) (alg : bytes) : option (list bool) :=
  match table with
  | [] => None
  | (a, l) :: r => if zlist_eqb a alg then Some l else layout_in r alg
  end.

Definition dec_fields (table : list (bytes * list bool)) (p : bytes) : option (kparams * bytes) :=
  dec_record (layout_in table) p.

(* no cipher is available in this environment (bcrypt missing): the cipher parameters are dummies *)
Definition no_cipher_known (_ : bytes) : bool := false.
Definition dummy_bs (_ : bytes) : Z := 8.
Definition dummy_kdf (_ _ : bytes) (_ : Z) (_ : bytes) : bytes := [].
Definition dummy_encrypt (_ _ d : bytes) : bytes * bytes := (d, []).
Definition dummy_decrypt (_ _ d _ : bytes) : option bytes := Some d.

Definition oerr_eqb (a b : oerr) : bool :=
  match a, b with OImportErr, OImportErr | OEncryptionErr, OEncryptionErr => true | _, _ => false end.

(* observed: OOk (String(alg)+encode_ssh_private() of the imported key, comment) or the error class *)
Definition chk_openssh_decode (c : list (bytes * list bool) * bytes * option bytes * ores (bytes * bytes)) : bool :=
  let '(table, data, pass, got) := c in
  match openssh_decode kparams (dec_fields table) no_cipher_known dummy_kdf dummy_decrypt data pass, got with
  | OOk (p, cm), OOk (priv, cm') => zlist_eqb (enc_fields p) priv && zlist_eqb cm cm'
  | OErr e, OErr f => oerr_eqb e f
  | _, _ => false
  end.

(* observed: the binary container produced by export_private_key('openssh') (base64 armour removed) *)
Definition chk_openssh_encode (c : bytes * kparams * bytes * bytes * bytes) : bool :=
  let '(check, p, cm, pub, got) := c in
  zlist_eqb (openssh_encode kparams enc_fields dummy_bs dummy_kdf dummy_encrypt check p cm pub None) got.

(* ------------------------------------------------------------------------------------------- *)
(* RFC 1423 padding and the PKCS#8 / PKCS#1 wrappers *)

Definition chk_rfc1423_pad (c : Z * bytes * bytes) : bool :=
  let '(bs, d, got) := c in zlist_eqb (rfc1423_pad bs d) got.

Definition chk_rfc1423_unpad (c : Z * bytes * option bytes) : bool :=
  let '(bs, d, got) := c in obytes_eqb (rfc1423_unpad bs d) got.

(* RSA: export_private_key('pkcs8-der') of a key with these integers *)
Definition chk_rsa_pkcs8_export (c : list Z * bytes) : bool :=
  let '(k, got) := c in
  match k with
  | [n; e; d; p; q; dmp1; dmq1; iqmp] => zlist_eqb (rsa_pkcs8_export n e d p q dmp1 dmq1 iqmp) got
  | _ => false
  end.

(* RSAKey.decode_pkcs1_private / the PKCS#8 shape checks on arbitrary DER values:
   observed = the integers handed to make_private, or None *)
Definition chk_rsa_pkcs1_decode (c : value * option (list Z)) : bool :=
  let '(v, got) := c in option_eqb zlist_eqb (rsa_decode_pkcs1_private v) got.

Definition chk_rsa_pkcs8_import (c : bytes * option (list Z)) : bool :=
  let '(d, got) := c in option_eqb zlist_eqb (rsa_pkcs8_import d) got.

(* export_private_key('openssh') of a key object whose comment is an option (None for a key without
   comment, whatever file it was read from) *)
Definition chk_openssh_export_key (c : bytes * kparams * option bytes * bytes * bytes) : bool :=
  let '(check, p, cm, pub, got) := c in
  zlist_eqb (openssh_encode kparams enc_fields dummy_bs dummy_kdf dummy_encrypt check p (comment_field cm) pub None) got.

(* _pbes2_pbkdf2: observed (key size used, PRF OID used) or None (KeyEncryptionError) *)
Definition chk_pbkdf2_params (c : list (list Z) * Z * list value * option (Z * list Z)) : bool :=
  let '(prfs, dks, params, got) := c in
  match pbkdf2_params (in_algs prfs) dks params, got with
  | Some (_, _, ks, prf), Some (ks', prf') => (ks =? ks') && zlist_eqb prf prf'
  | None, None => true
  | _, _ => false
  end.
