(* Checkers used by the C16 correspondence: each takes (input, observed implementation result)
   and says whether the model agrees.  Symbolic crypto of Model/Cert.v is instantiated by the
   calls the harness recorded while the real code ran (a call that was not recorded answers
   false, so a model that asks a different question than the code did disagrees on accepts). *)
From AV Require Import Base.Prelude Model.Cert.

Definition obytes_eqb := option_eqb zlist_eqb.
Definition pair_eqb {A B} (ea : A -> A -> bool) (eb : B -> B -> bool) (x y : A * B) : bool :=
  ea (fst x) (fst y) && eb (snd x) (snd y).

(* --- packet codecs --- *)
Definition chk_string (c : bytes * bytes) : bool :=
  let '(s, got) := c in
  zlist_eqb (enc_string s) got
  && option_eqb (pair_eqb zlist_eqb zlist_eqb) (get_string (got ++ [1; 2])) (Some (s, [1; 2])).

Definition chk_uint (c : Z * Z * bytes) : bool :=
  let '(k, v, got) := c in
  zlist_eqb (be_enc (Z.to_nat k) v) got
  && option_eqb (pair_eqb Z.eqb zlist_eqb) (get_uint (Z.to_nat k) (got ++ [7])) (Some (v, [7])).

(* arbitrary bytes through get_string: None = PacketDecodeError *)
Definition chk_get_string (c : bytes * option (bytes * bytes)) : bool :=
  let '(l, got) := c in option_eqb (pair_eqb zlist_eqb zlist_eqb) (get_string l) got.

Definition chk_utf8 (c : bytes * option (list Z)) : bool :=
  let '(b, got) := c in obytes_eqb (utf8_decode b) got.

Definition chk_wmatch (c : patlist * list Z * bool) : bool :=
  let '(pl, v, got) := c in Bool.eqb (patlist_matches pl v) got.

(* --- SSHKey.verify gate: calls = recorded verify_ssh(data, alg, rest) -> result --- *)
Definition vssh_of (calls : list (bytes * bytes * bytes * bool)) (d a r : bytes) : bool :=
  existsb (fun c => let '(d', a', r', b) := c in
                    b && zlist_eqb d d' && zlist_eqb a a' && zlist_eqb r r') calls.

Definition chk_verify (c : list bytes * bytes * bytes * list (bytes * bytes * bytes * bool) * bool) : bool :=
  let '(algs, data, sig, calls, got) := c in
  Bool.eqb (key_verify algs (vssh_of calls) data sig) got.

(* --- certificate encoder --- *)
Definition chk_cert_enc (c : cert_fields * bytes * bytes) : bool :=
  let '(f, sig, blob) := c in
  zlist_eqb (enc_cert f sig) blob
  && match cert_alg_lookup (cf_alg f) with
     | Some (_, nk) => Nat.eqb nk (length (cf_key f))
     | None => false
     end.

(* principals list -> the raw principals field *)
Definition chk_strings_enc (c : list bytes * bytes) : bool :=
  let '(ps, raw) := c in zlist_eqb (enc_vals (map VStr ps)) raw.

(* --- recorded library calls --- *)
Definition sig_calls := list (bytes * bytes * bytes * bool).   (* key blob, data, sig, result *)
Definition sigok_of (calls : sig_calls) (k d s : bytes) : bool :=
  existsb (fun c => let '(k', d', s', b) := c in
                    b && zlist_eqb k k' && zlist_eqb d d' && zlist_eqb s s') calls.
Definition member_of (l : list bytes) (x : bytes) : bool := existsb (zlist_eqb x) l.

(* canonical view of an options dictionary: one slot per known name, last assignment wins *)
Definition oval_view (v : oval) : bytes :=
  match v with OTrue => [] | OCmd s => s | OAddr _ => [] end.
Definition opt_last (l : list (bytes * oval)) (name : bytes) : option bytes :=
  fold_left (fun acc e => if zlist_eqb (fst e) name then Some (oval_view (snd e)) else acc) l None.
Definition opt_names : list bytes :=
  [N_force_command; N_source_address; N_permit_X11; N_permit_agent; N_permit_port; N_permit_pty;
   N_permit_user_rc; N_no_touch].
Definition opts_view (l : list (bytes * oval)) : list (option bytes) := map (opt_last l) opt_names.

(* observed certificate: (type, valid_after, valid_before, key id, principals, option slots) *)
Definition cert_obs := (Z * Z * Z * list Z * list (list Z) * list (option bytes))%type.

Definition cert_view (ci : cert_info) : cert_obs :=
  (cf_type (ci_fields ci), cf_va (ci_fields ci), cf_vb (ci_fields ci), ci_keyid ci,
   ci_principals ci, opts_view (ci_options ci)).

Definition cert_obs_eqb (a b : cert_obs) : bool :=
  let '(t1, va1, vb1, k1, p1, o1) := a in
  let '(t2, va2, vb2, k2, p2, o2) := b in
  (t1 =? t2) && (va1 =? va2) && (vb1 =? vb2) && zlist_eqb k1 k2 && list_eqb zlist_eqb p1 p2
  && list_eqb obytes_eqb o1 o2.

(* import: (blob, verify calls, accepted public key blobs, subject key material ok,
   accepted address lists, observed: None = KeyImportError) *)
Definition chk_cert_import
  (c : bytes * sig_calls * list bytes * bool * list bytes * option cert_obs) : bool :=
  let '(blob, calls, pubs, kf, addrs, got) := c in
  match cert_import (sigok_of calls) (member_of pubs) (fun _ _ => kf) (member_of addrs) blob with
  | ROk ci => option_eqb cert_obs_eqb (Some (cert_view ci)) got
  | RErr => match got with None => true | Some _ => false end
  | RFuel => false
  end.

(* _decode_options alone: (critical, extension table?, raw, addrs, observed slots) *)
Definition chk_dec_options (c : bool * bool * bytes * list bytes * option (list (option bytes))) : bool :=
  let '(critical, ext, raw, addrs, got) := c in
  let known := if ext then user_extension_kinds else user_option_kinds in
  match dec_options (member_of addrs) (length raw) known critical raw with
  | ROk l => option_eqb (list_eqb obytes_eqb) (Some (opts_view l)) got
  | RErr => match got with None => true | Some _ => false end
  | RFuel => false
  end.

(* validate: (type, valid_after, valid_before, principals, wanted type, wanted principal, now, ok?) *)
Definition dummy_fields (typ va vb : Z) : cert_fields :=
  mkCF [] [] [] 0 typ [] [] va vb [] [] [] [].
Definition chk_validate (c : Z * Z * Z * list (list Z) * Z * option (list Z) * Z * bool) : bool :=
  let '(typ, va, vb, ps, want, princ, now, got) := c in
  let ci := mkCI (dummy_fields typ va vb) [] [] ps [] [] [] in
  Bool.eqb (vres_ok (cert_validate ci want princ now)) got.

(* allowed-signers decision alone: (entries, key blob, principal, namespace, now, ca, observed) *)
Definition chk_as_validate (c : list as_entry * bytes * list Z * list Z * Z * bool * bool) : bool :=
  let '(es, key, p, ns, now, ca, got) := c in Bool.eqb (as_validate es key p ns now ca) got.

(* _signed_data: (message, is_hashed, hash name, namespace bytes, digests, observed: None = ValueError) *)
Definition hash_of (digests : list (bytes * bytes)) (h _m : bytes) : bytes :=
  match assoc h digests with Some d => d | None => [] end.
Definition chk_signed_data (c : bytes * bool * bytes * bytes * list (bytes * bytes) * option bytes) : bool :=
  let '(msg, ih, hname, nsb, digests, got) := c in
  obytes_eqb (signed_data (hash_of digests) msg ih hname nsb) got.

(* validate_sshsig: observed 0 = True, 1 = False, 2 = ValueError *)
Definition sres_code (s : sres) : Z :=
  match s with SAccept => 0 | SReject => 1 | SValueError => 2 | SFuel => 3 end.

Definition chk_sshsig
  (c : bytes * bool * bytes * list Z * list as_entry * Z
       * sig_calls * list bytes * list bytes * list (bytes * bytes) * Z) : bool :=
  let '(msg, ih, raw, principal, entries, now, calls, pubs, addrs, digests, got) := c in
  sres_code (sshsig_validate (sigok_of calls) (member_of pubs) (fun _ _ => true) (member_of addrs)
                             (hash_of digests) msg ih raw principal entries now) =? got.

(* --- time values under a process time zone --- *)
Definition chk_parse_time (c : tspec * Z * Z * option Z) : bool :=
  let '(s, off, now, got) := c in option_eqb Z.eqb (parse_time s off now) got.

(* (valid-after, valid-before, zone offset, time of parsing, time of the check, observed 0/1/2) *)
Definition chk_time_window (c : option tspec * option tspec * Z * Z * Z * Z) : bool :=
  let '(va, vb, off, pnow, now, got) := c in window_decision va vb off pnow now =? got.

(* _signed_data given a path: (bursts the file delivered, is_hashed, hash name, namespace, digests of the
   whole content, observed) *)
Definition chk_signed_data_path (c : list bytes * bool * bytes * bytes * list (bytes * bytes) * option bytes) : bool :=
  let '(chunks, ih, hname, nsb, digests, got) := c in
  obytes_eqb (signed_data_src (hash_of digests) (MPath chunks) ih hname nsb) got.

(* option name as written in an allowed-signers line -> which option the parser files it under *)
Definition chk_as_opt (c : list Z * Z) : bool := let '(n, got) := c in as_opt_code (as_opt_kind n) =? got.

