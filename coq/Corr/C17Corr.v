(* Checkers used by the C17 correspondence: each takes (input, observed implementation result)
   and says whether the model agrees.  External functions of the model (key import, base64,
   HMAC-SHA1, IPv6 text parsing) are instantiated by lookup tables recorded by the harness. *)
From AV Require Import Base.Prelude Model.Match Model.Options.

Fixpoint assoc {B} (k : text) (l : list (text * B)) : option B :=
  match l with
  | [] => None
  | (k', v) :: r => if zlist_eqb k k' then Some v else assoc k r
  end.

Fixpoint assoc2 (a : bytes) (b : text) (l : list (bytes * text * bytes)) : option bytes :=
  match l with
  | [] => None
  | (a', b', v) :: r => if zlist_eqb a a' && zlist_eqb b b' then Some v else assoc2 a b r
  end.

(* key table: (key-field text, id) with id >= 0 = parsed key, id = -1 = raised a non-KeyImportError;
   absent = KeyImportError *)
Record tables := {
  t_key : list (text * Z);
  t_b64 : list (text * bytes);
  t_hmac : list (bytes * text * bytes);
  t_ip6 : list (text * Z)
}.

Definition ext_of (t : tables) : ext := {|
  keyof := fun d => match assoc d (t_key t) with
                    | Some id => if id <? 0 then KRaise else KOk id
                    | None => KBad
                    end;
  b64 := fun s => assoc s (t_b64 t);
  hmac := fun salt v => assoc2 salt v (t_hmac t);
  ip6 := fun s => assoc s (t_ip6 t)
|}.

Definition ip6_only (l : list (text * Z)) : ext :=
  ext_of {| t_key := []; t_b64 := []; t_hmac := []; t_ip6 := l |}.

Definition set_eqb (a b : list Z) : bool :=
  forallb (fun v => mem_z v b) a && forallb (fun v => mem_z v a) b.

(* ---- pattern.py -------------------------------------------------------------------------------- *)
Definition chk_wild (c : text * text * bool) : bool :=
  let '(p, s, got) := c in Bool.eqb (wild_match p s) got.

Definition chk_wpl (c : text * text * bool) : bool :=
  let '(p, s, got) := c in Bool.eqb (wpl_match p s) got.

(* HostPatternList(p).matches(host, addr, ip_address(addr) if that parses else None) *)
Definition chk_hpl (c : list (text * Z) * text * text * text * bool) : bool :=
  let '(t6, p, host, addr, got) := c in
  let x := ip6_only t6 in
  Bool.eqb (hpl_match x p host addr (parse_ip x addr)) got.

Definition chk_space (c : Z * bool * bool) : bool :=
  let '(cp, sp, lb) := c in Bool.eqb (is_uspace cp) sp && Bool.eqb (is_linebreak cp) lb.

(* ip_address(text) for IPv4 / non-address text: None or the integer *)
Definition chk_ip4 (c : text * option Z) : bool :=
  let '(t, got) := c in option_eqb Z.eqb (parse_ip4 t) got.

(* ip_network(text): (version, network integer, prefix length) *)
Definition chk_net (c : list (text * Z) * text * option (Z * Z * Z)) : bool :=
  let '(t6, t, got) := c in
  let m := match parse_net (ip6_only t6) t with
           | Some (Net4 n pl) => Some (4, n, pl)
           | Some (Net6 n pl) => Some (6, n, pl)
           | None => None
           end in
  option_eqb (fun a b => let '(v, n, p) := a in let '(v', n', p') := b in
                         (v =? v') && (n =? n') && (p =? p')) m got.

Definition chk_splitlines (c : text * list text) : bool :=
  let '(t, got) := c in list_eqb zlist_eqb (splitlines t) got.

(* ---- known_hosts ---------------------------------------------------------------------------------
   one file, several lookups (host, addr, port with 0 = None); observed per lookup: None = exception,
   else the three key-id lists (compared as sets) *)
Definition res_eqb (m : option kh_result) (got : option (list Z * list Z * list Z)) : bool :=
  match m, got with
  | None, None => true
  | Some r, Some (h, c, v) => set_eqb (r_host r) h && set_eqb (r_ca r) c && set_eqb (r_revoked r) v
  | _, _ => false
  end.

Definition chk_kh (c : tables * text * list (text * text * Z * option (list Z * list Z * list Z))) : bool :=
  let '(tb, t, qs) := c in
  let x := ext_of tb in
  forallb (fun q => let '(host, addr, port, got) := q in res_eqb (kh_lookup x t host addr port) got) qs.

(* ---- options ---------------------------------------------------------------------------------------- *)
Inductive obs :=
| OTrue | OStr (s : text) | OEnv (kv : list (text * text)) | OFromN (n : Z) | OPrincN (n : Z)
| OPermit (l : list (text * option Z)) | OList (l : list text).

Definition pair_eqb (a b : text * text) : bool := zlist_eqb (fst a) (fst b) && zlist_eqb (snd a) (snd b).

Definition oval_obs_eqb (v : oval) (o : obs) : bool :=
  match v, o with
  | VTrue, OTrue => true
  | VStr s, OStr s' => zlist_eqb s s'
  | VEnv kv, OEnv kv' =>
      forallb (fun p => existsb (pair_eqb p) kv') kv && forallb (fun p => existsb (pair_eqb p) kv) kv'
  | VFrom l, OFromN n => Z.of_nat (length l) =? n
  | VPrinc l, OPrincN n => Z.of_nat (length l) =? n
  | VPermit l, OPermit l' =>
      forallb (fun p => existsb (permit_eqb p) l') l && forallb (fun p => existsb (permit_eqb p) l) l'
  | VList l, OList l' => list_eqb zlist_eqb l l'
  | _, _ => false
  end.

Definition opts_eqb (m : optmap) (o : list (text * obs)) : bool :=
  (length m =? length o)%nat &&
  forallb (fun kv => match opt_get m (fst kv) with Some v => oval_obs_eqb v (snd kv) | None => false end) o.

(* bare OptionsParser()._parse_options(line): None = exception, else (options, rest) *)
Definition chk_tok (c : text * option (list (text * obs) * text)) : bool :=
  let '(line, got) := c in
  match parse_options false line, got with
  | None, None => true
  | Some (m, rest), Some (o, rest') => opts_eqb m o && zlist_eqb rest rest'
  | _, _ => false
  end.

(* import_authorized_keys(text) then validate(key, host, addr, principals, ca) for several queries.
   Observed: None = exception (at load or validate), Some None = no entry, Some (Some opts). *)
Definition vres_eqb (m : option (option optmap)) (got : option (option (list (text * obs)))) : bool :=
  match m, got with
  | None, None => true
  | Some None, Some None => true
  | Some (Some a), Some (Some b) => opts_eqb a b
  | _, _ => false
  end.

Definition chk_ak (c : tables * text *
                       list (Z * text * text * option (list text) * bool * option (option (list (text * obs))))) : bool :=
  let '(tb, t, qs) := c in
  let x := ext_of tb in
  forallb (fun q => let '(key, host, addr, princs, ca, got) := q in
                    vres_eqb (match ak_load x t with
                              | Some st => ak_validate x st key host addr princs ca
                              | None => None
                              end) got) qs.

(* ---- several files: read_known_hosts / read_authorized_keys with a list of file names ------------ *)
Definition chk_kh_files (c : tables * list text * list (text * text * Z * option (list Z * list Z * list Z))) : bool :=
  let '(tb, ts, qs) := c in
  let x := ext_of tb in
  forallb (fun q => let '(host, addr, port, got) := q in res_eqb (kh_lookup_files x ts host addr port) got) qs.

Definition chk_ak_files (c : tables * list text *
                       list (Z * text * text * option (list text) * bool * option (option (list (text * obs))))) : bool :=
  let '(tb, ts, qs) := c in
  let x := ext_of tb in
  forallb (fun q => let '(key, host, addr, princs, ca, got) := q in
                    vres_eqb (match ak_load_files x ts with
                              | Some st => ak_validate x st key host addr princs ca
                              | None => None
                              end) got) qs.
