(* Checkers used by the C18 correspondence: each takes (input, observed implementation result)
   and says whether the model of Model/Config.v agrees. *)
Require Import Coq.Strings.String.
From AV Require Import Base.Prelude Model.Config.

Definition fuel : nat := 16%nat.

Definition rk_eqb (a b : rk) : bool :=
  match a, b with
  | RkDefault, RkDefault | RkNone, RkNone => true
  | RkStr x, RkStr y => str_eqb x y
  | _, _ => false
  end.
Definition value_eqb (a b : value) : bool :=
  match a, b with
  | VBool x, VBool y => Bool.eqb x y
  | VInt x, VInt y => x =? y
  | VStr x, VStr y => str_eqb x y
  | VNone, VNone => true
  | VList x, VList y => list_eqb str_eqb x y
  | VRekey a1 a2, VRekey b1 b2 => rk_eqb a1 b1 && rk_eqb a2 b2
  | _, _ => false
  end.
(* option maps compared as finite maps (keys are unique on both sides) *)
Definition opts_sub (a b : opts) : bool :=
  forallb (fun kv => match lookup (fst kv) b with Some v => value_eqb (snd kv) v | None => false end) a.
Definition opts_eqb (a b : opts) : bool :=
  Nat.eqb (length a) (length b) && opts_sub a b && opts_sub b a.
Definition err_eqb (a b : err) : bool :=
  match a, b with
  | EParse, EParse | ECrash, ECrash | EUser, EUser | EFuel, EFuel | EUnmodelled, EUnmodelled => true
  | _, _ => false
  end.
Definition result_eqb (a b : res (opts * bool)) : bool :=
  match a, b with
  | Ok (o1, f1), Ok (o2, f2) => opts_eqb o1 o2 && Bool.eqb f1 f2
  | Err e1, Err e2 => err_eqb e1 e2
  | _, _ => false
  end.

(* handler tables: observed = (client?, [(lower keyword, option name, kind code)], percent_expand, no_split, conditionals) *)
Definition kind_code (k : kind) : Z :=
  match k with
  | KHost => 0 | KMatch => 1 | KInclude => 2 | KAddrFam => 3 | KBool => 4 | KBoolOrStr => 5 | KInt => 6
  | KString => 7 | KAppendString => 8 | KStringList => 9 | KAppendStringList => 10 | KCanonHost => 11
  | KRekey => 12 | KHostname => 13 | KRequestTTY => 14
  end.
Definition set_eqb (a b : list str) : bool :=
  forallb (fun x => mem_str x b) a && forallb (fun x => mem_str x a) b.
Definition chk_tables (c : bool * list (str * str * Z) * list str * list str * list str) : bool :=
  let '(client, entries, pct, nosplit, conds) := c in
  let tbl := if client then client_table else server_table in
  Nat.eqb (length entries) (length tbl)
  && forallb (fun e => let '(lo, o, k) := e in
                       match lookup_handler_in tbl lo with
                       | Some (o', k') => str_eqb o o' && (kind_code k' =? k)
                       | None => false
                       end) entries
  && set_eqb pct (if client then client_pct_expand else server_pct_expand)
  && set_eqb nosplit (if client then client_no_split else [])
  && set_eqb conds (if client then [z "host"; z "match"] else [z "match"]).

Definition chk_shlex (c : str * option (list str)) : bool :=
  let '(line, got) := c in option_eqb (list_eqb str_eqb) (shlex_split line) got.

Definition chk_patlist (c : str * str * bool) : bool :=
  let '(pat, v, got) := c in Bool.eqb (patlist_match pat v) got.

Definition chk_expand (c : list (Z * str) * list (str * str) * str * option str) : bool :=
  let '(toks, environ, s, got) := c in
  match expand_val toks environ s, got with
  | Ok r, Some g => str_eqb r g
  | Err EParse, None => true
  | _, _ => false
  end.

Definition chk_unsafe (c : str * bool) : bool :=
  let '(u, got) := c in Bool.eqb (unsafe_user u) got.

Definition chk_int (c : str * option Z) : bool :=
  let '(s, got) := c in option_eqb Z.eqb (parse_int s) got.

(* one SSHClientConfig.load / SSHServerConfig.load *)
Definition chk_load (c : env * opts * option str * option Z * list str * res (opts * bool)) : bool :=
  let '(E, base, user, port, paths, got) := c in result_eqb (load fuel E base user port paths) got.

(* first pass, then a final pass when the first met "Match final" (connection.py _connect) *)
Definition chk_two_pass (c : env * opts * option str * option Z * list str * res (opts * bool)) : bool :=
  let '(E, base, user, port, paths, got) := c in result_eqb (resolve_two_pass fuel E base user port paths) got.

(* server: user name through a one-line config "AuthorizedKeysFile <templates>" *)
Definition user_env (u : str) (templates : list str) : env :=
  Build_env false impl_quirks false false [] (z "h") u (z "1.2.3.4") (z "5.6.7.8") (z "22") (z "lh") (z "/home/x") None []
            [(z "/c", [z "AuthorizedKeysFile " ++ join_with 32 templates])].
Definition chk_user_load (c : str * list str * res (list str)) : bool :=
  let '(u, templates, got) := c in
  match load fuel (user_env u templates) [] None None [z "/c"], got with
  | Ok (os, _), Ok l => match lookup (z "AuthorizedKeysFile") os with Some (VList l') => list_eqb str_eqb l l' | _ => false end
  | Err e, Err e' => err_eqb e e'
  | _, _ => false
  end.

(* diagnostics only: where model and observation differ *)
Definition diff_opts (a b : opts) : list (str * option value * option value) :=
  flat_map (fun kv => match lookup (fst kv) b with
                      | Some v => if value_eqb (snd kv) v then [] else [(fst kv, Some (snd kv), Some v)]
                      | None => [(fst kv, Some (snd kv), None)]
                      end) a
  ++ flat_map (fun kv => match lookup (fst kv) a with Some _ => [] | None => [(fst kv, None, Some (snd kv))] end) b.
Definition explain_load (c : env * opts * option str * option Z * list str * res (opts * bool)) :=
  let '(E, base, user, port, paths, got) := c in
  match load fuel E base user port paths, got with
  | Ok (o1, f1), Ok (o2, f2) => inl (diff_opts o1 o2, f1, f2)
  | r, _ => inr r
  end.

(* asyncssh.connect(): the (host, port) finally handed to the transport after the first and, when
   requested, the final pass = Hostname option or the original name, Port option or 22 *)
Definition chk_connect_target (c : env * option str * option Z * list str * option (str * Z)) : bool :=
  let '(E, user, port, paths, got) := c in
  match resolve_two_pass fuel E [] user port paths, got with
  | Ok (os, _), Some (h, p) =>
      let eh := match lookup (z "Hostname") os with Some (VStr s) => s | _ => e_host E end in
      let ep := match lookup (z "Port") os with Some (VInt n) => n | _ => 22 end in
      str_eqb eh h && (ep =? p)
  | Err _, None => true
  | _, _ => false
  end.
