(* Checkers used by the C19 correspondence: each takes (input, observed implementation result)
   and says whether the model agrees. *)
From AV Require Import Base.Prelude Model.Stream.

Definition optz_eqb (a b : option Z) : bool := option_eqb Z.eqb a b.

Definition result_eqb (a b : result) : bool :=
  match a, b with
  | ROk x, ROk y => zlist_eqb x y
  | RIncomplete p e, RIncomplete q f => zlist_eqb p q && optz_eqb e f
  | RRaise x, RRaise y => x =? y
  | RTypeError, RTypeError => true
  | RValueError, RValueError => true
  | RBrokenPipe, RBrokenPipe => true
  | _, _ => false
  end.

(* stream level: (limit, program, schedule, (results, pause/resume calls oldest first, at_eof)) *)
Definition chk_sched (c : Z * list op * list step * (list result * list bool * bool)) : bool :=
  let '(lim, prog, sch, (res, cl, ateof)) := c in
  let w := run_sched lim prog sch in
  list_eqb result_eqb (w_res w) res
  && list_eqb Bool.eqb (rev (calls (w_sess w))) cl
  && Bool.eqb (eof (w_sess w) && is_nil (rbuf (w_sess w))) ateof.

(* end to end over a real connection: the arrival schedule is not controlled, so only programs whose
   results do not depend on it are compared: everything is delivered as one chunk, then EOF, then
   the consumer runs.  (limit, program, stream, results) *)
Definition chk_e2e (c : Z * list op * bytes * list result) : bool :=
  let '(lim, prog, data, res) := c in
  let sch := (if is_nil data then [] else [SDeliver (EvData data)]) ++ [SDeliver EvEof; SRun []] in
  list_eqb result_eqb (w_res (run_sched lim prog sch)) res.

(* process level: (wire messages, observed wait() = (exit status, stdout, stderr)) *)
Definition chk_wait (c : list wire * option (option Z * bytes * bytes)) : bool :=
  let '(ms, got) := c in
  match proc_wait (proc_run ms), got with
  | None, None => true
  | Some (st, o, e), Some (st', o', e') => optz_eqb st st' && zlist_eqb o o' && zlist_eqb e e'
  | _, _ => false
  end.

Definition wtok_eqb (a b : wtok) : bool :=
  match a, b with
  | TData x, TData y => zlist_eqb x y
  | TExc x, TExc y => x =? y
  | TEof, TEof => true
  | _, _ => false
  end.

(* redirection: (events, tokens the writer received) *)
Definition chk_redir (c : list revent * list wtok) : bool :=
  let '(es, got) := c in list_eqb wtok_eqb (r_written (redir_run es)) got.
