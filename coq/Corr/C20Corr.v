(* Checkers used by the C20 correspondence: each takes (input, what the real asyncssh objects did)
   and says whether the model (with the configuration of the tree under test, cfg_head /
   socks_fx_head) agrees. *)
From AV Require Import Base.Prelude Model.Socks.
From AV Require Import Model.Forward.

(* ---- forwarder pair ---------------------------------------------------------------------- *)

Definition tev_eqb (a b : tev) : bool :=
  match a, b with
  | TWrite x, TWrite y => zlist_eqb x y
  | TEof, TEof | TClose, TClose | TPause, TPause | TResume, TResume => true
  | _, _ => false
  end.

Definition opt_agrees {A} (eqb : A -> A -> bool) (model : A) (obs : option A) : bool :=
  match obs with None => true | Some v => eqb model v end.

(* observed: calls on the socket stub, calls on the channel stub, AssertionError seen, channel
   session exists, and (private attributes, None when unavailable) A._transport is not None,
   B._transport is not None, A._inpbuf, A._eof_received, B._eof_received *)
Definition pair_obs : Type :=
  (list tev * list tev * bool * bool *
   option bool * option bool * option bytes * option bool * option bool)%type.

Definition chk_pair (c : bool * list op * pair_obs) : bool :=
  let '(linked, ops, (oa, ob, asr, made, tra, trb, bufa, eofa, eofb)) := c in
  let s := run cfg_head (if linked then st_linked else st0) ops in
  list_eqb tev_eqb (outA s) oa && list_eqb tev_eqb (outB s) ob &&
  Bool.eqb (asrt s) asr &&
  Bool.eqb (match ph s with Confirmed => true | _ => false end) made &&
  opt_agrees Bool.eqb (f_tr (sa s)) tra &&
  (if made then opt_agrees Bool.eqb (f_tr (sb s)) trb else true) &&
  opt_agrees zlist_eqb (f_buf (sa s)) bufa &&
  opt_agrees Bool.eqb (f_eof (sa s)) eofa &&
  (if made then opt_agrees Bool.eqb (f_eof (sb s)) eofb else true).

(* the same operations must leave the model in a state whose legality verdicts are the ones the
   stub transports gave: the harness records, per operation, whether its stubs delivered it *)
Fixpoint legal_trace (c : cfg) (s : st) (ops : list op) : list bool :=
  match ops with
  | [] => []
  | o :: r => legal s o :: legal_trace c (step c s o) r
  end.

Definition chk_pair_legal (c : bool * list op * list bool) : bool :=
  let '(linked, ops, delivered) := c in
  list_eqb Bool.eqb (legal_trace cfg_head (if linked then st_linked else st0) ops) delivered.

(* ---- SOCKS ------------------------------------------------------------------------------- *)

Definition sev_eqb (a b : sev) : bool :=
  match a, b with
  | SWrite x, SWrite y => zlist_eqb x y
  | SClose, SClose => true
  | _, _ => false
  end.

(* decimal text of a byte *)
Definition dec_digits (n : Z) : bytes :=
  if n <? 10 then [48 + n]
  else if n <? 100 then [48 + n / 10; 48 + n mod 10]
  else [48 + n / 100; 48 + (n / 10) mod 10; 48 + n mod 10].

Definition dotted (b : bytes) : bytes :=
  match b with
  | [a; b; c; d] => dec_digits a ++ [46] ++ dec_digits b ++ [46] ++ dec_digits c ++ [46] ++ dec_digits d
  | _ => []
  end.

(* observed host: the UTF-8 text forward() was called with, and, when that text is an IPv6
   literal, its 16 packed bytes (by ipaddress.ip_address) *)
Definition host_agrees (h : host) (text : bytes) (packed6 : option bytes) : bool :=
  match h with
  | HName n => zlist_eqb n text
  | HV4 b => zlist_eqb (dotted b) text
  | HV6 b => match packed6 with Some p => zlist_eqb b p | None => false end
  end.

(* observed: forward() call (host text, packed6, port) or None; calls on the socket stub;
   AssertionError (or any exception) escaped; residual _inpbuf (None when unavailable) *)
Definition socks_obs : Type :=
  (option (bytes * option bytes * Z) * list sev * bool * option bytes)%type.

Definition chk_socks (c : list bytes * socks_obs) : bool :=
  let '(chunks, (req, out, crashed, resid)) := c in
  let s := feed_all socks_fx_head chunks in
  negb (k_oof s) &&
  match k_req s, req with
  | None, None => true
  | Some (h, p), Some (text, packed6, port) => host_agrees h text packed6 && (p =? port)
  | _, _ => false
  end &&
  list_eqb sev_eqb (k_out s) out &&
  Bool.eqb (k_crash s) crashed &&
  opt_agrees zlist_eqb (k_buf s ++ k_early s) resid.

(* chunks, then EOF (only delivered if the transport is still open and nothing crashed):
   observed = (EOF was delivered, answer keep-open, transport closed afterwards) *)
Definition chk_socks_eof (c : list bytes * (bool * bool * bool)) : bool :=
  let '(chunks, (delivered, keep, closed)) := c in
  let s := feed_all socks_fx_head chunks in
  let can := negb (k_crash s) && k_tr s in
  Bool.eqb can delivered &&
  (if can then let '(s', k) := seof socks_eof_fx_head s in
     Bool.eqb k keep && Bool.eqb (negb (k_tr s')) closed
   else true).

(* ---- registry ---------------------------------------------------------------------------- *)

(* observed: keys whose listening socket still accepts connections (sorted), and (private, None
   when unavailable) the keys registered in _local_listeners (sorted) *)
Fixpoint insert_sorted (x : Z) (l : list Z) : list Z :=
  match l with
  | [] => [x]
  | y :: r => if x <=? y then x :: l else y :: insert_sorted x r
  end.
Definition zsort (l : list Z) : list Z := fold_right insert_sorted [] l.

Definition chk_reg (c : list rop * (list Z * option (list Z))) : bool :=
  let '(ops, (open_keys, table_keys)) := c in
  let r := rrun cfg_head ops in
  zlist_eqb (zsort (r_open r)) open_keys &&
  opt_agrees zlist_eqb (zsort (r_table r)) table_keys.

(* ---- permission -------------------------------------------------------------------------- *)

Definition verdict_eqb (a b : verdict) : bool :=
  match a, b with
  | Served, Served | Prohibited, Prohibited | Refused, Refused => true
  | _, _ => false
  end.

(* (kind, key options, certificate options, application answer, host, port, observed verdict,
    observed "application callback was called") *)
Definition chk_perm
  (c : reqkind * keyopts * certopts * bool * bytes * Z * verdict * bool) : bool :=
  let '(kind, k, cr, app, host, port, got, asked) := c in
  verdict_eqb (decide kind k cr app host port) got &&
  Bool.eqb (app_consulted kind k cr host port) asked.
