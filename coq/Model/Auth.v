(* Executable model of SERVER-SIDE USER AUTHENTICATION in asyncssh (property C05).

   Sources modelled (/repo/asyncssh):
     connection.py  SSHConnection._recv_packet           dispatch of types 50, 60..79, > 79   (deliver1)
                    _process_userauth_request            synchronous part of a request         (proc_request)
                    _finish_userauth                     task: reload_config -> begin_auth ->
                                                         cancel self._auth -> lookup_server_auth (KFin, KFinReloaded,
                                                                                                 KFinBegun, lookup)
                    send_userauth_success / _failure     (do_success, do_failure)
                    SSHServerConnection.validate_public_key, _validate_openssh_certificate,
                    _validate_client_public_key          (pk_start)
                    validate_password / change_password  (pw_start)
                    kbdint_auth_supported, get_kbdint_challenge, validate_kbdint_response (kbd_start, kbd_validate)
                    get_key_option / check_key_permission / get_certificate_option /
                    check_certificate_permission and their users in channel.py _start_session,
                    _process_pty_req_request, connection.py _process_direct_tcpip_open          (enforce)
     auth.py        lookup_server_auth, ServerAuth and its subclasses (_ServerPasswordAuth,
                    _ServerPublicKeyAuth, _ServerKbdIntAuth, _ServerNullAuth), Auth.create_task/cancel
     auth_keys.py   SSHAuthorizedKeys.validate, _SSHAuthorizedKeyEntry.match_options (principals) (ak_validate)
     public_key.py  SSHOpenSSHCertificate.validate                                              (inside pk_start)
     pattern.py     WildcardPatternList.matches                                                 (wpl_match)

   Concurrency (DESIGN 3.2): asyncio is single threaded and runs every task to its next suspension
   point.  The state carries the list [conts] of pending continuations.  An entry tagged [None] is
   READY (a task that was created, or whose future completed, and that the loop will run on one of
   its next turns); an entry tagged [Some fid] is BLOCKED on the external future [fid] (the executor
   job of reload_config, an awaitable returned by an SSHServer callback).  Events:
     Deliver p     one SSH packet payload is handed to the connection (runs synchronously)
     Complete fid  the external future fid completes: its continuation becomes ready (tail of the queue)
     Run i         the loop runs the i-th entry of [conts] if it is ready (the real loop is FIFO = always
                   the first ready one; theorems allow ANY order)
   The answers of the application (SSHServer callbacks) come from a fixed [world]; only the TIMES at
   which they arrive are chosen by the adversary.  A signature check is the world function [verify];
   the data it is applied to is string(session id) ++ exact consumed request bytes.

   [fixed = true] is the code in /repo since repair 208592d (see the end of this file) and is the variant the
   correspondence is checked against; [fixed = false] is the code BEFORE that repair and is kept only as the
   subject of the `_refuted` theorems (regression records of the defects).  No proofs here. *)
From AV Require Import Base.Prelude.

Definition user := list Z.
Definition blen (l : list Z) : Z := Z.of_nat (length l).

(* ---- wire decoding (packet.py SSHPacket.get_uint32 / get_string / get_boolean) ------------------- *)
Definition get_u32 (b : bytes) : option (Z * bytes) :=
  match b with
  | a :: b1 :: c :: d :: r => Some (((a * 256 + b1) * 256 + c) * 256 + d, r)
  | _ => None
  end.

Definition get_string (b : bytes) : option (bytes * bytes) :=
  match get_u32 b with
  | Some (n, r) =>
      if (0 <=? n) && (n <=? blen r) then Some (firstn (Z.to_nat n) r, skipn (Z.to_nat n) r) else None
  | None => None
  end.

Definition get_bool (b : bytes) : option (bool * bytes) :=
  match b with x :: r => Some (negb (x =? 0), r) | [] => None end.

(* n strings; every string consumes at least four bytes, so [fuel] = S (length b) is never exhausted
   by a parse that can succeed *)
Fixpoint get_nstrings (fuel : nat) (n : Z) (b : bytes) : option (list bytes * bytes) :=
  if n <=? 0 then Some ([], b)
  else match fuel with
       | O => None
       | S f => match get_string b with
                | Some (x, r) => match get_nstrings f (n - 1) r with
                                 | Some (xs, r') => Some (x :: xs, r')
                                 | None => None
                                 end
                | None => None
                end
       end.

(* encoders (used by the specification side and by the completeness theorems) *)
Definition u32 (n : Z) : bytes := [(n / 16777216) mod 256; (n / 65536) mod 256; (n / 256) mod 256; n mod 256].
Definition sstr (b : bytes) : bytes := u32 (blen b) ++ b.

Definition S_CONN : bytes := [115;115;104;45;99;111;110;110;101;99;116;105;111;110].          (* ssh-connection *)
Definition S_PASSWORD : bytes := [112;97;115;115;119;111;114;100].
Definition S_PUBLICKEY : bytes := [112;117;98;108;105;99;107;101;121].
Definition S_KBDINT : bytes := [107;101;121;98;111;97;114;100;45;105;110;116;101;114;97;99;116;105;118;101].
Definition S_NONE : bytes := [110;111;110;101].

Inductive mkind := MNone | MPw | MPk | MKbd | MOther.
Definition kind_of (m : bytes) : mkind :=
  if zlist_eqb m S_PASSWORD then MPw else if zlist_eqb m S_PUBLICKEY then MPk
  else if zlist_eqb m S_KBDINT then MKbd else if zlist_eqb m S_NONE then MNone else MOther.
Definition mkind_eqb (a b : mkind) : bool :=
  match a, b with MNone, MNone | MPw, MPw | MPk, MPk | MKbd, MKbd | MOther, MOther => true | _, _ => false end.

(* USERAUTH_REQUEST head: byte 50, string user, string service, string method; rest = method fields *)
Definition parse_head (p : bytes) : option (bytes * bytes * bytes * bytes) :=
  match p with
  | t :: r =>
      if t =? 50 then
        match get_string r with
        | Some (ub, r1) => match get_string r1 with
          | Some (svc, r2) => match get_string r2 with
            | Some (m, body) => Some (ub, svc, m, body)
            | None => None end
          | None => None end
        | None => None end
      else None
  | [] => None
  end.

(* ---- WildcardPatternList.matches (pattern.py), as in Model/Match.v ------------------------------- *)
Fixpoint tsplit (sep : Z) (s : bytes) : list bytes :=
  match s with
  | [] => [[]]
  | c :: r => if c =? sep then [] :: tsplit sep r
              else match tsplit sep r with h :: t => (c :: h) :: t | [] => [[c]] end
  end.
Fixpoint wild_match (p s : bytes) : bool :=
  match p with
  | [] => match s with [] => true | _ => false end
  | c :: p' =>
      if c =? 42 then
        (fix star (s : bytes) : bool := wild_match p' s || match s with [] => false | _ :: s' => star s' end) s
      else match s with [] => false | d :: s' => ((c =? 63) || (c =? d)) && wild_match p' s' end
  end.
Definition plist_split (t : bytes) : list (bool * bytes) :=
  map (fun p => match p with c :: r => if c =? 33 then (true, r) else (false, p) | [] => (false, []) end) (tsplit 44 t).
Definition wpl_match (t value : bytes) : bool :=
  let ps := plist_split t in
  existsb (fun np => negb (fst np) && wild_match (snd np) value) ps &&
  negb (existsb (fun np => fst np && wild_match (snd np) value) ps).

(* ---- credentials and restrictions ------------------------------------------------------------- *)
(* options of an authorized_keys entry that asyncssh enforces (the dict SSHServerConnection._key_options) *)
Record kopts := mkKo {
  ko_command : option bytes;                 (* command="..." *)
  ko_no_pty : bool;                          (* no-pty *)
  ko_no_fwd : bool;                          (* no-port-forwarding *)
  ko_permitopen : list (bytes * option Z);   (* permitopen="host:port" (port None = * ) *)
  ko_principals : list bytes;                (* one pattern list text per principals="..." option *)
  ko_no_touch : bool                         (* no-touch-required *)
}.
Definition ko_empty : kopts := mkKo None false false [] [] false.

(* options of an OpenSSH user certificate (SSHServerConnection._cert_options) *)
Record copts := mkCo { co_force : option bytes; co_pty : bool; co_fwd : bool; co_no_touch : bool (* extension no-touch-required *) }.

(* outcome of a check against the client address (from="..." of an authorized_keys entry, source-address of a
   certificate): the option is absent; the address matches; it does not; or the check CANNOT be made because the
   connection has no IP peer address (UNIX socket, tunnel without peername): ip_address('') raises ValueError,
   which nobody catches - the connection goes down; in no case does an uncheckable restriction match *)
Inductive fromres := FrAbsent | FrOk | FrBad | FrRaise.

Record cert := mkCert {
  c_key : Z;                 (* identity of the certified public key *)
  c_ca : Z;                  (* identity of the signing (CA) key *)
  c_is_user : bool;          (* cert type = CERT_TYPE_USER *)
  c_after : Z; c_before : Z; (* validity window *)
  c_principals : list user;
  c_opts : copts;
  c_src : fromres            (* source-address option against the peer address *)
}.

(* what the key_data string of a publickey request decodes to *)
Inductive blob := BKey (k : Z) | BCert (c : cert) | BBad.

Record akentry := mkAe { ae_key : Z; ae_ca : bool; ae_opts : kopts; ae_from : fromres }.

Inductive pwres := PTrue | PFalse | PChange.            (* bool or PasswordChangeRequired *)
Inductive kbdres := KTrue | KFalse | KChal (nprompts : Z).
Inductive tri := TYes | TNo | TNotImpl.

(* The application and everything external.  Theorems quantify over every world. *)
Record world := mkWorld {
  prep : bytes -> option user;            (* bytes.decode('utf-8') then saslprep; None = IllegalUserName / ProtocolError *)
  utf8 : bytes -> bool;                   (* bytes.decode('utf-8') succeeds *)
  needs_auth : user -> bool;              (* SSHServer.begin_auth(user) *)
  ak_of : option user -> option (list akentry);
        (* a set of authorized keys: [None] -> the CONFIGURED one (the listener's authorized_client_keys /
           AuthorizedKeysFile; inner None = none configured); [Some u] -> what the application passes to
           set_authorized_keys during begin_auth(u), when it does so (see [installs]) *)
  pw_check : user -> bytes -> pwres;      (* SSHServer.validate_password *)
  pw_change : user -> bytes -> bytes -> pwres;   (* SSHServer.change_password *)
  kbd_chal : user -> kbdres;              (* SSHServer.get_kbdint_challenge *)
  kbd_resp : user -> list bytes -> kbdres;       (* SSHServer.validate_kbdint_response *)
  cb_key : user -> Z -> bool;             (* SSHServer.validate_public_key *)
  cb_ca : user -> Z -> bool;              (* SSHServer.validate_ca_key *)
  decode : bytes -> blob;                 (* decode_ssh_certificate / decode_ssh_public_key *)
  verify : Z -> bytes -> bytes -> bool;   (* SSHKey.verify(data, signature) for the key with that identity *)
  now : Z;                                (* time.time() *)
  pw_supported : bool;                    (* SSHServer.password_auth_supported() *)
  kbd_cfg : tri;                          (* SSHServer.kbdint_auth_supported() *)
  pk_cb_supported : bool;                 (* SSHServer.public_key_auth_supported() *)
  async_begin : bool;                     (* begin_auth returns an awaitable *)
  async_pw : bool; async_key : bool; async_ca : bool; async_kbd : bool;
  installs : user -> bool;                (* does begin_auth(u) call set_authorized_keys at all?  false = it returns
                                             without touching the keys (no key file for u, an ignored OSError ...) *)
  is_sk : Z -> bool                       (* the key is a FIDO security key (sk-ssh-ed25519@ / sk-ecdsa-sha2-nistp256@) *)
}.

(* which key set is in force after reload_config + begin_auth(u): reload_config puts the configured set
   back, then the application may replace it *)
Definition key_src (w : world) (u : user) : option user := if installs w u then Some u else None.

Definition mem_user (u : user) (l : list user) : bool := existsb (zlist_eqb u) l.

(* _SSHAuthorizedKeyEntry.match_options: principals part *)
Definition principals_ok (pats : list bytes) (cp : option (list user)) : bool :=
  match cp with
  | None => true
  | Some ps => forallb (fun pat => existsb (fun p => wpl_match pat p) ps) pats
  end.

(* SSHAuthorizedKeys.validate(key, host, addr, cert_principals, ca); match_options checks from= first, then
   principals=, and only for entries whose key is the presented one *)
Inductive akres := AkNone | AkSome (o : kopts) | AkRaise.
Fixpoint ak_validate (es : list akentry) (k : Z) (cp : option (list user)) (ca : bool) : akres :=
  match es with
  | [] => AkNone
  | e :: r =>
      if Bool.eqb (ae_ca e) ca && (ae_key e =? k) then
        match ae_from e with
        | FrRaise => AkRaise
        | FrBad => ak_validate r k cp ca
        | _ => if principals_ok (ko_principals (ae_opts e)) cp then AkSome (ae_opts e) else ak_validate r k cp ca
        end
      else ak_validate r k cp ca
  end.
Definition ak_lookup (akl : option (list akentry)) (k : Z) (cp : option (list user)) (ca : bool) : akres :=
  match akl with Some es => ak_validate es k cp ca | None => AkNone end.

Inductive kbdmode := KbdOff | KbdApp | KbdPw.
Definition kbd_mode (w : world) : kbdmode :=
  match kbd_cfg w with
  | TYes => KbdApp
  | TNotImpl => if pw_supported w then KbdPw else KbdOff
  | TNo => KbdOff
  end.
Definition kbd_on (w : world) : bool := match kbd_mode w with KbdOff => false | _ => true end.
Definition pk_supported (w : world) (akl : option (list akentry)) : bool :=
  match akl with Some _ => true | None => pk_cb_supported w end.

(* handler.supported(conn) in lookup_server_auth ('none' has a handler that is never supported;
   host-based and GSS are off in every modelled configuration) *)
Definition supported (w : world) (akl : option (list akentry)) (k : mkind) : bool :=
  match k with MPw => pw_supported w | MPk => pk_supported w akl | MKbd => kbd_on w | _ => false end.

(* ---- what a ServerAuth coroutine decides ---------------------------------------------------------- *)
Inductive result := RsSuccess | RsFailure | RsPkOk | RsChangeReq | RsInfoReq (n : Z) | RsDie.
(* effect applied when the coroutine finishes: new _key_options / _cert_options (None = untouched) and what is sent *)
Record effect := mkEff { e_ko : option kopts; e_co : option copts; e_res : result }.
Inductive cbk := CbNone | CbPw | CbKey | CbCa | CbKbd.     (* which application callback was awaited *)

Definition eff (r : result) : effect := mkEff None None r.
Definition dying : cbk * effect := (CbNone, eff RsDie).
Definition is_success (r : result) : bool := match r with RsSuccess => true | _ => false end.

Definition res_of_pw (r : pwres) : result :=
  match r with PTrue => RsSuccess | PFalse => RsFailure | PChange => RsChangeReq end.
Definition res_of_kbd (r : kbdres) : result :=
  match r with KTrue => RsSuccess | KFalse => RsFailure | KChal n => RsInfoReq n end.

(* _ServerPasswordAuth._start *)
Definition pw_start (w : world) (u : user) (body : bytes) : cbk * effect :=
  match get_bool body with
  | None => dying
  | Some (chg, r1) =>
    match get_string r1 with
    | None => dying
    | Some (pw, r2) =>
      if chg then
        match get_string r2 with
        | Some (npw, []) =>
            match prep w pw, prep w npw with
            | Some p, Some n => (CbPw, eff (res_of_pw (pw_change w u p n)))
            | _, _ => dying
            end
        | _ => dying
        end
      else
        match r2 with
        | [] => match prep w pw with
                | Some p => (CbPw, eff (res_of_pw (pw_check w u p)))
                | None => dying
                end
        | _ => dying
        end
    end
  end.

(* ---- security keys: user presence ("touch") ---------------------------------------------------------
   An sk signature blob is string alg, string sig, byte flags, uint32 counter; flag bit 0 = user present.
   SSHKey.verify of an sk key refuses a signature without that flag when touch is required
   (sk_eddsa.py / sk_ecdsa.py verify, public_key.py set_touch_required).  Touch is required unless waived:
   for a plain key by no-touch-required on its authorized_keys entry (_validate_client_public_key); for a
   certificate ONLY when BOTH the cert-authority entry AND the certificate extension say so
   (_validate_openssh_certificate).  asyncssh has no notion of verify-required / the UV flag. *)
Definition sig_up (sg : bytes) : bool :=
  match get_string sg with
  | Some (_, r1) => match get_string r1 with
                    | Some (_, f :: _) => Z.odd f
                    | _ => false
                    end
  | None => false
  end.
Definition touch_required_key (o : kopts) : bool := negb (ko_no_touch o).
Definition touch_required_cert (o : kopts) (c : copts) : bool := negb (ko_no_touch o && co_no_touch c).
Definition sk_accepts (w : world) (k : Z) (touch : bool) (sg : bytes) : bool :=
  negb (is_sk w k) || negb touch || sig_up sg.

(* _ServerPublicKeyAuth._start + SSHServerConnection.validate_public_key.
   [full] is the whole request payload; msg = packet.get_consumed_payload() taken right after key_data. *)
Definition pk_start (w : world) (sid : bytes) (akl : option (list akentry)) (u : user) (full body : bytes)
  : cbk * effect :=
  match get_bool body with
  | None => dying
  | Some (sigp, r1) =>
    match get_string r1 with
    | None => dying
    | Some (alg, r2) =>
      match get_string r2 with
      | None => dying
      | Some (kb, r3) =>
        let parsed : option (option bytes) :=
          if sigp then match get_string r3 with Some (sg, []) => Some (Some sg) | _ => None end
          else match r3 with [] => Some None | _ => None end in
        match parsed with
        | None => dying
        | Some osig =>
          let msg := firstn (length full - length r3) full in
          let fin (k : Z) (touch : bool) : result :=
            match osig with
            | None => RsPkOk
            | Some sg => if verify w k (sstr sid ++ msg) sg && sk_accepts w k touch sg then RsSuccess else RsFailure
            end in
          match decode w kb with
          | BBad => (CbNone, eff RsFailure)
          | BKey k =>
              match ak_lookup akl k None false with
              | AkRaise => dying
              | AkSome o => (CbNone, mkEff (Some o) None (fin k (touch_required_key o)))
              | AkNone => if cb_key w u k then (CbKey, mkEff (Some ko_empty) None (fin k (touch_required_key ko_empty)))
                          else (CbKey, eff RsFailure)
              end
          | BCert c =>
              (* _validate_openssh_certificate after the CA was accepted with entry options o *)
              let rest (o : kopts) : effect :=
                let cu_ok := match ko_principals o with
                             | [] => match c_principals c with [] => true | ps => mem_user u ps end
                             | _ => true
                             end in
                if c_is_user c && (c_after c <=? now w) && (now w <? c_before c) && cu_ok then
                  match c_src c with
                  | FrRaise => mkEff (Some o) None RsDie
                  | FrBad => mkEff (Some o) None RsFailure
                  | _ => mkEff (Some o) (Some (c_opts c)) (fin (c_key c) (touch_required_cert o (c_opts c)))
                  end
                else mkEff (Some o) None RsFailure in
              match ak_lookup akl (c_ca c) (Some (c_principals c)) true with
              | AkRaise => dying
              | AkSome o => (CbNone, rest o)
              | AkNone => if cb_ca w u (c_ca c) then (CbCa, rest ko_empty) else (CbCa, eff RsFailure)
              end
          end
        end
      end
    end
  end.

Definition is_ascii (b : bytes) : bool := forallb (fun c => c <? 128) b.

(* _ServerKbdIntAuth._start *)
Definition kbd_start (w : world) (u : user) (body : bytes) : cbk * effect :=
  match get_string body with
  | Some (lang, r1) =>
      match get_string r1 with
      | Some (subm, []) =>
          if is_ascii lang && utf8 w subm then
            match kbd_mode w with
            | KbdPw => (CbNone, eff (RsInfoReq 1))
            | KbdApp => (CbKbd, eff (res_of_kbd (kbd_chal w u)))
            | KbdOff => (CbNone, eff RsFailure)
            end
          else dying
      | _ => dying
      end
  | None => dying
  end.

(* _ServerKbdIntAuth._validate_response + SSHServerConnection.validate_kbdint_response *)
Definition kbd_validate (w : world) (u : user) (rs : list bytes) : cbk * effect :=
  match kbd_mode w with
  | KbdPw => match rs with
             | [r] => (CbPw, eff (match pw_check w u r with PTrue => RsSuccess | _ => RsFailure end))
             | _ => (CbNone, eff RsFailure)
             end
  | KbdApp => (CbKbd, eff (res_of_kbd (kbd_resp w u rs)))
  | KbdOff => (CbNone, eff RsFailure)
  end.

Definition auth_start (w : world) (sid : bytes) (akl : option (list akentry)) (u : user) (k : mkind)
  (full body : bytes) : cbk * effect :=
  match k with
  | MPw => pw_start w u body
  | MPk => pk_start w sid akl u full body
  | MKbd => kbd_start w u body
  | _ => (CbNone, eff RsFailure)
  end.

Definition is_async (w : world) (c : cbk) : bool :=
  match c with CbNone => false | CbPw => async_pw w | CbKey => async_key w | CbCa => async_ca w | CbKbd => async_kbd w end.

(* ---- state ------------------------------------------------------------------------------------- *)
Inductive reply :=
| RFailure (pk kbd pw : bool)      (* USERAUTH_FAILURE with the methods that can continue *)
| RSuccess | RPkOk | RInfoReq (n : Z) | RChangeReq | RUnimpl
| RServed (t : Z).                 (* a connection-layer message (type t > 79) was processed *)

(* pending continuations *)
Inductive kont :=
| KFin (ba : bool) (k : mkind) (full body : bytes)         (* _finish_userauth task, not started yet *)
| KFinReloaded (k : mkind) (full body : bytes)             (* ... resumes after await reload_config() *)
| KFinBegun (asked : user) (k : mkind) (full body : bytes) (* ... resumes with the result of begin_auth(asked) *)
| KAuthStart (aid : Z) (u : user) (k : mkind) (full body : bytes)   (* ServerAuth._start task, not started yet *)
| KAuthDone (aid : Z) (u : user) (e : effect)              (* ... resumes after the awaited callback *)
| KKbdValidate (aid : Z) (u : user) (rs : list bytes)      (* _validate_response task, not started yet *)
| KResume.                                                 (* repaired variant only: input is resumed *)

Record authobj := mkAuth { a_id : Z; a_user : user; a_kbd : bool }.    (* self._auth *)

Record st := mkSt {
  username : user;            (* self._username *)
  complete : bool;            (* self._auth_complete *)
  final : bool;               (* self._auth_final *)
  dead : bool;                (* disconnected / closed *)
  auth : option authobj;
  next_aid : Z; next_fid : Z;
  conts : list (option Z * kont);
  ak_user : option user;      (* self._authorized_client_keys: None = the configured set, Some u = installed in begin_auth(u) *)
  key_opts : kopts;           (* self._key_options *)
  cert_opts : option copts;   (* self._cert_options *)
  paused : bool;              (* repaired variant: _recv_handler is blocked by an async packet handler *)
  inq : list bytes;           (* ... packets waiting in _inpbuf *)
  out : list reply;           (* replies sent, newest first *)
  served : Z;                 (* number of connection-layer messages processed *)
  begun : list user;          (* begin_auth calls, newest first *)
  completed_as : list user    (* user name reported at each auth_completed(), newest first *)
}.

Definition init : st :=
  mkSt [] false false false None 0 0 [] None ko_empty None false [] [] 0 [] [].

Definition set_username v s := mkSt v (complete s) (final s) (dead s) (auth s) (next_aid s) (next_fid s) (conts s) (ak_user s) (key_opts s) (cert_opts s) (paused s) (inq s) (out s) (served s) (begun s) (completed_as s).
Definition set_complete v s := mkSt (username s) v (final s) (dead s) (auth s) (next_aid s) (next_fid s) (conts s) (ak_user s) (key_opts s) (cert_opts s) (paused s) (inq s) (out s) (served s) (begun s) (completed_as s).
Definition set_final v s := mkSt (username s) (complete s) v (dead s) (auth s) (next_aid s) (next_fid s) (conts s) (ak_user s) (key_opts s) (cert_opts s) (paused s) (inq s) (out s) (served s) (begun s) (completed_as s).
Definition set_auth v s := mkSt (username s) (complete s) (final s) (dead s) v (next_aid s) (next_fid s) (conts s) (ak_user s) (key_opts s) (cert_opts s) (paused s) (inq s) (out s) (served s) (begun s) (completed_as s).
Definition set_next_aid v s := mkSt (username s) (complete s) (final s) (dead s) (auth s) v (next_fid s) (conts s) (ak_user s) (key_opts s) (cert_opts s) (paused s) (inq s) (out s) (served s) (begun s) (completed_as s).
Definition set_next_fid v s := mkSt (username s) (complete s) (final s) (dead s) (auth s) (next_aid s) v (conts s) (ak_user s) (key_opts s) (cert_opts s) (paused s) (inq s) (out s) (served s) (begun s) (completed_as s).
Definition set_conts v s := mkSt (username s) (complete s) (final s) (dead s) (auth s) (next_aid s) (next_fid s) v (ak_user s) (key_opts s) (cert_opts s) (paused s) (inq s) (out s) (served s) (begun s) (completed_as s).
Definition set_ak_user v s := mkSt (username s) (complete s) (final s) (dead s) (auth s) (next_aid s) (next_fid s) (conts s) v (key_opts s) (cert_opts s) (paused s) (inq s) (out s) (served s) (begun s) (completed_as s).
Definition set_key_opts v s := mkSt (username s) (complete s) (final s) (dead s) (auth s) (next_aid s) (next_fid s) (conts s) (ak_user s) v (cert_opts s) (paused s) (inq s) (out s) (served s) (begun s) (completed_as s).
Definition set_cert_opts v s := mkSt (username s) (complete s) (final s) (dead s) (auth s) (next_aid s) (next_fid s) (conts s) (ak_user s) (key_opts s) v (paused s) (inq s) (out s) (served s) (begun s) (completed_as s).
Definition set_paused v s := mkSt (username s) (complete s) (final s) (dead s) (auth s) (next_aid s) (next_fid s) (conts s) (ak_user s) (key_opts s) (cert_opts s) v (inq s) (out s) (served s) (begun s) (completed_as s).
Definition set_inq v s := mkSt (username s) (complete s) (final s) (dead s) (auth s) (next_aid s) (next_fid s) (conts s) (ak_user s) (key_opts s) (cert_opts s) (paused s) v (out s) (served s) (begun s) (completed_as s).
Definition set_out v s := mkSt (username s) (complete s) (final s) (dead s) (auth s) (next_aid s) (next_fid s) (conts s) (ak_user s) (key_opts s) (cert_opts s) (paused s) (inq s) v (served s) (begun s) (completed_as s).
Definition set_served v s := mkSt (username s) (complete s) (final s) (dead s) (auth s) (next_aid s) (next_fid s) (conts s) (ak_user s) (key_opts s) (cert_opts s) (paused s) (inq s) (out s) v (begun s) (completed_as s).
Definition set_begun v s := mkSt (username s) (complete s) (final s) (dead s) (auth s) (next_aid s) (next_fid s) (conts s) (ak_user s) (key_opts s) (cert_opts s) (paused s) (inq s) (out s) (served s) v (completed_as s).
Definition set_completed_as v s := mkSt (username s) (complete s) (final s) (dead s) (auth s) (next_aid s) (next_fid s) (conts s) (ak_user s) (key_opts s) (cert_opts s) (paused s) (inq s) (out s) (served s) (begun s) v.

Definition emit (r : reply) (s : st) : st := set_out (r :: out s) s.
Definition push (c : option Z * kont) (s : st) : st := set_conts (conts s ++ [c]) s.
Definition spawn (k : kont) (s : st) : st := push (None, k) s.                     (* create_task *)
Definition block (k : kont) (s : st) : st :=                                        (* await an external future *)
  set_next_fid (next_fid s + 1) (push (Some (next_fid s), k) s).

(* the connection is gone: DISCONNECT sent or transport aborted; _cleanup cancels every task *)
Definition die (s : st) : st :=
  mkSt (username s) (complete s) (final s) true None (next_aid s) (next_fid s) [] (ak_user s) (key_opts s)
       (cert_opts s) false [] (out s) (served s) (begun s) (completed_as s).

Definition owner_of (k : kont) : option Z :=
  match k with
  | KAuthStart aid _ _ _ _ => Some aid
  | KAuthDone aid _ _ => Some aid
  | KKbdValidate aid _ _ => Some aid
  | _ => None
  end.
Definition owned (aid : Z) (c : option Z * kont) : bool :=
  match owner_of (snd c) with Some a => a =? aid | None => false end.

(* Auth.cancel(): the coroutine of that auth object never runs again *)
Definition cancel_aid (aid : Z) (s : st) : st := set_conts (filter (fun c => negb (owned aid c)) (conts s)) s.
Definition cancel_auth (s : st) : st := match auth s with Some a => cancel_aid (a_id a) s | None => s end.

(* send_userauth_failure: self._auth = None; FAILURE lists the methods whose supported() is true now *)
Definition do_failure (w : world) (s : st) : st :=
  set_auth None (emit (RFailure (pk_supported w (ak_of w (ak_user s))) (kbd_on w) (pw_supported w)) s).

(* send_userauth_success: reads self._username NOW; no check that authentication is still open *)
Definition do_success (s : st) : st :=
  set_completed_as (username s :: completed_as s) (set_complete true (set_auth None (emit RSuccess s))).

Definition apply_effect (w : world) (e : effect) (s : st) : st :=
  let s1 := match e_ko e with Some o => set_key_opts o s | None => s end in
  let s2 := match e_co e with Some c => set_cert_opts (Some c) s1 | None => s1 end in
  match e_res e with
  | RsSuccess => do_success s2
  | RsFailure => do_failure w s2
  | RsPkOk => emit RPkOk s2
  | RsChangeReq => emit RChangeReq s2
  | RsInfoReq n => emit (RInfoReq n) s2
  | RsDie => die s2
  end.

(* tail of _finish_userauth: cancel the previous attempt, lookup_server_auth for self._username as it is NOW *)
Definition lookup (w : world) (k : mkind) (full body : bytes) (s : st) : st :=
  let s1 := cancel_auth s in
  let u := username s1 in
  if supported w (ak_of w (ak_user s1)) k then
    let aid := next_aid s1 in
    spawn (KAuthStart aid u k full body)
          (set_next_aid (aid + 1) (set_auth (Some (mkAuth aid u (mkind_eqb k MKbd))) s1))
  else do_failure w s1.

(* repaired variant: when the _finish_userauth task is done, _finish_recv_packet(is_async) runs as its
   done-callback, one loop turn later *)
Definition fin_done (fixed : bool) (s : st) : st := if fixed then spawn KResume s else s.

(* ---- synchronous packet processing --------------------------------------------------------------- *)
(* _process_userauth_request *)
Definition proc_request (w : world) (fixed : bool) (full : bytes) (s : st) : st :=
  match parse_head full with
  | None => die s
  | Some (ub, svc, m, body) =>
      if 1024 <=? blen ub then die s
      else if negb (zlist_eqb svc S_CONN) then die s
      else match prep w ub with
           | None => die s
           | Some u =>
               if complete s then (if final s then die s else s)
               else
                 let ba := negb (zlist_eqb u (username s)) in
                 let s1 := if ba then set_username u s else s in
                 let s2 := if fixed
                           then set_cert_opts None (set_key_opts ko_empty (set_paused true (set_auth None (cancel_auth s1))))
                           else s1 in
                 spawn (KFin ba (kind_of m) full body) s2
           end
  end.

(* _ServerKbdIntAuth._process_info_response (synchronous); Auth.create_task cancels the running coroutine *)
Definition info_response (w : world) (a : authobj) (r : bytes) (s : st) : st :=
  match get_u32 r with
  | None => die s
  | Some (n, r1) =>
      match get_nstrings (S (length r1)) n r1 with
      | Some (rs, []) =>
          if forallb (utf8 w) rs then spawn (KKbdValidate (a_id a) (a_user a) rs) (cancel_aid (a_id a) s)
          else die s
      | _ => die s
      end
  end.

(* one packet handed to SSHConnection._recv_packet while input is not paused.
   Types outside {2, 50, 60..79, > 79} are not modelled (re-keying, EXT_INFO, DEBUG ...): the model
   closes the connection for them and the correspondence never generates them. *)
Definition deliver1 (w : world) (fixed : bool) (p : bytes) (s : st) : st :=
  match p with
  | [] => die s
  | t :: r =>
      if t =? 50 then proc_request w fixed p s
      else if t =? 2 then match get_string r with Some (_, []) => s | _ => die s end
      else if (60 <=? t) && (t <=? 79) then
        match auth s with
        | None => die s                                          (* 'Authentication not in progress' *)
        | Some a => if a_kbd a && (t =? 61) then info_response w a r s else emit RUnimpl s
        end
      else if 80 <=? t then
        if complete s then emit (RServed t) (set_served (served s + 1) (set_final true s))
        else die s                                               (* 'Invalid request before authentication was complete' *)
      else die s
  end.

(* repaired variant: _recv_data continues with the buffered packets until a handler pauses input again *)
Fixpoint drain (w : world) (fixed : bool) (q : list bytes) (s : st) : st :=
  match q with
  | [] => s
  | p :: q' =>
      let s' := deliver1 w fixed p s in
      if dead s' then s' else if paused s' then set_inq q' s' else drain w fixed q' s'
  end.

(* ---- continuations ------------------------------------------------------------------------------- *)
Definition run_auth (w : world) (aid : Z) (u : user) (ce : cbk * effect) (s : st) : st :=
  if is_async w (fst ce) then block (KAuthDone aid u (snd ce)) s else apply_effect w (snd ce) s.

Definition run_begun (w : world) (fixed : bool) (asked : user) (k : mkind) (full body : bytes) (s : st) : st :=
  if needs_auth w asked then fin_done fixed (lookup w k full body s)
  else fin_done fixed (do_success s).

Definition run_kont (w : world) (sid : bytes) (fixed : bool) (k : kont) (s : st) : st :=
  match k with
  | KFin ba mk full body =>
      if ba then block (KFinReloaded mk full body) s                    (* reload_config: always an executor hop *)
      else fin_done fixed (lookup w mk full body s)
  | KFinReloaded mk full body =>
      (* reload_config puts the CONFIGURED keys back (self._authorized_client_keys =
         options.authorized_client_keys, None when none are configured): nothing installed for an earlier
         user survives.  begin_auth(self._username) is called with the name as it is NOW; the application
         may install that user's keys (before anything else) or leave the keys alone *)
      let asked := username s in
      let s1 := set_begun (asked :: begun s) (set_ak_user (key_src w asked) s) in
      if async_begin w then block (KFinBegun asked mk full body) s1
      else run_begun w fixed asked mk full body s1
  | KFinBegun asked mk full body => run_begun w fixed asked mk full body s
  | KAuthStart aid u mk full body =>
      run_auth w aid u (auth_start w sid (ak_of w (ak_user s)) u mk full body) s
  | KAuthDone aid u e => apply_effect w e s
  | KKbdValidate aid u rs => run_auth w aid u (kbd_validate w u rs) s
  | KResume => drain w fixed (inq s) (set_inq [] (set_paused false s))
  end.

(* ---- events ---------------------------------------------------------------------------------------- *)
Inductive ev := Deliver (p : bytes) | Complete (fid : Z) | Run (i : nat).

Fixpoint remove_nth {A} (i : nat) (l : list A) : list A :=
  match l, i with
  | [], _ => []
  | _ :: r, O => r
  | x :: r, S j => x :: remove_nth j r
  end.

Fixpoint extract (fid : Z) (l : list (option Z * kont)) : option (kont * list (option Z * kont)) :=
  match l with
  | [] => None
  | (Some f, k) :: r =>
      if f =? fid then Some (k, r)
      else match extract fid r with Some (k', r') => Some (k', (Some f, k) :: r') | None => None end
  | c :: r => match extract fid r with Some (k', r') => Some (k', c :: r') | None => None end
  end.

Definition step (w : world) (sid : bytes) (fixed : bool) (s : st) (e : ev) : st :=
  if dead s then s
  else match e with
       | Deliver p => if paused s then set_inq (inq s ++ [p]) s else deliver1 w fixed p s
       | Complete fid =>
           match extract fid (conts s) with
           | Some (k, rest) => set_conts (rest ++ [(None, k)]) s
           | None => s
           end
       | Run i =>
           match nth_error (conts s) i with
           | Some (None, k) => run_kont w sid fixed k (set_conts (remove_nth i (conts s)) s)
           | _ => s
           end
       end.

Definition run (w : world) (sid : bytes) (fixed : bool) (evs : list ev) : st :=
  fold_left (step w sid fixed) evs init.

Definition payloads (evs : list ev) : list bytes :=
  flat_map (fun e => match e with Deliver p => [p] | _ => [] end) evs.

(* ---- restrictions enforced after authentication -------------------------------------------------- *)
(* all of them are functions of (_key_options, _cert_options) *)
(* channel.py _start_session: certificate force-command first, then authorized_keys command= *)
Definition forced_under (ko : kopts) (co : option copts) : option bytes :=
  match (match co with Some c => co_force c | None => None end) with
  | Some x => Some x
  | None => ko_command ko
  end.
(* what a session channel can be started with, and what the session object is told (channel.py
   _process_shell_request / _process_exec_request / _process_subsystem_request -> _start_session ->
   SSHServerSession.shell_requested / exec_requested / subsystem_requested): a forced command replaces
   WHATEVER was requested - shell, command, or subsystem (sftp included) *)
Inductive start_req := SShell | SExec (c : bytes) | SSubsys (n : bytes).
Definition start_under (ko : kopts) (co : option copts) (r : start_req) : start_req :=
  match forced_under ko co with Some c => SExec c | None => r end.
(* channel.py _process_pty_req_request (with allow_pty = True) *)
Definition pty_under (ko : kopts) (co : option copts) : bool :=
  negb (ko_no_pty ko) && match co with Some c => co_pty c | None => true end.
(* connection.py _process_direct_tcpip_open *)
Definition po_eqb (a b : bytes * option Z) : bool :=
  zlist_eqb (fst a) (fst b) && option_eqb Z.eqb (snd a) (snd b).
Definition fwd_under (ko : kopts) (co : option copts) (host : bytes) (port : Z) : bool :=
  negb (ko_no_fwd ko) && match co with Some c => co_fwd c | None => true end &&
  match ko_permitopen ko with
  | [] => true
  | l => existsb (po_eqb (host, Some port)) l || existsb (po_eqb (host, None)) l
  end.

Definition forced_command (s : st) : option bytes := forced_under (key_opts s) (cert_opts s).
Definition start_session (s : st) (r : start_req) : start_req := start_under (key_opts s) (cert_opts s) r.
Definition pty_allowed (s : st) : bool := pty_under (key_opts s) (cert_opts s).
Definition fwd_allowed (s : st) (host : bytes) (port : Z) : bool := fwd_under (key_opts s) (cert_opts s) host port.

(* ---- specification: when is user U entitled to be authenticated, given the packets received ------- *)
Definition opt_user_is (o : option user) (u : user) : bool :=
  match o with Some v => zlist_eqb v u | None => false end.
Definition is_nil {A} (l : list A) : bool := match l with [] => true | _ => false end.

(* an INFO_RESPONSE packet whose responses the application (or the password fallback) accepts for U *)
Definition kbd_resp_grants (w : world) (U : user) (p : bytes) : bool :=
  match p with
  | t :: r =>
      (t =? 61) &&
      match get_u32 r with
      | Some (n, r1) =>
          match get_nstrings (S (length r1)) n r1 with
          | Some (rs, []) => forallb (utf8 w) rs && is_success (e_res (snd (kbd_validate w U rs)))
          | _ => false
          end
      | None => false
      end
  | [] => false
  end.

Definition restr_of (e : effect) : kopts * option copts :=
  (match e_ko e with Some o => o | None => ko_empty end, e_co e).

(* All the ways in which the delivered request [p] entitles U, each with the restrictions that come with
   it.  [D] = every packet delivered on this connection.
     - p names U (after utf-8 + saslprep), service ssh-connection, and
       * the application says U needs no authentication (begin_auth(U) = False), or
       * the method is supported and evaluating THIS request for U - against the authorized keys that are
         FOR U: those the application installs during begin_auth(U), or the configured ones when it
         installs nothing for U (and for the initial, empty user name); never another user's -
         succeeds: application accepted the password; or key / certificate authorized and the signature
         verifies over string(session id) ++ the request bytes up to and including the key blob; or
         the keyboard-interactive challenge callback answered True, or
       * it is a keyboard-interactive request and some delivered INFO_RESPONSE is accepted for U. *)
Definition grants_via (w : world) (sid : bytes) (U : user) (D : list bytes) (p : bytes)
  : list (kopts * option copts) :=
  match parse_head p with
  | Some (ub, svc, m, body) =>
      if (blen ub <? 1024) && zlist_eqb svc S_CONN && opt_user_is (prep w ub) U then
        let k := kind_of m in
        let direct (src : option user) : list (kopts * option copts) :=
          let akl := ak_of w src in
          if supported w akl k then
            (let e := snd (auth_start w sid akl U k p body) in
             if is_success (e_res e) then [restr_of e] else []) ++
            (if mkind_eqb k MKbd && existsb (kbd_resp_grants w U) D then [(ko_empty, None)] else [])
          else [] in
        (if needs_auth w U then [] else [(ko_empty, None)]) ++
        direct (key_src w U) ++ (if is_nil U then direct None else [])
      else []
  | None => []
  end.

Definition granted (w : world) (sid : bytes) (U : user) (D : list bytes) : bool :=
  existsb (fun p => negb (is_nil (grants_via w sid U D p))) D.

Definition ko_eqb (a b : kopts) : bool :=
  option_eqb zlist_eqb (ko_command a) (ko_command b) && Bool.eqb (ko_no_pty a) (ko_no_pty b) &&
  Bool.eqb (ko_no_fwd a) (ko_no_fwd b) && list_eqb po_eqb (ko_permitopen a) (ko_permitopen b) &&
  list_eqb zlist_eqb (ko_principals a) (ko_principals b) && Bool.eqb (ko_no_touch a) (ko_no_touch b).
Definition co_eqb (a b : copts) : bool :=
  option_eqb zlist_eqb (co_force a) (co_force b) && Bool.eqb (co_pty a) (co_pty b) && Bool.eqb (co_fwd a) (co_fwd b) &&
  Bool.eqb (co_no_touch a) (co_no_touch b).
Definition restr_eqb (a b : kopts * option copts) : bool :=
  ko_eqb (fst a) (fst b) && option_eqb co_eqb (snd a) (snd b).

(* the restrictions in force are those of one of the credentials that entitle U *)
Definition restrictions_justified (w : world) (sid : bytes) (U : user) (D : list bytes) (s : st) : bool :=
  existsb (fun p => existsb (restr_eqb (key_opts s, cert_opts s)) (grants_via w sid U D p)) D.

Fixpoint count_success (l : list reply) : nat :=
  match l with [] => O | RSuccess :: r => S (count_success r) | _ :: r => count_success r end.

(* ---- FIFO scheduling used by the correspondence (the real loop) ----------------------------------- *)
Fixpoint first_ready (l : list (option Z * kont)) (i : nat) : option nat :=
  match l with
  | [] => None
  | (None, _) :: _ => Some i
  | _ :: r => first_ready r (S i)
  end.
(* run ready continuations, oldest first, until none is left; (state, ran out of fuel?) *)
Fixpoint settle (w : world) (sid : bytes) (fixed : bool) (fuel : nat) (s : st) : st * bool :=
  match first_ready (conts s) O with
  | None => (s, false)
  | Some i => match fuel with
              | O => (s, true)
              | S f => settle w sid fixed f (step w sid fixed s (Run i))
              end
  end.

(* ---- an honest peer that lets everything finish ----------------------------------------------------
   run ready continuations, oldest first; when none is ready, complete the oldest outstanding future *)
Fixpoint drive (w : world) (sid : bytes) (fixed : bool) (fuel : nat) (s : st) : st :=
  match fuel with
  | O => s
  | S f =>
      match first_ready (conts s) O with
      | Some i => drive w sid fixed f (step w sid fixed s (Run i))
      | None =>
          match conts s with
          | (Some fid, _) :: _ => drive w sid fixed f (step w sid fixed s (Complete fid))
          | _ => s
          end
      end
  end.

(* ---- host-based authentication: the decision (connection.py validate_host_based_auth) ----------------
   The client CLAIMS a host name in its request.  Unless the server was configured with trust_client_host,
   the name used to look the host key up in known_client_hosts is the one the SERVER resolves from the peer
   address.  A trailing '.' of the claimed name is removed first.  [kh] = (host name, key) pairs trusted by
   known_client_hosts; [sig_ok] = the signature verifies over string(session id) ++ request up to the client
   user name; [user_ok] = SSHServer.validate_host_based_user(user, claimed host, client user).
   (One attempt per connection: the sequencing of several attempts is not modelled, see the oracle.) *)
Fixpoint strip_dot (h : bytes) : bytes :=
  match h with
  | [] => []
  | [c] => if c =? 46 then [] else [c]
  | c :: r => c :: strip_dot r
  end.
Definition hb_lookup_host (trust_client : bool) (claimed resolved : bytes) : bytes :=
  if trust_client then strip_dot claimed else resolved.
Definition hb_trusted (kh : list (bytes * Z)) (h : bytes) (k : Z) : bool :=
  existsb (fun e => zlist_eqb (fst e) h && (snd e =? k)) kh.
Definition hb_decide (trust_client : bool) (claimed resolved : bytes) (kh : list (bytes * Z)) (k : Z)
  (sig_ok user_ok : bool) : bool :=
  hb_trusted kh (hb_lookup_host trust_client claimed resolved) k && sig_ok && user_ok.

(* ---- the repair ----------------------------------------------------------------------------------
   [fixed = true] models /repo commit 208592d, this change of connection.py (SSHConnection._process_userauth_request):

         else:
   +         if self._auth:                       # a new request supersedes the attempt in progress NOW,
   +             self._auth.cancel()              # not after begin_auth has been awaited
   +             self._auth = None
   +         self._key_options = {}               # (server connection) restrictions of an earlier,
   +         self._cert_options = None            # abandoned credential must not survive
             if username != self._username:
                 ...
   -         self.create_task(self._finish_userauth(begin_auth, method, packet))
   +         return self._finish_userauth(begin_auth, method, packet)

   Returning the coroutine makes _recv_packet treat the handler as asynchronous: it creates the task,
   stops reading (_recv_handler = lambda: False) and resumes in _finish_recv_packet when the task is
   done.  Requests are therefore processed strictly one after the other (RFC 4252 5.1), no
   _finish_userauth task can be overtaken, and self._username cannot change while one is pending. *)
