(* Executable model of signature gating, OpenSSH certificate parsing/validation and SSHSIG.
   Sources modelled (asyncssh, /repo):
     packet.py      String / UInt32 / UInt64, SSHPacket.get_bytes/get_uint32/get_uint64/get_string,
                    check_end, get_consumed_payload
     public_key.py  SSHKey.verify (algorithm-name gate)                       "def verify"
                    decode_ssh_certificate / SSHOpenSSHCertificate.construct  "def construct"
                    SSHOpenSSHCertificateV01._encode / _decode                "def _decode"
                    SSHOpenSSHCertificate._decode_options                     "def _decode_options"
                    SSHOpenSSHCertificate.validate                            "def validate"
     sshsig.py      _signed_data, validate_sshsig, SSHAllowedSigners.validate,
                    SSHAllowedSignersEntry.match_options
     pattern.py     WildcardPatternList ('*' and '?' only; '[' and ']' are literal)
   Cryptography is symbolic: signature checks, key-material validity, hashing and IP-network
   parsing are Section variables.  No proofs here. *)
From AV Require Import Base.Prelude.

(* ------------------------------------------------------------------------------------------ *)
(* packet.py *)

Definition byte_ok (x : Z) : bool := (0 <=? x) && (x <? 256).
Definition bytes_ok (l : bytes) : bool := forallb byte_ok l.

Definition zlen (l : bytes) : Z := Z.of_nat (length l).

(* int.from_bytes(l, 'big') *)
Definition be_dec (l : bytes) : Z := fold_left (fun a x => a * 256 + x) l 0.

(* v.to_bytes(n, 'big') for 0 <= v < 256^n *)
Fixpoint be_enc (n : nat) (v : Z) : bytes :=
  match n with
  | O => []
  | S k => be_enc k (v / 256) ++ [v mod 256]
  end.

(* SSHPacket.get_bytes: None = PacketDecodeError('Incomplete packet') *)
Definition get_bytes (n : Z) (l : bytes) : option (bytes * bytes) :=
  if (0 <=? n) && (n <=? zlen l)
  then Some (firstn (Z.to_nat n) l, skipn (Z.to_nat n) l)
  else None.

Definition get_uint (k : nat) (l : bytes) : option (Z * bytes) :=
  match get_bytes (Z.of_nat k) l with
  | Some (h, r) => Some (be_dec h, r)
  | None => None
  end.

Definition get_u32 := get_uint 4.
Definition get_u64 := get_uint 8.

Definition get_string (l : bytes) : option (bytes * bytes) :=
  match get_u32 l with
  | Some (n, r) => get_bytes n r
  | None => None
  end.

Definition enc_u32 (v : Z) : bytes := be_enc 4 v.
Definition enc_u64 (v : Z) : bytes := be_enc 8 v.
Definition enc_string (s : bytes) : bytes := enc_u32 (zlen s) ++ s.

(* A flat record of wire fields: the layout language of every structure below. *)
Inductive fkind := FStr | FU32 | FU64.
Inductive fval := VStr (s : bytes) | VU32 (v : Z) | VU64 (v : Z).

Definition kind_of (v : fval) : fkind :=
  match v with VStr _ => FStr | VU32 _ => FU32 | VU64 _ => FU64 end.

Definition enc_val (v : fval) : bytes :=
  match v with
  | VStr s => enc_string s
  | VU32 n => enc_u32 n
  | VU64 n => enc_u64 n
  end.

Fixpoint enc_vals (vs : list fval) : bytes :=
  match vs with
  | [] => []
  | v :: r => enc_val v ++ enc_vals r
  end.

Definition dec_val (k : fkind) (l : bytes) : option (fval * bytes) :=
  match k with
  | FStr => match get_string l with Some (s, r) => Some (VStr s, r) | None => None end
  | FU32 => match get_u32 l with Some (n, r) => Some (VU32 n, r) | None => None end
  | FU64 => match get_u64 l with Some (n, r) => Some (VU64 n, r) | None => None end
  end.

Fixpoint dec_vals (ks : list fkind) (l : bytes) : option (list fval * bytes) :=
  match ks with
  | [] => Some ([], l)
  | k :: ks' =>
      match dec_val k l with
      | None => None
      | Some (v, r) =>
          match dec_vals ks' r with
          | None => None
          | Some (vs, r') => Some (v :: vs, r')
          end
      end
  end.

(* the values an encoder accepts: lengths and integers that fit their width *)
Definition wf_val (v : fval) : Prop :=
  match v with
  | VStr s => zlen s < 2 ^ 32
  | VU32 n => 0 <= n < 2 ^ 32
  | VU64 n => 0 <= n < 2 ^ 64
  end.

(* ------------------------------------------------------------------------------------------ *)
(* bytes.decode('utf-8') (strict): None = UnicodeDecodeError, Some = the code points *)

Definition is_cont (b : Z) : bool := (128 <=? b) && (b <=? 191).

Fixpoint utf8_decode (l : bytes) : option (list Z) :=
  match l with
  | [] => Some []
  | b0 :: r0 =>
      if (0 <=? b0) && (b0 <? 128) then
        match utf8_decode r0 with Some t => Some (b0 :: t) | None => None end
      else if (194 <=? b0) && (b0 <=? 223) then
        match r0 with
        | b1 :: r1 =>
            if is_cont b1 then
              match utf8_decode r1 with
              | Some t => Some (((b0 - 192) * 64 + (b1 - 128)) :: t)
              | None => None
              end
            else None
        | _ => None
        end
      else if (224 <=? b0) && (b0 <=? 239) then
        match r0 with
        | b1 :: b2 :: r2 =>
            if is_cont b1 && is_cont b2
               && (if b0 =? 224 then 160 <=? b1 else true)
               && (if b0 =? 237 then b1 <=? 159 else true) then
              match utf8_decode r2 with
              | Some t => Some (((b0 - 224) * 4096 + (b1 - 128) * 64 + (b2 - 128)) :: t)
              | None => None
              end
            else None
        | _ => None
        end
      else if (240 <=? b0) && (b0 <=? 244) then
        match r0 with
        | b1 :: b2 :: b3 :: r3 =>
            if is_cont b1 && is_cont b2 && is_cont b3
               && (if b0 =? 240 then 144 <=? b1 else true)
               && (if b0 =? 244 then b1 <=? 143 else true) then
              match utf8_decode r3 with
              | Some t => Some (((b0 - 240) * 262144 + (b1 - 128) * 4096 + (b2 - 128) * 64 + (b3 - 128)) :: t)
              | None => None
              end
            else None
        | _ => None
        end
      else None
  end.

(* ------------------------------------------------------------------------------------------ *)
(* SSHKey.verify: the signature blob is String(algorithm) followed by the key-specific part.
   [algs] is key.all_sig_algorithms, [vssh data alg rest] is key.verify_ssh (crypto, symbolic;
   a PacketDecodeError inside it counts as false). *)

Definition key_verify (algs : list bytes) (vssh : bytes -> bytes -> bytes -> bool)
           (data sig : bytes) : bool :=
  match get_string sig with
  | None => false
  | Some (alg, rest) =>
      if existsb (zlist_eqb alg) algs then vssh data alg rest else false
  end.

(* SSHKey.sign *)
Definition key_sign_blob (alg raw : bytes) : bytes := enc_string alg ++ raw.

(* ------------------------------------------------------------------------------------------ *)
(* names *)

Definition N_force_command : bytes := [102;111;114;99;101;45;99;111;109;109;97;110;100].
Definition N_source_address : bytes := [115;111;117;114;99;101;45;97;100;100;114;101;115;115].
Definition N_permit_X11 : bytes := [112;101;114;109;105;116;45;88;49;49;45;102;111;114;119;97;114;100;105;110;103].
Definition N_permit_agent : bytes := [112;101;114;109;105;116;45;97;103;101;110;116;45;102;111;114;119;97;114;100;105;110;103].
Definition N_permit_port : bytes := [112;101;114;109;105;116;45;112;111;114;116;45;102;111;114;119;97;114;100;105;110;103].
Definition N_permit_pty : bytes := [112;101;114;109;105;116;45;112;116;121].
Definition N_permit_user_rc : bytes := [112;101;114;109;105;116;45;117;115;101;114;45;114;99].
Definition N_no_touch : bytes := [110;111;45;116;111;117;99;104;45;114;101;113;117;105;114;101;100].
Definition N_sha256 : bytes := [115;104;97;50;53;54].
Definition N_sha512 : bytes := [115;104;97;53;49;50].
Definition SSHSIG_MAGIC : bytes := [83;83;72;83;73;71].

(* _certificate_alg_map (OpenSSH entries): certificate algorithm -> (key algorithm of the subject
   key, number of String/MPInt fields of the subject key's encode_ssh_public) *)
Definition cert_alg_table : list (bytes * (bytes * nat)) := [
  (* ssh-ed25519-cert-v01@openssh.com *)
  ([115;115;104;45;101;100;50;53;53;49;57;45;99;101;114;116;45;118;48;49;64;111;112;101;110;115;115;104;46;99;111;109],
   ([115;115;104;45;101;100;50;53;53;49;57], 1%nat));
  (* ssh-ed448-cert-v01@openssh.com *)
  ([115;115;104;45;101;100;52;52;56;45;99;101;114;116;45;118;48;49;64;111;112;101;110;115;115;104;46;99;111;109],
   ([115;115;104;45;101;100;52;52;56], 1%nat));
  (* ssh-rsa-cert-v01@openssh.com *)
  ([115;115;104;45;114;115;97;45;99;101;114;116;45;118;48;49;64;111;112;101;110;115;115;104;46;99;111;109],
   ([115;115;104;45;114;115;97], 2%nat));
  (* rsa-sha2-256-cert-v01@openssh.com *)
  ([114;115;97;45;115;104;97;50;45;50;53;54;45;99;101;114;116;45;118;48;49;64;111;112;101;110;115;115;104;46;99;111;109],
   ([115;115;104;45;114;115;97], 2%nat));
  (* rsa-sha2-512-cert-v01@openssh.com *)
  ([114;115;97;45;115;104;97;50;45;53;49;50;45;99;101;114;116;45;118;48;49;64;111;112;101;110;115;115;104;46;99;111;109],
   ([115;115;104;45;114;115;97], 2%nat));
  (* ssh-dss-cert-v01@openssh.com *)
  ([115;115;104;45;100;115;115;45;99;101;114;116;45;118;48;49;64;111;112;101;110;115;115;104;46;99;111;109],
   ([115;115;104;45;100;115;115], 4%nat));
  (* ecdsa-sha2-nistp256-cert-v01@openssh.com *)
  ([101;99;100;115;97;45;115;104;97;50;45;110;105;115;116;112;50;53;54;45;99;101;114;116;45;118;48;49;64;111;112;101;110;115;115;104;46;99;111;109],
   ([101;99;100;115;97;45;115;104;97;50;45;110;105;115;116;112;50;53;54], 2%nat));
  (* ecdsa-sha2-nistp384-cert-v01@openssh.com *)
  ([101;99;100;115;97;45;115;104;97;50;45;110;105;115;116;112;51;56;52;45;99;101;114;116;45;118;48;49;64;111;112;101;110;115;115;104;46;99;111;109],
   ([101;99;100;115;97;45;115;104;97;50;45;110;105;115;116;112;51;56;52], 2%nat));
  (* ecdsa-sha2-nistp521-cert-v01@openssh.com *)
  ([101;99;100;115;97;45;115;104;97;50;45;110;105;115;116;112;53;50;49;45;99;101;114;116;45;118;48;49;64;111;112;101;110;115;115;104;46;99;111;109],
   ([101;99;100;115;97;45;115;104;97;50;45;110;105;115;116;112;53;50;49], 2%nat));
  (* ecdsa-sha2-1.3.132.0.10-cert-v01@openssh.com *)
  ([101;99;100;115;97;45;115;104;97;50;45;49;46;51;46;49;51;50;46;48;46;49;48;45;99;101;114;116;45;118;48;49;64;111;112;101;110;115;115;104;46;99;111;109],
   ([101;99;100;115;97;45;115;104;97;50;45;49;46;51;46;49;51;50;46;48;46;49;48], 2%nat));
  (* sk-ssh-ed25519-cert-v01@openssh.com *)
  ([115;107;45;115;115;104;45;101;100;50;53;53;49;57;45;99;101;114;116;45;118;48;49;64;111;112;101;110;115;115;104;46;99;111;109],
   ([115;107;45;115;115;104;45;101;100;50;53;53;49;57;64;111;112;101;110;115;115;104;46;99;111;109], 2%nat));
  (* sk-ecdsa-sha2-nistp256-cert-v01@openssh.com *)
  ([115;107;45;101;99;100;115;97;45;115;104;97;50;45;110;105;115;116;112;50;53;54;45;99;101;114;116;45;118;48;49;64;111;112;101;110;115;115;104;46;99;111;109],
   ([115;107;45;101;99;100;115;97;45;115;104;97;50;45;110;105;115;116;112;50;53;54;64;111;112;101;110;115;115;104;46;99;111;109], 3%nat))
].

Fixpoint assoc {A} (k : bytes) (l : list (bytes * A)) : option A :=
  match l with
  | [] => None
  | (k', v) :: r => if zlist_eqb k k' then Some v else assoc k r
  end.

Definition cert_alg_lookup (alg : bytes) : option (bytes * nat) := assoc alg cert_alg_table.

(* ------------------------------------------------------------------------------------------ *)
(* Certificate wire layout (SSHOpenSSHCertificateV01._encode/_decode wrapped by generate/construct):
     String(alg) String(nonce) <key fields> UInt64(serial) UInt32(type) String(key_id)
     String(principals) UInt64(valid_after) UInt64(valid_before) String(options)
     String(extensions) String(reserved) String(ca public key)      <- signed region ends here
     String(signature) *)

Record cert_fields := mkCF {
  cf_alg : bytes; cf_nonce : bytes; cf_key : list bytes; cf_serial : Z; cf_type : Z;
  cf_keyid : bytes; cf_princ : bytes; cf_va : Z; cf_vb : Z; cf_opts : bytes; cf_exts : bytes;
  cf_rsv : bytes; cf_cakey : bytes }.

Definition cert_tail_fmt : list fkind := [FU64; FU32; FStr; FStr; FU64; FU64; FStr; FStr; FStr; FStr].
Definition cert_fmt (nk : nat) : list fkind := FStr :: repeat FStr nk ++ cert_tail_fmt.

Definition fields_vals (c : cert_fields) : list fval :=
  VStr (cf_nonce c) :: map VStr (cf_key c) ++
  [VU64 (cf_serial c); VU32 (cf_type c); VStr (cf_keyid c); VStr (cf_princ c); VU64 (cf_va c);
   VU64 (cf_vb c); VStr (cf_opts c); VStr (cf_exts c); VStr (cf_rsv c); VStr (cf_cakey c)].

Fixpoint strs_of (vs : list fval) : option (list bytes) :=
  match vs with
  | [] => Some []
  | VStr s :: r => match strs_of r with Some t => Some (s :: t) | None => None end
  | _ :: _ => None
  end.

Definition vals_fields (alg : bytes) (nk : nat) (vs : list fval) : option cert_fields :=
  match vs with
  | VStr nonce :: rest =>
      match strs_of (firstn nk rest), skipn nk rest with
      | Some key, [VU64 serial; VU32 typ; VStr kid; VStr princ; VU64 va; VU64 vb; VStr opts;
                   VStr exts; VStr rsv; VStr cak] =>
          Some (mkCF alg nonce key serial typ kid princ va vb opts exts rsv cak)
      | _, _ => None
      end
  | _ => None
  end.

(* the bytes the CA signs, and the whole certificate *)
Definition enc_tbs (c : cert_fields) : bytes := enc_string (cf_alg c) ++ enc_vals (fields_vals c).
Definition enc_cert (c : cert_fields) (sig : bytes) : bytes := enc_tbs c ++ enc_string sig.

(* construct(): fields, then data = packet.get_consumed_payload() (the prefix of the blob read so
   far), then the signature String, then check_end.  Returns (fields, signed region, signature). *)
Definition cert_parse (blob : bytes) : option (cert_fields * bytes * bytes) :=
  match get_string blob with
  | None => None
  | Some (alg, r0) =>
      match cert_alg_lookup alg with
      | None => None
      | Some (_, nk) =>
          match dec_vals (cert_fmt nk) r0 with
          | None => None
          | Some (vs, r1) =>
              match vals_fields alg nk vs with
              | None => None
              | Some c =>
                  let signed := firstn (length blob - length r1) blob in
                  match get_string r1 with
                  | Some (sig, []) => Some (c, signed, sig)
                  | _ => None
                  end
              end
          end
      end
  end.

(* the subject key as a public-key blob (key.public_data) *)
Definition key_blob (kalg : bytes) (fields : list bytes) : bytes :=
  enc_string kalg ++ enc_vals (map VStr fields).

(* ------------------------------------------------------------------------------------------ *)
(* loops carry fuel; RFuel is the explicit out-of-fuel result (shown unreachable in the proofs) *)
Inductive res (A : Type) := ROk (a : A) | RErr | RFuel.
Arguments ROk {A} a.
Arguments RErr {A}.
Arguments RFuel {A}.

(* principals: "while packet: packet.get_string().decode('utf-8')" *)
Fixpoint dec_principals (fuel : nat) (p : bytes) : res (list (list Z)) :=
  match p with
  | [] => ROk []
  | _ :: _ =>
      match fuel with
      | O => RFuel
      | S f =>
          match get_string p with
          | None => RErr
          | Some (s, r) =>
              match utf8_decode s with
              | None => RErr
              | Some cp =>
                  match dec_principals f r with
                  | ROk t => ROk (cp :: t)
                  | RErr => RErr
                  | RFuel => RFuel
                  end
              end
          end
      end
  end.

Inductive okind := KBool | KCmd | KAddr.
Inductive oval := OTrue | OCmd (cmd : bytes) | OAddr (raw : bytes).

Definition user_option_kinds : list (bytes * okind) :=
  [(N_force_command, KCmd); (N_source_address, KAddr)].
Definition user_extension_kinds : list (bytes * okind) :=
  [(N_permit_X11, KBool); (N_permit_agent, KBool); (N_permit_port, KBool); (N_permit_pty, KBool);
   (N_permit_user_rc, KBool); (N_no_touch, KBool)].

Section CertModel.
  (* crypto / library facts, symbolic *)
  Variable sigok : bytes -> bytes -> bytes -> bool.   (* decode(key blob).verify(data, sig) *)
  Variable pubkey_ok : bytes -> bool.                  (* decode_ssh_public_key(blob) succeeds *)
  Variable keyfields_ok : bytes -> list bytes -> bool. (* key_handler.decode_ssh_public/make_public ok *)
  Variable addrs_ok : bytes -> bool.                   (* every name of the list is an ip_network *)
  (* decoder(data_packet); data_packet.check_end() *)
  Definition dec_optval (k : okind) (data : bytes) : option oval :=
    match k with
    | KBool => match data with [] => Some OTrue | _ => None end
    | KCmd =>
        match get_string data with
        | Some (s, []) => match utf8_decode s with Some _ => Some (OCmd s) | None => None end
        | _ => None
        end
    | KAddr =>
        match get_string data with
        | Some (s, []) => if addrs_ok s then Some (OAddr s) else None
        | _ => None
        end
    end.

  (* _decode_options(options, decoders, critical).  [consume_unknown] = does the loop read the
     data String of an unknown non-critical option ("else: packet.get_string()")?  The model of
     record is [dec_options] (it does, /repo commit d13f6e7); [dec_options_old] is the code before
     that repair (the data String was parsed as the next option name) and is kept only for the
     refuted statement about it. *)
  Fixpoint dec_options_gen (consume_unknown : bool) (fuel : nat) (known : list (bytes * okind))
           (critical : bool) (p : bytes) : res (list (bytes * oval)) :=
    match p with
    | [] => ROk []
    | _ :: _ =>
        match fuel with
        | O => RFuel
        | S f =>
            match get_string p with
            | None => RErr
            | Some (name, r) =>
                match assoc name known with
                | Some k =>
                    match get_string r with
                    | None => RErr
                    | Some (data, r') =>
                        match dec_optval k data with
                        | None => RErr
                        | Some v =>
                            match dec_options_gen consume_unknown f known critical r' with
                            | ROk t => ROk ((name, v) :: t)
                            | RErr => RErr
                            | RFuel => RFuel
                            end
                        end
                    end
                | None =>
                    if critical then RErr
                    else if consume_unknown then
                      match get_string r with
                      | None => RErr
                      | Some (_, r') => dec_options_gen consume_unknown f known critical r'
                      end
                    else dec_options_gen consume_unknown f known critical r
                end
            end
        end
    end.

  Definition dec_options := dec_options_gen true.
  Definition dec_options_old := dec_options_gen false.

  Record cert_info := mkCI {
    ci_fields : cert_fields; ci_kalg : bytes; ci_keyid : list Z; ci_principals : list (list Z);
    ci_options : list (bytes * oval); ci_signed : bytes; ci_sig : bytes }.

  Definition CERT_TYPE_ANY : Z := 0.
  Definition CERT_TYPE_USER : Z := 1.
  Definition CERT_TYPE_HOST : Z := 2.

  (* cert_options = decode(options, critical=True); cert_options.update(decode(extensions, False)) *)
  Definition cert_options (typ : Z) (opts exts : bytes) : res (list (bytes * oval)) :=
    let tabs := if typ =? CERT_TYPE_USER then Some (user_option_kinds, user_extension_kinds)
                else if typ =? CERT_TYPE_HOST then Some ([], [])
                else None in
    match tabs with
    | None => RErr
    | Some (ok, ek) =>
        match dec_options (length opts) ok true opts with
        | ROk o =>
            match dec_options (length exts) ek false exts with
            | ROk e => ROk (o ++ e)
            | RErr => RErr
            | RFuel => RFuel
            end
        | RErr => RErr
        | RFuel => RFuel
        end
    end.

  (* decode_ssh_certificate: every failure is KeyImportError (RErr) *)
  Definition cert_import (blob : bytes) : res cert_info :=
    match cert_parse blob with
    | None => RErr
    | Some (c, signed, sig) =>
        match cert_alg_lookup (cf_alg c) with
        | None => RErr
        | Some (kalg, _) =>
            if negb (pubkey_ok (cf_cakey c)) then RErr
            else if negb (sigok (cf_cakey c) signed sig) then RErr
            else if negb (keyfields_ok (cf_alg c) (cf_key c)) then RErr
            else
              match utf8_decode (cf_keyid c) with
              | None => RErr
              | Some kid =>
                  match dec_principals (length (cf_princ c)) (cf_princ c) with
                  | RErr => RErr
                  | RFuel => RFuel
                  | ROk ps =>
                      match cert_options (cf_type c) (cf_opts c) (cf_exts c) with
                      | RErr => RErr
                      | RFuel => RFuel
                      | ROk os => ROk (mkCI c kalg kid ps os signed sig)
                      end
                  end
              end
        end
    end.

  (* SSHOpenSSHCertificate.validate(cert_type, principal) at time.time() = now *)
  Inductive vres := VOk | VBadType | VNotYet | VExpired | VPrincipal.

  Definition cert_validate (ci : cert_info) (want : Z) (principal : option (list Z)) (now : Z) : vres :=
    let c := ci_fields ci in
    if negb ((want =? CERT_TYPE_ANY) || (want =? cf_type c)) then VBadType
    else if now <? cf_va c then VNotYet
    else if cf_vb c <=? now then VExpired
    else
      match principal with
      | None => VOk
      | Some p =>
          match ci_principals ci with
          | [] => VOk
          | _ => if existsb (zlist_eqb p) (ci_principals ci) then VOk else VPrincipal
          end
      end.

  Definition vres_ok (v : vres) : bool := match v with VOk => true | _ => false end.

  (* import, then validate: the decision "this certificate blob is accepted for this use" *)
  Definition cert_accept (blob : bytes) (want : Z) (principal : option (list Z)) (now : Z) : bool :=
    match cert_import blob with
    | ROk ci => vres_ok (cert_validate ci want principal now)
    | _ => false
    end.

  (* ---------------------------------------------------------------------------------------- *)
  (* pattern.py: fnmatch with only '*' (42) and '?' (63) special *)
  Fixpoint wmatch (p s : list Z) : bool :=
    match p with
    | [] => match s with [] => true | _ => false end
    | c :: p' =>
        if c =? 42 then
          (fix star (t : list Z) : bool :=
             wmatch p' t || match t with [] => false | _ :: t' => star t' end) s
        else
          match s with
          | [] => false
          | x :: s' => ((c =? 63) || (c =? x)) && wmatch p' s'
          end
    end.

  (* _PatternList: (negated?, pattern) in order; match = some positive and no negative *)
  Definition patlist := list (bool * list Z).
  Definition patlist_matches (pl : patlist) (v : list Z) : bool :=
    existsb (fun e => negb (fst e) && wmatch (snd e) v) pl
    && negb (existsb (fun e => fst e && wmatch (snd e) v) pl).

  (* SSHAllowedSignersEntry after parsing one line *)
  Record as_entry := mkAS {
    e_princ : patlist; e_ca : bool; e_ns : option patlist; e_va : option Z; e_vb : option Z;
    e_key : bytes }.

  (* match_options(principal, namespace) *)
  Definition entry_matches (e : as_entry) (principal ns : list Z) (now : Z) : bool :=
    patlist_matches (e_princ e) principal
    && match e_ns e with None => true | Some pl => patlist_matches pl ns end
    && match e_va e with None => true | Some t => negb (now <? t) end
    && match e_vb e with None => true | Some t => negb (t <=? now) end.

  (* SSHAllowedSigners.validate(key, principal, namespace, ca) *)
  Definition as_validate (entries : list as_entry) (key : bytes) (principal ns : list Z) (now : Z)
             (ca : bool) : bool :=
    existsb (fun e => Bool.eqb (e_ca e) ca && zlist_eqb (e_key e) key
                      && entry_matches e principal ns now) entries.

  (* ---------------------------------------------------------------------------------------- *)
  (* sshsig.py *)
  Variable hash : bytes -> bytes -> bytes.            (* hashlib: hash name, message -> digest *)

  Definition hash_size (h : bytes) : option Z :=
    if zlist_eqb h N_sha256 then Some 32 else if zlist_eqb h N_sha512 then Some 64 else None.

  (* _signed_data: None = ValueError *)
  Definition signed_data (msg : bytes) (is_hashed : bool) (hname nsb : bytes) : option bytes :=
    match hash_size hname with
    | None => None
    | Some sz =>
        match nsb with
        | [] => None
        | _ =>
            let digest := if is_hashed then (if zlen msg =? sz then Some msg else None)
                          else Some (hash hname msg) in
            match digest with
            | None => None
            | Some d =>
                Some (SSHSIG_MAGIC ++ enc_string nsb ++ enc_string [] ++ enc_string hname ++ enc_string d)
            end
        end
    end.

  (* the message can also be named by a path: _signed_data then hashes everything the file
     delivers until end of file, however the reads are split into bursts ([chunks]), and ignores
     is_hashed *)
  Inductive msg_source := MBytes (b : bytes) | MPath (chunks : list bytes).
  Definition source_bytes (s : msg_source) : bytes :=
    match s with MBytes b => b | MPath chunks => concat chunks end.
  Definition signed_data_src (s : msg_source) (is_hashed : bool) (hname nsb : bytes) : option bytes :=
    match s with
    | MBytes b => signed_data b is_hashed hname nsb
    | MPath chunks => signed_data (concat chunks) false hname nsb
    end.

  Definition sshsig_fmt : list fkind := [FU32; FStr; FStr; FStr; FStr; FStr].

  (* raw SSHSIG blob: MAGIC UInt32(1) String(pubdata) String(namespace) String(reserved)
     String(hash) String(signature), check_end *)
  Definition sshsig_parse (raw : bytes) : option (bytes * bytes * bytes * bytes) :=
    match get_bytes 6 raw with
    | None => None
    | Some (m, r) =>
        if negb (zlist_eqb m SSHSIG_MAGIC) then None
        else
          match dec_vals sshsig_fmt r with
          | Some ([VU32 ver; VStr pub; VStr nsb; VStr _; VStr hname; VStr sig], []) =>
              if ver =? 1 then Some (pub, nsb, hname, sig) else None
          | _ => None
          end
    end.

  Definition enc_sshsig (pub nsb rsv hname sig : bytes) : bytes :=
    SSHSIG_MAGIC ++ enc_vals [VU32 1; VStr pub; VStr nsb; VStr rsv; VStr hname; VStr sig].

  Inductive sres := SAccept | SReject | SValueError | SFuel.

  (* validate_sshsig(msg, raw, principal, allowed_signers, is_hashed) at time now.
     [want] is the certificate type passed to cert.validate: the model of record is
     [sshsig_validate] below (CERT_TYPE_USER, /repo commit 0617eca); [sshsig_validate_old]
     (CERT_TYPE_ANY, the code before that repair) is kept only for the refuted statement. *)
  Definition sshsig_validate_gen (want : Z) (msg : bytes) (is_hashed : bool) (raw : bytes)
             (principal : list Z) (entries : list as_entry) (now : Z) : sres :=
    match sshsig_parse raw with
    | None => SReject
    | Some (pub, nsb, hname, sig) =>
        let who :=
          match cert_import pub with
          | ROk ci => ROk (Some ci, key_blob (ci_kalg ci) (cf_key (ci_fields ci)))
          | RFuel => RFuel
          | RErr => if pubkey_ok pub then ROk (None, pub) else RErr
          end in
        match who with
        | RErr => SReject
        | RFuel => SFuel
        | ROk (cert, key) =>
            match utf8_decode nsb with
            | None => SReject
            | Some ns =>
                match signed_data msg is_hashed hname nsb with
                | None => SValueError
                | Some tbs =>
                    if negb (sigok key tbs sig) then SReject
                    else
                      match entries with
                      | [] => SValueError
                      | _ =>
                          if as_validate entries key principal ns now false then SAccept
                          else
                            match cert with
                            | None => SReject
                            | Some ci =>
                                if as_validate entries (cf_cakey (ci_fields ci)) principal ns now true
                                then (if vres_ok (cert_validate ci want (Some principal) now)
                                      then SAccept else SReject)
                                else SReject
                            end
                      end
                end
            end
        end
    end.

  Definition sshsig_validate := sshsig_validate_gen CERT_TYPE_USER.
  Definition sshsig_validate_old := sshsig_validate_gen CERT_TYPE_ANY.

End CertModel.

(* ------------------------------------------------------------------------------------------ *)
(* misc.parse_time: the time values accepted for valid_after / valid_before at certificate
   generation and for valid-after= / valid-before= in allowed-signers lines.
     int                       the value itself
     \d{8,14} with optional Z  YYYYMMDD[HH[MM[SS]]] right-padded with '0' to 14 digits and read by
                               strptime('%Y%m%d%H%M%S'); with Z it is that UTC instant, without Z
                               it is local time (dt.timestamp() of a naive datetime)
     'now' / [+-]interval      time.time() + interval
   [off] is the number of seconds to add to a local civil time to obtain UTC (the process time
   zone, fixed offset: POSIX TZ 'XXX+5' has off = 18000).  None = ValueError. *)

Definition is_leap (y : Z) : bool :=
  (y mod 4 =? 0) && (negb (y mod 100 =? 0) || (y mod 400 =? 0)).

Definition days_in_month (y m : Z) : Z :=
  if m =? 2 then (if is_leap y then 29 else 28)
  else if (m =? 4) || (m =? 6) || (m =? 9) || (m =? 11) then 30 else 31.

(* days since 1970-01-01 of a proleptic Gregorian date *)
Definition days_from_civil (y m d : Z) : Z :=
  let y' := if m <=? 2 then y - 1 else y in
  let era := y' / 400 in
  let yoe := y' - era * 400 in
  let mp := if 2 <? m then m - 3 else m + 9 in
  let doy := (153 * mp + 2) / 5 + d - 1 in
  let doe := yoe * 365 + yoe / 4 - yoe / 100 + doy in
  era * 146097 + doe - 719468.

Definition is_digit (c : Z) : bool := (48 <=? c) && (c <=? 57).
Definition num_of (ds : list Z) : Z := fold_left (fun a c => a * 10 + (c - 48)) ds 0.

(* the UTC reading of the 14 padded digits *)
Definition civil_seconds (ds : list Z) : option Z :=
  if forallb is_digit ds && (8 <=? zlen ds) && (zlen ds <=? 14) then
    let p := ds ++ repeat 48 (14 - length ds) in
    let y := num_of (firstn 4 p) in
    let mo := num_of (firstn 2 (skipn 4 p)) in
    let d := num_of (firstn 2 (skipn 6 p)) in
    let h := num_of (firstn 2 (skipn 8 p)) in
    let mi := num_of (firstn 2 (skipn 10 p)) in
    let sec := num_of (firstn 2 (skipn 12 p)) in
    if (1 <=? y) && (1 <=? mo) && (mo <=? 12) && (1 <=? d) && (d <=? days_in_month y mo)
       && (h <? 24) && (mi <? 60) && (sec <? 60)
    then Some (days_from_civil y mo d * 86400 + h * 3600 + mi * 60 + sec)
    else None
  else None.

Definition parse_time_abs (ds : list Z) (z : bool) (off : Z) : option Z :=
  match civil_seconds ds with
  | Some t => Some (if z then t else t + off)
  | None => None
  end.

Inductive tspec := TInt (t : Z) | TAbs (ds : list Z) (z : bool) | TRel (delta : Z) | TBad.

Definition parse_time (s : tspec) (off now : Z) : option Z :=
  match s with
  | TInt t => Some t
  | TAbs ds z => parse_time_abs ds z off
  | TRel d => Some (now + d)
  | TBad => None
  end.

(* a validity window written as time values: limits parsed at [pnow] in a zone with offset [off],
   then checked at [now].  0 = inside, 1 = outside, 2 = a limit does not parse (ValueError) *)
Definition window_decision (va vb : option tspec) (off pnow now : Z) : Z :=
  let lim (o : option tspec) : option (option Z) :=
    match o with
    | None => Some None
    | Some s => match parse_time s off pnow with Some t => Some (Some t) | None => None end
    end in
  match lim va, lim vb with
  | Some a, Some b =>
      if match a with Some t => negb (now <? t) | None => true end
         && match b with Some t => negb (t <=? now) | None => true end
      then 0 else 1
  | _, _ => 2
  end.

(* ------------------------------------------------------------------------------------------ *)
(* misc.OptionsParser._add_option as used by SSHAllowedSignersEntry: the NAME of an option (a bare
   flag or the part before '=') is lower-cased before it is looked up; values are kept as written.
   (ASCII letters; the four names sshsig.py acts on.) *)
Definition ascii_lower (c : Z) : Z := if (65 <=? c) && (c <=? 90) then c + 32 else c.

Inductive as_opt := OCertAuthority | ONamespaces | OValidAfter | OValidBefore | OOther.

Definition N_cert_authority : bytes := [99;101;114;116;45;97;117;116;104;111;114;105;116;121].
Definition N_namespaces : bytes := [110;97;109;101;115;112;97;99;101;115].
Definition N_valid_after : bytes := [118;97;108;105;100;45;97;102;116;101;114].
Definition N_valid_before : bytes := [118;97;108;105;100;45;98;101;102;111;114;101].

Definition as_opt_kind (written : list Z) : as_opt :=
  let n := map ascii_lower written in
  if zlist_eqb n N_cert_authority then OCertAuthority
  else if zlist_eqb n N_namespaces then ONamespaces
  else if zlist_eqb n N_valid_after then OValidAfter
  else if zlist_eqb n N_valid_before then OValidBefore
  else OOther.

Definition as_opt_code (k : as_opt) : Z :=
  match k with OCertAuthority => 0 | ONamespaces => 1 | OValidAfter => 2 | OValidBefore => 3 | OOther => 4 end.

