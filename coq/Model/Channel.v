(* Executable model of one direction of an SSH channel: the sending endpoint's buffer / window /
   packet-size logic, the two FIFO wires, and the receiving endpoint's window check, pause
   buffer, replenishment and EOF / close ordering.
   Sources modelled (asyncssh/channel.py):
     write, write_eof, close, _flush_send_buf, _close_send                       (sender)
     _process_window_adjust                                                        (sender)
     _process_data / _process_extended_data, _accept_data, _deliver_data,
     _flush_recv_buf, _process_eof, _process_close, pause_reading, resume_reading  (receiver)
   and the peer-supplied parameter validation of connection.py _process_channel_open*.
   Data bytes are Z; a data type is Z (0 = ordinary data, 1 = stderr).  No proofs here. *)
From AV Require Import Base.Prelude.

(* what the applications see / write: one token per byte, plus EOF and close notifications *)
Inductive tok := TB (dt : Z) (b : Z) | TEof | TClose.

Inductive pkt := PData (dt : Z) (d : list Z) | PEof | PClose | PAdjust (n : Z).

Inductive sstate := SOpen | SEofPending | SEof | SClosePending | SClosed.
Inductive rstate := ROpen | REofPending | REof | RClosePending | RClosed.

Record sender := mkS {
  s_buf : list (Z * list Z);     (* _send_buf: (datatype, bytes) per write, oldest first *)
  s_win : Z;                     (* _send_window *)
  s_pkt : Z;                     (* _send_pktsize *)
  s_state : sstate }.

Record receiver := mkR {
  r_buf : list (Z * list Z);     (* _recv_buf while paused *)
  r_win : Z;                     (* _recv_window *)
  r_init : Z;                    (* _init_recv_window *)
  r_paused : bool;
  r_state : rstate;
  r_err : bool;                  (* a ProtocolError was raised (connection ends) *)
  r_out : list tok }.            (* everything handed to the session, in order *)

Definition zlen (l : list Z) : Z := Z.of_nat (length l).

Fixpoint buf_len (b : list (Z * list Z)) : Z :=
  match b with [] => 0 | (_, d) :: r => zlen d + buf_len r end.

(* ---- sender ------------------------------------------------------------------------------ *)

(* the while loop of _flush_send_buf; None = the loop does not terminate within the fuel *)
Fixpoint flush_loop (fuel : nat) (buf : list (Z * list Z)) (win pktsize : Z) (out : list pkt)
  : option (list (Z * list Z) * Z * list pkt) :=
  match buf with
  | [] => Some (buf, win, out)
  | (dt, d) :: rest =>
      if win =? 0 then Some (buf, win, out)
      else match fuel with
           | O => None
           | S f =>
               let n := Z.min win pktsize in
               if zlen d >? n
               then flush_loop f ((dt, skipn (Z.to_nat n) d) :: rest) (win - n) pktsize
                               (out ++ [PData dt (firstn (Z.to_nat n) d)])
               else flush_loop f rest (win - zlen d) pktsize (out ++ [PData dt d])
           end
  end.

(* fuel that always suffices when pktsize >= 1: one iteration per buffered byte at most *)
Definition flush_fuel (buf : list (Z * list Z)) : nat := S (Z.to_nat (buf_len buf) + length buf).

(* _flush_send_buf: returns new sender and emitted packets; None = spins forever *)
Definition flush_send (s : sender) : option (sender * list pkt) :=
  match flush_loop (flush_fuel (s_buf s)) (s_buf s) (s_win s) (s_pkt s) [] with
  | None => None
  | Some (buf, win, out) =>
      match buf, s_state s with
      | [], SEofPending => Some (mkS [] win (s_pkt s) SEof, out ++ [PEof])
      | [], SClosePending => Some (mkS [] win (s_pkt s) SClosed, out ++ [PClose])
      | _, st => Some (mkS buf win (s_pkt s) st, out)
      end
  end.

(* write(data, datatype): ignored (BrokenPipeError) unless open; empty data is a no-op *)
Definition s_write (s : sender) (dt : Z) (d : list Z) : option (sender * list pkt) :=
  match s_state s with
  | SOpen => match d with
             | [] => Some (s, [])
             | _ => flush_send (mkS (s_buf s ++ [(dt, d)]) (s_win s) (s_pkt s) SOpen)
             end
  | _ => Some (s, [])
  end.

Definition s_eof (s : sender) : option (sender * list pkt) :=
  match s_state s with
  | SOpen => flush_send (mkS (s_buf s) (s_win s) (s_pkt s) SEofPending)
  | _ => Some (s, [])
  end.

Definition s_close (s : sender) : option (sender * list pkt) :=
  match s_state s with
  | SClosePending | SClosed => Some (s, [])
  | _ => flush_send (mkS (s_buf s) (s_win s) (s_pkt s) SClosePending)
  end.

Definition s_adjust (s : sender) (n : Z) : option (sender * list pkt) :=
  flush_send (mkS (s_buf s) (s_win s + n) (s_pkt s) (s_state s)).

(* ---- receiver ---------------------------------------------------------------------------- *)

Definition toks_of (dt : Z) (d : list Z) : list tok := map (TB dt) d.

(* _deliver_data: window decremented on delivery, replenished to the initial value when less
   than half of it is left; returns the window adjust packets to send back *)
(* once the receiver has answered the peer's CLOSE its own sending side is closed
   (_close_send sets _send_chan = None) and channel.send_packet silently drops window adjusts *)
Definition r_sclosed (r : receiver) : bool :=
  match r_state r with RClosePending | RClosed => true | _ => false end.

Definition r_deliver (r : receiver) (dt : Z) (d : list Z) : receiver * list pkt :=
  let w := r_win r - zlen d in
  if 2 * w <? r_init r
  then (mkR (r_buf r) (r_init r) (r_init r) (r_paused r) (r_state r) (r_err r) (r_out r ++ toks_of dt d),
        if r_sclosed r then [] else [PAdjust (r_init r - w)])
  else (mkR (r_buf r) w (r_init r) (r_paused r) (r_state r) (r_err r) (r_out r ++ toks_of dt d), []).

(* deliver the first k buffered entries (k = None: all of them); the session may pause again
   from inside data_received, which is what a finite k followed by r_paused = true models *)
Fixpoint r_drain (r : receiver) (buf : list (Z * list Z)) (k : option nat) (back : list pkt)
  : receiver * list (Z * list Z) * list pkt :=
  match buf with
  | [] => (r, [], back)
  | (dt, d) :: rest =>
      match k with
      | Some O => (r, buf, back)
      | _ =>
          let '(r', adj) := r_deliver r dt d in
          r_drain r' rest (match k with Some (S j) => Some j | _ => None end) (back ++ adj)
      end
  end.

(* tail of _flush_recv_buf: EOF / close become visible only when the buffer is empty *)
Definition r_finish (r : receiver) : receiver :=
  match r_buf r with
  | [] =>
      match r_state r with
      | REofPending => mkR [] (r_win r) (r_init r) (r_paused r) REof (r_err r) (r_out r ++ [TEof])
      | RClosePending => mkR [] (r_win r) (r_init r) (r_paused r) RClosed (r_err r) (r_out r ++ [TClose])
      | _ => r
      end
  | _ => r
  end.

(* _flush_recv_buf when not paused (k entries, then the session pauses again if any are left) *)
Definition r_flush (r : receiver) (k : option nat) : receiver * list pkt :=
  let '(r1, rest, back) := r_drain (mkR [] (r_win r) (r_init r) false (r_state r) (r_err r) (r_out r))
                                    (r_buf r) k [] in
  (* the session's "pause again after k deliveries" counter runs out iff k entries were buffered *)
  let paused := match k with None => false | Some n => Nat.leb n (length (r_buf r)) end in
  (r_finish (mkR rest (r_win r1) (r_init r1) paused (r_state r1) (r_err r1) (r_out r1)), back).

Definition r_fail (r : receiver) : receiver :=
  mkR (r_buf r) (r_win r) (r_init r) (r_paused r) (r_state r) true (r_out r).

(* _process_data / _process_extended_data + _accept_data.
   [strict] = the receive-window check counts data that is buffered while paused (repaired code);
   strict = false is the unrepaired check against _recv_window alone. *)
Definition r_data (strict : bool) (r : receiver) (dt : Z) (d : list Z) : receiver * list pkt :=
  if r_err r then (r, []) else
  match r_state r with
  | ROpen =>
      let avail := if strict then r_win r - buf_len (r_buf r) else r_win r in
      if zlen d >? avail then (r_fail r, [])
      else match d with
           | [] => (r, [])
           | _ => if r_paused r
                  then (mkR (r_buf r ++ [(dt, d)]) (r_win r) (r_init r) true ROpen (r_err r) (r_out r), [])
                  else r_deliver r dt d
           end
  | _ => (r_fail r, [])
  end.

Definition r_eof (r : receiver) : receiver * list pkt :=
  if r_err r then (r, []) else
  match r_state r with
  | ROpen =>
      let r' := mkR (r_buf r) (r_win r) (r_init r) (r_paused r) REofPending (r_err r) (r_out r) in
      if r_paused r then (r_finish r', []) else r_flush r' None
  | _ => (r_fail r, [])
  end.

Definition r_close (r : receiver) : receiver * list pkt :=
  if r_err r then (r, []) else
  match r_state r with
  | ROpen | REofPending | REof =>
      let r' := mkR (r_buf r) (r_win r) (r_init r) (r_paused r) RClosePending (r_err r) (r_out r) in
      if r_paused r then (r_finish r', []) else r_flush r' None
  | _ => (r_fail r, [])
  end.

Definition r_pause (r : receiver) : receiver :=
  mkR (r_buf r) (r_win r) (r_init r) true (r_state r) (r_err r) (r_out r).

(* resume_reading: no-op unless paused *)
Definition r_resume (r : receiver) (k : option nat) : receiver * list pkt :=
  match k with
  | Some O => (r, [])            (* the session does not resume at all *)
  | _ => if r_paused r then r_flush r k else (r, [])
  end.

(* ---- the system: sender, forward wire, backward wire, receiver --------------------------- *)

Record sys := mkSys {
  snd_ : sender; rcv_ : receiver;
  fwd : list pkt;                 (* sender -> receiver, FIFO *)
  back : list pkt;                (* receiver -> sender, FIFO (window adjusts) *)
  written : list tok;             (* what the sending application handed over, in order *)
  stuck : bool }.                 (* the send loop failed to terminate *)

Inductive op :=
| OWrite (dt : Z) (d : list Z) | OEof | OClose
| OPause | OResume (k : option nat)
| ODeliverFwd | ODeliverBack
| ORaw (dt : Z) (d : list Z).     (* a peer that ignores the window: a data packet put on the wire regardless *)

Definition upd_snd (strict : bool) (y : sys) (res : option (sender * list pkt)) (w : list tok) : sys :=
  match res with
  | None => mkSys (snd_ y) (rcv_ y) (fwd y) (back y) (written y) true
  | Some (s', out) => mkSys s' (rcv_ y) (fwd y ++ out) (back y) (written y ++ w) (stuck y)
  end.

Definition upd_rcv (y : sys) (res : receiver * list pkt) (fwd' : list pkt) : sys :=
  let '(r', adj) := res in mkSys (snd_ y) r' fwd' (back y ++ adj) (written y) (stuck y).

Definition step (strict : bool) (y : sys) (o : op) : sys :=
  if stuck y then y else
  match o with
  | OWrite dt d =>
      match s_state (snd_ y) with
      | SOpen => upd_snd strict y (s_write (snd_ y) dt d) (toks_of dt d)
      | _ => y
      end
  | OEof =>
      match s_state (snd_ y) with
      | SOpen => upd_snd strict y (s_eof (snd_ y)) [TEof]
      | _ => y
      end
  | OClose =>
      match s_state (snd_ y) with
      | SClosePending | SClosed => y
      | _ => upd_snd strict y (s_close (snd_ y)) [TClose]
      end
  | OPause => mkSys (snd_ y) (r_pause (rcv_ y)) (fwd y) (back y) (written y) (stuck y)
  | OResume k => upd_rcv y (r_resume (rcv_ y) k) (fwd y)
  | ODeliverFwd =>
      match fwd y with
      | [] => y
      | PData dt d :: rest => upd_rcv y (r_data strict (rcv_ y) dt d) rest
      | PEof :: rest => upd_rcv y (r_eof (rcv_ y)) rest
      | PClose :: rest => upd_rcv y (r_close (rcv_ y)) rest
      | PAdjust _ :: rest => mkSys (snd_ y) (rcv_ y) rest (back y) (written y) (stuck y)
      end
  | ODeliverBack =>
      match back y with
      | [] => y
      | PAdjust n :: rest =>
          match s_adjust (snd_ y) n with
          | None => mkSys (snd_ y) (rcv_ y) (fwd y) rest (written y) true
          | Some (s', out) => mkSys s' (rcv_ y) (fwd y ++ out) rest (written y) (stuck y)
          end
      | _ :: rest => mkSys (snd_ y) (rcv_ y) (fwd y) rest (written y) (stuck y)
      end
  | ORaw dt d => mkSys (snd_ y) (rcv_ y) (fwd y ++ [PData dt d]) (back y) (written y) (stuck y)
  end.

(* a freshly opened channel: the sender was given the receiver's window and packet size *)
Definition init_sys (window pktsize : Z) : sys :=
  mkSys (mkS [] window pktsize SOpen) (mkR [] window window false ROpen false []) [] [] [] false.

Definition run (strict : bool) (window pktsize : Z) (ops : list op) : sys :=
  fold_left (step strict) ops (init_sys window pktsize).

(* connection.py _process_channel_open / _process_channel_open_confirmation as repaired:
   a peer-supplied maximum packet size is accepted only if it is at least 1 after the dropbear
   workaround (which subtracts 1 when the peer is dropbear and compression is on). *)
Definition open_pktsize_ok (pktsize : Z) (dropbear_compress : bool) : option Z :=
  let p := if dropbear_compress then pktsize - 1 else pktsize in
  if p <=? 0 then None else Some p.
