(* C09 - Executable model of channel / connection close, cleanup and waiter resolution.
   One ENDPOINT of an SSH connection (client or server role) with any number of session
   channels; the peer, the transport and the event loop are the environment (ops).
   Sources modelled (all in /repo/asyncssh):
     channel.py    SSHChannel._cleanup, _close_send, _discard_recv, _pause_resume_writing,
                   _flush_send_buf (tail: pending EOF / CLOSE), _flush_recv_buf, _accept_data,
                   process_connection_close, process_open, _finish_open_request,
                   process_open_confirmation, process_open_failure, _process_window_adjust,
                   _process_data, _process_eof, _process_close, _process_request/_report_response,
                   _process_response, _open, send_packet, _make_request, abort, close, write,
                   write_eof, pause_reading, resume_reading, wait_closed, _start_reading,
                   SSHClientChannel.create (open -> optional pty-req -> shell/exec/subsystem)
     connection.py _cleanup, _force_close, connection_lost, data_received/_recv_data error paths,
                   _finish_recv_packet (receive sequence number frozen once the transport is given
                   up: exactly one more packet can be processed), add_channel, remove_channel,
                   _make_global_request, _process_global_response, _process_disconnect,
                   _process_channel_open / _open_confirmation / _open_failure, abort, close,
                   disconnect, wait_closed, the connect() waiter (_wait / _waiter)
     stream.py     SSHStreamSession.connection_lost, data_received, eof_received, pause_writing,
                   resume_writing, read (block / wake), drain (block / wake)
   asyncio is modelled as a FIFO ready queue of continuations (call_soon callbacks and task
   wake-ups); an op runs atomically up to its next suspension point.
   Abstractions: no byte counts - the send buffer is a class (empty / at or below the water mark /
   above it) chosen by the environment at every write and window adjust (flow control outcomes
   are adversarial), the channel receive buffer is empty / non-empty; sessions are passive (they
   do not call back into the channel from inside a callback).  No proofs here. *)
From AV Require Import Base.Prelude.
Local Open Scope nat_scope.

Inductive sstate := SOpen | SEofPending | SEof | SClosePending | SClosed.
Inductive rstate := ROpen | REofPending | REof | RClosePending | RClosed.
Inductive pstate := PStarting | PPaused | PRunning.      (* _recv_paused: 'starting' | True | False *)
Inductive bcls := BEmpty | BLow | BHigh.                 (* _send_buf: empty | <= low = high water | above *)
Inductive sess := SNone | SLive | SGone.                 (* _session: not yet | set | reset by _cleanup *)
Inductive stage := StPty | StFinal.                      (* create(): pty-req, then shell/exec/subsystem *)
Inductive wres := WOk | WFalse | WErr.                   (* how an awaited call completed *)

(* program counter of the SSHClientChannel.create() coroutine of a channel *)
Inductive cpc :=
| CNone                                  (* not a locally opened channel *)
| CStart                                 (* task created, not yet started *)
| CWaitOpen                              (* awaiting _open_waiter *)
| COpenRes (r : wres)                    (* _open_waiter resolved, wake-up queued *)
| CMade                                  (* transient inside one run: session created and told connection_made *)
| CWaitReq (st : stage)                  (* awaiting the head of _request_waiters *)
| CReqRes (st : stage) (r : wres)        (* request waiter resolved, wake-up queued *)
| CDone (r : wres).                      (* create_session returned (WOk) or raised (WErr) *)

Inductive cb := CbMade | CbStarted | CbData | CbEof | CbLost (e : bool).   (* session callbacks *)
Inductive ocb := OMade | OAuth | OLost (e : bool).                         (* owner callbacks *)
Inductive wkind := WCreate | WClosed | WRead | WDrain | WGlobal | WConnClosed | WConnect.
Definition dev := (wkind * nat * wres)%type.             (* an awaited API call completed *)

Inductive pkt :=
| KtOpen (c : nat) | KtConfirm (c : nat) | KtOpenFail | KtEof (c : nat) | KtClose (c : nat)
| KtReq (c : nat) (st : stage) | KtReply (c : nat) (ok : bool)
| KtGlobal | KtDisconnect.

Inductive kont :=
| KConnCleanup (e : bool)                (* call_soon(conn._cleanup, exc); e: exc is not None *)
| KChanCleanup (c : nat) (e : bool)      (* call_soon(chan._cleanup, exc) *)
| KCreate (c : nat)                      (* (re)start of the create() coroutine of channel c *)
| KStartReading (c : nat)                (* task chan._start_reading() *)
| KFinishOpen (c : nat).                 (* task chan._finish_open_request(session) *)

(* one endpoint's view of a channel (record and field setters are mechanical) *)
Record chan := mkChan {
  ss : sstate;
  rs : rstate;
  schan : bool;
  sbuf : bcls;
  spaused : bool;
  rbuf : bool;
  rpause : pstate;
  pc : cpc;
  handle : bool;
  pty : bool;
  keep : bool;
  se : sess;
  eofd : bool;
  clog : list cb;
  reg : bool;
  cev : bool;
  closed_w : nat;
  ncleanup : nat;
  st_rd : bool;
  st_dr : nat;
  st_wp : bool;
  st_eof : bool;
  st_data : bool
}.
Definition set_ss (v : sstate) (r : chan) : chan := mkChan v (rs r) (schan r) (sbuf r) (spaused r) (rbuf r) (rpause r) (pc r) (handle r) (pty r) (keep r) (se r) (eofd r) (clog r) (reg r) (cev r) (closed_w r) (ncleanup r) (st_rd r) (st_dr r) (st_wp r) (st_eof r) (st_data r).
Definition set_rs (v : rstate) (r : chan) : chan := mkChan (ss r) v (schan r) (sbuf r) (spaused r) (rbuf r) (rpause r) (pc r) (handle r) (pty r) (keep r) (se r) (eofd r) (clog r) (reg r) (cev r) (closed_w r) (ncleanup r) (st_rd r) (st_dr r) (st_wp r) (st_eof r) (st_data r).
Definition set_schan (v : bool) (r : chan) : chan := mkChan (ss r) (rs r) v (sbuf r) (spaused r) (rbuf r) (rpause r) (pc r) (handle r) (pty r) (keep r) (se r) (eofd r) (clog r) (reg r) (cev r) (closed_w r) (ncleanup r) (st_rd r) (st_dr r) (st_wp r) (st_eof r) (st_data r).
Definition set_sbuf (v : bcls) (r : chan) : chan := mkChan (ss r) (rs r) (schan r) v (spaused r) (rbuf r) (rpause r) (pc r) (handle r) (pty r) (keep r) (se r) (eofd r) (clog r) (reg r) (cev r) (closed_w r) (ncleanup r) (st_rd r) (st_dr r) (st_wp r) (st_eof r) (st_data r).
Definition set_spaused (v : bool) (r : chan) : chan := mkChan (ss r) (rs r) (schan r) (sbuf r) v (rbuf r) (rpause r) (pc r) (handle r) (pty r) (keep r) (se r) (eofd r) (clog r) (reg r) (cev r) (closed_w r) (ncleanup r) (st_rd r) (st_dr r) (st_wp r) (st_eof r) (st_data r).
Definition set_rbuf (v : bool) (r : chan) : chan := mkChan (ss r) (rs r) (schan r) (sbuf r) (spaused r) v (rpause r) (pc r) (handle r) (pty r) (keep r) (se r) (eofd r) (clog r) (reg r) (cev r) (closed_w r) (ncleanup r) (st_rd r) (st_dr r) (st_wp r) (st_eof r) (st_data r).
Definition set_rpause (v : pstate) (r : chan) : chan := mkChan (ss r) (rs r) (schan r) (sbuf r) (spaused r) (rbuf r) v (pc r) (handle r) (pty r) (keep r) (se r) (eofd r) (clog r) (reg r) (cev r) (closed_w r) (ncleanup r) (st_rd r) (st_dr r) (st_wp r) (st_eof r) (st_data r).
Definition set_pc (v : cpc) (r : chan) : chan := mkChan (ss r) (rs r) (schan r) (sbuf r) (spaused r) (rbuf r) (rpause r) v (handle r) (pty r) (keep r) (se r) (eofd r) (clog r) (reg r) (cev r) (closed_w r) (ncleanup r) (st_rd r) (st_dr r) (st_wp r) (st_eof r) (st_data r).
Definition set_handle (v : bool) (r : chan) : chan := mkChan (ss r) (rs r) (schan r) (sbuf r) (spaused r) (rbuf r) (rpause r) (pc r) v (pty r) (keep r) (se r) (eofd r) (clog r) (reg r) (cev r) (closed_w r) (ncleanup r) (st_rd r) (st_dr r) (st_wp r) (st_eof r) (st_data r).
Definition set_pty (v : bool) (r : chan) : chan := mkChan (ss r) (rs r) (schan r) (sbuf r) (spaused r) (rbuf r) (rpause r) (pc r) (handle r) v (keep r) (se r) (eofd r) (clog r) (reg r) (cev r) (closed_w r) (ncleanup r) (st_rd r) (st_dr r) (st_wp r) (st_eof r) (st_data r).
Definition set_keep (v : bool) (r : chan) : chan := mkChan (ss r) (rs r) (schan r) (sbuf r) (spaused r) (rbuf r) (rpause r) (pc r) (handle r) (pty r) v (se r) (eofd r) (clog r) (reg r) (cev r) (closed_w r) (ncleanup r) (st_rd r) (st_dr r) (st_wp r) (st_eof r) (st_data r).
Definition set_se (v : sess) (r : chan) : chan := mkChan (ss r) (rs r) (schan r) (sbuf r) (spaused r) (rbuf r) (rpause r) (pc r) (handle r) (pty r) (keep r) v (eofd r) (clog r) (reg r) (cev r) (closed_w r) (ncleanup r) (st_rd r) (st_dr r) (st_wp r) (st_eof r) (st_data r).
Definition set_eofd (v : bool) (r : chan) : chan := mkChan (ss r) (rs r) (schan r) (sbuf r) (spaused r) (rbuf r) (rpause r) (pc r) (handle r) (pty r) (keep r) (se r) v (clog r) (reg r) (cev r) (closed_w r) (ncleanup r) (st_rd r) (st_dr r) (st_wp r) (st_eof r) (st_data r).
Definition set_clog (v : list cb) (r : chan) : chan := mkChan (ss r) (rs r) (schan r) (sbuf r) (spaused r) (rbuf r) (rpause r) (pc r) (handle r) (pty r) (keep r) (se r) (eofd r) v (reg r) (cev r) (closed_w r) (ncleanup r) (st_rd r) (st_dr r) (st_wp r) (st_eof r) (st_data r).
Definition set_reg (v : bool) (r : chan) : chan := mkChan (ss r) (rs r) (schan r) (sbuf r) (spaused r) (rbuf r) (rpause r) (pc r) (handle r) (pty r) (keep r) (se r) (eofd r) (clog r) v (cev r) (closed_w r) (ncleanup r) (st_rd r) (st_dr r) (st_wp r) (st_eof r) (st_data r).
Definition set_cev (v : bool) (r : chan) : chan := mkChan (ss r) (rs r) (schan r) (sbuf r) (spaused r) (rbuf r) (rpause r) (pc r) (handle r) (pty r) (keep r) (se r) (eofd r) (clog r) (reg r) v (closed_w r) (ncleanup r) (st_rd r) (st_dr r) (st_wp r) (st_eof r) (st_data r).
Definition set_closed_w (v : nat) (r : chan) : chan := mkChan (ss r) (rs r) (schan r) (sbuf r) (spaused r) (rbuf r) (rpause r) (pc r) (handle r) (pty r) (keep r) (se r) (eofd r) (clog r) (reg r) (cev r) v (ncleanup r) (st_rd r) (st_dr r) (st_wp r) (st_eof r) (st_data r).
Definition set_ncleanup (v : nat) (r : chan) : chan := mkChan (ss r) (rs r) (schan r) (sbuf r) (spaused r) (rbuf r) (rpause r) (pc r) (handle r) (pty r) (keep r) (se r) (eofd r) (clog r) (reg r) (cev r) (closed_w r) v (st_rd r) (st_dr r) (st_wp r) (st_eof r) (st_data r).
Definition set_st_rd (v : bool) (r : chan) : chan := mkChan (ss r) (rs r) (schan r) (sbuf r) (spaused r) (rbuf r) (rpause r) (pc r) (handle r) (pty r) (keep r) (se r) (eofd r) (clog r) (reg r) (cev r) (closed_w r) (ncleanup r) v (st_dr r) (st_wp r) (st_eof r) (st_data r).
Definition set_st_dr (v : nat) (r : chan) : chan := mkChan (ss r) (rs r) (schan r) (sbuf r) (spaused r) (rbuf r) (rpause r) (pc r) (handle r) (pty r) (keep r) (se r) (eofd r) (clog r) (reg r) (cev r) (closed_w r) (ncleanup r) (st_rd r) v (st_wp r) (st_eof r) (st_data r).
Definition set_st_wp (v : bool) (r : chan) : chan := mkChan (ss r) (rs r) (schan r) (sbuf r) (spaused r) (rbuf r) (rpause r) (pc r) (handle r) (pty r) (keep r) (se r) (eofd r) (clog r) (reg r) (cev r) (closed_w r) (ncleanup r) (st_rd r) (st_dr r) v (st_eof r) (st_data r).
Definition set_st_eof (v : bool) (r : chan) : chan := mkChan (ss r) (rs r) (schan r) (sbuf r) (spaused r) (rbuf r) (rpause r) (pc r) (handle r) (pty r) (keep r) (se r) (eofd r) (clog r) (reg r) (cev r) (closed_w r) (ncleanup r) (st_rd r) (st_dr r) (st_wp r) v (st_data r).
Definition set_st_data (v : bool) (r : chan) : chan := mkChan (ss r) (rs r) (schan r) (sbuf r) (spaused r) (rbuf r) (rpause r) (pc r) (handle r) (pty r) (keep r) (se r) (eofd r) (clog r) (reg r) (cev r) (closed_w r) (ncleanup r) (st_rd r) (st_dr r) (st_wp r) (st_eof r) v.

(* the connection *)
Record conn := mkConn {
  chans : list chan;
  transport : bool;
  rx_ok : bool;
  closed : bool;
  glob_w : nat;
  cclosed_w : nat;
  connect_w : bool;
  owner_live : bool;
  olog : list ocb;
  ready : list kont;
  out : list pkt;
  done : list dev
}.
Definition set_chans (v : list chan) (r : conn) : conn := mkConn v (transport r) (rx_ok r) (closed r) (glob_w r) (cclosed_w r) (connect_w r) (owner_live r) (olog r) (ready r) (out r) (done r).
Definition set_transport (v : bool) (r : conn) : conn := mkConn (chans r) v (rx_ok r) (closed r) (glob_w r) (cclosed_w r) (connect_w r) (owner_live r) (olog r) (ready r) (out r) (done r).
Definition set_rx_ok (v : bool) (r : conn) : conn := mkConn (chans r) (transport r) v (closed r) (glob_w r) (cclosed_w r) (connect_w r) (owner_live r) (olog r) (ready r) (out r) (done r).
Definition set_closed (v : bool) (r : conn) : conn := mkConn (chans r) (transport r) (rx_ok r) v (glob_w r) (cclosed_w r) (connect_w r) (owner_live r) (olog r) (ready r) (out r) (done r).
Definition set_glob_w (v : nat) (r : conn) : conn := mkConn (chans r) (transport r) (rx_ok r) (closed r) v (cclosed_w r) (connect_w r) (owner_live r) (olog r) (ready r) (out r) (done r).
Definition set_cclosed_w (v : nat) (r : conn) : conn := mkConn (chans r) (transport r) (rx_ok r) (closed r) (glob_w r) v (connect_w r) (owner_live r) (olog r) (ready r) (out r) (done r).
Definition set_connect_w (v : bool) (r : conn) : conn := mkConn (chans r) (transport r) (rx_ok r) (closed r) (glob_w r) (cclosed_w r) v (owner_live r) (olog r) (ready r) (out r) (done r).
Definition set_owner_live (v : bool) (r : conn) : conn := mkConn (chans r) (transport r) (rx_ok r) (closed r) (glob_w r) (cclosed_w r) (connect_w r) v (olog r) (ready r) (out r) (done r).
Definition set_olog (v : list ocb) (r : conn) : conn := mkConn (chans r) (transport r) (rx_ok r) (closed r) (glob_w r) (cclosed_w r) (connect_w r) (owner_live r) v (ready r) (out r) (done r).
Definition set_ready (v : list kont) (r : conn) : conn := mkConn (chans r) (transport r) (rx_ok r) (closed r) (glob_w r) (cclosed_w r) (connect_w r) (owner_live r) (olog r) v (out r) (done r).
Definition set_out (v : list pkt) (r : conn) : conn := mkConn (chans r) (transport r) (rx_ok r) (closed r) (glob_w r) (cclosed_w r) (connect_w r) (owner_live r) (olog r) (ready r) v (done r).
Definition set_done (v : list dev) (r : conn) : conn := mkConn (chans r) (transport r) (rx_ok r) (closed r) (glob_w r) (cclosed_w r) (connect_w r) (owner_live r) (olog r) (ready r) (out r) v.

(* ---------------------------------------------------------------------------------------- *)
(* Channel-level code runs in a context: the channel, and the continuations scheduled, packets
   sent and awaited calls completed so far by the running handler.                            *)
Record cx := mkCx { x_ch : chan; x_k : list kont; x_p : list pkt; x_d : list dev }.
Definition upc (f : chan -> chan) (x : cx) : cx :=
  match x with mkCx ch k p d => mkCx (f ch) k p d end.
Definition xk (k0 : kont) (x : cx) : cx :=
  match x with mkCx ch k p d => mkCx ch (k ++ [k0]) p d end.
Definition xp (p0 : pkt) (x : cx) : cx :=
  match x with mkCx ch k p d => mkCx ch k (p ++ [p0]) d end.
Definition xds (d0 : list dev) (x : cx) : cx :=
  match x with mkCx ch k p d => mkCx ch k p (d ++ d0) end.
(* SSHChannel.send_packet: silently dropped when _send_chan is None *)
Definition csend (p0 : pkt) (x : cx) : cx :=
  match x with mkCx ch k p d => if schan ch then mkCx ch k (p ++ [p0]) d else mkCx ch k p d end.
Definition addlog (e : cb) (ch : chan) : chan := set_clog (clog ch ++ [e]) ch.

(* `force x f` = f x (lemma force_eq).  Every channel-level handler is written `force x (fun x => body)`:
   the handler waits for its argument to be a constructor term before its body (which mentions x
   several times) is entered, which keeps symbolic evaluation in the proofs linear. *)
Definition force (x : cx) (f : cx -> cx) : cx :=
  match x with
  | mkCx ch k p d =>
      match ch with
      | mkChan a0 a1 a2 a3 a4 a5 a6 a7 a8 a9 a10 a11 a12 a13 a14 a15 a16 a17 a18 a19 a20 a21 a22 => f (mkCx (mkChan a0 a1 a2 a3 a4 a5 a6 a7 a8 a9 a10 a11 a12 a13 a14 a15 a16 a17 a18 a19 a20 a21 a22) k p d)
      end
  end.

Definition ss_closing (s : sstate) : bool := match s with SClosePending | SClosed => true | _ => false end.
Definition rs_openish (r : rstate) : bool := match r with ROpen | REofPending | REof => true | _ => false end.

(* ---- stream.py: SSHStreamSession callbacks --------------------------------------------- *)
(* _unblock_read *)
Definition wake_read (c : nat) (r : wres) (x : cx) : cx :=
  force x (fun x =>
  if st_rd (x_ch x) then xds [(WRead, c, r)] (upc (set_st_rd false) x) else x).
(* _unblock_drain for every drain waiter (caller has established not _should_block_drain) *)
Definition wake_drains (c : nat) (r : wres) (x : cx) : cx :=
  force x (fun x =>
  xds (repeat (WDrain, c, r) (st_dr (x_ch x))) (upc (set_st_dr 0) x)).
(* channel._deliver_data -> session.data_received (only `if self._session is not None`) *)
Definition sess_data (c : nat) (x : cx) : cx :=
  force x (fun x =>
  match se (x_ch x) with
  | SLive => if st_rd (x_ch x)
             then wake_read c WOk (upc (addlog CbData) x)          (* the blocked reader takes it *)
             else upc (fun ch => addlog CbData (set_st_data true ch)) x
  | _ => x
  end).
(* session.eof_received: _eof_received = True, readers unblocked *)
Definition sess_eof (c : nat) (x : cx) : cx :=
  force x (fun x =>
  match se (x_ch x) with
  | SLive => wake_read c WOk (upc (fun ch => addlog CbEof (set_eofd true (set_st_eof true ch))) x)
  | _ => x
  end).
(* session.connection_lost(exc): _connection_lost = True; if no EOF yet the exception is queued
   for readers and eof_received() runs; every drain waiter is released; then _session = None *)
Definition sess_lost (c : nat) (e : bool) (x : cx) : cx :=
  force x (fun x =>
  let x := upc (addlog (CbLost e)) x in
  let x := if st_eof (x_ch x) then x
           else wake_read c (if e then WErr else WOk) (upc (set_st_eof true) x) in
  let x := wake_drains c WErr x in
  upc (set_se SGone) x).

(* ---- channel.py ------------------------------------------------------------------------- *)
(* _pause_resume_writing (water marks low = high) *)
Definition prw (c : nat) (x : cx) : cx :=
  force x (fun x =>
  let ch := x_ch x in
  if spaused ch then
    match sbuf ch with
    | BHigh => x
    | _ => let x := upc (set_spaused false) x in
           match se ch with
           | SLive => wake_drains c WOk (upc (set_st_wp false) x)      (* session.resume_writing *)
           | _ => x
           end
    end
  else
    match sbuf ch with
    | BHigh => let x := upc (set_spaused true) x in
               match se ch with
               | SLive => upc (set_st_wp true) x                       (* session.pause_writing *)
               | _ => x
               end
    | _ => x
    end).

(* _close_send *)
Definition close_send (c : nat) (x : cx) : cx :=
  force x (fun x =>
  let x := upc (set_sbuf BEmpty) x in
  match ss (x_ch x) with
  | SClosed => x
  | _ => upc (fun ch => set_ss SClosed (set_schan false ch)) (csend (KtClose c) x)
  end).

(* tail of _flush_send_buf (after the send loop left the buffer in class sbuf) *)
Definition flush_tail2 (c : nat) (x : cx) : cx :=
  force x (fun x =>
  match sbuf (x_ch x) with
  | BEmpty => match ss (x_ch x) with
              | SEofPending => upc (set_ss SEof) (csend (KtEof c) x)
              | SClosePending => close_send c x
              | _ => x
              end
  | _ => x
  end).
Definition flush_tail (c : nat) (x : cx) : cx := flush_tail2 c (prw c x).

(* write_eof *)
Definition write_eof (c : nat) (x : cx) : cx :=
  force x (fun x =>
  match ss (x_ch x) with
  | SOpen => flush_tail c (upc (set_ss SEofPending) x)
  | _ => x
  end).

(* write(data) with non-empty data: the environment says in which class the buffer ends up *)
Definition chan_write (c : nat) (cls : bcls) (x : cx) : cx :=
  force x (fun x =>
  match ss (x_ch x) with
  | SOpen => flush_tail c (upc (set_sbuf cls) x)
  | _ => x                                          (* BrokenPipeError *)
  end).

(* _process_window_adjust after its recv_state check *)
Definition chan_adjust (c : nat) (cls : bcls) (x : cx) : cx :=
  force x (fun x =>
  let x := match sbuf (x_ch x) with BEmpty => x | _ => upc (set_sbuf cls) x end in
  flush_tail c x).

(* _flush_recv_buf(exc): deliver buffered data unless paused; then a pending EOF; then a pending close *)
Definition flush_recv1 (c : nat) (x : cx) : cx :=
  force x (fun x =>
  match rbuf (x_ch x), rpause (x_ch x) with
  | true, PRunning => sess_data c (upc (set_rbuf false) x)
  | _, _ => x
  end).
(* recv_state eof_pending -> eof, session.eof_received(); a False answer half-closes our side too *)
Definition eof_deliver (c : nat) (x : cx) : cx := sess_eof c (upc (set_rs REof) x).
Definition eof_answer (c : nat) (x : cx) : cx :=
  force x (fun x =>
  if negb (keep (x_ch x)) then write_eof c x else x).
Definition flush_recv2 (c : nat) (x : cx) : cx :=
  force x (fun x =>
  match rbuf (x_ch x), rpause (x_ch x), rs (x_ch x) with
  | false, PStarting, _ => x
  | false, _, REofPending => eof_answer c (eof_deliver c x)
  | _, _, _ => x
  end).
Definition flush_recv3 (c : nat) (e : bool) (x : cx) : cx :=
  force x (fun x =>
  match rbuf (x_ch x), rs (x_ch x) with
  | false, RClosePending => xk (KChanCleanup c e) (upc (set_rs RClosed) x)
  | _, _ => x
  end).
Definition flush_recv (c : nat) (e : bool) (x : cx) : cx :=
  force x (fun x =>
  flush_recv3 c e (flush_recv2 c (flush_recv1 c x))).

(* _discard_recv *)
Definition discard_recv (c : nat) (x : cx) : cx :=
  force x (fun x =>
  let x := upc (fun ch => set_rpause PRunning (set_rbuf false ch)) x in
  match rs (x_ch x) with
  | RClosePending => xk (KChanCleanup c false) (upc (set_rs RClosed) x)
  | _ => x
  end).

(* close() / abort(): the sending half, then (both) the receiving half *)
Definition chan_close1 (c : nat) (x : cx) : cx :=
  force x (fun x =>
  if ss_closing (ss (x_ch x)) then x else flush_tail c (upc (set_ss SClosePending) x)).
Definition chan_abort1 (c : nat) (x : cx) : cx :=
  force x (fun x =>
  if ss_closing (ss (x_ch x)) then x else close_send c x).
Definition chan_close2 (c : nat) (x : cx) : cx :=
  force x (fun x =>
  match rs (x_ch x) with RClosed => x | _ => discard_recv c x end).
Definition chan_close (c : nat) (x : cx) : cx := chan_close2 c (chan_close1 c x).
Definition chan_abort (c : nat) (x : cx) : cx := chan_close2 c (chan_abort1 c x).

(* pause_reading / resume_reading *)
Definition chan_pause (x : cx) : cx := upc (set_rpause PPaused) x.
Definition chan_resume (c : nat) (x : cx) : cx :=
  force x (fun x =>
  match rpause (x_ch x) with
  | PRunning => x
  | _ => flush_recv c false (upc (set_rpause PRunning) x)
  end).

(* _cleanup(exc): open / request waiters, session, close event, unregistration *)
Definition cleanup1 (c : nat) (e : bool) (x : cx) : cx :=
  force x (fun x =>
  match pc (x_ch x) with
  | CWaitOpen => xk (KCreate c) (upc (set_pc (COpenRes WErr)) x)
  | CWaitReq st => xk (KCreate c) (upc (set_pc (CReqRes st (if e then WErr else WFalse))) x)
  | _ => x
  end).
Definition cleanup2 (c : nat) (e : bool) (x : cx) : cx :=
  force x (fun x =>
  match se (x_ch x) with SLive => sess_lost c e x | _ => x end).
Definition cleanup3 (c : nat) (x : cx) : cx :=
  force x (fun x =>
  xds (repeat (WClosed, c, WOk) (closed_w (x_ch x)))
      (upc (fun ch => set_closed_w 0 (set_cev true ch)) x)).
Definition cleanup4 (x : cx) : cx :=
  force x (fun x =>
  if reg (x_ch x)
  then upc (fun ch => set_ncleanup (S (ncleanup ch)) (set_schan false (set_reg false ch))) x
  else x).
Definition chan_cleanup (c : nat) (e : bool) (x : cx) : cx :=
  force x (fun x =>
  cleanup4 (cleanup3 c (cleanup2 c e (cleanup1 c e x)))).

(* process_connection_close(exc) *)
Definition conn_close_chan (c : nat) (e : bool) (x : cx) : cx :=
  force x (fun x =>
  chan_cleanup c e (close_send c (upc (set_ss SClosed) x))).

(* _process_data after its checks: _accept_data *)
Definition chan_data (c : nat) (x : cx) : cx :=
  force x (fun x =>
  if ss_closing (ss (x_ch x)) then x
  else match rpause (x_ch x) with
       | PRunning => sess_data c x
       | _ => upc (set_rbuf true) x
       end).

(* _process_eof / _process_close after their checks *)
Definition chan_peof (c : nat) (x : cx) : cx := flush_recv c false (upc (set_rs REofPending) x).
Definition chan_pclose (c : nat) (x : cx) : cx :=
  force x (fun x =>
  flush_recv c false (upc (set_rs RClosePending) (close_send c x))).

(* _process_request -> handler -> _report_response (synchronous handlers) *)
Definition chan_request1 (c : nat) (want accept : bool) (x : cx) : cx :=
  force x (fun x =>
  if want && negb (ss_closing (ss (x_ch x))) then csend (KtReply c accept) x else x).
Definition chan_request2 (c : nat) (x : cx) : cx :=
  force x (fun x =>
  chan_resume c (match se (x_ch x) with SLive => upc (addlog CbStarted) x | _ => x end)).
Definition chan_request (c : nat) (final want accept : bool) (x : cx) : cx :=
  force x (fun x =>
  if accept && final then chan_request2 c (chan_request1 c want accept x)
  else chan_request1 c want accept x).

(* SSHClientChannel.create(): one run of the coroutine up to its next suspension *)
Definition create_done (c : nat) (r : wres) (x : cx) : cx :=
  force x (fun x =>
  xds [(WCreate, c, r)] (upc (set_pc (CDone r)) x)).
(* `if not result: self.close(); raise ChannelOpenError` *)
Definition req_false (c : nat) (x : cx) : cx := create_done c WErr (chan_close c x).
(* _make_request: returns False at once when _send_chan is None *)
Definition req_sent (c : nat) (st : stage) (x : cx) : cx :=
  force x (fun x =>
  upc (set_pc (CWaitReq st)) (csend (KtReq c st) x)).
Definition make_request (c : nat) (st : stage) (x : cx) : cx :=
  force x (fun x =>
  if schan (x_ch x) then req_sent c st x else req_false c x).
(* channel constructor (add_channel) + _open; session_factory() + connection_made;
   session_started() + create_task(_start_reading) *)
Definition create_start (c : nat) (tr : bool) (x : cx) : cx :=
  force x (fun x =>
  if tr then xp (KtOpen c) (upc (fun ch => set_pc CWaitOpen (set_reg true ch)) x)
  else create_done c WErr x).
Definition sess_made (x : cx) : cx := upc (fun ch => set_pc CMade (addlog CbMade (set_se SLive ch))) x.
Definition sess_started (c : nat) (x : cx) : cx :=
  force x (fun x =>
  xk (KStartReading c) (create_done c WOk (upc (fun ch => set_handle true (addlog CbStarted ch)) x))).
(* `guard` = the check added by /repo cd5d87d in SSHChannel._open(): once the open waiter has been
   resolved the opener re-checks that the channel still has its connection (false = the code before
   that commit: the session was created and told connection_made on a cleaned-up channel) *)
Definition create_step_gen (guard : bool) (c : nat) (tr : bool) (x : cx) : cx :=
  force x (fun x =>
  match pc (x_ch x) with
  | CStart => create_start c tr x                            (* add_channel raises without transport *)
  | COpenRes WOk =>
      if guard && negb (reg (x_ch x)) then create_done c WErr x
      else make_request c (if pty (x_ch x) then StPty else StFinal) (sess_made x)
  | COpenRes _ => create_done c WErr x
  | CReqRes StPty WOk => make_request c StFinal x
  | CReqRes StFinal WOk =>
      match se (x_ch x) with
      | SLive => sess_started c x
      | _ => create_done c WErr x                             (* self._session is None *)
      end
  | CReqRes _ WFalse => req_false c x
  | CReqRes _ WErr => create_done c WErr x
  | _ => x
  end).

(* _start_reading *)
Definition start_reading (c : nat) (x : cx) : cx :=
  force x (fun x =>
  match rpause (x_ch x) with
  | PStarting => flush_recv c false (upc (set_rpause PRunning) x)
  | _ => x
  end).

(* _finish_open_request (synchronous session object).  When the connection went away in between,
   the session object is told connection_lost(None) (5e4160a) and dropped. *)
Definition finish_open (c : nat) (x : cx) : cx :=
  force x (fun x =>
  match se (x_ch x), pc (x_ch x) with
  | SNone, CNone =>
      if reg (x_ch x)
      then upc (fun ch => set_handle true (addlog CbMade (set_rs ROpen (set_ss SOpen (set_se SLive ch)))))
               (xp (KtConfirm c) x)
      else xk (KChanCleanup c false) (upc (fun ch => addlog (CbLost false) (set_se SGone ch)) x)
  | _, _ => x                                (* the task runs once, on a channel opened by the peer *)
  end).

(* awaited calls of the application on a channel it holds *)
Definition chan_wait_closed (c : nat) (x : cx) : cx :=
  force x (fun x =>
  if handle (x_ch x)
  then if cev (x_ch x) then xds [(WClosed, c, WOk)] x
       else upc (fun ch => set_closed_w (S (closed_w ch)) ch) x
  else x).
Definition chan_read (c : nat) (x : cx) : cx :=
  force x (fun x =>
  if handle (x_ch x)
  then match se (x_ch x) with
       | SLive => if st_data (x_ch x) then xds [(WRead, c, WOk)] (upc (set_st_data false) x)
                  else if st_eof (x_ch x) then xds [(WRead, c, WOk)] x
                  else upc (set_st_rd true) x
       | SGone => xds [(WRead, c, WOk)] x
       | SNone => x
       end
  else x).
Definition chan_drain (c : nat) (x : cx) : cx :=
  force x (fun x =>
  if handle (x_ch x)
  then match se (x_ch x) with
       | SLive => if st_wp (x_ch x) then upc (fun ch => set_st_dr (S (st_dr ch)) ch) x
                  else xds [(WDrain, c, WOk)] x
       | SGone => xds [(WDrain, c, WOk)] x
       | SNone => x
       end
  else x).

Definition new_chan (pcv : cpc) (ptyv keepv regv schanv : bool) : chan :=
  mkChan SClosed RClosed schanv BEmpty false false PStarting pcv false ptyv keepv
         SNone false [] regv false 0 0 false 0 false false false.

(* ---- connection level -------------------------------------------------------------------- *)
Fixpoint upd {A} (i : nat) (v : A) (l : list A) : list A :=
  match l, i with
  | [], _ => []
  | _ :: r, O => v :: r
  | a :: r, S j => a :: upd j v r
  end.

(* fold the effects of a channel handler into the connection; conn._send drops everything once
   the transport is gone *)
Definition merge (c : nat) (x : cx) (s : conn) : conn :=
  set_done (done s ++ x_d x)
    (set_out (out s ++ (if transport s then x_p x else []))
       (set_ready (ready s ++ x_k x)
          (set_chans (upd c (x_ch x) (chans s)) s))).
Definition on_chan (c : nat) (f : cx -> cx) (s : conn) : conn :=
  match nth_error (chans s) c with
  | Some ch => merge c (f (mkCx ch [] [] [])) s
  | None => s
  end.
(* `for chan in list(self._channels.values())`: registered channels in registration order *)
Fixpoint on_regs_from (f : nat -> cx -> cx) (i fuel : nat) (s : conn) : conn :=
  match fuel with
  | O => s
  | S k => on_regs_from f (S i) k
             (match nth_error (chans s) i with
              | Some ch => if reg ch then on_chan i (f i) s else s
              | None => s
              end)
  end.
Definition on_regs (f : nat -> cx -> cx) (s : conn) : conn := on_regs_from f 0 (length (chans s)) s.

Definition emit (p : pkt) (s : conn) : conn := if transport s then set_out (out s ++ [p]) s else s.
Definition add_done (d : list dev) (s : conn) : conn := set_done (done s ++ d) s.

(* _force_close(exc) *)
Definition force_close (e : bool) (s : conn) : conn :=
  if transport s then set_ready (ready s ++ [KConnCleanup e]) (set_transport false s) else s.
(* DisconnectError raised while processing a packet: _send_disconnect, _force_close(exc) *)
Definition proto_err (s : conn) : conn := force_close true (emit KtDisconnect s).

(* SSHConnection._cleanup(exc) *)
Definition conn_cleanup (e : bool) (s : conn) : conn :=
  let s := on_regs (fun c => conn_close_chan c e) s in
  let s := set_glob_w 0 (add_done (repeat (WGlobal, 0, WFalse) (glob_w s)) s) in
  let s := if connect_w s
           then set_connect_w false (add_done [(WConnect, 0, if e then WErr else WOk)] s) else s in
  let s := if owner_live s then set_owner_live false (set_olog (olog s ++ [OLost e]) s) else s in
  set_cclosed_w 0 (add_done (repeat (WConnClosed, 0, WOk) (cclosed_w s)) (set_closed true s)).

Definition run_kont_gen (guard : bool) (k : kont) (s : conn) : conn :=
  match k with
  | KConnCleanup e => conn_cleanup e s
  | KChanCleanup c e => on_chan c (chan_cleanup c e) s
  | KCreate c => on_chan c (create_step_gen guard c (transport s)) s
  | KStartReading c => on_chan c (start_reading c) s
  | KFinishOpen c => on_chan c (finish_open c) s
  end.
Definition run_ready_gen (guard : bool) (s : conn) : conn :=
  match ready s with
  | [] => s
  | k :: r => run_kont_gen guard k (set_ready r s)
  end.
Fixpoint drain_gen (guard : bool) (fuel : nat) (s : conn) : conn :=
  match fuel with O => s | S f => drain_gen guard f (run_ready_gen guard s) end.

(* potential: bounds the number of run_ready steps until the ready queue is empty *)
Definition pc_pot (p : cpc) : nat :=
  match p with
  | CStart | CWaitOpen => 5
  | COpenRes _ | CMade | CWaitReq StPty => 4
  | CReqRes StPty _ | CWaitReq StFinal => 3
  | CReqRes StFinal _ => 2
  | CNone | CDone _ => 0
  end.
Definition pc_queued (p : cpc) : bool :=
  match p with CStart | COpenRes _ | CReqRes _ _ => true | _ => false end.
Definition kont_pot (k : kont) : nat :=
  match k with KStartReading _ | KFinishOpen _ => 2 | _ => 1 end.
Definition sum_of {A} (f : A -> nat) (l : list A) : nat := fold_right (fun a n => f a + n) 0 l.
Definition pot (s : conn) : nat := sum_of kont_pot (ready s) + sum_of (fun ch => pc_pot (pc ch)) (chans s).

(* a packet from the peer is processed while the transport is up, and exactly once more after
   _force_close (the receive sequence number is no longer advanced: every later packet fails its
   MAC check, which changes nothing because _send and _force_close are then no-ops) *)
Definition rx (f : conn -> conn) (s : conn) : conn :=
  if transport s then f s
  else if rx_ok s then f (set_rx_ok false s)
  else s.
(* a channel message: handler looked up in conn._channels, then the handler's own state check *)
Definition chan_pkt (c : nat) (guard : chan -> bool) (f : cx -> cx) (s : conn) : conn :=
  match nth_error (chans s) c with
  | Some ch => if reg ch && guard ch then on_chan c f s else proto_err s
  | None => proto_err s
  end.

Inductive op :=
(* application calls *)
| LOpen (ptyv keepv : bool)          (* asyncio task conn.create_session(...) created *)
| LEof (c : nat) | LClose (c : nat) | LAbort (c : nat) | LWrite (c : nat) (cls : bcls)
| LPause (c : nat) | LResume (c : nat)
| LWaitClosed (c : nat) | LRead (c : nat) | LDrain (c : nat)
| LGlobal | LConnClose | LConnAbort | LConnWaitClosed
(* packets from the peer *)
| PIgnore | PConfirm (c : nat) | PFail (c : nat) | PData (c : nat) | PEof (c : nat) | PClose (c : nat)
| PAdjust (c : nat) (cls : bcls) | PReply (c : nat) (ok : bool) | PGlobalReply (ok : bool)
| PDisconnect (byapp : bool) | POpen (accept keepv : bool)
| PRequest (c : nat) (final want accept : bool) | PBad | PAuthOk
(* environment *)
| Cut                                (* transport reports connection_lost / eof_received *)
| RunReady                           (* the event loop runs the next ready callback *)
| Settle.                            (* ... runs until nothing is ready *)

Definition is_open_wait (ch : chan) : bool := match pc ch with CWaitOpen => true | _ => false end.
Definition is_req_wait (ch : chan) : bool := match pc ch with CWaitReq _ => true | _ => false end.
Definition rs_open (ch : chan) : bool := match rs ch with ROpen => true | _ => false end.
Definition rs_openish_ch (ch : chan) : bool := rs_openish (rs ch).
(* process_open_confirmation / process_open_failure / _process_response after their checks *)
Definition chan_confirm (c : nat) (x : cx) : cx :=
  force x (fun x =>
  xk (KCreate c)
     (upc (fun ch => set_pc (COpenRes WOk) (set_rs ROpen (set_ss SOpen (set_schan true ch)))) x)).
Definition chan_fail (c : nat) (x : cx) : cx :=
  force x (fun x =>
  xk (KChanCleanup c false) (xk (KCreate c) (upc (set_pc (COpenRes WErr)) x))).
Definition chan_reply (c : nat) (ok : bool) (x : cx) : cx :=
  force x (fun x =>
  match pc (x_ch x) with
  | CWaitReq st => xk (KCreate c) (upc (set_pc (CReqRes st (if ok then WOk else WFalse))) x)
  | _ => x
  end).

Definition step_gen (guard : bool) (s : conn) (o : op) : conn :=
  match o with
  | LOpen p k => set_ready (ready s ++ [KCreate (length (chans s))])
                   (set_chans (chans s ++ [new_chan CStart p k false false]) s)
  | LEof c => on_chan c (write_eof c) s
  | LClose c => on_chan c (chan_close c) s
  | LAbort c => on_chan c (chan_abort c) s
  | LWrite c cls => on_chan c (chan_write c cls) s
  | LPause c => on_chan c chan_pause s
  | LResume c => on_chan c (chan_resume c) s
  | LWaitClosed c => on_chan c (chan_wait_closed c) s
  | LRead c => on_chan c (chan_read c) s
  | LDrain c => on_chan c (chan_drain c) s
  | LGlobal => if transport s then emit KtGlobal (set_glob_w (S (glob_w s)) s)
               else add_done [(WGlobal, 0, WFalse)] s
  | LConnClose => force_close false (emit KtDisconnect (on_regs chan_close s))
  | LConnAbort => force_close false s
  | LConnWaitClosed => if closed s then add_done [(WConnClosed, 0, WOk)] s
                       else set_cclosed_w (S (cclosed_w s)) s
  | PIgnore => rx (fun s => s) s
  | PConfirm c => rx (chan_pkt c is_open_wait (chan_confirm c)) s
  | PFail c => rx (chan_pkt c is_open_wait (chan_fail c)) s
  | PData c => rx (chan_pkt c rs_open (chan_data c)) s
  | PEof c => rx (chan_pkt c rs_open (chan_peof c)) s
  | PClose c => rx (chan_pkt c rs_openish_ch (chan_pclose c)) s
  | PAdjust c cls => rx (chan_pkt c rs_openish_ch (chan_adjust c cls)) s
  | PReply c ok => rx (chan_pkt c is_req_wait (chan_reply c ok)) s
  | PGlobalReply ok => rx (fun s => match glob_w s with
                                    | S n => add_done [(WGlobal, 0, if ok then WOk else WFalse)] (set_glob_w n s)
                                    | O => proto_err s
                                    end) s
  | PDisconnect byapp => rx (fun s => force_close (negb byapp || connect_w s) s) s
  | POpen accept k => rx (fun s => if accept && transport s
                                   then set_ready (ready s ++ [KFinishOpen (length (chans s))])
                                          (set_chans (chans s ++ [new_chan CNone false k true true]) s)
                                   else emit KtOpenFail s) s
  | PRequest c final want accept => rx (chan_pkt c rs_openish_ch (chan_request c final want accept)) s
  | PBad => rx proto_err s
  | PAuthOk => rx (fun s => if connect_w s
                            then set_connect_w false (add_done [(WConnect, 0, WOk)] (set_olog (olog s ++ [OAuth]) s))
                            else s) s
  | Cut => force_close true s
  | RunReady => run_ready_gen guard s
  | Settle => drain_gen guard (pot s) s
  end.

(* the model of record: /repo HEAD *)
Definition create_step := create_step_gen true.
Definition run_kont := run_kont_gen true.
Definition run_ready := run_ready_gen true.
Definition drain := drain_gen true.
Definition step := step_gen true.
(* the code before cd5d87d *)
Definition step_old := step_gen false.

Definition run (ops : list op) (s : conn) : conn := fold_left step ops s.
Definition run_old (ops : list op) (s : conn) : conn := fold_left step_old ops s.

(* a fresh connection: transport up, handshake in progress, connect() waiting, owner told
   connection_made *)
Definition init : conn := mkConn [] true true false 0 0 true true [OMade] [] [] [].
