(* C09 - the two-sided close handshake of ONE channel with byte-counted flow control: both endpoints
   (A and B, same code: asyncssh/channel.py) and the two FIFO wires between them.
   Sources modelled: write, write_eof, close, abort, pause_reading, resume_reading, _flush_send_buf,
   _close_send, _discard_recv, _flush_recv_buf, _accept_data, _deliver_data, _process_data,
   _process_window_adjust, _process_eof, _process_close, _cleanup (via call_soon), send_packet.
   Abstractions: a flush sends the sendable bytes as one DATA packet (no max-packet-size splitting),
   buffered receive data is delivered as one chunk on resume; data types and contents are dropped
   (C07/C08 cover them).  `credit` = the repair of /repo 03faaad (window space of discarded / dropped
   receive data is returned to the peer); credit = false is the code before it.  No proofs here. *)
From AV Require Import Base.Prelude Model.Close.
Local Open Scope nat_scope.

Inductive ppkt := QData (n : nat) | QAdjust (n : nat) | QEof | QClose.
Inductive side := SA | SB.

Record ep := mkEp {
  e_ss : sstate;
  e_rs : rstate;
  e_schan : bool;      (* _send_chan is not None *)
  e_sbuf : nat;        (* bytes in _send_buf *)
  e_swin : nat;        (* _send_window *)
  e_rwin : nat;        (* _recv_window *)
  e_rbuf : nat;        (* _recv_buf_len *)
  e_init : nat;        (* _init_recv_window *)
  e_paused : bool;     (* _recv_paused *)
  e_keep : bool;       (* what session.eof_received() answers *)
  e_closing : bool;    (* ghost: the application has called close() or abort() *)
  e_pend : nat;        (* call_soon(_cleanup) callbacks not yet run *)
  e_cleanups : nat;    (* _cleanup runs that unregistered the channel *)
  e_lost : nat;        (* session.connection_lost calls *)
  e_sess : bool;       (* _session is not None *)
  e_reg : bool         (* _conn is not None *)
}.

(* an endpoint action: new state, packets sent, protocol error raised *)
Definition res := (ep * list ppkt * bool)%type.
Definition ok (e : ep) (l : list ppkt) : res := (e, l, false).

Definition w_ss v e := mkEp v (e_rs e) (e_schan e) (e_sbuf e) (e_swin e) (e_rwin e) (e_rbuf e) (e_init e) (e_paused e) (e_keep e) (e_closing e) (e_pend e) (e_cleanups e) (e_lost e) (e_sess e) (e_reg e).

(* SSHChannel.send_packet *)
Definition emit (e : ep) (p : ppkt) : list ppkt := if e_schan e then [p] else [].

(* _close_send *)
Definition close_send (e : ep) : ep * list ppkt :=
  match e_ss e with
  | SClosed => (mkEp SClosed (e_rs e) (e_schan e) 0 (e_swin e) (e_rwin e) (e_rbuf e) (e_init e) (e_paused e) (e_keep e)
                     (e_closing e) (e_pend e) (e_cleanups e) (e_lost e) (e_sess e) (e_reg e), [])
  | _ => (mkEp SClosed (e_rs e) false 0 (e_swin e) (e_rwin e) (e_rbuf e) (e_init e) (e_paused e) (e_keep e)
               (e_closing e) (e_pend e) (e_cleanups e) (e_lost e) (e_sess e) (e_reg e), emit e QClose)
  end.

(* _flush_send_buf *)
Definition flush (e : ep) : ep * list ppkt :=
  let m := Nat.min (e_sbuf e) (e_swin e) in
  let e1 := mkEp (e_ss e) (e_rs e) (e_schan e) (e_sbuf e - m) (e_swin e - m) (e_rwin e) (e_rbuf e) (e_init e)
                 (e_paused e) (e_keep e) (e_closing e) (e_pend e) (e_cleanups e) (e_lost e) (e_sess e) (e_reg e) in
  let o1 := match m with O => [] | _ => emit e (QData m) end in
  match e_sbuf e1 with
  | O => match e_ss e1 with
         | SEofPending => (w_ss SEof e1, o1 ++ emit e1 QEof)
         | SClosePending => let '(e2, o2) := close_send e1 in (e2, o1 ++ o2)
         | _ => (e1, o1)
         end
  | _ => (e1, o1)
  end.

Definition write_eof (e : ep) : ep * list ppkt :=
  match e_ss e with SOpen => flush (w_ss SEofPending e) | _ => (e, []) end.

(* _deliver_data: window used up on delivery, refilled once less than half is left *)
Definition deliver (e : ep) (n : nat) : ep * list ppkt :=
  let w := e_rwin e - n in
  if 2 * w <? e_init e
  then (mkEp (e_ss e) (e_rs e) (e_schan e) (e_sbuf e) (e_swin e) (e_init e) (e_rbuf e) (e_init e) (e_paused e) (e_keep e)
             (e_closing e) (e_pend e) (e_cleanups e) (e_lost e) (e_sess e) (e_reg e), emit e (QAdjust (e_init e - w)))
  else (mkEp (e_ss e) (e_rs e) (e_schan e) (e_sbuf e) (e_swin e) w (e_rbuf e) (e_init e) (e_paused e) (e_keep e)
             (e_closing e) (e_pend e) (e_cleanups e) (e_lost e) (e_sess e) (e_reg e), []).

(* _flush_recv_buf *)
Definition flush_recv (e : ep) : ep * list ppkt :=
  let '(e1, o1) :=
    if (0 <? e_rbuf e) && negb (e_paused e)
    then deliver (mkEp (e_ss e) (e_rs e) (e_schan e) (e_sbuf e) (e_swin e) (e_rwin e) 0 (e_init e) (e_paused e) (e_keep e)
                       (e_closing e) (e_pend e) (e_cleanups e) (e_lost e) (e_sess e) (e_reg e)) (e_rbuf e)
    else (e, []) in
  let '(e2, o2) :=
    match e_rbuf e1, e_rs e1 with
    | O, REofPending =>
        let e' := mkEp (e_ss e1) REof (e_schan e1) (e_sbuf e1) (e_swin e1) (e_rwin e1) (e_rbuf e1) (e_init e1) (e_paused e1)
                       (e_keep e1) (e_closing e1) (e_pend e1) (e_cleanups e1) (e_lost e1) (e_sess e1) (e_reg e1) in
        if negb (e_keep e') then write_eof e' else (e', [])
    | _, _ => (e1, [])
    end in
  match e_rbuf e2, e_rs e2 with
  | O, RClosePending =>
      (mkEp (e_ss e2) RClosed (e_schan e2) (e_sbuf e2) (e_swin e2) (e_rwin e2) (e_rbuf e2) (e_init e2) (e_paused e2)
            (e_keep e2) (e_closing e2) (S (e_pend e2)) (e_cleanups e2) (e_lost e2) (e_sess e2) (e_reg e2), o1 ++ o2)
  | _, _ => (e2, o1 ++ o2)
  end.

(* _discard_recv *)
Definition discard_recv (credit : bool) (e : ep) : ep * list ppkt :=
  let o := if credit && (0 <? e_rbuf e) then emit e (QAdjust (e_rbuf e)) else [] in
  let rs' := match e_rs e with RClosePending => RClosed | r => r end in
  let pend' := match e_rs e with RClosePending => S (e_pend e) | _ => e_pend e end in
  (mkEp (e_ss e) rs' (e_schan e) (e_sbuf e) (e_swin e) (e_rwin e) 0 (e_init e) false (e_keep e)
        (e_closing e) pend' (e_cleanups e) (e_lost e) (e_sess e) (e_reg e), o).

Definition set_closing (e : ep) : ep :=
  mkEp (e_ss e) (e_rs e) (e_schan e) (e_sbuf e) (e_swin e) (e_rwin e) (e_rbuf e) (e_init e) (e_paused e) (e_keep e)
       true (e_pend e) (e_cleanups e) (e_lost e) (e_sess e) (e_reg e).

Definition recv_half (credit : bool) (e : ep) : ep * list ppkt :=
  match e_rs e with RClosed => (e, []) | _ => discard_recv credit e end.

(* close() *)
Definition close_half (e : ep) : ep * list ppkt :=
  if ss_closing (e_ss e) then (e, []) else flush (w_ss SClosePending e).
Definition abort_half (e : ep) : ep * list ppkt :=
  if ss_closing (e_ss e) then (e, []) else close_send e.
Definition l_close (credit : bool) (e : ep) : ep * list ppkt :=
  let '(e1, o1) := close_half e in
  let '(e2, o2) := recv_half credit e1 in (set_closing e2, o1 ++ o2).
(* abort() *)
Definition l_abort (credit : bool) (e : ep) : ep * list ppkt :=
  let '(e1, o1) := abort_half e in
  let '(e2, o2) := recv_half credit e1 in (set_closing e2, o1 ++ o2).

Definition l_write (e : ep) (n : nat) : ep * list ppkt :=
  match e_ss e with
  | SOpen => flush (mkEp (e_ss e) (e_rs e) (e_schan e) (e_sbuf e + n) (e_swin e) (e_rwin e) (e_rbuf e) (e_init e) (e_paused e)
                         (e_keep e) (e_closing e) (e_pend e) (e_cleanups e) (e_lost e) (e_sess e) (e_reg e))
  | _ => (e, [])
  end.

Definition set_paused (b : bool) (e : ep) : ep :=
  mkEp (e_ss e) (e_rs e) (e_schan e) (e_sbuf e) (e_swin e) (e_rwin e) (e_rbuf e) (e_init e) b (e_keep e)
       (e_closing e) (e_pend e) (e_cleanups e) (e_lost e) (e_sess e) (e_reg e).
Definition l_resume (e : ep) : ep * list ppkt :=
  if e_paused e then flush_recv (set_paused false e) else (e, []).

(* one call_soon(_cleanup) callback *)
Definition l_run (e : ep) : ep :=
  match e_pend e with
  | O => e
  | S k =>
      mkEp (e_ss e) (e_rs e) (if e_reg e then false else e_schan e) (e_sbuf e) (e_swin e) (e_rwin e) (e_rbuf e) (e_init e)
           (e_paused e) (e_keep e) (e_closing e) k
           (if e_reg e then S (e_cleanups e) else e_cleanups e)
           (if e_sess e then S (e_lost e) else e_lost e) false false
  end.

(* packets *)
Definition p_data (credit : bool) (e : ep) (n : nat) : res :=
  match e_rs e with
  | ROpen =>
      if e_rwin e - e_rbuf e <? n then (e, [], true)                        (* Window exceeded *)
      else if n =? 0 then ok e []
      else if ss_closing (e_ss e) then ok e (if credit then emit e (QAdjust n) else [])
      else if e_paused e
           then ok (mkEp (e_ss e) (e_rs e) (e_schan e) (e_sbuf e) (e_swin e) (e_rwin e) (e_rbuf e + n) (e_init e) (e_paused e)
                         (e_keep e) (e_closing e) (e_pend e) (e_cleanups e) (e_lost e) (e_sess e) (e_reg e)) []
           else let '(e', o) := deliver e n in ok e' o
  | _ => (e, [], true)
  end.
Definition p_adjust (e : ep) (n : nat) : res :=
  if rs_openish (e_rs e)
  then let '(e', o) := flush (mkEp (e_ss e) (e_rs e) (e_schan e) (e_sbuf e) (e_swin e + n) (e_rwin e) (e_rbuf e) (e_init e)
                                   (e_paused e) (e_keep e) (e_closing e) (e_pend e) (e_cleanups e) (e_lost e) (e_sess e) (e_reg e)) in
       ok e' o
  else (e, [], true).
Definition w_rs v e := mkEp (e_ss e) v (e_schan e) (e_sbuf e) (e_swin e) (e_rwin e) (e_rbuf e) (e_init e) (e_paused e) (e_keep e) (e_closing e) (e_pend e) (e_cleanups e) (e_lost e) (e_sess e) (e_reg e).
Definition eof_in (e : ep) : ep * list ppkt := flush_recv (w_rs REofPending e).
Definition close_in (e : ep) : ep * list ppkt := flush_recv (w_rs RClosePending e).
Definition p_eof (e : ep) : res :=
  match e_rs e with
  | ROpen => let '(e', o) := eof_in e in ok e' o
  | _ => (e, [], true)
  end.
Definition p_close (e : ep) : res :=
  if rs_openish (e_rs e)
  then let '(e1, o1) := close_send e in
       let '(e2, o2) := close_in e1 in ok e2 (o1 ++ o2)
  else (e, [], true).

Definition p_recv (credit : bool) (e : ep) (p : ppkt) : res :=
  if e_reg e
  then match p with
       | QData n => p_data credit e n
       | QAdjust n => p_adjust e n
       | QEof => p_eof e
       | QClose => p_close e
       end
  else (e, [], true).                                                      (* invalid channel number *)

Record pair := mkPair { pa : ep; pb : ep; wab : list ppkt; wba : list ppkt; perr : bool }.

Inductive pop :=
| OWrite (s : side) (n : nat) | OEof (s : side) | OClose (s : side) | OAbort (s : side)
| OPause (s : side) | OResume (s : side)
| ODeliver (s : side)        (* the oldest packet sent by s reaches the other side *)
| ORun (s : side).           (* s's event loop runs a queued _cleanup *)

Definition local (s : side) (f : ep -> ep * list ppkt) (p : pair) : pair :=
  match s with
  | SA => let '(e, o) := f (pa p) in mkPair e (pb p) (wab p ++ o) (wba p) (perr p)
  | SB => let '(e, o) := f (pb p) in mkPair (pa p) e (wab p) (wba p ++ o) (perr p)
  end.

Definition pstep (credit : bool) (p : pair) (o : pop) : pair :=
  if perr p then p else
  match o with
  | OWrite s n => local s (fun e => l_write e n) p
  | OEof s => local s write_eof p
  | OClose s => local s (l_close credit) p
  | OAbort s => local s (l_abort credit) p
  | OPause s => local s (fun e => (set_paused true e, [])) p
  | OResume s => local s l_resume p
  | ORun s => local s (fun e => (l_run e, [])) p
  | ODeliver SA =>
      match wab p with
      | [] => p
      | q :: r => let '(e, o, err) := p_recv credit (pb p) q in mkPair (pa p) e r (wba p ++ o) err
      end
  | ODeliver SB =>
      match wba p with
      | [] => p
      | q :: r => let '(e, o, err) := p_recv credit (pa p) q in mkPair e (pb p) (wab p ++ o) r err
      end
  end.

Definition prun (credit : bool) (ops : list pop) (p : pair) : pair := fold_left (pstep credit) ops p.

(* a freshly opened channel: each side's send window is the other side's receive window *)
Definition ep0 (init peer_init : nat) (keep : bool) : ep :=
  mkEp SOpen ROpen true 0 peer_init init 0 init false keep false 0 0 0 true true.
Definition pair0 (wa wb : nat) (ka kb : bool) : pair := mkPair (ep0 wa wb ka) (ep0 wb wa kb) [] [] false.

(* quiescent: nothing in flight, no callback queued *)
Definition quiescent (p : pair) : bool :=
  match wab p, wba p with [], [] => (e_pend (pa p) =? 0) && (e_pend (pb p) =? 0) | _, _ => false end.
Definition fully_closed (e : ep) : bool :=
  match e_ss e, e_rs e with
  | SClosed, RClosed => (e_cleanups e =? 1) && (e_lost e =? 1) && negb (e_reg e)
  | _, _ => false
  end.
