(* Executable model of asyncssh's OpenSSH-config resolution (asyncssh/config.py).
   Sources modelled (/repo/asyncssh):
     shlex.split (CPython, posix mode, whitespace_split)     as used by SSHConfig.parse
     SSHConfig.parse          line loop, '=' splitting, _no_split, handler dispatch, end-of-parse expansion
     SSHConfig._match / SSHClientConfig._match_host / _match_val (client and server)
     SSHConfig._include       (Path.expanduser + Path.glob restricted to '*' and '?' per component)
     SSHConfig._set_* / _append_* setters, SSHClientConfig._set_hostname / _set_request_tty
     SSHConfig._expand_val    (_token_pattern then _env_pattern, one re.sub pass each)
     SSHClientConfig._set_tokens / SSHServerConfig._set_tokens with _unsafe_user_pattern
     SSHConfig.load           (list of paths on top of inherited options)
     pattern.WildcardPatternList (fnmatch restricted to what asyncssh leaves active: '*' and '?')
   Text is list Z of code points (generator domain: printable ASCII, tab, newline).
   Not modelled (the model answers EUnmodelled): Match exec/address/localaddress/localnetwork,
   the %C token, '~user' / '[..]' / '**' / '.' / '..' in Include patterns.
   The [quirks] switch between the code as it is (impl_quirks), the code before the repairs
   d9a79c3 / d97dd8e (old_quirks) and the behaviour the property asks for (no_quirks); they exist
   so that the same definitions carry both the refutations and the positive theorems.
   No proofs here. *)
Require Import Coq.Strings.String Coq.Strings.Ascii.
From AV Require Import Base.Prelude.

Definition str := list Z.
Definition str_eqb : str -> str -> bool := zlist_eqb.

(* readable literals: z "Port" *)
Definition z (s : String.string) : str :=
  map (fun a => Z.of_N (Ascii.N_of_ascii a)) (String.list_ascii_of_string s).

Definition SLASH : Z := 47.   Definition BSL : Z := 92.     Definition DQ : Z := 34.
Definition SQ : Z := 39.      Definition EQC : Z := 61.     Definition HASH : Z := 35.
Definition STAR : Z := 42.    Definition QM : Z := 63.      Definition BANG : Z := 33.
Definition COMMA : Z := 44.   Definition PCT : Z := 37.     Definition DOLLAR : Z := 36.
Definition LBRACE : Z := 123. Definition RBRACE : Z := 125. Definition NL : Z := 10.
Definition TILDE : Z := 126.  Definition COLON : Z := 58.   Definition DOT : Z := 46.

Inductive err := EParse      (* ConfigParseError *)
               | ECrash      (* any other exception escaping (IndexError, TypeError, ...) *)
               | EUser       (* IllegalUserName *)
               | EFuel       (* include nesting exceeded the fuel (RecursionError in Python) *)
               | EUnmodelled.
Inductive res (A : Type) := Ok (a : A) | Err (e : err).
Arguments Ok {A} a. Arguments Err {A} e.

Definition bind {A B} (r : res A) (f : A -> res B) : res B :=
  match r with Ok a => f a | Err e => Err e end.

(* ---- characters ------------------------------------------------------------------------- *)
Definition lower_c (c : Z) : Z := if (65 <=? c) && (c <=? 90) then c + 32 else c.
Definition lower (s : str) : str := map lower_c s.
(* str.strip() / int() whitespace inside ASCII *)
Definition py_space (c : Z) : bool := ((9 <=? c) && (c <=? 13)) || ((28 <=? c) && (c <=? 32)).
Fixpoint lstrip (s : str) : str :=
  match s with c :: r => if py_space c then lstrip r else s | [] => [] end.
Definition strip (s : str) : str := rev (lstrip (rev (lstrip s))).
Fixpoint mem (x : Z) (l : str) : bool :=
  match l with [] => false | y :: r => (x =? y) || mem x r end.
Definition is_digit (c : Z) : bool := (48 <=? c) && (c <=? 57).
Definition is_alpha (c : Z) : bool := ((65 <=? c) && (c <=? 90)) || ((97 <=? c) && (c <=? 122)).
Definition starts_with (c : Z) (s : str) : bool := match s with d :: _ => d =? c | [] => false end.
Definition ends_with (c : Z) (s : str) : bool := starts_with c (rev s).

Fixpoint split_on (sep : Z) (s : str) : list str :=
  match s with
  | [] => [[]]
  | c :: r =>
      if c =? sep then [] :: split_on sep r
      else match split_on sep r with h :: t => (c :: h) :: t | [] => [[c]] end
  end.
Fixpoint join_with (sep : Z) (l : list str) : str :=
  match l with [] => [] | [a] => a | a :: r => a ++ sep :: join_with sep r end.

(* ---- shlex.split(line) : posix, whitespace_split, no commenters --------------------------- *)
Inductive shst := ShSpace | ShWord | ShQuote (q : Z) | ShEsc (inq : bool).
Definition sh_ws (c : Z) : bool := (c =? 32) || (c =? 9) || (c =? 13) || (c =? 10).
Definition is_quote (c : Z) : bool := (c =? DQ) || (c =? SQ).

(* tok is kept reversed; None = ValueError (no closing quotation / no escaped character) *)
Fixpoint shlex_go (s : str) (st : shst) (tok : str) (acc : list str) : option (list str) :=
  match s with
  | [] => match st with
          | ShSpace => Some (rev acc)
          | ShWord => Some (rev (rev tok :: acc))
          | _ => None
          end
  | c :: r =>
      match st with
      | ShSpace =>
          if sh_ws c then shlex_go r ShSpace [] acc
          else if c =? BSL then shlex_go r (ShEsc false) [] acc
          else if is_quote c then shlex_go r (ShQuote c) [] acc
          else shlex_go r ShWord [c] acc
      | ShWord =>
          if sh_ws c then shlex_go r ShSpace [] (rev tok :: acc)
          else if is_quote c then shlex_go r (ShQuote c) tok acc
          else if c =? BSL then shlex_go r (ShEsc false) tok acc
          else shlex_go r ShWord (c :: tok) acc
      | ShQuote q =>
          if c =? q then shlex_go r ShWord tok acc
          else if (c =? BSL) && (q =? DQ) then shlex_go r (ShEsc true) tok acc
          else shlex_go r (ShQuote q) (c :: tok) acc
      | ShEsc inq =>
          let tok' := if inq && negb (c =? BSL) && negb (c =? DQ) then c :: BSL :: tok else c :: tok in
          shlex_go r (if inq then ShQuote DQ else ShWord) tok' acc
      end
  end.
Definition shlex_split (s : str) : option (list str) := shlex_go s ShSpace [] [].

(* ---- '=' handling of SSHConfig.parse ------------------------------------------------------- *)
Fixpoint split_eq (a : str) : option (str * str) :=
  match a with
  | [] => None
  | c :: r => if c =? EQC then Some ([], r)
              else match split_eq r with Some (x, y) => Some (c :: x, y) | None => None end
  end.
(* what one token contributes to args while '=' is still allowed *)
Definition eq_one (a : str) : list str :=
  if starts_with EQC a then (match tl a with [] => [] | t => [t] end)
  else if ends_with EQC a then [removelast a]
  else match split_eq a with Some (x, y) => [x; y] | None => [a] end.
Fixpoint eq_rest (allow : bool) (toks : list str) : list str :=
  match toks with
  | [] => []
  | a :: r =>
      if starts_with EQC a then (match tl a with [] => [] | t => [t] end) ++ eq_rest allow r
      else if negb allow then a :: r
      else eq_one a ++ eq_rest allow r
  end.
(* (lower-cased keyword, args); None = IndexError from args.pop(0) on an empty list *)
Definition split_line (is_cond : str -> bool) (toks : list str) : option (str * list str) :=
  match toks with
  | [] => None
  | a :: r => match eq_one a with
              | [] => None
              | k :: extra => let lo := lower k in Some (lo, extra ++ eq_rest (is_cond lo) r)
              end
  end.

(* ---- wildcard patterns (pattern.py: fnmatch with brackets neutralised) ---------------------- *)
Fixpoint wmatch (p : str) : str -> bool :=
  match p with
  | [] => fun s => match s with [] => true | _ => false end
  | c :: p' =>
      if c =? STAR
      then fix star (s : str) : bool :=
             wmatch p' s || match s with [] => false | _ :: s' => star s' end
      else fun s => match s with
                    | [] => false
                    | d :: s' => ((c =? QM) || (c =? d)) && wmatch p' s'
                    end
  end.
(* WildcardPatternList(patterns).matches(value) *)
Definition patlist_match (patterns value : str) : bool :=
  let ps := split_on COMMA patterns in
  existsb (fun p => negb (starts_with BANG p) && wmatch p value) ps
  && negb (existsb (fun p => starts_with BANG p && wmatch (tl p) value) ps).

(* ---- option values -------------------------------------------------------------------------- *)
Inductive rk := RkDefault | RkNone | RkStr (s : str).      (* () , None , 'text' of RekeyLimit *)
Inductive value :=
| VBool (b : bool) | VInt (n : Z) | VStr (s : str) | VNone | VList (l : list str) | VRekey (b t : rk).
Definition opts := list (str * value).

Fixpoint lookup {A} (k : str) (l : list (str * A)) : option A :=
  match l with [] => None | (k', v) :: r => if str_eqb k k' then Some v else lookup k r end.
Fixpoint update {A} (k : str) (v : A) (l : list (str * A)) : list (str * A) :=
  match l with
  | [] => [(k, v)]
  | (k', v') :: r => if str_eqb k k' then (k, v) :: r else (k', v') :: update k v r
  end.
Definition set_once (o : str) (v : value) (os : opts) : opts :=
  match lookup o os with Some _ => os | None => update o v os end.

Fixpoint lookup_c {A} (k : Z) (l : list (Z * A)) : option A :=
  match l with [] => None | (k', v) :: r => if k =? k' then Some v else lookup_c k r end.
Fixpoint update_c {A} (k : Z) (v : A) (l : list (Z * A)) : list (Z * A) :=
  match l with
  | [] => [(k, v)]
  | (k', v') :: r => if k =? k' then (k, v) :: r else (k', v') :: update_c k v r
  end.

(* ---- int(), str(int) ------------------------------------------------------------------------ *)
Fixpoint int_digits (s : str) (acc : Z) (prev_digit : bool) : option Z :=
  match s with
  | [] => if prev_digit then Some acc else None
  | c :: r =>
      if is_digit c then int_digits r (acc * 10 + (c - 48)) true
      else if (c =? 95) && prev_digit
           then match r with d :: _ => if is_digit d then int_digits r acc false else None | [] => None end
           else None
  end.
Definition parse_int (s : str) : option Z :=
  match strip s with
  | 45 :: r => option_map Z.opp (int_digits r 0 false)
  | 43 :: r => int_digits r 0 false
  | t => int_digits t 0 false
  end.
Fixpoint dec_go (fuel : nat) (n : Z) (acc : str) : str :=
  match fuel with
  | O => acc
  | S f => let acc' := (48 + n mod 10) :: acc in if n <? 10 then acc' else dec_go f (n / 10) acc'
  end.
Definition dec (n : Z) : str :=
  if n <? 0 then 45 :: dec_go (S (Z.to_nat (Z.log2 (- n)))) (- n) []
  else dec_go (S (Z.to_nat (Z.log2 n))) n [].

(* ---- expansion: _token_pattern = %(.)  then  _env_pattern = \${(.*?)} ----------------------- *)
Definition cons_res (c : Z) (r : res str) : res str := match r with Ok s => Ok (c :: s) | Err e => Err e end.
Definition app_res (v : str) (r : res str) : res str := match r with Ok s => Ok (v ++ s) | Err e => Err e end.

Fixpoint expand_pct_go (toks : list (Z * str)) (s : str) (skip : bool) : res str :=
  match s with
  | [] => Ok []
  | c :: r =>
      if skip then expand_pct_go toks r false
      else if c =? PCT then
        match r with
        | [] => Ok [c]
        | d :: _ => if d =? NL then cons_res c (expand_pct_go toks r false)
                    else match lookup_c d toks with
                         | Some v => app_res v (expand_pct_go toks r true)
                         | None => Err EParse
                         end
        end
      else cons_res c (expand_pct_go toks r false)
  end.
Definition expand_pct (toks : list (Z * str)) (s : str) : res str := expand_pct_go toks s false.

(* the text between "${" and the first "}", provided no newline comes first *)
Fixpoint take_name (s : str) : option str :=
  match s with
  | [] => None
  | c :: r => if c =? RBRACE then Some []
              else if c =? NL then None
              else match take_name r with Some n => Some (c :: n) | None => None end
  end.
Fixpoint expand_env_go (environ : list (str * str)) (s : str) (skip : nat) : res str :=
  match s with
  | [] => Ok []
  | c :: r =>
      match skip with
      | S k => expand_env_go environ r k
      | O =>
          match r with
          | d :: r2 =>
              if (c =? DOLLAR) && (d =? LBRACE) then
                match take_name r2 with
                | Some name => match lookup name environ with
                               | Some v => app_res v (expand_env_go environ r (S (S (length name))))
                               | None => Err EParse
                               end
                | None => cons_res c (expand_env_go environ r O)
                end
              else cons_res c (expand_env_go environ r O)
          | [] => Ok [c]
          end
      end
  end.
Definition expand_env (environ : list (str * str)) (s : str) : res str := expand_env_go environ s O.

(* SSHConfig._expand_val *)
Definition expand_val (toks : list (Z * str)) (environ : list (str * str)) (s : str) : res str :=
  bind (expand_pct toks s) (expand_env environ).

(* what the property asks for (OpenSSH percent_dollar_expand): ONE left-to-right pass in which both
   "${name}" and "%c" are replaced and replacement text is never looked at again *)
Fixpoint expand_one_pass_go (toks : list (Z * str)) (environ : list (str * str)) (s : str) (skip : nat) : res str :=
  match s with
  | [] => Ok []
  | c :: r =>
      match skip with
      | S k => expand_one_pass_go toks environ r k
      | O =>
          match r with
          | d :: r2 =>
              if (c =? PCT) && negb (d =? NL) then
                match lookup_c d toks with
                | Some v => app_res v (expand_one_pass_go toks environ r 1)
                | None => Err EParse
                end
              else if (c =? DOLLAR) && (d =? LBRACE) then
                match take_name r2 with
                | Some name => match lookup name environ with
                               | Some v => app_res v (expand_one_pass_go toks environ r (S (S (length name))))
                               | None => Err EParse
                               end
                | None => cons_res c (expand_one_pass_go toks environ r O)
                end
              else cons_res c (expand_one_pass_go toks environ r O)
          | [] => Ok [c]
          end
      end
  end.
Definition expand_one_pass toks environ s := expand_one_pass_go toks environ s O.

(* ---- _unsafe_user_pattern = ^\.\.$|^~|^[A-Za-z]:|[/\\]|\$\{.*?\}  (re.search) ---------------- *)
Fixpoint has_env_ref (s : str) : bool :=
  match s with
  | [] => false
  | c :: r =>
      (match r with
       | d :: r2 => (c =? DOLLAR) && (d =? LBRACE) && (match take_name r2 with Some _ => true | None => false end)
       | [] => false
       end) || has_env_ref r
  end.
Definition unsafe_user (u : str) : bool :=
  str_eqb u [DOT; DOT] || str_eqb u [DOT; DOT; NL]
  || starts_with TILDE u
  || (match u with c :: d :: _ => is_alpha c && (d =? COLON) | _ => false end)
  || mem SLASH u || mem BSL u || has_env_ref u.

(* ---- handler tables ------------------------------------------------------------------------- *)
Inductive kind :=
| KHost | KMatch | KInclude
| KAddrFam | KBool | KBoolOrStr | KInt | KString | KAppendString | KStringList | KAppendStringList
| KCanonHost | KRekey | KHostname | KRequestTTY.

Definition kind_eqb (a b : kind) : bool :=
  match a, b with
  | KHost, KHost | KMatch, KMatch | KInclude, KInclude | KAddrFam, KAddrFam | KBool, KBool
  | KBoolOrStr, KBoolOrStr | KInt, KInt | KString, KString | KAppendString, KAppendString
  | KStringList, KStringList | KAppendStringList, KAppendStringList | KCanonHost, KCanonHost
  | KRekey, KRekey | KHostname, KHostname | KRequestTTY, KRequestTTY => true
  | _, _ => false
  end.

Definition T (s : String.string) (k : kind) : str * kind := (z s, k).

Definition client_table : list (str * kind) := [
  T "Host" KHost; T "Match" KMatch; T "Include" KInclude;
  T "AddressFamily" KAddrFam; T "BindAddress" KString; T "CanonicalDomains" KStringList;
  T "CanonicalizeFallbackLocal" KBool; T "CanonicalizeHostname" KCanonHost;
  T "CanonicalizeMaxDots" KInt; T "CanonicalizePermittedCNAMEs" KStringList;
  T "CASignatureAlgorithms" KString; T "CertificateFile" KAppendString;
  T "ChallengeResponseAuthentication" KBool; T "Ciphers" KString; T "Compression" KBool;
  T "ConnectTimeout" KInt; T "EnableSSHKeySign" KBool; T "ForwardAgent" KBoolOrStr;
  T "ForwardX11Trusted" KBool; T "GlobalKnownHostsFile" KStringList; T "GSSAPIAuthentication" KBool;
  T "GSSAPIDelegateCredentials" KBool; T "GSSAPIKeyExchange" KBool; T "HostbasedAuthentication" KBool;
  T "HostKeyAlgorithms" KString; T "Hostname" KHostname; T "HostKeyAlias" KString;
  T "IdentitiesOnly" KBool; T "IdentityAgent" KString; T "IdentityFile" KAppendString;
  T "KbdInteractiveAuthentication" KBool; T "KexAlgorithms" KString; T "MACs" KString;
  T "PasswordAuthentication" KBool; T "PKCS11Provider" KString; T "PreferredAuthentications" KString;
  T "Port" KInt; T "ProxyCommand" KString; T "ProxyJump" KString; T "PubkeyAuthentication" KBool;
  T "RekeyLimit" KRekey; T "RemoteCommand" KString; T "RequestTTY" KRequestTTY;
  T "SendEnv" KAppendStringList; T "ServerAliveCountMax" KInt; T "ServerAliveInterval" KInt;
  T "SetEnv" KStringList; T "Tag" KString; T "TCPKeepAlive" KBool; T "User" KString;
  T "UserKnownHostsFile" KStringList ].

Definition server_table : list (str * kind) := [
  T "Match" KMatch; T "Include" KInclude;
  T "AddressFamily" KAddrFam; T "AuthorizedKeysFile" KStringList; T "AllowAgentForwarding" KBool;
  T "BindAddress" KString; T "CanonicalDomains" KStringList; T "CanonicalizeFallbackLocal" KBool;
  T "CanonicalizeHostname" KCanonHost; T "CanonicalizeMaxDots" KInt;
  T "CanonicalizePermittedCNAMEs" KStringList; T "CASignatureAlgorithms" KString;
  T "ChallengeResponseAuthentication" KBool; T "Ciphers" KString; T "ClientAliveCountMax" KInt;
  T "ClientAliveInterval" KInt; T "Compression" KBool; T "GSSAPIAuthentication" KBool;
  T "GSSAPIKeyExchange" KBool; T "HostbasedAuthentication" KBool; T "HostCertificate" KAppendString;
  T "HostKey" KAppendString; T "KbdInteractiveAuthentication" KBool; T "KexAlgorithms" KString;
  T "LoginGraceTime" KInt; T "MACs" KString; T "PasswordAuthentication" KBool; T "PermitTTY" KBool;
  T "Port" KInt; T "PubkeyAuthentication" KBool; T "RekeyLimit" KRekey; T "TCPKeepAlive" KBool;
  T "UseDNS" KBool ].

Definition client_pct_expand : list str :=
  [z "CertificateFile"; z "ForwardAgent"; z "IdentityAgent"; z "IdentityFile"; z "ProxyCommand"; z "RemoteCommand"].
Definition server_pct_expand : list str := [z "AuthorizedKeysFile"].
Definition client_no_split : list str := [z "proxycommand"; z "remotecommand"].

Definition mem_str (s : str) (l : list str) : bool := existsb (str_eqb s) l.

(* ---- the environment of one load ------------------------------------------------------------ *)
(* in which order Include reads the files a glob selects *)
Inductive gorder := GDir          (* directory order (code before d9a79c3) *)
                  | GComponents   (* sorted(Path...): component lists compared (code from d9a79c3 to d0360eb) *)
                  | GString.      (* sorted(..., key=str): whole path strings compared, what glob(3) / ssh does
                                     (code as it is, since d0360eb) *)
Record quirks := { q_expand_each_parse : bool;   (* _set_tokens + expansion at the end of EVERY parse() (before d97dd8e) *)
                   q_glob_order : gorder }.
(* the code as it is now: expansion once per load (_expand_options), matches sorted as strings *)
Definition impl_quirks : quirks := {| q_expand_each_parse := false; q_glob_order := GString |}.
(* the code between d9a79c3 and d0360eb: matches sorted as Path objects *)
Definition pathsort_quirks : quirks := {| q_expand_each_parse := false; q_glob_order := GComponents |}.
(* the code before the repairs d9a79c3 / d97dd8e *)
Definition old_quirks : quirks := {| q_expand_each_parse := true; q_glob_order := GDir |}.
(* what the property asks for *)
Definition no_quirks : quirks := {| q_expand_each_parse := false; q_glob_order := GString |}.

Record env := {
  e_client : bool;
  e_quirks : quirks;
  e_canonical : bool;
  e_final : bool;
  e_local_user : str;          (* client: local user name *)
  e_host : str;                (* client: original host;  server: client host or, if empty, address *)
  e_user : str;                (* server: user name supplied by the remote side *)
  e_addr : str;                (* server: client address *)
  e_local_addr : str;          (* server *)
  e_local_port : str;          (* server: str(local_port) *)
  e_local_hostname : str;      (* socket.gethostname() *)
  e_home : str;                (* $HOME *)
  e_uid : option str;          (* str(os.getuid()) *)
  e_environ : list (str * str);
  e_fs : list (str * list str) (* regular files: absolute path -> lines, in directory-walk order *)
}.

Definition table (E : env) := if e_client E then client_table else server_table.
Definition pct_expand (E : env) := if e_client E then client_pct_expand else server_pct_expand.
Definition no_split (E : env) (lo : str) : bool := e_client E && mem_str lo client_no_split.
Definition is_cond (E : env) (lo : str) : bool :=
  str_eqb lo (z "match") || (e_client E && str_eqb lo (z "host")).

Fixpoint lookup_handler_in (tbl : list (str * kind)) (lo : str) : option (str * kind) :=
  match tbl with
  | [] => None
  | (o, k) :: r => if str_eqb (lower o) lo then Some (o, k) else lookup_handler_in r lo
  end.
Definition lookup_handler (E : env) (lo : str) := lookup_handler_in (table E) lo.

Record state := mkState {
  s_opts : opts;
  s_matching : bool;
  s_tokens : list (Z * str);
  s_final : option bool
}.
Definition with_opts (st : state) (o : opts) := mkState o (s_matching st) (s_tokens st) (s_final st).
Definition with_matching (st : state) (m : bool) := mkState (s_opts st) m (s_tokens st) (s_final st).
Definition with_tokens (st : state) (t : list (Z * str)) := mkState (s_opts st) (s_matching st) t (s_final st).

(* ---- Match ------------------------------------------------------------------------------------ *)
Inductive mval := MV (s : str) | MVNone | MVUnmodelled.

Definition opt_str_or (os : opts) (o : str) (dflt : str) : mval :=
  match lookup o os with
  | None => MV dflt
  | Some (VStr s) => MV s
  | Some VNone => MVNone
  | Some _ => MVUnmodelled
  end.

(* SSHClientConfig._match_val / SSHServerConfig._match_val *)
Definition match_val (E : env) (os : opts) (crit : str) : mval :=
  if str_eqb crit (z "exec") then MVUnmodelled
  else if e_client E then
    if str_eqb crit (z "host") then opt_str_or os (z "Hostname") (e_host E)
    else if str_eqb crit (z "originalhost") then MV (e_host E)
    else if str_eqb crit (z "localnetwork") then MVUnmodelled
    else if str_eqb crit (z "localuser") then MV (e_local_user E)
    else if str_eqb crit (z "user") then opt_str_or os (z "User") (e_local_user E)
    else if str_eqb crit (z "tagged") then opt_str_or os (z "Tag") []
    else MVNone
  else
    if str_eqb crit (z "localaddress") then MVUnmodelled
    else if str_eqb crit (z "address") then MVUnmodelled
    else if str_eqb crit (z "localport") then MV (e_local_port E)
    else if str_eqb crit (z "user") then MV (e_user E)
    else if str_eqb crit (z "host") then MV (e_host E)
    else MVNone.

(* the while loop of SSHConfig._match; result = (matching, _final) *)
Fixpoint eval_match (E : env) (os : opts) (args : list str) (matching : bool) (fin : option bool)
  : res (bool * option bool) :=
  match args with
  | [] => Ok (matching, fin)
  | a :: rest =>
      match lower a with
      | [] => Err ECrash                                    (* match[0] on an empty string *)
      | c0 :: m1 =>
          let negated := c0 =? BANG in
          let m := if negated then m1 else c0 :: m1 in
          let fin' := if str_eqb m (z "final") then (match fin with None => Some false | _ => fin end) else fin in
          let upd (result : bool) := if matching && Bool.eqb result negated then false else matching in
          if str_eqb m (z "all") then eval_match E os rest (upd true) fin'
          else if str_eqb m (z "canonical") then eval_match E os rest (upd (e_canonical E)) fin'
          else if str_eqb m (z "final")
               then eval_match E os rest (upd (match fin' with Some b => b | None => false end)) fin'
          else
            match match_val E os m with
            | MVUnmodelled => Err EUnmodelled
            | MVNone => Err EParse                          (* Invalid match condition *)
            | MV v =>
                match rest with
                | [] => Err EParse                          (* Missing match pattern *)
                | pat :: rest' => eval_match E os rest' (upd (patlist_match pat v)) fin'
                end
            end
      end
  end.

(* ---- Include ---------------------------------------------------------------------------------- *)
Definition comp_ok (c : str) : bool :=
  negb (str_eqb c []) && negb (str_eqb c [DOT]) && negb (str_eqb c [DOT; DOT])
  && negb (mem 91 c) && negb (str_eqb c [STAR; STAR]).

(* Path(pattern).expanduser(), anchored or below ~/.ssh : absolute pattern as a component list *)
Definition resolve_pattern (E : env) (pat : str) : option (list str) :=
  let abs :=
    match pat with
    | 47 :: 47 :: _ => None
    | 47 :: _ => Some pat
    | 126 :: 47 :: r => Some (e_home E ++ SLASH :: r)
    | 126 :: _ => None
    | [] => None
    | _ => Some (e_home E ++ z "/.ssh/" ++ pat)
    end in
  match abs with
  | Some (_ :: p) => let cs := split_on SLASH p in if forallb comp_ok cs then Some cs else None
  | _ => None
  end.

Fixpoint comps_match (ps fs : list str) : bool :=
  match ps, fs with
  | [], [] => true
  | p :: ps', f :: fs' => wmatch p f && comps_match ps' fs'
  | _, _ => false
  end.

Fixpoint str_leb (a b : str) : bool :=
  match a, b with
  | [], _ => true
  | _ :: _, [] => false
  | x :: a', y :: b' => (x <? y) || ((x =? y) && str_leb a' b')
  end.
Fixpoint insert_sorted (x : str) (l : list str) : list str :=
  match l with [] => [x] | y :: r => if str_leb x y then x :: l else y :: insert_sorted x r end.
Definition sort_paths (l : list str) : list str := fold_right insert_sorted [] l.

(* PurePath.__lt__: the lists of components are compared, each component as a string *)
Fixpoint comps_leb (a b : list str) : bool :=
  match a, b with
  | [], _ => true
  | _ :: _, [] => false
  | x :: a', y :: b' => if str_eqb x y then comps_leb a' b' else str_leb x y
  end.
Fixpoint insert_sorted_c (x : str) (l : list str) : list str :=
  match l with
  | [] => [x]
  | y :: r => if comps_leb (split_on SLASH x) (split_on SLASH y) then x :: l else y :: insert_sorted_c x r
  end.
Definition sort_paths_c (l : list str) : list str := fold_right insert_sorted_c [] l.

(* the regular files an Include argument selects, in the order they are read *)
Definition glob (E : env) (pat : str) : res (list str) :=
  match resolve_pattern E pat with
  | None => Err EUnmodelled
  | Some cs =>
      let hits := filter (fun p => comps_match cs (split_on SLASH (tl p))) (map fst (e_fs E)) in
      Ok (match q_glob_order (e_quirks E) with
          | GDir => hits
          | GComponents => sort_paths_c hits
          | GString => sort_paths hits
          end)
  end.

(* ---- setters ---------------------------------------------------------------------------------- *)
Definition parse_bool (lo : str) : option bool :=
  if str_eqb lo (z "yes") || str_eqb lo (z "true") then Some true
  else if str_eqb lo (z "no") || str_eqb lo (z "false") then Some false
  else None.

(* a setter that does not touch matching/tokens: (new options, unconsumed args) *)
Definition run_setter (k : kind) (o : str) (args : list str) (os : opts) : res (opts * list str) :=
  match args with
  | [] => Err ECrash
  | a :: rest =>
      let la := lower a in
      match k with
      | KBool =>
          match parse_bool la with
          | Some b => Ok (set_once o (VBool b) os, rest)
          | None => Err EParse
          end
      | KBoolOrStr =>
          Ok (set_once o (match parse_bool la with Some b => VBool b | None => VStr a end) os, rest)
      | KInt =>
          match parse_int a with
          | Some n => Ok (set_once o (VInt n) os, rest)
          | None => Err EParse
          end
      | KString =>
          Ok (set_once o (if str_eqb la (z "none") then VNone else VStr a) os, rest)
      | KAppendString =>
          if str_eqb la (z "none") then Ok (set_once o (VList []) os, rest)
          else match lookup o os with
               | None => Ok (update o (VList [a]) os, rest)
               | Some (VList l) => Ok (update o (VList (l ++ [a])) os, rest)
               | Some _ => Err ECrash
               end
      | KStringList =>
          Ok (set_once o (match rest with
                          | [] => if str_eqb la (z "none") then VList [] else VList args
                          | _ => VList args
                          end) os, [])
      | KAppendStringList =>
          match lookup o os with
          | None => Ok (update o (VList args) os, [])
          | Some (VList l) => Ok (update o (VList (l ++ args)) os, [])
          | Some _ => Err ECrash
          end
      | KAddrFam =>
          if str_eqb la (z "any") then Ok (set_once o (VInt 0) os, rest)
          else if str_eqb la (z "inet") then Ok (set_once o (VInt 4) os, rest)
          else if str_eqb la (z "inet6") then Ok (set_once o (VInt 6) os, rest)
          else Err EParse
      | KCanonHost =>
          match parse_bool la with
          | Some b => Ok (set_once o (VBool b) os, rest)
          | None => if str_eqb la (z "always") then Ok (set_once o (VStr la) os, rest) else Err EParse
          end
      | KRequestTTY =>
          match parse_bool la with
          | Some b => Ok (set_once o (VBool b) os, rest)
          | None => if str_eqb la (z "force") || str_eqb la (z "auto")
                    then Ok (set_once o (VStr la) os, rest) else Err EParse
          end
      | KRekey =>
          let b := if str_eqb la (z "default") then RkDefault else RkStr la in
          match rest with
          | [] => Ok (set_once o (VRekey b RkDefault) os, [])
          | t :: rest' =>
              let lt := lower t in
              Ok (set_once o (VRekey b (if str_eqb lt (z "none") then RkNone else RkStr lt)) os, rest')
          end
      | _ => Err ECrash
      end
  end.

(* one handler call: (state, unconsumed args).  [rec] parses an included file. *)
Definition run_handler (rec : str -> state -> res state) (E : env) (k : kind) (o : str)
           (args : list str) (st : state) : res (state * list str) :=
  match k with
  | KHost =>
      Ok (with_matching st (patlist_match (join_with COMMA args) (e_host E)), [])
  | KMatch =>
      bind (eval_match E (s_opts st) args true (s_final st))
           (fun mf => Ok (mkState (s_opts st) (fst mf) (s_tokens st) (snd mf), []))
  | KInclude =>
      bind (fold_left (fun (acc : res state) (pat : str) =>
                         bind acc (fun s1 =>
                         bind (glob E pat) (fun paths =>
                         fold_left (fun (acc2 : res state) (p : str) => bind acc2 (rec p)) paths (Ok s1))))
                      args (Ok st))
           (fun s2 => Ok (with_matching s2 true, []))
  | KHostname =>
      match args with
      | [] => Err ECrash
      | a :: rest =>
          match lookup o (s_opts st) with
          | Some _ => Ok (st, rest)
          | None =>
              let toks := update_c 104 (e_host E) (s_tokens st) in
              bind (expand_val toks (e_environ E) a)
                   (fun v => Ok (mkState (update o (VStr v) (s_opts st)) (s_matching st) toks (s_final st), rest))
          end
      end
  | _ => bind (run_setter k o args (s_opts st)) (fun r => Ok (with_opts st (fst r), snd r))
  end.

(* the body of the "for line in file" loop of SSHConfig.parse *)
Definition step (rec : str -> state -> res state) (E : env) (raw : str) (st : state) : res state :=
  let line := strip raw in
  match line with
  | [] => Ok st
  | c :: _ =>
      if c =? HASH then Ok st else
      match shlex_split line with
      | None => Err EParse
      | Some toks =>
          match split_line (is_cond E) toks with
          | None => Err ECrash
          | Some (lo, args0) =>
              let args := if no_split E lo then [strip (skipn (length lo) line)] else args0 in
              if negb (s_matching st) && negb (is_cond E lo) then Ok st else
              match lookup_handler E lo with
              | None => Ok st
              | Some (o, k) =>
                  match args with
                  | [] => Err EParse                              (* Missing value *)
                  | _ => match run_handler rec E k o args st with
                         | Err e => Err e
                         | Ok (st', []) => Ok st'
                         | Ok (_, _ :: _) => Err EParse           (* Extra data at end *)
                         end
                  end
              end
          end
      end
  end.

Fixpoint run_lines (rec : str -> state -> res state) (E : env) (lines : list str) (st : state) : res state :=
  match lines with
  | [] => Ok st
  | l :: r => match step rec E l st with Ok st' => run_lines rec E r st' | Err e => Err e end
  end.

(* ---- end of parse: _set_tokens and expansion of the _percent_expand options ------------------- *)
Definition short_host (h : str) : str := match split_on DOT h with a :: _ => a | [] => h end.

Definition set_tokens (E : env) (st : state) : res (list (Z * str)) :=
  if e_client E then
    let host := match lookup (z "Hostname") (s_opts st) with Some (VStr s) => Ok s | None => Ok (e_host E) | _ => Err EUnmodelled end in
    let port := match lookup (z "Port") (s_opts st) with Some (VInt n) => Ok (dec n) | None => Ok (z "22") | _ => Err EUnmodelled end in
    let user := match lookup (z "User") (s_opts st) with
                | Some (VStr []) | Some VNone | None => Ok (e_local_user E)
                | Some (VStr s) => Ok s
                | _ => Err EUnmodelled end in
    bind host (fun h => bind port (fun p => bind user (fun u =>
      let t := s_tokens st in
      (* 'C' (connection hash, SHA-1) is not modelled *)
      let t := update_c 104 h t in
      let t := update_c 76 (short_host (e_local_hostname E)) t in
      let t := update_c 108 (e_local_hostname E) t in
      let t := update_c 110 (e_host E) t in
      let t := update_c 112 p t in
      let t := update_c 114 u t in
      let t := update_c 117 (e_local_user E) t in
      let t := update_c 100 (e_home E) t in
      let t := match e_uid E with Some i => update_c 105 i t | None => t end in
      Ok t)))
  else
    if unsafe_user (e_user E) then Err EUser
    else Ok (update_c 117 (e_user E) (s_tokens st)).

Fixpoint expand_list (toks : list (Z * str)) (environ : list (str * str)) (l : list str) : res (list str) :=
  match l with
  | [] => Ok []
  | a :: r => bind (expand_val toks environ a) (fun a' => bind (expand_list toks environ r) (fun r' => Ok (a' :: r')))
  end.

Definition expand_value (toks : list (Z * str)) (environ : list (str * str)) (v : value) : res value :=
  match v with
  | VStr s => bind (expand_val toks environ s) (fun s' => Ok (VStr s'))
  | VList l => bind (expand_list toks environ l) (fun l' => Ok (VList l'))
  | _ => Ok v
  end.

Fixpoint expand_opts (toks : list (Z * str)) (environ : list (str * str)) (which : list str) (os : opts) : res opts :=
  match os with
  | [] => Ok []
  | (o, v) :: r =>
      bind (if mem_str o which then expand_value toks environ v else Ok v) (fun v' =>
      bind (expand_opts toks environ which r) (fun r' => Ok ((o, v') :: r')))
  end.

Definition finish (E : env) (st : state) : res state :=
  bind (set_tokens E st) (fun toks =>
  bind (expand_opts toks (e_environ E) (pct_expand E) (s_opts st)) (fun os =>
  Ok (mkState os (s_matching st) toks (s_final st)))).

Definition pct_token : list (Z * str) := [(PCT, [PCT])].

(* SSHConfig.parse(path): every parse - of a listed path or of an included file - starts matching
   with the token table reset to {'%': '%'}.  With q_expand_each_parse (the code before d97dd8e)
   every parse also ended with _set_tokens + expansion; now that happens once, in load. *)
Fixpoint parse_file (fuel : nat) (E : env) (path : str) (st : state) : res state :=
  match fuel with
  | O => Err EFuel
  | S f =>
      match lookup path (e_fs E) with
      | None => Err ECrash                                          (* OSError from open() *)
      | Some lines =>
          let each := q_expand_each_parse (e_quirks E) in
          let st0 := mkState (s_opts st) true pct_token (s_final st) in
          bind (run_lines (parse_file f E) E lines st0) (fun st1 => if each then finish E st1 else Ok st1)
      end
  end.

(* SSHConfig.load: base = options inherited from last_config, then (client) user / port passed by
   the caller, then every path in turn.  Result: options and has_match_final(). *)
Definition init_opts (E : env) (base : opts) (user : option str) (port : option Z) : opts :=
  if e_client E then
    let o1 := match user with Some u => update (z "User") (VStr u) base | None => base end in
    match port with Some p => update (z "Port") (VInt p) o1 | None => o1 end
  else base.

Definition load (fuel : nat) (E : env) (base : opts) (user : option str) (port : option Z) (paths : list str)
  : res (opts * bool) :=
  let st0 := mkState (init_opts E base user port) true pct_token (if e_final E then Some true else None) in
  bind (fold_left (fun (acc : res state) (p : str) => bind acc (parse_file fuel E p)) paths (Ok st0)) (fun st1 =>
  bind (match paths with
        | [] => Ok st1
        | _ => if q_expand_each_parse (e_quirks E) then Ok st1 else finish E st1
        end) (fun st2 =>
  Ok (s_opts st2, match s_final st2 with Some _ => true | None => false end))).

(* connection.py _connect without DNS canonicalisation: a second, final pass when the first pass
   met "Match final" *)
Definition set_final (E : env) (b : bool) : env :=
  Build_env (e_client E) (e_quirks E) (e_canonical E) b (e_local_user E) (e_host E) (e_user E) (e_addr E)
            (e_local_addr E) (e_local_port E) (e_local_hostname E) (e_home E) (e_uid E) (e_environ E) (e_fs E).
Definition set_quirks (E : env) (q : quirks) : env :=
  Build_env (e_client E) q (e_canonical E) (e_final E) (e_local_user E) (e_host E) (e_user E) (e_addr E)
            (e_local_addr E) (e_local_port E) (e_local_hostname E) (e_home E) (e_uid E) (e_environ E) (e_fs E).

Definition resolve_two_pass (fuel : nat) (E : env) (base : opts) (user : option str) (port : option Z)
           (paths : list str) : res (opts * bool) :=
  match load fuel (set_final E false) base user port paths with
  | Ok (os, true) => load fuel (set_final E true) base user port paths
  | r => r
  end.

(* what ssh does for "Match final": the configuration is parsed a second time ON TOP of the options
   the first pass produced (ssh.c process_config_files, same Options struct), so first-pass values
   keep winning and only still-unset options can be set by the final pass *)
Definition resolve_two_pass_on_top (fuel : nat) (E : env) (base : opts) (user : option str) (port : option Z)
           (paths : list str) : res (opts * bool) :=
  match load fuel (set_final E false) base user port paths with
  | Ok (os, true) => load fuel (set_final E true) os user port paths
  | r => r
  end.
