(* Executable model of the RECURSIVE COPY PLAN of asyncssh's SFTP client: the sequence of
   destination-side file-system operations that SFTPClient._begin_copy / SFTPClient._copy
   (sftp.py, used by get / put / copy / mget / mput / mcopy) perform for a source tree that is
   entirely chosen by the source (names, types, link targets, duplicate names, listing order,
   injected errors).

   Sources modelled (asyncssh, /repo):
     SFTPClient._copy            sftp.py  "async def _copy"        (incl. the `symlinks` set of a79246f,
                                          the '.'/'..' skip, the b'/' in filename check, follow_symlinks,
                                          recurse, preserve, error_handler on/off)
     SFTPClient._begin_copy      sftp.py  "async def _begin_copy"  (dst_isdir, compose_path, basename)
     SFTPGlob._match_pattern / match   sftp.py  only the single-pattern case "dir/*" (glob_star)
     LocalFS.isdir/mkdir/symlink/open/setstat, posixpath.join/basename
   The destination file system is an abstract map  canonical path -> kind ; everything that is
   reached THROUGH a symbolic link is answered by an arbitrary oracle [orc] (the theorems hold for
   every oracle; the correspondence instantiates it with what the real file system answered).
   No proofs here. *)
From AV Require Import Base.Prelude Model.Paths.

(* ---- the source, as the (hostile) source side presents it ------------------------------------
   File rd_ok      listed as a regular file; the source's open succeeds; reading fails if rd_ok=false
   Link t seen     listed as a symbolic link, readlink answers t; [seen] is what a FOLLOWING stat of
                   the same path claims (only used with follow_symlinks; a hostile source may claim
                   "still a symbolic link", modelled by seen = Link _ _)
   Dir es ls_ok    listed as a directory whose listing yields es in this order and then ends
                   (ls_ok = true) or fails (ls_ok = false)
   Broken          the first source-side request for this entry fails (open / stat / readlink)   *)
Inductive node :=
| File (rd_ok : bool)
| Link (target : bytes) (seen : node)
| Dir (entries : list (bytes * node)) (ls_ok : bool)
| Broken.

Fixpoint node_size (n : node) : nat :=
  match n with
  | File _ => 1
  | Broken => 1
  | Link _ s => S (node_size s)
  | Dir es _ =>
      S ((fix go (l : list (bytes * node)) : nat :=
            match l with [] => O | e :: r => (node_size (snd e) + go r)%nat end) es)
  end.

Fixpoint srcs_size (l : list (bytes * node)) : nat :=
  match l with [] => O | e :: r => (node_size (snd e) + srcs_size r)%nat end.

(* ---- abstract destination file system -------------------------------------------------------- *)
Inductive kind := KDir | KFile | KLink.
Definition fsT := list (bytes * kind).
Inductive res := RNone | RFile | RDir.        (* what a path resolves to when links are followed *)

Definition kind_eqb (a b : kind) : bool :=
  match a, b with KDir, KDir | KFile, KFile | KLink, KLink => true | _, _ => false end.
Definition res_eqb (a b : res) : bool :=
  match a, b with RNone, RNone | RFile, RFile | RDir, RDir => true | _, _ => false end.
Definition res_none (r : res) : bool := match r with RNone => true | _ => false end.
Definition res_dir (r : res) : bool := match r with RDir => true | _ => false end.
Definition is_klink (k : kind) : bool := match k with KLink => true | _ => false end.
Definition is_nil (b : bytes) : bool := match b with [] => true | _ => false end.
Definition is_nil_l {A} (l : list A) : bool := match l with [] => true | _ => false end.

Fixpoint lookup (c : bytes) (fs : fsT) : option kind :=
  match fs with
  | [] => None
  | e :: r => if zlist_eqb (fst e) c then Some (snd e) else lookup c r
  end.

Fixpoint mem_bytes (p : bytes) (l : list bytes) : bool :=
  match l with [] => false | q :: r => zlist_eqb q p || mem_bytes p r end.

(* a path without its trailing slashes ("d/x/" names the same entry as "d/x"); "/" stays "/" *)
Definition rstrip_slash (p : bytes) : bytes := rev (lstrip_slash (rev p)).
Definition canon (p : bytes) : bytes := match rstrip_slash p with [] => p | c => c end.

(* some proper directory prefix q of p (p = q ++ "/" ++ ...) is a symbolic link *)
Definition via_link (fs : fsT) (p : bytes) : bool :=
  existsb (fun e => is_klink (snd e) && zprefix (fst e ++ [SLASH]) p) fs.

Definition lookup_is_link (fs : fsT) (p : bytes) : bool :=
  match lookup (canon p) fs with Some KLink => true | _ => false end.

(* does resolving p traverse a symbolic link?  final = the operation follows a link in the last
   component too (isdir, open, setstat with follow_symlinks) *)
Definition thru_of (fs : fsT) (p : bytes) (final : bool) : bool :=
  via_link fs p || (final && lookup_is_link fs p).

Definition resolve (orc : bytes -> res) (fs : fsT) (p : bytes) : res :=
  match lookup (canon p) fs with
  | Some KDir => RDir
  | Some KFile => if ends_with_slash p then RNone else RFile
  | Some KLink => orc p
  | None => if via_link fs p then orc p else RNone
  end.

(* nothing may exist at p (the last component is not followed) *)
Definition absent (orc : bytes -> res) (fs : fsT) (p : bytes) : bool :=
  match lookup (canon p) fs with
  | Some _ => false
  | None => if via_link fs p then res_none (orc p) else true
  end.

(* os.mkdir *)
Definition do_mkdir (orc : bytes -> res) (fs : fsT) (p : bytes) : bool * fsT :=
  if absent orc fs p then (true, (canon p, KDir) :: fs) else (false, fs).

(* os.symlink(t, p): refuses an empty target, an empty path, a path with a trailing slash and an
   existing entry *)
Definition do_symlink (orc : bytes -> res) (fs : fsT) (t p : bytes) : bool * fsT :=
  if negb (is_nil t) && negb (is_nil p) && negb (ends_with_slash p) && absent orc fs p
  then (true, (p, KLink) :: fs) else (false, fs).

(* open(p, 'wb'): follows links, creates the file when nothing is there *)
Definition do_write (orc : bytes -> res) (fs : fsT) (p : bytes) : bool * fsT :=
  match resolve orc fs p with
  | RDir => (false, fs)
  | RFile => (true, fs)
  | RNone =>
      if ends_with_slash p then (false, fs)
      else match lookup (canon p) fs with
           | None => (true, (canon p, KFile) :: fs)
           | Some _ => (true, fs)            (* dangling link: its target is created *)
           end
  end.

(* chmod / utime with or without follow_symlinks *)
Definition do_setstat (orc : bytes -> res) (fs : fsT) (p : bytes) (follow : bool) : bool :=
  if follow then negb (res_none (resolve orc fs p))
  else match lookup (canon p) fs with
       | Some KFile => negb (ends_with_slash p)
       | Some _ => true
       | None => if via_link fs p then negb (res_none (orc p)) else false
       end.

(* ---- operations of the plan ------------------------------------------------------------------
   Every destination-side call in the order it is made, with its outcome and with [thru] = the
   resolution of its path went through a symbolic link.  OErr c p = the error handler was called
   with an exception of class c whose dstpath attribute is p.                                    *)
Inductive ecls := EBad | EOther.      (* SFTPBadMessage | any other OSError / SFTPError *)
Definition ecls_eqb (a b : ecls) : bool :=
  match a, b with EBad, EBad | EOther, EOther => true | _, _ => false end.

Inductive op :=
| OIsdir (p : bytes) (r thru : bool)
| OMkdir (p : bytes) (ok thru : bool)
| OSymlink (t p : bytes) (ok thru : bool)
| OWrite (p : bytes) (ok thru : bool)
| OSetstat (p : bytes) (follow ok thru : bool)
| OErr (c : ecls) (p : bytes).

Definition op_path (o : op) : bytes :=
  match o with
  | OIsdir p _ _ | OMkdir p _ _ | OSymlink _ p _ _ | OWrite p _ _ | OSetstat p _ _ _ | OErr _ p => p
  end.

(* preserve / recurse / follow_symlinks / an error handler is installed are the caller's options;
   dupcheck = the `symlinks` set of a79246f is in place, presfix = the setstat flag of 6e0d949
   (follow_symlinks = filetype != SYMLINK; before: follow_symlinks or filetype != SYMLINK) *)
Record cfg := Cfg { preserve : bool; recurse : bool; follow : bool; handler : bool;
                    dupcheck : bool; presfix : bool }.

Definition state := (fsT * list bytes)%type.      (* file system, the `symlinks` set of this copy *)
Definition result := (list op * state * option ecls)%type.

(* follow_symlinks: a listed link is replaced by what the following stat claims *)
Definition effective (c : cfg) (n : node) : node :=
  match n with
  | Link t seen =>
      if follow c then match seen with Link _ _ => n | other => other end else n
  | _ => n
  end.

(* if preserve: dstfs.setstat(dstpath, attrs, follow_symlinks=fl) *)
Definition preserve_step (orc : bytes -> res) (c : cfg) (ops : list op) (s : state) (dp : bytes)
           (fl : bool) : result :=
  if preserve c then
    let ok := do_setstat orc (fst s) dp fl in
    (ops ++ [OSetstat dp fl ok (thru_of (fst s) dp fl)], s, if ok then None else Some EOther)
  else (ops, s, None).

(* the body of `async for srcname in srcfs.scandir(srcpath)` *)
Fixpoint copy_entries (rec : node -> bytes -> state -> result) (dp : bytes)
         (es : list (bytes * node)) (s : state) : result :=
  match es with
  | [] => ([], s, None)
  | e :: rest =>
      if get_name_skipped (fst e) then copy_entries rec dp rest s
      else if mem_z SLASH (fst e) then ([], s, Some EBad)
      else
        let '(o1, s1, r1) := rec (snd e) (pjoin dp (fst e)) s in
        match r1 with
        | Some x => (o1, s1, Some x)
        | None => let '(o2, s2, r2) := copy_entries rec dp rest s1 in (o1 ++ o2, s2, r2)
        end
  end.

(* the try-block of _copy *)
Definition copy_body (orc : bytes -> res) (c : cfg) (rec : node -> bytes -> state -> result)
           (n : node) (dp : bytes) (s : state) : result :=
  let fs := fst s in
  let links := snd s in
  if dupcheck c && mem_bytes dp links then ([], s, Some EBad)
  else match effective c n with
  | Broken => ([], s, Some EOther)
  | Dir es ls_ok =>
      if negb (recurse c) then ([], s, Some EOther)
      else
        let isd := res_dir (resolve orc fs dp) in
        let o_isd := OIsdir dp isd (thru_of fs dp true) in
        let '(mk_ok, fs1) := if isd then (true, fs) else do_mkdir orc fs dp in
        let pre := if isd then [o_isd] else [o_isd; OMkdir dp mk_ok (thru_of fs dp false)] in
        if negb mk_ok then (pre, (fs1, links), Some EOther)
        else
          let '(o2, s2, r2) := copy_entries rec dp es (fs1, links) in
          match r2 with
          | Some x => (pre ++ o2, s2, Some x)
          | None =>
              if negb ls_ok then (pre ++ o2, s2, Some EOther)
              else preserve_step orc c (pre ++ o2) s2 dp true
          end
  | Link t _ =>
      let '(ok, fs1) := do_symlink orc fs t dp in
      let o := OSymlink t dp ok (thru_of fs dp false) in
      if ok then preserve_step orc c [o] (fs1, dp :: links) dp (if presfix c then false else follow c)
      else ([o], s, Some EOther)
  | File rd_ok =>
      let '(ok, fs1) := do_write orc fs dp in
      let o := OWrite dp ok (thru_of fs dp true) in
      if ok && rd_ok then preserve_step orc c [o] (fs1, links) dp true
      else ([o], (fs1, links), Some EOther)
  end.

(* _copy: the try-block plus  except (OSError, SFTPError): error_handler(exc) or re-raise *)
Fixpoint copy_node (orc : bytes -> res) (c : cfg) (fuel : nat) (n : node) (dp : bytes) (s : state)
  : result :=
  match fuel with
  | O => ([], s, Some EOther)                       (* out of fuel (never with fuel = size) *)
  | S f =>
      let '(ops, s1, r) := copy_body orc c (copy_node orc c f) n dp s in
      match r with
      | None => (ops, s1, None)
      | Some x => if handler c then (ops ++ [OErr x dp], s1, None) else (ops, s1, Some x)
      end
  end.

(* the loop over srcnames of _begin_copy *)
Fixpoint copy_tops (rec : node -> bytes -> state -> result) (dst : bytes) (isd : bool)
         (srcs : list (bytes * node)) (s : state) : result :=
  match srcs with
  | [] => ([], s, None)
  | e :: rest =>
      let dstfile := if isd then pjoin dst (fst e) else dst in
      let '(o1, s1, r1) := rec (snd e) dstfile s in
      match r1 with
      | Some x => (o1, s1, Some x)
      | None => let '(o2, s2, r2) := copy_tops rec dst isd rest s1 in (o1 ++ o2, s2, r2)
      end
  end.

(* _begin_copy with a non-empty destination path; srcs = (basename of the source path, node) *)
Definition begin_copy (orc : bytes -> res) (c : cfg) (fuel : nat) (dst : bytes)
           (srcs : list (bytes * node)) (fs0 : fsT) : result :=
  let isd := res_dir (resolve orc fs0 dst) in
  let o0 := OIsdir dst isd (thru_of fs0 dst true) in
  if (1 <? Z.of_nat (length srcs)) && negb isd then ([o0], (fs0, []), Some EOther)
  else
    let '(ops, s, r) := copy_tops (copy_node orc c fuel) dst isd srcs (fs0, []) in
    (o0 :: ops, s, r).

Definition mkcfg (pres rec fol hnd : bool) : cfg := Cfg pres rec fol hnd true true.
(* the code before a79246f (no `symlinks` set) / before 6e0d949 (setstat flag) *)
Definition old_dup (c : cfg) : cfg := Cfg (preserve c) (recurse c) (follow c) (handler c) false (presfix c).
Definition old_pres (c : cfg) : cfg := Cfg (preserve c) (recurse c) (follow c) (handler c) (dupcheck c) false.

(* the plan of the code as it is *)
Definition copy_plan (orc : bytes -> res) (c : cfg) (dst : bytes) (srcs : list (bytes * node))
           (fs0 : fsT) : list op :=
  fst (fst (begin_copy orc c (S (srcs_size srcs)) dst srcs fs0)).

Definition copy_plan_old (orc : bytes -> res) (c : cfg) (dst : bytes) (srcs : list (bytes * node))
           (fs0 : fsT) : list op :=
  copy_plan orc (old_dup c) dst srcs fs0.

(* ---- glob expansion of the single pattern  dir/*  -------------------------------------------
   SFTPGlob._match_pattern: names '.' and '..' are skipped, a name containing '/' ends the
   expansion with SFTPBadMessage (abbc782; slashfix = false is the code before), every other
   listed name matches '*', the match is posixpath.join(dir, name) and _begin_copy takes its
   posixpath.basename.  SFTPGlob.match: an error goes to the error handler (the matches found so
   far are copied) or is raised; no match at all is an error too. *)
Fixpoint upto_slash (l : bytes) : bytes :=
  match l with [] => [] | c :: r => if c =? SLASH then [] else c :: upto_slash r end.
(* posixpath.basename: everything after the last slash *)
Definition basename (p : bytes) : bytes := rev (upto_slash (rev p)).

Fixpoint glob_scan (slashfix : bool) (dir : bytes) (listing : list (bytes * node))
  : list (bytes * node) * option ecls :=
  match listing with
  | [] => ([], None)
  | e :: r =>
      if get_name_skipped (fst e) then glob_scan slashfix dir r
      else if slashfix && mem_z SLASH (fst e) then ([], Some EBad)
      else let '(m, x) := glob_scan slashfix dir r in ((basename (pjoin dir (fst e)), snd e) :: m, x)
  end.

Definition glob_star (slashfix : bool) (dir : bytes) (listing : list (bytes * node))
  : list (bytes * node) * option ecls :=
  let '(m, x) := glob_scan slashfix dir listing in
  (m, match x with Some e => Some e | None => if is_nil_l m then Some EOther else None end).

(* _begin_copy with expand_glob for the pattern dir/* : (glob error reported to the handler?, result) *)
Definition begin_copy_glob (orc : bytes -> res) (c : cfg) (slashfix : bool) (dst dir : bytes)
           (listing : list (bytes * node)) (fs0 : fsT) : option ecls * result :=
  let '(srcs, gerr) := glob_star slashfix dir listing in
  match gerr with
  | Some e => if handler c then (Some e, begin_copy orc c (S (srcs_size srcs)) dst srcs fs0)
              else (None, ([], (fs0, []), Some e))
  | None => (None, begin_copy orc c (S (srcs_size srcs)) dst srcs fs0)
  end.

Definition copy_plan_glob (orc : bytes -> res) (c : cfg) (slashfix : bool) (dst dir : bytes)
           (listing : list (bytes * node)) (fs0 : fsT) : list op :=
  fst (fst (snd (begin_copy_glob orc c slashfix dst dir listing fs0))).

(* ---- a variant that is NOT the code: the `symlinks` set created afresh for every top-level source
   (seeded change C13-e); kept only to show that the set must span the whole call ------------------ *)
Fixpoint copy_tops_persrc (rec : node -> bytes -> state -> result) (dst : bytes) (isd : bool)
         (srcs : list (bytes * node)) (s : state) : result :=
  match srcs with
  | [] => ([], s, None)
  | e :: rest =>
      let dstfile := if isd then pjoin dst (fst e) else dst in
      let '(o1, s1, r1) := rec (snd e) dstfile (fst s, []) in
      match r1 with
      | Some x => (o1, s1, Some x)
      | None => let '(o2, s2, r2) := copy_tops_persrc rec dst isd rest s1 in (o1 ++ o2, s2, r2)
      end
  end.

Definition copy_plan_persrc (orc : bytes -> res) (c : cfg) (dst : bytes) (srcs : list (bytes * node))
           (fs0 : fsT) : list op :=
  let isd := res_dir (resolve orc fs0 dst) in
  let o0 := OIsdir dst isd (thru_of fs0 dst true) in
  if (1 <? Z.of_nat (length srcs)) && negb isd then [o0]
  else o0 :: fst (fst (copy_tops_persrc (copy_node orc c (S (srcs_size srcs))) dst isd srcs (fs0, []))).
