(* Executable model of asyncssh/asn1.py (the DER codec used by every PKCS#1/PKCS#8 key format).
   Sources modelled (/repo/asyncssh/asn1.py):
     _encode_identifier, der_encode                 -> enc_ident, enc_len, enc, der_encode
     der_decode_partial, der_decode                 -> parse_hdr, dec, der_decode_partial, der_decode
     _Null/_Boolean/_Integer/_OctetString/_UTF8String/_Sequence/_Set/BitString/IA5String/
     ObjectIdentifier  .encode / .decode             -> enc_content / dec_universal
     RawDERObject, TaggedDERObject                   -> VRaw, VTagged
   Bytes are list Z.  A Python str (UTF8String) is represented by its UTF-8 bytes (the map is a
   bijection between str without lone surrogates and valid UTF-8); an ObjectIdentifier by the list of
   its integer components (the decoder only produces canonical decimal strings; the str->int parsing of
   the encoder is not modelled).  No proofs here. *)
From AV Require Import Base.Prelude.

Inductive value : Type :=
| VNull
| VBool (b : bool)
| VInt (i : Z)
| VOctets (s : bytes)
| VUtf8 (s : bytes)
| VSeq (l : list value)
| VSet (l : list value)
| VBits (unused : Z) (s : bytes)
| VIA5 (s : bytes)
| VOid (c : list Z)
| VTagged (cls tag : Z) (v : value)
| VRaw (cls tag : Z) (s : bytes).

(* error classes of the real decoder: ASN1DecodeError, ASN1EncodeError (raised by the BitString
   constructor while decoding), UnicodeDecodeError; OutOfFuel is the model's explicit out-of-fuel
   result (the real code has the Python recursion limit instead). *)
Inductive derr := DecodeErr | EncodeErr | UnicodeErr | OutOfFuel.
Inductive res (A : Type) := Ok (a : A) | Err (e : derr).
Arguments Ok {A} a.
Arguments Err {A} e.

(* ------------------------------------------------------------------------------------------- *)
(* big-endian digit strings *)

(* minimal big-endian base-2^k digits of n (empty for 0); n >> k and n & (2^k - 1) *)
Fixpoint be_digits (k : Z) (fuel : nat) (n : Z) (acc : list Z) : list Z :=
  match fuel with
  | O => acc
  | S f => if n =? 0 then acc else be_digits k f (Z.shiftr n k) (Z.land n (Z.ones k) :: acc)
  end.

Definition digit_fuel (n : Z) : nat := S (Z.to_nat (Z.log2 n)).

(* int.from_bytes(l, 'big') for B = 256 *)
Definition undigits (B : Z) (l : list Z) : Z := fold_left (fun a d => a * B + d) l 0.

(* n.to_bytes(l, 'big') for 0 <= n < 256^l *)
Fixpoint be_fixed (l : nat) (n : Z) (acc : list Z) : list Z :=
  match l with
  | O => acc
  | S l' => be_fixed l' (Z.shiftr n 8) (Z.land n 255 :: acc)
  end.

Definition zlen {A} (l : list A) : Z := Z.of_nat (length l).

(* ------------------------------------------------------------------------------------------- *)
(* identifier and length octets *)

(* big-endian base-128 with the continuation bit on every octet but the last:
   the loop of _encode_identifier (tag >= 0x20) and of ObjectIdentifier.encode._bytes *)
Definition base128 (n : Z) : bytes :=
  map (fun d => 128 + d) (be_digits 7 (digit_fuel (n / 128)) (n / 128) []) ++ [n mod 128].

(* _encode_identifier: note the short form is used for every tag < 0x20, including 31 *)
Definition enc_ident (cls : Z) (constructed : bool) (tag : Z) : bytes :=
  let flags := cls * 64 + (if constructed then 32 else 0) in
  if tag <? 32 then [flags + tag] else (flags + 31) :: base128 tag.

(* length octets of der_encode *)
Definition enc_len (n : Z) : bytes :=
  if n <? 128 then [n]
  else let d := be_digits 8 (digit_fuel n) n [] in (128 + zlen d) :: d.

(* ------------------------------------------------------------------------------------------- *)
(* content octets of the universal types *)

Definition bit_length (i : Z) : Z := if i =? 0 then 0 else Z.log2 (Z.abs i) + 1.

(* _Integer.encode *)
Definition enc_int (i : Z) : bytes :=
  let bl := bit_length i in
  let l := if bl mod 8 =? 0 then bl / 8 + 1 else (bl + 7) / 8 in
  let r := be_fixed (Z.to_nat l) (if i <? 0 then i + 256 ^ l else i) [] in    (* two's complement *)
  match r with
  | a :: b :: _ => if (a =? 255) && (b =? 128) then tl r else r     (* startswith(b'\xff\x80') *)
  | _ => r
  end.

(* int.from_bytes(content, 'big', signed=True) *)
Definition dec_int (content : bytes) : Z :=
  match content with
  | [] => 0
  | b :: _ => if b <? 128 then undigits 256 content else undigits 256 content - 256 ^ zlen content
  end.

(* ObjectIdentifier.encode: the checks ... *)
Definition oid_ok (c : list Z) : bool :=
  match c with
  | c0 :: c1 :: r =>
      (0 <=? c0) && (c0 <=? 2) && ((2 <=? c0) || ((0 <=? c1) && (c1 <=? 39))) &&
      (0 <=? c0 * 40 + c1) && forallb (fun x => 0 <=? x) r
  | _ => false
  end.

(* ... and the octets *)
Definition enc_oid (c : list Z) : bytes :=
  match c with
  | c0 :: c1 :: r => concat (map base128 (c0 * 40 + c1 :: r))
  | _ => []
  end.

(* the component loop of ObjectIdentifier.decode over content[1:] *)
Fixpoint dec_oid_loop (acc : Z) (l : bytes) : option (list Z) :=
  match l with
  | [] => if acc =? 0 then Some [] else None
  | b :: r =>
      if (b =? 128) && (acc =? 0) then None
      else if b <? 128 then
        match dec_oid_loop 0 r with Some cs => Some ((acc + b) :: cs) | None => None end
      else dec_oid_loop ((acc + b mod 128) * 128) r
  end.

Definition dec_oid (content : bytes) : option (list Z) :=
  match content with
  | [] => None
  | b :: r =>
      match dec_oid_loop 0 r with
      | Some cs => Some (if b <? 80 then b / 40 :: b mod 40 :: cs else 2 :: b - 80 :: cs)
      | None => None
      end
  end.

(* strict UTF-8 validity as enforced by bytes.decode('utf-8') *)
Definition cont (b : Z) : bool := (128 <=? b) && (b <=? 191).
Fixpoint utf8_valid (l : bytes) : bool :=
  match l with
  | [] => true
  | b0 :: r0 =>
      if b0 <? 128 then (0 <=? b0) && utf8_valid r0
      else match r0 with
      | [] => false
      | b1 :: r1 =>
          if (194 <=? b0) && (b0 <=? 223) then cont b1 && utf8_valid r1
          else match r1 with
          | [] => false
          | b2 :: r2 =>
              if b0 =? 224 then (160 <=? b1) && (b1 <=? 191) && cont b2 && utf8_valid r2
              else if b0 =? 237 then (128 <=? b1) && (b1 <=? 159) && cont b2 && utf8_valid r2
              else if (225 <=? b0) && (b0 <=? 239) then cont b1 && cont b2 && utf8_valid r2
              else match r2 with
              | [] => false
              | b3 :: r3 =>
                  if b0 =? 240 then (144 <=? b1) && (b1 <=? 191) && cont b2 && cont b3 && utf8_valid r3
                  else if b0 =? 244 then (128 <=? b1) && (b1 <=? 143) && cont b2 && cont b3 && utf8_valid r3
                  else if (241 <=? b0) && (b0 <=? 243) then cont b1 && cont b2 && cont b3 && utf8_valid r3
                  else false
              end
          end
      end
  end.

(* BitString.__init__ for a bytes value: the checks (raise ASN1EncodeError) *)
Definition bits_ok (unused : Z) (s : bytes) : bool :=
  (0 <=? unused) && (unused <=? 7) &&
  ((unused =? 0) ||
   match rev s with
   | [] => false
   | lastb :: _ => lastb mod 2 ^ unused =? 0
   end).

(* ------------------------------------------------------------------------------------------- *)
(* lexicographic order of bytes objects and sorted() on a list of them (used by _Set.encode) *)

Fixpoint bytes_leb (a b : bytes) : bool :=
  match a, b with
  | [], _ => true
  | _ :: _, [] => false
  | x :: a', y :: b' => if x <? y then true else if y <? x then false else bytes_leb a' b'
  end.

Fixpoint insert_sorted (x : bytes) (l : list bytes) : list bytes :=
  match l with
  | [] => [x]
  | y :: r => if bytes_leb x y then x :: l else y :: insert_sorted x r
  end.

Definition sort_bytes (l : list bytes) : list bytes := fold_right insert_sorted [] l.

(* ------------------------------------------------------------------------------------------- *)
(* der_encode *)

Definition universal_tag (v : value) : Z :=
  match v with
  | VNull => 5 | VBool _ => 1 | VInt _ => 2 | VOctets _ => 4 | VUtf8 _ => 12
  | VSeq _ => 16 | VSet _ => 17 | VBits _ _ => 3 | VIA5 _ => 22 | VOid _ => 6
  | _ => 0
  end.

Fixpoint enc (v : value) : bytes :=
  let wrap (cls : Z) (constructed : bool) (tag : Z) (content : bytes) :=
    enc_ident cls constructed tag ++ enc_len (zlen content) ++ content in
  match v with
  | VNull => wrap 0 false 5 []
  | VBool b => wrap 0 false 1 [if b then 255 else 0]
  | VInt i => wrap 0 false 2 (enc_int i)
  | VOctets s => wrap 0 false 4 s
  | VUtf8 s => wrap 0 false 12 s
  | VSeq l => wrap 0 true 16 (concat (map enc l))
  | VSet l => wrap 0 true 17 (concat (sort_bytes (map enc l)))
  | VBits u s => wrap 0 false 3 (u :: s)
  | VIA5 s => wrap 0 false 22 s
  | VOid c => wrap 0 false 6 (enc_oid c)
  | VTagged cls tag v' => wrap cls true tag (enc v')
  | VRaw cls tag s => wrap cls false tag s
  end.

(* content octets (used to state the length limit) *)
Definition content_of (v : value) : bytes :=
  match v with
  | VNull => []
  | VBool b => [if b then 255 else 0]
  | VInt i => enc_int i
  | VOctets s | VUtf8 s | VIA5 s => s
  | VSeq l => concat (map enc l)
  | VSet l => concat (sort_bytes (map enc l))
  | VBits u s => u :: s
  | VOid c => enc_oid c
  | VTagged _ _ v' => enc v'
  | VRaw _ _ s => s
  end.

(* the length octet 0x80|n must fit a byte: bytes((0x80 | len(len_bytes),)) raises otherwise *)
Definition len_ok (n : Z) : bool :=
  (n <? 128) || (zlen (be_digits 8 (digit_fuel n) n []) <? 128).

(* conditions under which the real der_encode returns (rather than raises) *)
Fixpoint enc_ok (v : value) : bool :=
  len_ok (zlen (content_of v)) &&
  match v with
  | VSeq l | VSet l => forallb enc_ok l
  | VBits u s => bits_ok u s
  | VOid c => oid_ok c
  | VTagged cls tag v' => (0 <=? cls) && (cls <=? 3) && (0 <=? tag) && enc_ok v'
  | VRaw cls tag _ => (0 <=? cls) && (cls <=? 3) && (0 <=? tag)
  | _ => true
  end.

Definition der_encode (v : value) : option bytes := if enc_ok v then Some (enc v) else None.

(* ------------------------------------------------------------------------------------------- *)
(* equality *)

Fixpoint value_eqb (a b : value) : bool :=
  let fix go (l1 l2 : list value) : bool :=
    match l1, l2 with
    | [], [] => true
    | x :: r, y :: s => value_eqb x y && go r s
    | _, _ => false
    end in
  match a, b with
  | VNull, VNull => true
  | VBool x, VBool y => Bool.eqb x y
  | VInt x, VInt y => x =? y
  | VOctets x, VOctets y | VUtf8 x, VUtf8 y | VIA5 x, VIA5 y | VOid x, VOid y => zlist_eqb x y
  | VSeq x, VSeq y | VSet x, VSet y => go x y
  | VBits u x, VBits w y => (u =? w) && zlist_eqb x y
  | VTagged c t x, VTagged d u y => (c =? d) && (t =? u) && value_eqb x y
  | VRaw c t x, VRaw d u y => (c =? d) && (t =? u) && zlist_eqb x y
  | _, _ => false
  end.

(* Python equality on decoded values identifies True with 1 and False with 0 (also inside tuples,
   frozensets and TaggedDERObject); this matters only for the duplicate removal of frozenset. *)
Fixpoint pynorm (v : value) : value :=
  match v with
  | VBool b => VInt (if b then 1 else 0)
  | VSeq l => VSeq (map pynorm l)
  | VSet l => VSet (map pynorm l)
  | VTagged c t x => VTagged c t (pynorm x)
  | _ => v
  end.

Definition py_eqb (a b : value) : bool := value_eqb (pynorm a) (pynorm b).

(* set.add in arrival order: an element equal to an earlier one is dropped *)
Fixpoint dedup_py (seen : list value) (l : list value) : list value :=
  match l with
  | [] => []
  | x :: r => if existsb (py_eqb x) seen then dedup_py seen r else x :: dedup_py (x :: seen) r
  end.

(* ------------------------------------------------------------------------------------------- *)
(* der_decode_partial *)

(* the long-form tag loop: tag |= b & 0x7f; tag <<= 7 ... tag |= b *)
Fixpoint long_tag (acc : Z) (l : bytes) : option (Z * bytes) :=
  match l with
  | [] => None
  | b :: r => if b <? 128 then Some (acc + b, r) else long_tag ((acc + b mod 128) * 128) r
  end.

(* identifier octets: class, constructed, tag, remaining data.  len(data) < 2 is rejected first. *)
Definition parse_ident (data : bytes) : option (Z * bool * Z * bytes) :=
  match data with
  | b0 :: ((_ :: _) as r0) =>
      let t0 := b0 mod 32 in
      match (if t0 =? 31 then long_tag 0 r0 else Some (t0, r0)) with
      | None => None
      | Some (tag, r1) => Some (b0 / 64, (b0 / 32) mod 2 =? 1, tag, r1)
      end
  | _ => None
  end.

(* length octets and content: content, remaining data *)
Definition parse_len (r1 : bytes) : option (bytes * bytes) :=
  match r1 with
  | [] => None
  | lb :: r2 =>
      if lb =? 128 then None
      else if 128 <? lb then
        let k := Z.to_nat (lb mod 128) in
        if negb (Nat.leb k (length r2)) then None
        else
          let n := undigits 256 (firstn k r2) in
          let r3 := skipn k r2 in
          if zlen r3 <? n then None else Some (firstn (Z.to_nat n) r3, skipn (Z.to_nat n) r3)
      else
        if zlen r2 <? lb then None else Some (firstn (Z.to_nat lb) r2, skipn (Z.to_nat lb) r2)
  end.

Definition parse_hdr (data : bytes) : option (Z * bool * Z * bytes * bytes) :=
  match parse_ident data with
  | None => None
  | Some (cls, constructed, tag, r1) =>
      match parse_len r1 with
      | None => None
      | Some (content, rest) => Some (cls, constructed, tag, content, rest)
      end
  end.

Definition is_known_universal (tag : Z) : bool :=
  existsb (Z.eqb tag) [1; 2; 3; 4; 5; 6; 12; 16; 17; 22].

(* the while loop of _Sequence.decode / _Set.decode over the content octets; n bounds the number of
   items (every item consumes at least two octets, so length content always suffices) *)
Fixpoint dec_items (decf : bytes -> res (value * bytes)) (n : nat) (data : bytes) : res (list value) :=
  match data with
  | [] => Ok []
  | _ =>
      match n with
      | O => Err OutOfFuel
      | S n' =>
          match decf data with
          | Err e => Err e
          | Ok (v, rest) =>
              match dec_items decf n' rest with
              | Ok l => Ok (v :: l)
              | Err e => Err e
              end
          end
      end
  end.

(* decode() of the primitive universal classes, given constructed flag and content: the exception
   classes of the class methods themselves (BitString.__init__ raises ASN1EncodeError, bytes.decode
   raises UnicodeDecodeError).  Before 5ce3b74 these escaped from der_decode unchanged. *)
Definition dec_primitive_old (tag : Z) (constructed : bool) (content : bytes) : res value :=
  if constructed then Err DecodeErr
  else if tag =? 5 then (match content with [] => Ok VNull | _ => Err DecodeErr end)
  else if tag =? 1 then
    (match content with
     | [b] => if b =? 0 then Ok (VBool false) else if b =? 255 then Ok (VBool true) else Err DecodeErr
     | _ => Err DecodeErr
     end)
  else if tag =? 2 then Ok (VInt (dec_int content))
  else if tag =? 4 then Ok (VOctets content)
  else if tag =? 12 then (if utf8_valid content then Ok (VUtf8 content) else Err UnicodeErr)
  else if tag =? 3 then
    (match content with
     | [] => Err DecodeErr
     | u :: s => if 7 <? u then Err DecodeErr
                 else if bits_ok u s then Ok (VBits u s) else Err EncodeErr
     end)
  else if tag =? 22 then Ok (VIA5 content)
  else (* 6 *)
    match dec_oid content with Some c => Ok (VOid c) | None => Err DecodeErr end.

(* the code of record (5ce3b74): der_decode_partial reports both as ASN1DecodeError *)
Definition dec_primitive (tag : Z) (constructed : bool) (content : bytes) : res value :=
  match dec_primitive_old tag constructed content with
  | Err EncodeErr | Err UnicodeErr => Err DecodeErr
  | r => r
  end.

Fixpoint dec (fuel : nat) (data : bytes) : res (value * bytes) :=
  match fuel with
  | O => Err OutOfFuel
  | S f =>
      match parse_hdr data with
      | None => Err DecodeErr
      | Some (cls, constructed, tag, content, rest) =>
          if (cls =? 0) && is_known_universal tag then
            if (tag =? 16) || (tag =? 17) then
              if negb constructed then Err DecodeErr
              else match dec_items (dec f) (length content) content with
                   | Err e => Err e
                   | Ok l => Ok (if tag =? 16 then VSeq l else VSet (dedup_py [] l), rest)
                   end
            else match dec_primitive tag constructed content with
                 | Ok v => Ok (v, rest)
                 | Err e => Err e
                 end
          else if constructed then
            (* TaggedDERObject(tag, der_decode(content), asn1_class) *)
            match dec f content with
            | Err e => Err e
            | Ok (v, []) => Ok (VTagged cls tag v, rest)
            | Ok (_, _ :: _) => Err DecodeErr
            end
          else Ok (VRaw cls tag content, rest)
      end
  end.

(* fuel: every nesting level consumes at least two octets *)
Definition der_decode_partial (data : bytes) : res (value * bytes) := dec (S (length data)) data.

Definition der_decode (data : bytes) : res value :=
  match der_decode_partial data with
  | Err e => Err e
  | Ok (v, []) => Ok v
  | Ok (_, _ :: _) => Err DecodeErr
  end.

(* ------------------------------------------------------------------------------------------- *)
(* values that survive decode(encode(.)) unchanged; everything the real encoder accepts except the
   four listed deviations (each shown not to round-trip in Props/C15.v) *)

Definition tag_roundtrips (cls tag : Z) : bool :=
  negb (tag =? 31) &&                                   (* 31 is emitted in the short form *)
  negb ((cls =? 0) && is_known_universal tag).          (* would be decoded as the universal type *)

Fixpoint good (v : value) : bool :=
  len_ok (zlen (content_of v)) &&
  match v with
  | VUtf8 s => utf8_valid s
  | VSeq l => forallb good l
  | VSet l =>
      forallb good l &&
      list_eqb zlist_eqb (sort_bytes (map enc l)) (map enc l) &&    (* listed in encoding order *)
      list_eqb value_eqb (dedup_py [] l) l                          (* no two Python-equal members *)
  | VBits u s => bits_ok u s
  | VOid c => oid_ok c &&
              match c with c0 :: c1 :: _ => (0 <=? c1) && (c0 * 40 + c1 <? 128) | _ => false end
  | VTagged cls tag v' => (0 <=? cls) && (cls <=? 3) && (0 <=? tag) && tag_roundtrips cls tag && good v'
  | VRaw cls tag _ => (0 <=? cls) && (cls <=? 3) && (0 <=? tag) && tag_roundtrips cls tag
  | _ => true
  end.

(* nesting depth (fuel needed by dec is depth + 1) *)
Fixpoint depth (v : value) : nat :=
  match v with
  | VSeq l | VSet l => S (fold_right (fun x m => Nat.max (depth x) m) O l)
  | VTagged _ _ x => S (depth x)
  | _ => O
  end.
