(* C20 - executable model of asyncssh's forwarding machinery.  No proofs here.

   Part 1  the forwarder pair of forward.py
           SSHForwarder.{write, write_eof, data_received, eof_received, pause_writing,
           resume_writing, pause_reading, resume_reading, connection_lost, close, set_peer},
           SSHLocalForwarder._forward (early-data flush after the channel open is confirmed).
   Part 2  a whole tunnel: local pair  <-- two FIFO directions of an SSH channel -->  remote pair.
   Part 3  the registry of listeners / relayed sockets of a connection and connection cleanup
           connection.py _cleanup (1078-1079), forward_local_port/... (3290-3304, 3344-3351,
           5385, 5436, 5655), _finish_port_forward (6457-6495), close_forward_listener,
           listener.py SSHForwardListener.close, channel.py _finish_open_request (485-522).
   Part 4  the server-side permission decision
           connection.py _process_direct_tcpip_open (6381-6400), _process_tcpip_forward_global_request
           + _finish_port_forward (6442-6480), the two streamlocal variants (6542-6550, 6591-6623),
           check_key_permission, check_certificate_permission, get_key_option.
   (The SOCKS request parser of socks.py is in Model/Socks.v.)

   Repairs: [cfg] selects, per defect found by this check, the behaviour of the unrepaired
   snapshot (false) or of the proposed minimal repair (true).  [cfg_head] is what /repo does now;
   the correspondence check evaluates the model with [cfg_head] only. *)
From AV Require Import Base.Prelude.

Record cfg := mkCfg {
  fix_crossed : bool;     (* eof_received closes the pair once both directions have seen EOF *)
  fix_lost_early : bool;  (* _forward closes the pair if the local socket died before confirmation *)
  fix_register : bool     (* a listener / destination socket completed after cleanup is closed at once *)
}.
Definition cfg_old : cfg := mkCfg false false false.
Definition cfg_fixed : cfg := mkCfg true true true.
Definition cfg_head : cfg := cfg_fixed.

(* ========================================================================================== *)
(* Part 1: the forwarder pair.
   A = the forwarder whose transport is the accepted local socket (SSHLocalForwarder and its
       subclasses), B = SSHForwarder(peer=A), the session of the SSH channel, created by
       session_factory() when the channel open is confirmed.
   The same machine started in [st_linked] is the remote pair: SSHForwarder on the destination
   socket (A) and SSHForwarder(peer) as channel session (B), linked from the start. *)

(* a call made by a forwarder on its transport *)
Inductive tev := TWrite (d : bytes) | TEof | TClose | TPause | TResume.

(* one forwarder object: _transport is not None, _peer is not None, _inpbuf, _eof_received *)
Record fw := mkF { f_tr : bool; f_peer : bool; f_buf : bytes; f_eof : bool }.

Inductive phase := Pending | Confirmed | Failed.

Record st := mkSt {
  sa : fw; sb : fw; ph : phase;
  outA : list tev;        (* calls on A's transport (the socket), oldest first *)
  outB : list tev;        (* calls on B's transport (the channel) *)
  lostA : bool;           (* A's transport has called connection_lost *)
  lostB : bool;
  inA : bytes;            (* ghost: all bytes the socket delivered to A.data_received *)
  inB : bytes;            (* ghost: all bytes the channel delivered to B.data_received *)
  asrt : bool             (* an `assert self._transport is not None` failed *)
}.

Definition fw0 : fw := mkF false false [] false.
Definition st0 : st :=
  mkSt (mkF true false [] false) fw0 Pending [] [] false false [] [] false.
(* remote pair: both forwarders exist, linked, both transports attached *)
Definition st_linked : st :=
  mkSt (mkF true true [] false) (mkF true true [] false) Confirmed [] [] false false [] [] false.

Inductive op :=
  | DataA (d : bytes) | DataB (d : bytes)   (* transport -> data_received *)
  | EofA | EofB                             (* transport -> eof_received *)
  | CloseA | CloseB                         (* transport -> connection_lost *)
  | Confirm                                 (* channel open confirmed: session_factory(), flush *)
  | Fail                                    (* ChannelOpenError from the open coroutine *)
  | Lost                                    (* the SSH connection is lost *)
  | PauseA | ResumeA | PauseB | ResumeB.    (* transport -> pause_writing / resume_writing *)

(* record updates *)
Definition upA (s : st) (a : fw) : st :=
  mkSt a (sb s) (ph s) (outA s) (outB s) (lostA s) (lostB s) (inA s) (inB s) (asrt s).
Definition upB (s : st) (b : fw) : st :=
  mkSt (sa s) b (ph s) (outA s) (outB s) (lostA s) (lostB s) (inA s) (inB s) (asrt s).
Definition emitA (s : st) (e : tev) : st :=
  mkSt (sa s) (sb s) (ph s) (outA s ++ [e]) (outB s) (lostA s) (lostB s) (inA s) (inB s) (asrt s).
Definition emitB (s : st) (e : tev) : st :=
  mkSt (sa s) (sb s) (ph s) (outA s) (outB s ++ [e]) (lostA s) (lostB s) (inA s) (inB s) (asrt s).
Definition set_ph (s : st) (p : phase) : st :=
  mkSt (sa s) (sb s) p (outA s) (outB s) (lostA s) (lostB s) (inA s) (inB s) (asrt s).
Definition set_lostA (s : st) : st :=
  mkSt (sa s) (sb s) (ph s) (outA s) (outB s) true (lostB s) (inA s) (inB s) (asrt s).
Definition set_lostB (s : st) : st :=
  mkSt (sa s) (sb s) (ph s) (outA s) (outB s) (lostA s) true (inA s) (inB s) (asrt s).
Definition add_inA (s : st) (d : bytes) : st :=
  mkSt (sa s) (sb s) (ph s) (outA s) (outB s) (lostA s) (lostB s) (inA s ++ d) (inB s) (asrt s).
Definition add_inB (s : st) (d : bytes) : st :=
  mkSt (sa s) (sb s) (ph s) (outA s) (outB s) (lostA s) (lostB s) (inA s) (inB s ++ d) (asrt s).
Definition set_asrt (s : st) : st :=
  mkSt (sa s) (sb s) (ph s) (outA s) (outB s) (lostA s) (lostB s) (inA s) (inB s) true.

Definition f_set_tr (f : fw) (v : bool) := mkF v (f_peer f) (f_buf f) (f_eof f).
Definition f_set_peer (f : fw) (v : bool) := mkF (f_tr f) v (f_buf f) (f_eof f).
Definition f_set_buf (f : fw) (v : bytes) := mkF (f_tr f) (f_peer f) v (f_eof f).
Definition f_set_eof (f : fw) := mkF (f_tr f) (f_peer f) (f_buf f) true.

(* SSHForwarder.write / write_eof / pause_reading / resume_reading on A resp. B:
   silently nothing without a transport (write, write_eof), assertion for pause/resume *)
Definition wrA (s : st) (e : tev) : st := if f_tr (sa s) then emitA s e else s.
Definition wrB (s : st) (e : tev) : st := if f_tr (sb s) then emitB s e else s.
Definition ctlA (s : st) (e : tev) : st := if f_tr (sa s) then emitA s e else set_asrt s.
Definition ctlB (s : st) (e : tev) : st := if f_tr (sb s) then emitB s e else set_asrt s.

(* the `if self._transport: self._transport.close(); self._transport = None` half of close() *)
Definition shutA (s : st) : st :=
  if f_tr (sa s) then upA (emitA s TClose) (f_set_tr (sa s) false) else s.
Definition shutB (s : st) : st :=
  if f_tr (sb s) then upB (emitB s TClose) (f_set_tr (sb s) false) else s.

(* SSHForwarder.close() called on A: close own transport, detach the peer and close it; the
   peer's close() closes its transport, detaches and calls A.close() again, which then finds
   neither transport nor peer.  (The recursion is unfolded; it ends after three calls.) *)
Definition closeA (s : st) : st :=
  let s := shutA s in
  if f_peer (sa s) then
    let s := upA s (f_set_peer (sa s) false) in
    let s := shutB s in
    if f_peer (sb s) then upB s (f_set_peer (sb s) false) else s
  else s.
Definition closeB (s : st) : st :=
  let s := shutB s in
  if f_peer (sb s) then
    let s := upB s (f_set_peer (sb s) false) in
    let s := shutA s in
    if f_peer (sa s) then upA s (f_set_peer (sa s) false) else s
  else s.

Definition has_eof_or_close (l : list tev) : bool :=
  existsb (fun e => match e with TEof | TClose => true | _ => false end) l.

(* What the environment may do (it is the environment's contract, not asyncssh code):
   - an asyncio socket transport delivers data / EOF only while it is open and before EOF,
     calls connection_lost exactly once, and calls pause/resume_writing only while open;
   - an SSH channel delivers data only while the session has not closed it and before EOF,
     EOF once (also after the session closed the channel), connection_lost once;
   - the open request is answered once. *)
Definition legal (s : st) (o : op) : bool :=
  match o with
  | DataA _ | EofA => f_tr (sa s) && negb (f_eof (sa s))
  | PauseA | ResumeA => f_tr (sa s)
  | CloseA => negb (lostA s)
  | DataB _ => f_tr (sb s) && negb (f_eof (sb s)) && negb (lostB s)
  | EofB => match ph s with Confirmed => negb (f_eof (sb s)) && negb (lostB s) | _ => false end
  | PauseB | ResumeB => f_tr (sb s)
  | CloseB => match ph s with Confirmed => negb (lostB s) | _ => false end
  | Confirm | Fail => match ph s with Pending => true | _ => false end
  | Lost => true
  end.

Definition do_closeA (s : st) : st := closeA (set_lostA s).
Definition do_closeB (s : st) : st := closeB (set_lostB s).

Definition do_fail (s : st) : st := set_ph (closeA s) Failed.   (* self.connection_lost(exc) *)

Definition apply (c : cfg) (s : st) (o : op) : st :=
  match o with
  | DataA d =>
      let s := add_inA s d in
      if f_peer (sa s) then wrB s (TWrite d)
      else upA s (f_set_buf (sa s) (f_buf (sa s) ++ d))
  | DataB d =>
      let s := add_inB s d in
      if f_peer (sb s) then wrA s (TWrite d)
      else upB s (f_set_buf (sb s) (f_buf (sb s) ++ d))
  | EofA =>
      let s := upA s (f_set_eof (sa s)) in
      if f_peer (sa s) then
        let s := wrB s TEof in
        if f_eof (sb s)
        then (* returns False: the socket transport closes itself and reports connection_lost;
                the repaired code calls self.close() itself first, same effect *)
             do_closeA s
        else s
      else s
  | EofB =>
      let s := upB s (f_set_eof (sb s)) in
      if f_peer (sb s) then
        let s := wrA s TEof in
        if f_eof (sa s) then
          if fix_crossed c then closeB s
          else (* returns False: channel.py _flush_recv_buf only reacts with write_eof() and
                  only if its sending side is still open *)
               if has_eof_or_close (outB s) then s else emitB s TEof
        else s
      else s
  | CloseA => do_closeA s
  | CloseB => do_closeB s
  | Confirm =>
      (* session_factory(): SSHForwarder(self) -> peer.set_peer; connection_made(chan) *)
      let s := upB (upA s (f_set_peer (sa s) true)) (mkF true true [] false) in
      let s := match f_buf (sa s) with
               | [] => s
               | d => upA (wrB s (TWrite d)) (f_set_buf (sa s) [])
               end in
      let s := if f_eof (sa s) then wrB s TEof else s in
      let s := set_ph s Confirmed in
      if fix_lost_early c && negb (f_tr (sa s)) then closeA s else s
  | Fail => do_fail s
  | Lost =>
      match ph s with
      | Pending => do_fail s            (* channel._cleanup fails the open waiter *)
      | Confirmed => if lostB s then s else do_closeB s   (* session.connection_lost *)
      | Failed => s
      end
  | PauseA => if f_peer (sa s) then ctlB s TPause else s
  | ResumeA => if f_peer (sa s) then ctlB s TResume else s
  | PauseB => if f_peer (sb s) then ctlA s TPause else s
  | ResumeB => if f_peer (sb s) then ctlA s TResume else s
  end.

Definition step (c : cfg) (s : st) (o : op) : st := if legal s o then apply c s o else s.
Definition run (c : cfg) (s : st) (ops : list op) : st := fold_left (step c) ops s.

(* observations *)
Fixpoint written (l : list tev) : bytes :=
  match l with
  | [] => []
  | TWrite d :: r => d ++ written r
  | _ :: r => written r
  end.
Fixpoint count_eof (l : list tev) : nat :=
  match l with [] => O | TEof :: r => S (count_eof r) | _ :: r => count_eof r end.
Fixpoint count_close (l : list tev) : nat :=
  match l with [] => O | TClose :: r => S (count_close r) | _ :: r => count_close r end.

(* nothing is written after an EOF and nothing at all is called after a close *)
Fixpoint ordered_from (seen_eof : bool) (l : list tev) : bool :=
  match l with
  | [] => true
  | TWrite _ :: r => negb seen_eof && ordered_from seen_eof r
  | TEof :: r => negb seen_eof && ordered_from true r
  | TClose :: r => match r with [] => true | _ => false end
  | _ :: r => ordered_from seen_eof r
  end.
Definition ordered (l : list tev) : bool := ordered_from false l.

(* ========================================================================================== *)
(* Part 2: a tunnel = local pair (socket side A1, channel side B1), remote pair (socket side
   A2 = destination, channel side B2), and the two directions of the SSH channel between B1 and
   B2 as FIFO queues of what the forwarders handed to their channel.  The channel itself
   (windows, packets) is the subject of C07/C08; here it only keeps order and turns a close of
   one side into connection_lost of the other session. *)

Inductive cmsg := MData (d : bytes) | MEof | MClose.

Record tun := mkTun {
  tl : st; tr_ : st;          (* local pair, remote pair *)
  q12 : list cmsg;            (* handed to the channel by B1, not yet delivered to B2 *)
  q21 : list cmsg;
  n1 : nat; n2 : nat          (* how many entries of outB have been moved to the queue *)
}.

Definition msgs_of (l : list tev) : list cmsg :=
  flat_map (fun e => match e with
                     | TWrite d => [MData d] | TEof => [MEof] | TClose => [MClose]
                     | _ => [] end) l.

(* move what the channel side of each pair emitted since the last step into the queues *)
Definition drain (t : tun) : tun :=
  mkTun (tl t) (tr_ t)
        (q12 t ++ msgs_of (skipn (n1 t) (outB (tl t))))
        (q21 t ++ msgs_of (skipn (n2 t) (outB (tr_ t))))
        (length (outB (tl t))) (length (outB (tr_ t))).

Inductive top :=
  | OpL (o : op)        (* an event at the local pair (its socket, or Confirm/Fail) *)
  | OpR (o : op)        (* an event at the remote pair's destination socket *)
  | Deliver12           (* the oldest queued channel message local -> remote arrives *)
  | Deliver21.

Definition op_of_msg (m : cmsg) : op :=
  match m with MData d => DataB d | MEof => EofB | MClose => CloseB end.

(* events the tunnel's environment can cause directly: socket events and the open confirmation;
   channel events (DataB/EofB/CloseB) only happen through the queues.  (A failed open and the
   loss of the SSH connection are covered by the pair model.) *)
Definition sock_op (o : op) : bool :=
  match o with
  | DataA _ | EofA | CloseA | PauseA | ResumeA | Confirm => true
  | _ => false
  end.

Definition tstep (c : cfg) (t : tun) (o : top) : tun :=
  drain
    match o with
    | OpL o => if sock_op o then mkTun (step c (tl t) o) (tr_ t) (q12 t) (q21 t) (n1 t) (n2 t) else t
    | OpR o => if sock_op o then mkTun (tl t) (step c (tr_ t) o) (q12 t) (q21 t) (n1 t) (n2 t) else t
    | Deliver12 =>
        match q12 t with
        | [] => t
        | m :: r => mkTun (tl t) (step c (tr_ t) (op_of_msg m)) r (q21 t) (n1 t) (n2 t)
        end
    | Deliver21 =>
        (* nothing from the remote side is delivered before the open confirmation *)
        match ph (tl t), q21 t with
        | Confirmed, m :: r => mkTun (step c (tl t) (op_of_msg m)) (tr_ t) (q12 t) r (n1 t) (n2 t)
        | _, _ => t
        end
    end.

Definition tun0 : tun := mkTun st0 st_linked [] [] O O.
Definition trun (c : cfg) (ops : list top) : tun := fold_left (tstep c) ops tun0.

(* every transport of the tunnel has been closed *)
Definition tun_all_closed (t : tun) : bool :=
  negb (f_tr (sa (tl t))) && negb (f_tr (sb (tl t))) &&
  negb (f_tr (sa (tr_ t))) && negb (f_tr (sb (tr_ t))).

(* ========================================================================================== *)
(* Part 3: the registry of listeners (and relayed destination sockets) of one connection.
   A resource is created by a coroutine that awaits (getaddrinfo / create_server /
   create_connection) before it registers the result with the connection:
     RBegin k   the coroutine has started
     RFinish k  the await completed: the OS resource now exists and is registered
     RClose k   listener.close() / cancel request / the relayed socket closed: released
     RCleanup   SSHConnection._cleanup: every registered listener is closed, every channel
                (and with it its session and relayed socket) is told the connection closed.
   Keys are Z (the harness numbers them). *)

Inductive rop := RBegin (k : Z) | RFinish (k : Z) | RClose (k : Z) | RCleanup.

Record reg := mkReg {
  r_inflight : list Z;      (* started, resource not yet created *)
  r_table : list Z;         (* registered with the connection: _local_listeners / _channels' sessions *)
  r_open : list Z;          (* OS resources that exist and have not been closed *)
  r_cleaned : bool
}.
Definition reg0 : reg := mkReg [] [] [] false.

Definition zmem (k : Z) (l : list Z) : bool := existsb (Z.eqb k) l.
Definition zremove (k : Z) (l : list Z) : list Z := filter (fun x => negb (x =? k)) l.

Definition rstep (c : cfg) (r : reg) (o : rop) : reg :=
  match o with
  | RBegin k =>
      if r_cleaned r || zmem k (r_inflight r) || zmem k (r_open r) then r
      else mkReg (r_inflight r ++ [k]) (r_table r) (r_open r) (r_cleaned r)
  | RFinish k =>
      if zmem k (r_inflight r) then
        if r_cleaned r && fix_register c
        then mkReg (zremove k (r_inflight r)) (r_table r) (r_open r) true       (* closed at once *)
        else mkReg (zremove k (r_inflight r)) (r_table r ++ [k]) (r_open r ++ [k]) (r_cleaned r)
      else r
  | RClose k =>
      if zmem k (r_table r)
      then mkReg (r_inflight r) (zremove k (r_table r)) (zremove k (r_open r)) (r_cleaned r)
      else r
  | RCleanup =>
      (* for listener in list(self._local_listeners.values()): listener.close() *)
      mkReg (r_inflight r) []
            (filter (fun k => negb (zmem k (r_table r))) (r_open r)) true
  end.
Definition rrun (c : cfg) (ops : list rop) : reg := fold_left (rstep c) ops reg0.

(* ========================================================================================== *)
(* Part 4: the permission decision.  A host is a byte string (UTF-8 of the decoded str). *)

Record keyopts := mkKO {
  ko_no_pf : bool;                          (* 'no-port-forwarding' present *)
  ko_permitopen : list (bytes * option Z)   (* set of (host, port | None for '*') *)
}.
(* _cert_options: None = not authenticated with an OpenSSH certificate; Some b = the
   certificate's option dict, b = its 'permit-port-forwarding' entry (absent = False) *)
Definition certopts := option bool.

(* check_key_permission('port-forwarding') *)
Definition key_permits (k : keyopts) : bool := negb (ko_no_pf k).
(* check_certificate_permission('port-forwarding') *)
Definition cert_permits (c : certopts) : bool :=
  match c with None => true | Some b => b end.

Definition po_eqb (a b : bytes * option Z) : bool :=
  zlist_eqb (fst a) (fst b) && option_eqb Z.eqb (snd a) (snd b).
Definition po_mem (x : bytes * option Z) (l : list (bytes * option Z)) : bool :=
  existsb (po_eqb x) l.

(* permitted_opens and (host, port) not in ... and (host, None) not in ... => refused *)
Definition permitopen_permits (k : keyopts) (host : bytes) (port : Z) : bool :=
  match ko_permitopen k with
  | [] => true
  | l => po_mem (host, Some port) l || po_mem (host, None) l
  end.

Inductive verdict := Served | Prohibited | Refused.
(* Served: the channel is opened / the listener created;
   Prohibited: OPEN_ADMINISTRATIVELY_PROHIBITED resp. request failure without asking the application;
   Refused: the application said no (OPEN_CONNECT_FAILED / request failure). *)

(* direct-tcpip; [app] = truthiness of SSHServer.connection_requested(dest_host, dest_port, ...) *)
Definition decide_direct_tcpip (k : keyopts) (c : certopts) (app : bool)
                               (host : bytes) (port : Z) : verdict :=
  if negb (key_permits k) || negb (cert_permits c) then Prohibited
  else if negb (permitopen_permits k host port) then Prohibited
  else if app then Served else Refused.

(* tcpip-forward, direct-streamlocal, streamlocal-forward: no permitopen filter *)
Definition decide_other (k : keyopts) (c : certopts) (app : bool) : verdict :=
  if negb (key_permits k) || negb (cert_permits c) then Prohibited
  else if app then Served else Refused.

Inductive reqkind := KDirectTcp | KListenTcp | KDirectUnix | KListenUnix.

Definition decide (kind : reqkind) (k : keyopts) (c : certopts) (app : bool)
                  (host : bytes) (port : Z) : verdict :=
  match kind with
  | KDirectTcp => decide_direct_tcpip k c app host port
  | _ => decide_other k c app
  end.

(* the application is consulted exactly when the credential checks pass *)
Definition app_consulted (kind : reqkind) (k : keyopts) (c : certopts) (host : bytes) (port : Z) : bool :=
  key_permits k && cert_permits c &&
  match kind with KDirectTcp => permitopen_permits k host port | _ => true end.
