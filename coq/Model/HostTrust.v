(* C04 - model of the client's host key decision and of the order in which the client transport
   emits messages around it.  Executable definitions only; proofs are in Proofs/HostTrustProofs.v.

   Modelled source (asyncssh, /repo):
     connection.py  SSHConnection._validate_host_key, ._validate_openssh_host_certificate,
                    SSHClientConnection.validate_server_host_key, ._connection_made (trust sets),
                    SSHConnection.send_packet (the deferral gate), .send_newkeys, ._recv_packet (the
                    phase gate), ._process_kexinit, ._process_newkeys, ._process_service_accept
     public_key.py  SSHOpenSSHCertificate.validate, .construct (signature and type checked at decode),
                    SSHKey.__eq__/__hash__ (a key is its public_data)
     kex_dh.py      _KexDHBase._process_reply, ._verify_reply  (same shape in kex_rsa.py)

   The INPUT of this model is the RESULT of the known_hosts lookup (match_known_hosts): the trusted
   host keys, the trusted CA keys and the revoked keys for this host, address and port.  How a
   known_hosts text is matched is property C17's model, not this one.  X.509 lists are not modelled. *)
From AV Require Import Base.Prelude.

(* A public key is identified by its public_data (SSHKey.__eq__, __hash__); an integer here. *)
Definition key := Z.
Definition name := list Z.          (* a host or principal name: code points *)

Definition CERT_TYPE_USER : Z := 1.
Definition CERT_TYPE_HOST : Z := 2.

(* What a decoded OpenSSH certificate carries.  c_sig_ok: the CA's signature inside the blob verifies
   (checked by SSHOpenSSHCertificate.construct while decoding). *)
Record cert := mkCert {
  c_key : key; c_ca : key; c_type : Z; c_after : Z; c_before : Z;
  c_principals : list name; c_sig_ok : bool }.

(* The host key blob of KEX*_REPLY: a plain key, an OpenSSH certificate, or bytes that decode as
   neither. *)
Inductive presented := PKey (k : key) | PCert (c : cert) | PBad.

(* Result of match_known_hosts for (host, addr, port). *)
Record trust := mkTrust { t_keys : list key; t_cas : list key; t_revoked : list key }.

(* The client's trust configuration as seen by one decision:
   e_trust = None     known_hosts=None: _trusted_host_keys and _trusted_ca_keys are None, no checking
   e_cb_key/e_cb_ca   what SSHClient.validate_host_public_key / validate_host_ca_key answer for this
                      host and key when asked (the defaults answer False)
   e_host             host_key_alias or host: the name certificate principals are compared with *)
Record env := mkEnv { e_trust : option trust; e_cb_key : bool; e_cb_ca : bool; e_host : name }.

Definition kmem (k : key) (l : list key) : bool := existsb (Z.eqb k) l.
Definition nmem (n : name) (l : list name) : bool := existsb (zlist_eqb n) l.

(* decode_ssh_certificate succeeds: signature verifies and the type is one of the two known ones *)
Definition cert_decodes (c : cert) : bool :=
  c_sig_ok c && ((c_type c =? CERT_TYPE_USER) || (c_type c =? CERT_TYPE_HOST)).

(* SSHOpenSSHCertificate.validate(CERT_TYPE_HOST, host) at time now.  `now` is floor(time.time()):
   the bounds are integers, so  t < after <-> floor t < after  and  t >= before <-> floor t >= before. *)
Definition cert_valid (host : name) (now : Z) (c : cert) : bool :=
  (c_type c =? CERT_TYPE_HOST) && negb (now <? c_after c) && negb (now >=? c_before c) &&
  match c_principals c with [] => true | _ => nmem host (c_principals c) end.

(* _validate_openssh_host_certificate *)
Definition validate_cert (e : env) (now : Z) (c : cert) : option key :=
  match e_trust e with
  | None => Some (c_key c)
  | Some t =>
      if kmem (c_ca c) (t_revoked t) then None
      else if kmem (c_key c) (t_revoked t) then None
      else if negb (kmem (c_ca c) (t_cas t)) && negb (e_cb_ca e) then None
      else if cert_valid (e_host e) now c then Some (c_key c) else None
  end.

(* the same before /repo commit 58fab7a: the certificate's own key was not looked up in the revoked set *)
Definition validate_cert_old (e : env) (now : Z) (c : cert) : option key :=
  match e_trust e with
  | None => Some (c_key c)
  | Some t =>
      if kmem (c_ca c) (t_revoked t) then None
      else if negb (kmem (c_ca c) (t_cas t)) && negb (e_cb_ca e) then None
      else if cert_valid (e_host e) now c then Some (c_key c) else None
  end.

(* the plain key branch of _validate_host_key *)
Definition validate_plain (e : env) (k : key) : option key :=
  match e_trust e with
  | None => Some k
  | Some t =>
      if kmem k (t_revoked t) then None
      else if negb (kmem k (t_keys t)) && negb (e_cb_key e) then None
      else Some k
  end.

(* _validate_host_key / validate_server_host_key: Some k = the key returned (the one the signature
   over the exchange hash is then verified with), None = ValueError -> HostKeyNotVerifiable.
   A certificate blob that does not decode falls through to decode_ssh_public_key, which does not
   know certificate algorithm names: "Unable to decode host key". *)
Definition validate_host_key (e : env) (now : Z) (p : presented) : option key :=
  match p with
  | PCert c => if cert_decodes c then validate_cert e now c else None
  | PKey k => validate_plain e k
  | PBad => None
  end.

Definition validate_host_key_old (e : env) (now : Z) (p : presented) : option key :=
  match p with
  | PCert c => if cert_decodes c then validate_cert_old e now c else None
  | PKey k => validate_plain e k
  | PBad => None
  end.

(* ------------------------------------------------------------------------------------------------ *)
(* Symbolic signature over the exchange hash: a signature value says which key made it and over
   which hash (a forged or damaged signature has a signer that is nobody's key).  key.verify(h, sig)
   holds exactly for the signature made with that key over that hash. *)
Record sigv := mkSig { s_signer : key; s_hash : Z }.
Definition verify (k : key) (h : Z) (s : sigv) : bool := (s_signer s =? k) && (s_hash s =? h).

(* ------------------------------------------------------------------------------------------------ *)
(* Client transport between the version exchange and the first USERAUTH message.                    *)

Definition MSG_DISCONNECT : Z := 1.      Definition MSG_IGNORE : Z := 2.
Definition MSG_UNIMPLEMENTED : Z := 3.   Definition MSG_DEBUG : Z := 4.
Definition MSG_SERVICE_REQUEST : Z := 5. Definition MSG_SERVICE_ACCEPT : Z := 6.
Definition MSG_EXT_INFO : Z := 7.        Definition MSG_KEXINIT : Z := 20.
Definition MSG_NEWKEYS : Z := 21.        Definition MSG_KEX_FIRST : Z := 30.
Definition MSG_KEX_INIT : Z := 30.       Definition MSG_KEX_REPLY : Z := 31.
Definition MSG_KEX_LAST : Z := 49.       Definition MSG_USERAUTH_REQUEST : Z := 50.
Definition MSG_USERAUTH_FAILURE : Z := 51. Definition MSG_USERAUTH_SUCCESS : Z := 52.
Definition MSG_USERAUTH_BANNER : Z := 53. Definition MSG_USERAUTH_LAST : Z := 79.
(* asyncssh's constants: 60..79 are the method specific messages routed to the auth handler; 50..59
   are handled by the connection itself *)
Definition MSG_USERAUTH_FIRST : Z := 60.

Record cst := mkC {
  strict : bool;         (* _strict_kex *)
  rseq0 : bool;          (* _recv_seq == 0 *)
  kexinit_sent : bool;   (* _kexinit_sent *)
  kex : bool;            (* _kex is not None *)
  kex_complete : bool;   (* _kex_complete *)
  session : bool;        (* _session_id is set *)
  ext_info : bool;       (* _can_send_ext_info *)
  next_recv_enc : bool;  (* _next_recv_encryption is set *)
  recv_enc : bool;       (* _recv_encryption is set *)
  next_service : bool;   (* _next_service == ssh-userauth *)
  auth : bool;           (* _auth is not None / _auth_in_progress *)
  auth_complete : bool;  (* _auth_complete *)
  closed : bool;         (* an exception closed the connection: nothing further is processed or sent *)
  deferred : list Z;     (* _deferred_packets (message numbers) *)
  out : list Z;          (* message numbers put on the wire, oldest first *)
  verified : option key  (* ghost: the key under which the last exchange signature verified *)
}.

(* after the version exchange: the client has sent its KEXINIT (_recv_version) *)
Definition init : cst :=
  mkC false true true false false false false false false false false false false [] [MSG_KEXINIT] None.

Definition set_closed (s : cst) : cst :=
  mkC (strict s) (rseq0 s) (kexinit_sent s) (kex s) (kex_complete s) (session s) (ext_info s)
      (next_recv_enc s) (recv_enc s) (next_service s) (auth s) (auth_complete s) true
      (deferred s) (out s) (verified s).

Definition received (s : cst) : cst :=          (* _finish_recv_packet: the sequence number moved on *)
  mkC (strict s) false (kexinit_sent s) (kex s) (kex_complete s) (session s) (ext_info s)
      (next_recv_enc s) (recv_enc s) (next_service s) (auth s) (auth_complete s) (closed s)
      (deferred s) (out s) (verified s).

(* the test at the top of send_packet that moves a packet to _deferred_packets *)
Definition must_defer (s : cst) (t : Z) : bool :=
  (((t =? MSG_DEBUG) || (t =? MSG_SERVICE_REQUEST) || (t =? MSG_SERVICE_ACCEPT) || (t >? MSG_KEX_LAST))
     && negb (kex_complete s))
  || ((t =? MSG_USERAUTH_BANNER) && negb (auth s || auth_complete s))
  || ((t >? MSG_USERAUTH_LAST) && negb (auth_complete s)).

(* send_packet(t): defer or put on the wire *)
Definition send_packet (s : cst) (t : Z) : cst :=
  if must_defer s t then
    mkC (strict s) (rseq0 s) (kexinit_sent s) (kex s) (kex_complete s) (session s) (ext_info s)
        (next_recv_enc s) (recv_enc s) (next_service s) (auth s) (auth_complete s) (closed s)
        (deferred s ++ [t]) (out s) (verified s)
  else
    mkC (strict s) (rseq0 s) (kexinit_sent s) (kex s) (kex_complete s) (session s) (ext_info s)
        (next_recv_enc s) (recv_enc s) (next_service s) (auth s) (auth_complete s) (closed s)
        (deferred s) (out s ++ [t]) (verified s).

(* _send_deferred_packets: the list is taken, every entry goes through send_packet again *)
Definition flush_deferred (s : cst) : cst :=
  fold_left send_packet (deferred s)
    (mkC (strict s) (rseq0 s) (kexinit_sent s) (kex s) (kex_complete s) (session s) (ext_info s)
         (next_recv_enc s) (recv_enc s) (next_service s) (auth s) (auth_complete s) (closed s)
         [] (out s) (verified s)).

(* _send_kexinit *)
Definition send_kexinit (s : cst) : cst :=
  send_packet
    (mkC (strict s) (rseq0 s) (kexinit_sent s) (kex s) false (session s) (ext_info s)
         (next_recv_enc s) (recv_enc s) (next_service s) (auth s) (auth_complete s) (closed s)
         (deferred s) (out s) (verified s)) MSG_KEXINIT.

(* send_newkeys after the signature verified under key k *)
Definition send_newkeys (s : cst) (k : key) : cst :=
  let first := negb (session s) in
  (* NEWKEYS, _kex = None, next receive keys armed *)
  let s1 := send_packet
    (mkC (strict s) (rseq0 s) (kexinit_sent s) false (kex_complete s) true (ext_info s)
         true (recv_enc s) (next_service s) (auth s) (auth_complete s) (closed s)
         (deferred s) (out s) (Some k)) MSG_NEWKEYS in
  (* EXT_INFO if the server offered ext-info-s *)
  let s2 := if ext_info s1 then
              send_packet (mkC (strict s1) (rseq0 s1) (kexinit_sent s1) (kex s1) (kex_complete s1)
                               (session s1) false (next_recv_enc s1) (recv_enc s1) (next_service s1)
                               (auth s1) (auth_complete s1) (closed s1) (deferred s1) (out s1)
                               (verified s1)) MSG_EXT_INFO
            else s1 in
  (* _kex_complete = True *)
  let s3 := mkC (strict s2) (rseq0 s2) (kexinit_sent s2) (kex s2) true (session s2) (ext_info s2)
                (next_recv_enc s2) (recv_enc s2) (next_service s2) (auth s2) (auth_complete s2)
                (closed s2) (deferred s2) (out s2) (verified s2) in
  (* first exchange: send_service_request(ssh-userauth) *)
  let s4 := if first then
              send_packet (mkC (strict s3) (rseq0 s3) (kexinit_sent s3) (kex s3) (kex_complete s3)
                               (session s3) (ext_info s3) (next_recv_enc s3) (recv_enc s3) true
                               (auth s3) (auth_complete s3) (closed s3) (deferred s3) (out s3)
                               (verified s3)) MSG_SERVICE_REQUEST
            else s3 in
  flush_deferred s4.

Inductive ev :=
| EKexInit (strict_s ext_s common : bool)
    (* the server's KEXINIT: carries the strict marker / ext-info-s / a common algorithm exists *)
| EKexReply (p : presented) (s : sigv) (h : Z) (now : Z)
    (* KEX*_REPLY presenting p with signature s; h is the exchange hash the client computes from its
       own view of the exchange (which includes the presented blob); now = floor(time.time()) *)
| ENewKeys
| EServiceAccept (userauth : bool)        (* SERVICE_ACCEPT naming ssh-userauth or something else *)
| EOther (t : Z)                          (* any other message number arriving from the server *)
| ELocalSend (t : Z).                     (* some code of the client calls send_packet(t, ...) *)

(* message numbers only the key exchange machinery itself sends; ELocalSend does not produce them *)
Definition kex_owned (t : Z) : bool :=
  (t =? MSG_KEXINIT) || (t =? MSG_NEWKEYS) || ((MSG_KEX_FIRST <=? t) && (t <=? MSG_KEX_LAST)).

Definition step (e : env) (s : cst) (x : ev) : cst :=
  if closed s then s else
  match x with
  | EKexInit strict_s ext_s common =>
      (* _process_kexinit: 'Key exchange already in progress' while an exchange object exists or the
         peer's NEWKEYS is still outstanding (self._kex or self._next_recv_encryption, since 9276b6d) *)
      if kex s || next_recv_enc s then set_closed s
      else
        let st := if session s then strict s else strict_s in
        let ex := if session s then ext_info s else ext_s in
        if st && negb (recv_enc s) && negb (rseq0 s) then set_closed s
        else
          let s1 := mkC st (rseq0 s) false (kex s) (kex_complete s) (session s) ex (next_recv_enc s)
                        (recv_enc s) (next_service s) (auth s) (auth_complete s) (closed s)
                        (deferred s) (out s) (verified s) in
          let s2 := if kexinit_sent s then s1 else send_kexinit s1 in
          if negb common then set_closed s2
          else
            (* _kex = get_kex(...); await _kex.start() sends the method's init message *)
            received (send_packet
              (mkC (strict s2) (rseq0 s2) (kexinit_sent s2) true (kex_complete s2) (session s2)
                   (ext_info s2) (next_recv_enc s2) (recv_enc s2) (next_service s2) (auth s2)
                   (auth_complete s2) (closed s2) (deferred s2) (out s2) (verified s2)) MSG_KEX_INIT)
  | EKexReply p sg h now =>
      (* _recv_packet: a kex message needs a kex in progress; then _process_reply *)
      if negb (kex s) then set_closed s
      else match validate_host_key e now p with
           | None => set_closed s                                   (* HostKeyNotVerifiable *)
           | Some k => if verify k h sg then received (send_newkeys s k)
                       else set_closed s                            (* KeyExchangeFailed *)
           end
  | ENewKeys =>
      (* _process_newkeys *)
      if next_recv_enc s then
        received (mkC (strict s) (rseq0 s) (kexinit_sent s) (kex s) (kex_complete s) (session s)
                      (ext_info s) false true (next_service s) (auth s) (auth_complete s) (closed s)
                      (deferred s) (out s) (verified s))
      else set_closed s
  | EServiceAccept ua =>
      (* _process_service_accept; try_next_auth then sends the first USERAUTH_REQUEST *)
      if negb (recv_enc s) then set_closed s
      else if negb (ua && next_service s) then set_closed s
      else received (send_packet
             (mkC (strict s) (rseq0 s) (kexinit_sent s) (kex s) (kex_complete s) (session s)
                  (ext_info s) (next_recv_enc s) (recv_enc s) false true (auth_complete s) (closed s)
                  (deferred s) (out s) (verified s)) MSG_USERAUTH_REQUEST)
  | EOther t =>
      (* the phase gate of _recv_packet for every other message number.  Handlers of messages that
         pass the gate are not modelled beyond "they may call send_packet" (ELocalSend). *)
      if (MSG_KEX_FIRST <=? t) && (t <=? MSG_KEX_LAST) then
        if negb (kex s) then set_closed s
        else if t =? MSG_KEX_INIT then set_closed s            (* 'Unexpected kex init msg' *)
        else if strict s && negb (recv_enc s) then set_closed s
        else received (send_packet s MSG_UNIMPLEMENTED)
      else if strict s && negb (recv_enc s) && (MSG_IGNORE <=? t) && (t <=? MSG_DEBUG) then set_closed s
      else if (MSG_USERAUTH_FIRST <=? t) && (t <=? MSG_USERAUTH_LAST) then
        if auth s then received s else set_closed s            (* 'Authentication not in progress' *)
      else if (t >? MSG_KEX_LAST) && negb (recv_enc s) then set_closed s
      else if (t >? MSG_USERAUTH_LAST) && negb (auth_complete s) then set_closed s
      else if t =? MSG_DISCONNECT then set_closed s
      else if t =? MSG_USERAUTH_REQUEST then set_closed s      (* 'Unexpected userauth request' *)
      else if (t =? MSG_USERAUTH_FAILURE) || (t =? MSG_USERAUTH_SUCCESS) then
        if auth s then received s else set_closed s            (* 'Unexpected userauth ... response' *)
      else received s                                          (* a banner is taken at any time once encrypted *)
  | ELocalSend t =>
      if kex_owned t then s else send_packet s t
  end.

Definition run (e : env) (evs : list ev) : cst := fold_left (step e) evs init.

(* messages that must not leave the client before the host key was accepted and the signature
   verified: NEWKEYS, SERVICE_REQUEST and everything from USERAUTH_REQUEST upwards *)
Definition gated (t : Z) : bool :=
  (t =? MSG_NEWKEYS) || (t =? MSG_SERVICE_REQUEST) || (MSG_USERAUTH_REQUEST <=? t).

(* an event that is a KEX reply whose key the trust configuration accepts and whose signature
   verifies under that key over the client's exchange hash *)
Definition good_reply (e : env) (x : ev) : bool :=
  match x with
  | EKexReply p sg h now =>
      match validate_host_key e now p with Some k => verify k h sg | None => false end
  | _ => false
  end.
