(* Executable models, WITH EXPLICIT COST (iteration counts / bytes consumed), of the parsers asyncssh feeds
   with untrusted bytes.  Sources modelled:
     packet.py   SSHPacket.get_bytes / get_byte / get_boolean / get_uint16/32/64 / get_string / get_mpint /
                 get_namelist / check_end                                                  (section 1)
     the two loop shapes that consume a packet: `while packet: get_string()`
                 (connection.py _finish_hostkeys, sftp.py FXP_INIT extensions, agent.py query_extensions) and
                 `for _ in range(packet.get_uint32()): get_string(); get_string()`
                 (agent.py get_keys, sftp.py SFTPAttrs.decode extended pairs)               (section 2)
     socks.py    SSHSOCKSForwarder.data_received and its ten _recv_* handlers              (section 3)
     connection.py _recv_version under the `while self._inpbuf and self._recv_handler()` loop of _recv_data,
                 limits _MAX_BANNER_LINE_LEN / _MAX_BANNER_LINES / _MAX_VERSION_LINE_LEN    (section 4)
     sftp.py     SFTPHandler.recv_packet / recv_packets framing; agent.py _make_request response framing
                                                                                          (section 5)
     sftp.py     SFTPServerHandler._process_copy_data loop                                 (section 6)
   Bytes are Z in 0..255, byte strings list Z.  No proofs here. *)
From AV Require Import Base.Prelude.
From AV Require Model.Packet.

Definition blen (l : bytes) : Z := Z.of_nat (length l).

(* d[i:i+n] for 0 <= i, 0 <= n *)
Definition slice (d : bytes) (i n : Z) : bytes := firstn (Z.to_nat n) (skipn (Z.to_nat i) d).

(* int.from_bytes(l, 'big') *)
Fixpoint be_acc (acc : Z) (l : bytes) : Z :=
  match l with [] => acc | b :: r => be_acc (acc * 256 + b) r end.
Definition be_val (l : bytes) : Z := be_acc 0 l.

(* int.from_bytes(l, 'big', signed=True) *)
Definition be_signed (l : bytes) : Z :=
  match l with
  | [] => 0
  | b :: _ => if 128 <=? b then be_val l - 256 ^ (blen l) else be_val l
  end.

(* ====================================================================================== *)
(* 1. SSHPacket getters.  State: the packet bytes and _idx.  A getter returns the value and the new state,
      or Err (PacketDecodeError) together with the state LEFT BEHIND (get_string has already consumed its
      length field when the body turns out to be short; that is visible to code which catches the error). *)

Record pk := mkPk { pdata : bytes; pidx : Z }.

Inductive res (A : Type) := Ok (v : A) (p : pk) | Err (p : pk).
Arguments Ok {A} v p.
Arguments Err {A} p.

Definition bind {A B} (r : res A) (f : A -> pk -> res B) : res B :=
  match r with Ok v p => f v p | Err p => Err p end.

(* if self._idx + size > self._len: raise ; value = self._packet[idx:idx+size]; idx += size
   (size >= 0 for every call reachable from a getter: sizes are constants or a decoded uint32) *)
Definition get_bytes (size : Z) (p : pk) : res bytes :=
  if pidx p + size >? blen (pdata p) then Err p
  else Ok (slice (pdata p) (pidx p) size) (mkPk (pdata p) (pidx p + size)).

Definition get_byte (p : pk) : res Z :=
  bind (get_bytes 1 p) (fun v p' => Ok (hd 0 v) p').
Definition get_boolean (p : pk) : res bool :=
  bind (get_byte p) (fun v p' => Ok (negb (v =? 0)) p').
Definition get_uint (n : Z) (p : pk) : res Z :=
  bind (get_bytes n p) (fun v p' => Ok (be_val v) p').
Definition get_uint16 := get_uint 2.
Definition get_uint32 := get_uint 4.
Definition get_uint64 := get_uint 8.
Definition get_string (p : pk) : res bytes :=
  bind (get_uint32 p) (fun n p' => get_bytes n p').
Definition get_mpint (p : pk) : res Z :=
  bind (get_string p) (fun v p' => Ok (be_signed v) p').

(* bytes.split(b',') *)
Fixpoint split_on (sep : Z) (l : bytes) (cur : bytes) : list bytes :=
  match l with
  | [] => [rev cur]
  | b :: r => if b =? sep then rev cur :: split_on sep r [] else split_on sep r (b :: cur)
  end.
Definition get_namelist (p : pk) : res (list bytes) :=
  bind (get_string p) (fun v p' => Ok (match v with [] => [] | _ => split_on 44 v [] end) p').

(* __bool__ : anything left?   check_end raises when something is *)
Definition more (p : pk) : bool := negb (pidx p =? blen (pdata p)).
Definition check_end (p : pk) : res unit := if more p then Err p else Ok tt p.

Definition wf (p : pk) : Prop := 0 <= pidx p <= blen (pdata p).
Definition remaining (p : pk) : Z := blen (pdata p) - pidx p.

(* ====================================================================================== *)
(* 2. Loops over a packet.  Result: None = out of fuel (the loop did not terminate within the fuel);
      otherwise the outcome and the number of loop iterations executed (the cost). *)

(* while packet: v = packet.get_string(); acc.append(v)          (an error leaves the loop) *)
Fixpoint strings_loop (fuel : nat) (p : pk) (acc : list bytes) (iters : Z)
  : option (res (list bytes) * Z) :=
  if more p then
    match fuel with
    | O => None
    | S f => match get_string p with
             | Ok v p' => strings_loop f p' (acc ++ [v]) (iters + 1)
             | Err p' => Some (Err p', iters + 1)
             end
    end
  else Some (Ok acc p, iters).

(* for _ in range(n): a = get_string(); b = get_string(); acc.append((a, b)) *)
Fixpoint pairs_loop (fuel : nat) (n : Z) (p : pk) (acc : list (bytes * bytes)) (iters : Z)
  : option (res (list (bytes * bytes)) * Z) :=
  if n <=? 0 then Some (Ok acc p, iters)
  else match fuel with
       | O => None
       | S f => match get_string p with
                | Err p' => Some (Err p', iters + 1)
                | Ok a p1 => match get_string p1 with
                             | Err p' => Some (Err p', iters + 1)
                             | Ok b p2 => pairs_loop f (n - 1) p2 (acc ++ [(a, b)]) (iters + 1)
                             end
                end
       end.

(* n = packet.get_uint32(); the loop above; packet.check_end()       (agent.py get_keys shape) *)
Definition counted_pairs (p : pk) : option (res (list (bytes * bytes)) * Z) :=
  match get_uint32 p with
  | Err p' => Some (Err p', 0)
  | Ok n p1 =>
      match pairs_loop (S (Z.to_nat (remaining p1))) n p1 [] 0 with
      | None => None
      | Some (Err p', it) => Some (Err p', it)
      | Some (Ok acc p2, it) => if more p2 then Some (Err p2, it) else Some (Ok acc p2, it)
      end
  end.

(* ====================================================================================== *)
(* 3. SOCKS request parser (socks.py).  One handler per protocol state; [need] is _bytes_needed
      (-1 = up to a NUL byte).  [sopen] = self._transport is not None.
      Two switches.  [repaired]: True models the code as it is since fix 7ae04cf (SSHSOCKSForwarder.close()
      also clears _recv_handler, which ends the while loop of data_received); False models the code before
      that fix, where close() dropped the transport but left the handler in place, so that the loop went on
      running handlers on a closed forwarder: the handlers that touch the transport then failed their assert
      (AssertionError), or, with asserts compiled out (python -O), raised AttributeError - except
      _recv_socks5_authlist, which without asserts reached close() again and returned normally.
      [asserts]: False = python -O. *)

Inductive shandler := HVersion | H4Addr | H4User | H4Host | H5Auth | H5Cmd | H5Addr | H5HostLen | H5Host
                    | H5Port | HNone.

Definition shandler_eqb (a b : shandler) : bool :=
  match a, b with
  | HVersion, HVersion | H4Addr, H4Addr | H4User, H4User | H4Host, H4Host | H5Auth, H5Auth | H5Cmd, H5Cmd
  | H5Addr, H5Addr | H5HostLen, H5HostLen | H5Host, H5Host | H5Port, H5Port | HNone, HNone => true
  | _, _ => false
  end.

(* self._host: '' | str(ip_address(raw)) | data.decode('utf-8') *)
Inductive shost := NoHost | HostIP (raw : bytes) | HostName (b : bytes).

Definition host_truthy (h : shost) : bool :=
  match h with NoHost => false | HostIP _ => true | HostName [] => false | HostName _ => true end.

Record socks := mkSocks {
  sh : shandler; need : Z; sbuf : bytes; sopen : bool; shst : shost; sport : Z; satype : Z;
  swrites : list bytes;                 (* transport.write calls, in order *)
  sfwd : option (shost * Z) }.          (* forward(host, port, ...) started *)

Definition socks_init : socks := mkSocks HVersion 2 [] true NoHost 0 0 [] None.

Inductive hres := HOk (s : socks) | HRaise.     (* HRaise: AssertionError / AttributeError leaves data_received *)

(* strict UTF-8 as accepted by bytes.decode('utf-8') *)
Definition cont (b : Z) : bool := (128 <=? b) && (b <=? 191).
Definition rng (lo hi b : Z) : bool := (lo <=? b) && (b <=? hi).
Fixpoint utf8_valid (l : bytes) : bool :=
  match l with
  | [] => true
  | a :: r =>
      if a <? 128 then utf8_valid r
      else if rng 194 223 a then
        match r with b :: r' => cont b && utf8_valid r' | _ => false end
      else if rng 224 239 a then
        match r with
        | b :: c :: r' =>
            (if a =? 224 then rng 160 191 b else if a =? 237 then rng 128 159 b else cont b)
            && cont c && utf8_valid r'
        | _ => false
        end
      else if rng 240 244 a then
        match r with
        | b :: c :: d :: r' =>
            (if a =? 240 then rng 144 191 b else if a =? 244 then rng 128 143 b else cont b)
            && cont c && cont d && utf8_valid r'
        | _ => false
        end
      else false
  end.

Section Socks.
  Variable asserts : bool.
  Variable repaired : bool.

  (* SSHForwarder.close(): transport.close(); self._transport = None   (+ the repair) *)
  Definition s_close (s : socks) : socks :=
    mkSocks (if repaired then HNone else sh s) (need s) (sbuf s) false (shst s) (sport s) (satype s)
            (swrites s) (sfwd s).

  (* assert self._transport is not None; self._transport.write(data) *)
  Definition s_write (s : socks) (d : bytes) : hres :=
    if sopen s then HOk (mkSocks (sh s) (need s) (sbuf s) true (shst s) (sport s) (satype s)
                                 (swrites s ++ [d]) (sfwd s))
    else HRaise.

  (* _connect: assert transport; _recv_handler = None; forward(host, port, ...) *)
  Definition s_connect (s : socks) : hres :=
    if sopen s then HOk (mkSocks HNone (need s) (sbuf s) true (shst s) (sport s) (satype s) (swrites s)
                                 (Some (shst s, sport s)))
    else HRaise.

  Definition s_then (r : hres) (f : socks -> hres) : hres :=
    match r with HOk s => f s | HRaise => HRaise end.

  Definition s_set (s : socks) (h : shandler) (n : Z) : socks :=
    mkSocks h n (sbuf s) (sopen s) (shst s) (sport s) (satype s) (swrites s) (sfwd s).
  Definition s_host (s : socks) (h : shost) : socks :=
    mkSocks (sh s) (need s) (sbuf s) (sopen s) h (sport s) (satype s) (swrites s) (sfwd s).
  Definition s_port (s : socks) (p : Z) : socks :=
    mkSocks (sh s) (need s) (sbuf s) (sopen s) (shst s) p (satype s) (swrites s) (sfwd s).
  Definition s_atype (s : socks) (t : Z) : socks :=
    mkSocks (sh s) (need s) (sbuf s) (sopen s) (shst s) (sport s) t (swrites s) (sfwd s).
  Definition s_buf (s : socks) (b : bytes) : socks :=
    mkSocks (sh s) (need s) b (sopen s) (shst s) (sport s) (satype s) (swrites s) (sfwd s).

  Definition nth0 (l : bytes) (i : nat) : Z := nth i l 0.

  Definition socks4_ok : bytes := [0; 90; 0; 0; 0; 0; 0; 0].
  Definition socks5_ok (atype : Z) : bytes :=
    [5; 0; 0; atype] ++ repeat 0 (Z.to_nat ((if atype =? 4 then 16 else 4) + 2)).

  (* the handler call self._recv_handler(data) *)
  Definition s_handle (s : socks) (data : bytes) : hres :=
    match sh s with
    | HVersion =>
        if nth0 data 0 =? 4 then
          (if nth0 data 1 =? 1 then HOk (s_set s H4Addr 6) else HOk (s_close s))
        else if nth0 data 0 =? 5 then HOk (s_set s H5Auth (nth0 data 1))
        else HOk (s_close s)
    | H4Addr =>
        let s1 := s_port s (nth0 data 0 * 256 + nth0 data 1) in
        let s2 := if negb (zlist_eqb (slice data 2 3) [0; 0; 0]) || (nth0 data 5 =? 0)
                  then s_host s1 (HostIP (slice data 2 4)) else s1 in
        HOk (s_set s2 H4User (-1))
    | H4User =>
        if host_truthy (shst s) then s_then (s_write s socks4_ok) s_connect
        else HOk (s_set s H4Host (-1))
    | H4Host =>
        if utf8_valid data then s_then (s_write (s_host s (HostName data)) socks4_ok) s_connect
        else HOk (s_close s)
    | H5Auth =>
        if asserts && negb (sopen s) then HRaise
        else if existsb (fun b => b =? 0) data
             then s_then (s_write s [5; 0]) (fun s' => HOk (s_set s' H5Cmd 4))
             else HOk (s_close s)
    | H5Cmd =>
        if (nth0 data 0 =? 5) && (nth0 data 1 =? 1) && (nth0 data 2 =? 0) then
          if nth0 data 3 =? 3 then HOk (s_atype (s_set s H5HostLen 1) 1)
          else if nth0 data 3 =? 1 then HOk (s_atype (s_set s H5Addr 4) 1)
          else if nth0 data 3 =? 4 then HOk (s_atype (s_set s H5Addr 16) 4)
          else HOk (s_close s)
        else HOk (s_close s)
    | H5Addr => HOk (s_set (s_host s (HostIP data)) H5Port 2)
    | H5HostLen => HOk (s_set s H5Host (nth0 data 0))
    | H5Host =>
        if utf8_valid data then HOk (s_set (s_host s (HostName data)) H5Port 2) else HOk (s_close s)
    | H5Port =>
        let s1 := s_port s (nth0 data 0 * 256 + nth0 data 1) in
        s_then (s_write s1 (socks5_ok (satype s1))) s_connect
    | HNone => HOk s
    end.

  (* index of the first NUL *)
  Fixpoint find0 (l : bytes) (i : Z) : option Z :=
    match l with [] => None | b :: r => if b =? 0 then Some i else find0 r (i + 1) end.

  (* one iteration of `while self._recv_handler:` *)
  Inductive ires := ICont (s : socks) | IRet (s : socks) | IRaise.

  Definition s_iter (s : socks) : ires :=
    if need s <? 0 then
      match find0 (sbuf s) 0 with
      | Some idx =>
          match s_handle (s_buf s (skipn (Z.to_nat (idx + 1)) (sbuf s))) (firstn (Z.to_nat idx) (sbuf s)) with
          | HOk s' => ICont s' | HRaise => IRaise
          end
      | None => if blen (sbuf s) >? 255 then IRet (s_close s) else IRet s
      end
    else if blen (sbuf s) >=? need s then
      match s_handle (s_buf s (skipn (Z.to_nat (need s)) (sbuf s))) (firstn (Z.to_nat (need s)) (sbuf s)) with
      | HOk s' => ICont s' | HRaise => IRaise
      end
    else IRet s.

  Inductive lres := LDone (s : socks) (iters : Z)       (* loop left (handler None or return) *)
                  | LRaised (iters : Z)                 (* an exception left data_received *)
                  | LFuel.                              (* still looping when the fuel ran out *)

  Fixpoint s_loop (fuel : nat) (s : socks) (iters : Z) : lres :=
    match sh s with
    | HNone => LDone s iters
    | _ => match fuel with
           | O => LFuel
           | S f => match s_iter s with
                    | ICont s' => s_loop f s' (iters + 1)
                    | IRet s' => LDone s' (iters + 1)
                    | IRaise => LRaised (iters + 1)
                    end
           end
    end.

  (* progress measure of the loop: two units per buffered byte, one for an open transport, one for the
     host-length state (the only handlers that may run on zero bytes are H5Auth and H5Host) *)
  Definition s_mu (s : socks) : Z :=
    2 * blen (sbuf s) + (if sopen s then 1 else 0) + (if shandler_eqb (sh s) H5Host then 1 else 0).

  (* data_received(chunk): the buffer grows by the chunk whether or not a handler is left (once the request
     is complete the bytes wait in SSHForwarder._inpbuf for the tunnel), then the loop runs *)
  Definition s_feed (s : socks) (chunk : bytes) : lres :=
    let s1 := s_buf s (sbuf s ++ chunk) in
    s_loop (S (Z.to_nat (s_mu s1))) s1 0.

  (* a whole conversation: chunks one after the other; stops at the first exception (the real transport is
     then closed by asyncio's fatal-error path) and after close() (a closed transport delivers nothing) *)
  Fixpoint s_run (s : socks) (chunks : list bytes) (total : Z) : lres :=
    match chunks with
    | [] => LDone s total
    | c :: r => if negb (sopen s) then LDone s total else
                match s_feed s c with
                | LDone s' it => s_run s' r (total + it)
                | LRaised it => LRaised (total + it)
                | LFuel => LFuel
                end
    end.
End Socks.

(* ====================================================================================== *)
(* 4. Identification string / banner reader (connection.py _recv_version inside _recv_data's loop). *)

Record blimits := mkLim { max_line : Z;      (* _MAX_BANNER_LINE_LEN *)
                          max_lines : Z;     (* _MAX_BANNER_LINES *)
                          max_ver : Z }.     (* _MAX_VERSION_LINE_LEN *)

(* the first exception handed to _force_close wins (the transport is None afterwards) *)
Inductive bclose := BOpen | BLineTooLong | BTooManyLines | BVersionTooLong | BUnsupported | BInternal.

Definition bclose_eqb (a b : bclose) : bool :=
  match a, b with
  | BOpen, BOpen | BLineTooLong, BLineTooLong | BTooManyLines, BTooManyLines
  | BVersionTooLong, BVersionTooLong | BUnsupported, BUnsupported | BInternal, BInternal => true
  | _, _ => false
  end.

Record bstate := mkB {
  bbuf : bytes;                 (* _inpbuf *)
  blines : Z;                   (* _banner_lines *)
  bclosed : bclose;
  bver : option bytes;          (* peer version once accepted: the handler is _recv_pkthdr from then on *)
  bconsumed : Z }.              (* ghost: bytes taken out of the buffer by this reader *)

Definition b_init : bstate := mkB [] 0 BOpen None 0.

Definition b_close (s : bstate) (why : bclose) : bstate :=
  mkB (bbuf s) (blines s) (match bclosed s with BOpen => why | c => c end) (bver s) (bconsumed s).

(* data.find(b'\n', 0, limit): index of the first LF among the first [limit] bytes *)
Fixpoint find_lf (l : bytes) (i limit : Z) : option Z :=
  match l with
  | [] => None
  | b :: r => if limit <=? i then None else if b =? 10 then Some i else find_lf r (i + 1) limit
  end.

Definition strip_cr (v : bytes) : bytes :=
  match rev v with 13 :: r => rev r | _ => v end.

Definition ssh20 : bytes := [83; 83; 72; 45; 50; 46; 48; 45].           (* SSH-2.0- *)
Definition ssh199 : bytes := [83; 83; 72; 45; 49; 46; 57; 57; 45].      (* SSH-1.99- *)
Definition sshdash : bytes := [83; 83; 72; 45].                         (* SSH- *)

(* one call of _recv_version; (handler's return value, new state) *)
Definition b_step (lim : blimits) (client : bool) (s : bstate) : bool * bstate :=
  match find_lf (bbuf s) 0 (max_line lim) with
  | None =>
      (false, if blen (bbuf s) >=? max_line lim then b_close s BLineTooLong else s)
  | Some idx =>
      let version := strip_cr (firstn (Z.to_nat idx) (bbuf s)) in
      let s1 := mkB (skipn (Z.to_nat (idx + 1)) (bbuf s)) (blines s) (bclosed s) (bver s)
                    (bconsumed s + idx + 1) in
      if zprefix ssh20 version || zprefix ssh199 version then
        let s2 := if blen version >? max_ver lim then b_close s1 BVersionTooLong else s1 in
        if forallb (fun b => b <? 128) version
        then (true, mkB (bbuf s2) (blines s2) (bclosed s2) (Some version) (bconsumed s2))
        else (false, b_close s2 BInternal)      (* version.decode('ascii') raises: internal_error() *)
      else if client && negb (zprefix sshdash version) then
        let s2 := mkB (bbuf s1) (blines s1 + 1) (bclosed s1) (bver s1) (bconsumed s1) in
        if blines s2 >? max_lines lim then (false, b_close s2 BTooManyLines) else (true, s2)
      else (false, b_close s1 BUnsupported)
  end.

(* while self._inpbuf and self._recv_handler(): pass   -- restricted to the version phase *)
Fixpoint b_loop (lim : blimits) (client : bool) (fuel : nat) (s : bstate) (iters : Z) : option (bstate * Z) :=
  match bbuf s, bver s with
  | [], _ => Some (s, iters)
  | _, Some _ => Some (s, iters)
  | _, None =>
      match fuel with
      | O => None
      | S f => match b_step lim client s with
               | (true, s') => b_loop lim client f s' (iters + 1)
               | (false, s') => Some (s', iters + 1)
               end
      end
  end.

(* data_received(chunk) during the version phase.  After _force_close the transport is aborted and
   delivers nothing further (asyncio); after the version is accepted the packet reader takes over. *)
Definition b_feed (lim : blimits) (client : bool) (s : bstate) (chunk : bytes) : option (bstate * Z) :=
  match bclosed s, bver s with
  | BOpen, None =>
      let s1 := mkB (bbuf s ++ chunk) (blines s) (bclosed s) (bver s) (bconsumed s) in
      b_loop lim client (S (length (bbuf s1))) s1 0
  | _, _ => Some (s, 0)
  end.

Fixpoint b_run (lim : blimits) (client : bool) (s : bstate) (chunks : list bytes) (total : Z)
  : option (bstate * Z) :=
  match chunks with
  | [] => Some (s, total)
  | c :: r => match b_feed lim client s c with
              | None => None
              | Some (s', it) => b_run lim client s' r (total + it)
              end
  end.

(* ====================================================================================== *)
(* 5. Length-prefixed framing.
      sftp.py recv_packet: readexactly(4) -> length; readexactly(length); recv_packets: get_byte (type),
      get_uint32 (id), then the request handler.  There is NO upper bound on the length field
      (MAX_SFTP_PACKET_LEN is only advertised in the limits reply).  Sans-IO form: what the loop has done once
      the stream holds [buf]. *)

Inductive fstop := FWait          (* blocked in readexactly: needs more bytes (EOF here: clean end) *)
                 | FBad.          (* PacketDecodeError: _cleanup(SFTPBadMessage), the session ends *)

Fixpoint sftp_frames (fuel : nat) (buf : bytes) (acc : list (Z * Z * bytes)) (iters : Z)
  : option (list (Z * Z * bytes) * bytes * fstop * Z) :=
  match fuel with
  | O => None
  | S f =>
      if blen buf <? 4 then Some (acc, buf, FWait, iters)
      else let n := be_val (firstn 4 buf) in
           if blen buf - 4 <? n then Some (acc, buf, FWait, iters)
           else let body := slice buf 4 n in
                let rest := skipn (Z.to_nat (4 + n)) buf in
                match get_byte (mkPk body 0) with
                | Err _ => Some (acc, rest, FBad, iters + 1)
                | Ok t p1 =>
                    match get_uint32 p1 with
                    | Err _ => Some (acc, rest, FBad, iters + 1)
                    | Ok id p2 => sftp_frames f rest (acc ++ [(t, id, slice body 5 (n - 5))]) (iters + 1)
                    end
                end
  end.

Definition sftp_feed (buf : bytes) := sftp_frames (S (length buf)) buf [] 0.

(* agent.py _make_request: one response: length, body, get_byte (type).  None = still waiting *)
Inductive aresp := AWait | AValueError | AResp (t : Z) (body : bytes).
Definition agent_response (buf : bytes) : aresp :=
  if blen buf <? 4 then AWait
  else let n := be_val (firstn 4 buf) in
       if blen buf - 4 <? n then AWait
       else match get_byte (mkPk (slice buf 4 n) 0) with
            | Err _ => AValueError
            | Ok t _ => AResp t (slice buf 5 (n - 1))
            end.

(* ====================================================================================== *)
(* 6. copy-data (sftp.py SFTPServerHandler._process_copy_data).  Abstract file: only its size matters for
      termination.  read(src, off, size) returns min(size, max(0, srcsize - off)) bytes; write(dst, off, data)
      extends dst to at least off + len(data).  [same] = source and destination handles name the same file.
      Since fix 79ceadf such a request is refused (SFTPFailure) before the loop, as OpenSSH's sftp-server
      does; [copy_data_old] is the code before that fix, where writing moved the source's end. *)

Definition COPY_BLOCK : Z := 262144.

Inductive cres := CDone (iters written : Z) | CFuel (written : Z).

Fixpoint copy_loop (fuel : nat) (same : bool) (srcsize roff len woff : Z) (to_end : bool) (iters written : Z)
  : cres :=
  if to_end || negb (len =? 0) then
    match fuel with
    | O => CFuel written
    | S f =>
        let size := if to_end then COPY_BLOCK else Z.min len COPY_BLOCK in
        let got := Z.max 0 (Z.min size (srcsize - roff)) in
        let srcsize' := if same && (0 <? got) then Z.max srcsize (woff + got) else srcsize in
        if got <? size then CDone (iters + 1) (written + got)
        else copy_loop f same srcsize' (roff + size) (if to_end then len else len - size) (woff + size)
                       to_end (iters + 1) (written + got)
    end
  else CDone iters written.

Definition copy_data_old (fuel : nat) (same : bool) (srcsize roff len woff : Z) : cres :=
  copy_loop fuel same srcsize roff len woff (len =? 0) 0 0.

(* the request as handled now: refused without a single read or write when both handles are the same file *)
Definition copy_data (fuel : nat) (same : bool) (srcsize roff len woff : Z) : cres :=
  if same then CDone 0 0 else copy_loop fuel false srcsize roff len woff (len =? 0) 0 0.

(* ====================================================================================== *)
(* 7. Cost of the clear-text receive loop of connection.py (_recv_data / _recv_pkthdr / _recv_packet), whose
      model [Packet.recv_loop] is owned by C02: the same recursion, returning the number of handler calls
      that made the loop go round. *)
Fixpoint recv_count (fuel : nat) (s : Packet.rstate) : Z :=
  match fuel with
  | O => 0
  | S f => match Packet.inbuf s with
           | [] => 0
           | _ => match Packet.recv_step s with
                  | None => 0
                  | Some s' => 1 + recv_count f s'
                  end
           end
  end.

(* ====================================================================================== *)
(* 8. X11 setup block parser (x11.py SSHX11ClientForwarder: data_received, _recv_prefix, _recv_auth_proto,
      _recv_auth_data).  The hostile server opens an "x11" channel and sends the X11 connection setup; the
      forwarder checks the cookie it handed out ([remote]) and replaces it by the local display's ([local])
      before passing the block on to the X server.  Three handlers, then None; [xneed] = _bytes_needed.
      On a good cookie `self._inpbuf = prefix + proto + pad + local + pad` REPLACES the buffer (bytes that
      arrived behind the auth data in the same chunk are dropped - as in the code); on a bad cookie the
      failure reply and EOF go back to the channel and the buffer is emptied.  In both cases the handler is
      cleared, which is what ends the while loop. *)

Inductive xhandler := XPrefix | XProto | XData | XNone.

Record x11 := mkX {
  xh : xhandler; xneed : Z; xbuf : bytes; xbig : bool;
  xprefix : bytes; xproto : bytes; xppad : bytes; xplen : Z; xdlen : Z;
  xfwd : bytes;          (* everything passed on to the local X server *)
  xreply : bytes;        (* everything written back to the channel *)
  xeof : bool }.         (* write_eof() called *)

Definition x11_init : x11 := mkX XPrefix 12 [] false [] [] [] 0 0 [] [] false.

Definition xrank (h : xhandler) : Z :=
  match h with XPrefix => 3 | XProto => 2 | XData => 1 | XNone => 0 end.

Section X11.
  Variable remote : bytes.     (* the cookie sent in x11-req *)
  Variable local : bytes.      (* the cookie of the local display *)

  Definition padded (n : Z) : Z := ((n + 3) / 4) * 4.
  Definition pad4 (d : bytes) : bytes :=
    let r := (blen d) mod 4 in d ++ (if r =? 0 then [] else repeat 0 (Z.to_nat (4 - r))).
  Definition dec16 (big : bool) (a b : Z) : Z := if big then a * 256 + b else b * 256 + a.
  Definition enc16 (big : bool) (v : Z) : bytes :=
    if big then [v / 256; v mod 256] else [v mod 256; v / 256].

  (* b'Invalid authentication key\n' *)
  Definition x_reason : bytes :=
    [73;110;118;97;108;105;100;32;97;117;116;104;101;110;116;105;99;97;116;105;111;110;32;107;101;121;10].
  Definition x_failure (big : bool) : bytes :=
    [0; blen x_reason] ++ enc16 big 11 ++ enc16 big 0 ++ enc16 big ((blen x_reason + 3) / 4) ++ pad4 x_reason.

  Definition x_handle (s : x11) (data : bytes) : x11 :=
    match xh s with
    | XPrefix =>
        let big := nth 0 data 0 =? 66 in
        let plen := dec16 big (nth 6 data 0) (nth 7 data 0) in
        let dlen := dec16 big (nth 8 data 0) (nth 9 data 0) in
        mkX XProto (padded plen) (xbuf s) big data (xproto s) (xppad s) plen dlen (xfwd s) (xreply s) (xeof s)
    | XProto =>
        mkX XData (padded (xdlen s)) (xbuf s) (xbig s) (xprefix s)
            (firstn (Z.to_nat (xplen s)) data) (skipn (Z.to_nat (xplen s)) data)
            (xplen s) (xdlen s) (xfwd s) (xreply s) (xeof s)
    | XData =>
        let auth := firstn (Z.to_nat (xdlen s)) data in
        let dpad := skipn (Z.to_nat (xdlen s)) data in
        if zlist_eqb auth remote
        then mkX XNone 0 (xprefix s ++ xproto s ++ xppad s ++ local ++ dpad) (xbig s) (xprefix s) (xproto s)
                 (xppad s) (xplen s) (xdlen s) (xfwd s) (xreply s) (xeof s)
        else mkX XNone 0 [] (xbig s) (xprefix s) (xproto s) (xppad s) (xplen s) (xdlen s) (xfwd s)
                 (xreply s ++ x_failure (xbig s)) true
    | XNone => s
    end.

  Definition x_setbuf (s : x11) (b : bytes) : x11 :=
    mkX (xh s) (xneed s) b (xbig s) (xprefix s) (xproto s) (xppad s) (xplen s) (xdlen s) (xfwd s) (xreply s) (xeof s).
  Definition x_forward (s : x11) (d : bytes) : x11 :=
    mkX (xh s) (xneed s) (xbuf s) (xbig s) (xprefix s) (xproto s) (xppad s) (xplen s) (xdlen s) (xfwd s ++ d)
        (xreply s) (xeof s).

  (* one pass of `while self._recv_handler:`; None = return (more bytes needed) *)
  Definition x_iter (s : x11) : option x11 :=
    if blen (xbuf s) >=? xneed s
    then Some (x_handle (x_setbuf s (skipn (Z.to_nat (xneed s)) (xbuf s))) (firstn (Z.to_nat (xneed s)) (xbuf s)))
    else None.

  (* the loop; result: state, iterations, and whether the loop was left because the handler is None *)
  Fixpoint x_loop (fuel : nat) (s : x11) (iters : Z) : option (x11 * Z * bool) :=
    match xh s with
    | XNone => Some (s, iters, true)
    | _ => match fuel with
           | O => None
           | S f => match x_iter s with
                    | Some s' => x_loop f s' (iters + 1)
                    | None => Some (s, iters + 1, false)
                    end
           end
    end.

  (* data_received(chunk) *)
  Definition x_feed (s : x11) (chunk : bytes) : option (x11 * Z) :=
    match xh s with
    | XNone => Some (x_forward s chunk, 0)
    | _ => match x_loop 4 (x_setbuf s (xbuf s ++ chunk)) 0 with
           | None => None
           | Some (s', it, true) => Some (x_forward (x_setbuf s' []) (xbuf s'), it)
           | Some (s', it, false) => Some (s', it)
           end
    end.

  Fixpoint x_run (s : x11) (chunks : list bytes) (total : Z) : option (x11 * Z) :=
    match chunks with
    | [] => Some (s, total)
    | c :: r => match x_feed s c with
                | None => None
                | Some (s', it) => x_run s' r (total + it)
                end
    end.
End X11.
