(* Executable model of the SSH key exchange binding (property C03).
   Sources modelled (asyncssh):
     packet.py String / MPInt / SSHPacket.get_string / get_mpint / get_namelist   (sstr, mpint, mp_parse, ...)
     connection.py get_hash_prefix                  : String(V_C) String(V_S) String(I_C) String(I_S)
     kex_dh.py _KexDHBase._compute_hash              : prefix, String(K_S), gex data, client key, server key, K
       _KexDH (fixed groups)        client key = MPInt(e), server key = MPInt(f)
       _KexDHGex                    gex data = request payload (4 or 12 bytes, verbatim) + MPInt(p) + MPInt(g)
       _KexECDH / _KexHybridECDH    client key = String(Q_C), server key = String(Q_S)
     kex_rsa.py _KexRSA._compute_hash                : prefix, String(K_S), String(K_T), String(enc secret), MPInt(k)
     kex_dh.py _compute_client_shared / _compute_server_shared : the range checks  1 <= f < p, 1 <= e < p
     kex_dh.py _verify_reply                         : signature over H verifies under the presented key
     connection.py _recv_version                     : what is kept of a received identification line
     connection.py _process_kexinit                  : parsing of KEXINIT, payload kept verbatim, negotiation
     connection.py _choose_alg, SSHServerConnection.choose_server_host_key : first client preference
   Byte strings are list Z.  No proofs here. *)
From AV Require Import Base.Prelude Model.Packet.

(* ---- packet.py codecs ----------------------------------------------------------------------- *)

(* String(b) = len(b).to_bytes(4) + b *)
Definition sstr (b : bytes) : bytes := u32 (zlen b) ++ b.

(* int.bit_length() *)
Definition bitlen (v : Z) : Z := if v =? 0 then 0 else Z.log2 (Z.abs v) + 1.

(* MPInt(value):  l = value.bit_length(); l += (l % 8 == 0 and value != 0 and value != -1 << (l - 1));
                  l = (l + 7) // 8;  l.to_bytes(4) + value.to_bytes(l, 'big', signed=True) *)
Definition mp_nbytes (v : Z) : Z :=
  let l := bitlen v in
  let l' := if (l mod 8 =? 0) && negb (v =? 0) && negb (v =? - 2 ^ (l - 1)) then l + 1 else l in
  (l' + 7) / 8.

(* value.to_bytes(n, 'big', signed=True): the n low-order bytes of the two's complement
   (Z.land v 255 = v mod 256 and Z.shiftr v 8 = v / 256, floor semantics; the bit operations are
   linear in the size of v where division is quadratic, which matters for 8192-bit group elements) *)
Fixpoint be_acc (n : nat) (v : Z) (acc : bytes) : bytes :=
  match n with
  | O => acc
  | S k => be_acc k (Z.shiftr v 8) (Z.land v 255 :: acc)
  end.
Definition be (n : nat) (v : Z) : bytes := be_acc n v [].

Definition mp_body (v : Z) : bytes := be (Z.to_nat (mp_nbytes v)) v.
Definition mpint (v : Z) : bytes := u32 (mp_nbytes v) ++ mp_body v.

(* int.from_bytes(b, 'big') and int.from_bytes(b, 'big', signed=True) *)
Definition ube (b : bytes) : Z := fold_left (fun a x => a * 256 + x) b 0.
Definition sdec (b : bytes) : Z :=
  let u := ube b in
  let m := 256 ^ zlen b in
  if m <=? 2 * u then u - m else u.

(* SSHPacket.get_string / get_mpint on the front of a byte string: Some (value, rest) or None (PacketDecodeError) *)
Definition take (n : Z) (b : bytes) : option (bytes * bytes) :=
  if (0 <=? n) && (n <=? zlen b) then Some (firstn (Z.to_nat n) b, skipn (Z.to_nat n) b) else None.

Definition get_string (b : bytes) : option (bytes * bytes) :=
  match take 4 b with
  | Some (h, r) => take (get_u32 h) r
  | None => None
  end.

Definition get_mpint (b : bytes) : option (Z * bytes) :=
  match get_string b with
  | Some (s, r) => Some (sdec s, r)
  | None => None
  end.

(* a whole message body that consists of one mpint (KEXDH_INIT): get_mpint then check_end *)
Definition mp_parse (b : bytes) : option Z :=
  match get_mpint b with
  | Some (v, []) => Some v
  | _ => None
  end.

(* namelist.split(b',') if namelist else [] *)
Fixpoint splitc (b : bytes) (cur : bytes) : list bytes :=
  match b with
  | [] => [rev cur]
  | x :: r => if x =? 44 then rev cur :: splitc r [] else splitc r (x :: cur)
  end.
Definition split_commas (b : bytes) : list bytes :=
  match b with [] => [] | _ => splitc b [] end.

Definition get_namelist (b : bytes) : option (list bytes * bytes) :=
  match get_string b with
  | Some (s, r) => Some (split_commas s, r)
  | None => None
  end.

(* ---- connection.py _recv_version: what is stored of a received line (the bytes in front of LF) ---- *)
Definition version_of_line (line : bytes) : bytes :=
  match rev line with
  | 13 :: r => rev r
  | _ => line
  end.

(* ---- the values one side feeds into the exchange hash ------------------------------------- *)
Inductive kexfields :=
| KDH (e f : Z)                          (* fixed group Diffie-Hellman *)
| KGEX (rq : bytes) (p g e f : Z)        (* group exchange: request payload verbatim (old form 4 bytes, new 12) *)
| KECDH (qc qs : bytes)                  (* ECDH, curve25519/448, hybrid post-quantum: opaque strings *)
| KRSA (tk ek : bytes).                  (* RSA key exchange: transient key blob, encrypted secret *)

Record view := mkView {
  v_c : bytes;      (* client identification string, without CR LF *)
  v_s : bytes;      (* server identification string *)
  i_c : bytes;      (* payload of the client's KEXINIT, starting with the message number *)
  i_s : bytes;      (* payload of the server's KEXINIT *)
  k_s : bytes;      (* host key blob *)
  kf : kexfields;
  kk : bytes        (* the encoded shared secret exactly as hashed: MPInt(K), or String(digest) for hybrids *)
}.

Definition enc_fields (x : kexfields) : bytes :=
  match x with
  | KDH e f => mpint e ++ mpint f
  | KGEX rq p g e f => rq ++ mpint p ++ mpint g ++ mpint e ++ mpint f
  | KECDH qc qs => sstr qc ++ sstr qs
  | KRSA tk ek => sstr tk ++ sstr ek
  end.

Definition hash_prefix (v : view) : bytes :=
  sstr (v_c v) ++ sstr (v_s v) ++ sstr (i_c v) ++ sstr (i_s v).

Definition hash_input (v : view) : bytes :=
  hash_prefix v ++ sstr (k_s v) ++ enc_fields (kf v) ++ kk v.

(* family tag of the fields (which handler class ran) *)
Definition shape_tag (x : kexfields) : Z :=
  match x with KDH _ _ => 0 | KGEX _ _ _ _ _ => 1 | KECDH _ _ => 2 | KRSA _ _ => 3 end.

(* decidable equality of views *)
Definition kexfields_eqb (a b : kexfields) : bool :=
  match a, b with
  | KDH e f, KDH e' f' => (e =? e') && (f =? f')
  | KGEX rq p g e f, KGEX rq' p' g' e' f' =>
      zlist_eqb rq rq' && (p =? p') && (g =? g') && (e =? e') && (f =? f')
  | KECDH a1 a2, KECDH b1 b2 => zlist_eqb a1 b1 && zlist_eqb a2 b2
  | KRSA a1 a2, KRSA b1 b2 => zlist_eqb a1 b1 && zlist_eqb a2 b2
  | _, _ => false
  end.

Definition view_eqb (a b : view) : bool :=
  zlist_eqb (v_c a) (v_c b) && zlist_eqb (v_s a) (v_s b) && zlist_eqb (i_c a) (i_c b) &&
  zlist_eqb (i_s a) (i_s b) && zlist_eqb (k_s a) (k_s b) && kexfields_eqb (kf a) (kf b) &&
  zlist_eqb (kk a) (kk b).

(* ---- algorithm choice ------------------------------------------------------------------------ *)
Fixpoint mem (a : bytes) (l : list bytes) : bool :=
  match l with
  | [] => false
  | x :: r => zlist_eqb a x || mem a r
  end.

(* _choose_alg: for alg in client_algs: if alg in server_algs: return alg; else KeyExchangeFailed *)
Fixpoint choose_alg (client server : list bytes) : option bytes :=
  match client with
  | [] => None
  | a :: r => if mem a server then Some a else choose_alg r server
  end.

(* the same call as made by one side: (local, remote) are swapped into (client, server) by role *)
Definition side_choose (is_client : bool) (local remote : list bytes) : option bytes :=
  if is_client then choose_alg local remote else choose_alg remote local.

(* ---- KEXINIT ----------------------------------------------------------------------------------- *)
Record kexinit := mkKI {
  ki_kex : list bytes; ki_hostkey : list bytes;
  ki_enc_cs : list bytes; ki_enc_sc : list bytes;
  ki_mac_cs : list bytes; ki_mac_sc : list bytes;
  ki_cmp_cs : list bytes; ki_cmp_sc : list bytes;
  ki_follows : bool
}.

Definition bind {A B} (o : option A) (f : A -> option B) : option B :=
  match o with Some x => f x | None => None end.

(* _process_kexinit: message number, 16 byte cookie, ten name-lists, boolean, uint32, check_end *)
Definition parse_kexinit (payload : bytes) : option kexinit :=
  match payload with
  | 20 :: body =>
    bind (take 16 body) (fun '(_, r) =>
    bind (get_namelist r) (fun '(kex, r) =>
    bind (get_namelist r) (fun '(hk, r) =>
    bind (get_namelist r) (fun '(ecs, r) =>
    bind (get_namelist r) (fun '(esc, r) =>
    bind (get_namelist r) (fun '(mcs, r) =>
    bind (get_namelist r) (fun '(msc, r) =>
    bind (get_namelist r) (fun '(ccs, r) =>
    bind (get_namelist r) (fun '(csc, r) =>
    bind (get_namelist r) (fun '(_, r) =>
    bind (get_namelist r) (fun '(_, r) =>
    bind (take 1 r) (fun '(fl, r) =>
    bind (take 4 r) (fun '(_, r) =>
    match r with
    | [] => Some (mkKI kex hk ecs esc mcs msc ccs csc (negb (zlist_eqb fl [0])))
    | _ => None
    end)))))))))))))
  | _ => None
  end.

Record negres := mkNeg {
  n_kex : bytes; n_hostkey : bytes;
  n_enc_cs : bytes; n_enc_sc : bytes; n_mac_cs : bytes; n_mac_sc : bytes;
  n_cmp_cs : bytes; n_cmp_sc : bytes
}.

(* the negotiation of _process_kexinit as a function of the two KEXINITs (client's, server's);
   [needs_mac] is encryption.py encryption_needs_mac: when false the MAC name is the cipher name.
   The host key algorithm is the server's choose_server_host_key: first entry of the client's list
   for which the server has a key (its KEXINIT lists exactly the algorithms of its key table). *)
Definition negotiate (needs_mac : bytes -> bool) (c s : kexinit) : option negres :=
  bind (choose_alg (ki_kex c) (ki_kex s)) (fun kex =>
  bind (choose_alg (ki_hostkey c) (ki_hostkey s)) (fun hk =>
  bind (choose_alg (ki_enc_cs c) (ki_enc_cs s)) (fun ecs =>
  bind (choose_alg (ki_enc_sc c) (ki_enc_sc s)) (fun esc =>
  bind (if needs_mac ecs then choose_alg (ki_mac_cs c) (ki_mac_cs s) else Some ecs) (fun mcs =>
  bind (if needs_mac esc then choose_alg (ki_mac_sc c) (ki_mac_sc s) else Some esc) (fun msc =>
  bind (choose_alg (ki_cmp_cs c) (ki_cmp_cs s)) (fun ccs =>
  bind (choose_alg (ki_cmp_sc c) (ki_cmp_sc s)) (fun csc =>
  Some (mkNeg kex hk ecs esc mcs msc ccs csc))))))))).

(* negotiation straight from the two payloads *)
Definition negotiate_payloads (needs_mac : bytes -> bool) (ic is_ : bytes) : option negres :=
  bind (parse_kexinit ic) (fun c => bind (parse_kexinit is_) (fun s => negotiate needs_mac c s)).

Definition neg_kex (ic is_ : bytes) : option bytes :=
  bind (parse_kexinit ic) (fun c => bind (parse_kexinit is_) (fun s => choose_alg (ki_kex c) (ki_kex s))).

(* ---- acceptance -------------------------------------------------------------------------------- *)
(* the range checks of _compute_client_shared / _compute_server_shared; [p] is the modulus of the fixed
   group for KDH (ignored otherwise: group exchange carries its own); [ec_ok] stands for "get_shared /
   decaps did not raise ValueError" *)
Definition client_range_ok (ec_ok : bytes -> bool) (p : Z) (x : kexfields) : bool :=
  match x with
  | KDH _ f => (1 <=? f) && (f <? p)
  | KGEX _ p' _ _ f => (1 <=? f) && (f <? p')
  | KECDH _ qs => ec_ok qs
  | KRSA _ _ => true
  end.

Definition server_range_ok (ec_ok : bytes -> bool) (p : Z) (x : kexfields) : bool :=
  match x with
  | KDH e _ => (1 <=? e) && (e <? p)
  | KGEX _ p' _ e _ => (1 <=? e) && (e <? p')
  | KECDH qc _ => ec_ok qc
  | KRSA _ _ => true
  end.

(* _verify_reply (client): range check, H over the client's own view, signature check *)
Definition client_accepts (hash : bytes -> bytes) (verify : bytes -> bytes -> bytes -> bool)
           (ec_ok : bytes -> bool) (p : Z) (v : view) (sig : bytes) : bool :=
  client_range_ok ec_ok p (kf v) && verify (k_s v) (hash (hash_input v)) sig.

(* asyncssh.get_server_host_key() (a connection created with wait='kex'): the waiter is resolved in
   send_newkeys, which the key exchange handler calls only after _verify_reply accepted; the caller then gets
   the presented host key.  None = the caller gets the exception instead. *)
Definition kex_wait_result (hash : bytes -> bytes) (verify : bytes -> bytes -> bytes -> bool)
           (ec_ok : bytes -> bool) (p : Z) (v : view) (sig : bytes) : option bytes :=
  if client_accepts hash verify ec_ok p v sig then Some (k_s v) else None.

(* the group the server picks for a group exchange request (kex_dh.py _process_request), on the table of
   sizes only: returns the bit size of the chosen group *)
Fixpoint gex_pick (sizes : list Z) (cur pref maxsz : Z) : Z :=
  match sizes with
  | [] => cur
  | s :: r => if maxsz <? s then cur else if pref <=? s then s else gex_pick r s pref maxsz
  end.
Definition gex_sizes : list Z := [1024; 2048; 3072; 4096; 6144; 8192].
Definition gex_group_size (pref maxsz : Z) : Z := gex_pick gex_sizes 1024 pref maxsz.
