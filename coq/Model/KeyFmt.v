(* Executable model of the key file formats of asyncssh (armour and containers around the DER codec).
   Sources modelled (/repo/asyncssh):
     binascii.b2a_base64 / a2b_base64 (CPython, non-strict mode)      -> b2a, a2b
     misc.wrap_base64, misc.match_base64                                  -> wrap_base64, find_footer
     public_key._match_next, _parse_pem, _parse_rfc4716, _parse_openssh   -> match_next, parse_pem, parse_rfc4716,
                                                                             parse_openssh
     SSHKey.export_public_key ('openssh', 'rfc4716')                      -> export_openssh_public, export_rfc4716
     SSHKey.export_private_key ('openssh'), _decode_openssh_private       -> openssh_encode, openssh_decode
     packet.UInt32/String, SSHPacket.get_uint32/get_string                -> u32, sshstring, get_u32, get_string
     pbe._RFC1423Pad, pkcs8 wrappers, rsa.py PKCS#1 codecs                -> rfc1423_pad/unpad, pkcs8_*, rsa_*
   Ciphers, KDFs and the per-algorithm key mathematics are parameters (Section variables).
   Text is processed line by line: data.find(b'\n', start) loops become recursion over split_nl data.
   No proofs here. *)
From AV Require Import Base.Prelude Model.DER.

(* ------------------------------------------------------------------------------------------- *)
(* bytes helpers *)

Definition NL : Z := 10.

(* bytes.strip()/rstrip()/split(None): ASCII whitespace *)
Definition is_ws (c : Z) : bool :=
  (c =? 32) || (c =? 9) || (c =? 10) || (c =? 13) || (c =? 11) || (c =? 12).

Fixpoint lstrip (s : bytes) : bytes :=
  match s with
  | c :: r => if is_ws c then lstrip r else s
  | [] => []
  end.
Definition rstrip (s : bytes) : bytes := rev (lstrip (rev s)).
Definition strip (s : bytes) : bytes := rstrip (lstrip s).

Definition ends_with (suffix s : bytes) : bool := zprefix (rev suffix) (rev s).

(* data.split(b'\n') and b'\n'.join *)
Fixpoint split_nl (s : bytes) : list bytes :=
  match s with
  | [] => [[]]
  | c :: r =>
      if c =? NL then [] :: split_nl r
      else match split_nl r with
           | h :: t => (c :: h) :: t
           | [] => [[c]]
           end
  end.

Fixpoint join_nl (ls : list bytes) : bytes :=
  match ls with
  | [] => []
  | [l] => l
  | l :: r => l ++ NL :: join_nl r
  end.

(* s.split(sep, 1) when sep occurs: (before, after) *)
Fixpoint split_once (sep : Z) (s : bytes) : option (bytes * bytes) :=
  match s with
  | [] => None
  | c :: r =>
      if c =? sep then Some ([], r)
      else match split_once sep r with
           | Some (a, b) => Some (c :: a, b)
           | None => None
           end
  end.

(* s[a:b] for 0 <= a and a possibly negative stop already made absolute *)
Definition slice (a b : Z) (s : bytes) : bytes := firstn (Z.to_nat (b - a)) (skipn (Z.to_nat a) s).

(* ------------------------------------------------------------------------------------------- *)
(* base64 *)

Definition b64_char (n : Z) : Z :=
  if n <? 26 then 65 + n else if n <? 52 then 97 + (n - 26) else if n <? 62 then 48 + (n - 52)
  else if n =? 62 then 43 else 47.

Definition b64_val (c : Z) : option Z :=
  if (65 <=? c) && (c <=? 90) then Some (c - 65)
  else if (97 <=? c) && (c <=? 122) then Some (c - 97 + 26)
  else if (48 <=? c) && (c <=? 57) then Some (c - 48 + 52)
  else if c =? 43 then Some 62 else if c =? 47 then Some 63 else None.

Definition PAD : Z := 61.

(* binascii.b2a_base64(data)[:-1] *)
Fixpoint b2a (l : bytes) : bytes :=
  match l with
  | a :: b :: c :: r =>
      b64_char (a / 4) :: b64_char ((a mod 4) * 16 + b / 16) :: b64_char ((b mod 16) * 4 + c / 64) ::
      b64_char (c mod 64) :: b2a r
  | [a; b] => [b64_char (a / 4); b64_char ((a mod 4) * 16 + b / 16); b64_char ((b mod 16) * 4); PAD]
  | [a] => [b64_char (a / 4); b64_char ((a mod 4) * 16); PAD; PAD]
  | [] => []
  end.

(* binascii.a2b_base64(s) (strict_mode=False): quad position, pending bits, count of '=' seen since
   the last data character.  None = binascii.Error. *)
Fixpoint a2b_go (quad left pads : Z) (s : bytes) : option bytes :=
  match s with
  | [] => if quad =? 0 then Some [] else None
  | c :: r =>
      if c =? PAD then
        if 2 <=? quad then
          if 4 <=? quad + (pads + 1) then Some []          (* goto done: the rest is ignored *)
          else a2b_go quad left (pads + 1) r
        else a2b_go quad left pads r
      else
        match b64_val c with
        | None => a2b_go quad left pads r
        | Some v =>
            if quad =? 0 then a2b_go 1 v 0 r
            else if quad =? 1 then option_map (cons (left * 4 + v / 16)) (a2b_go 2 (v mod 16) 0 r)
            else if quad =? 2 then option_map (cons (left * 16 + v / 4)) (a2b_go 3 (v mod 4) 0 r)
            else option_map (cons (left * 64 + v)) (a2b_go 0 0 0 r)
        end
  end.

Definition a2b (s : bytes) : option bytes := a2b_go 0 0 0 s.

(* b'\n'.join(data[i:i+wrap] for i in range(0, len(data), wrap)); k = room left on the current line *)
Fixpoint fold_lines (wrap k : nat) (s : bytes) : bytes :=
  match s with
  | [] => []
  | c :: r =>
      match k with
      | O => NL :: c :: fold_lines wrap (pred wrap) r
      | S k' => c :: fold_lines wrap k' r
      end
  end.

Definition dashes (space : bool) : bytes := if space then [45; 45; 45; 45; 32] else [45; 45; 45; 45; 45].
Definition sehsad (space : bool) : bytes := if space then [32; 45; 45; 45; 45] else [45; 45; 45; 45; 45].
Definition BEGIN_ : bytes := [66; 69; 71; 73; 78; 32].    (* "BEGIN " *)
Definition END_ : bytes := [69; 78; 68; 32].               (* "END " *)

(* misc.wrap_base64(data, block_type, headers, space, wrap) *)
Definition wrap_base64 (data block_type headers : bytes) (space : bool) (wrap : nat) : bytes :=
  dashes space ++ BEGIN_ ++ block_type ++ sehsad space ++ [NL] ++ headers ++
  fold_lines wrap wrap (b2a data) ++
  [NL] ++ dashes space ++ END_ ++ block_type ++ sehsad space ++ [NL].

(* ------------------------------------------------------------------------------------------- *)
(* misc.match_base64: search for the footer line.
   The real code builds the regular expression  ^ re.escape(header[:5] END header[10:]) [ \t\n\r\f\v]* $
   (re.M) from the header line (escaped since 25a6765); the model treats the header text literally.  Matching semantics of the tail: the
   footer text must be followed on its line by whitespace only; the match then extends over following
   whitespace-only lines up to the end of data, or else stops just before the newline that precedes
   the first line with a non-blank character. *)

Definition all_ws (s : bytes) : bool := forallb is_ws s.

Fixpoint drop_blank_lines (ls : list bytes) : list bytes :=
  match ls with
  | l :: r => if all_ws l then drop_blank_lines r else ls
  | [] => []
  end.

(* lines: the lines from the search start; result: (data[start:match.start()], data[match.end():]) *)
Fixpoint find_footer (footer : bytes) (lines : list bytes) : option (bytes * bytes) :=
  match lines with
  | [] => None
  | l :: r =>
      if zprefix footer l && all_ws (skipn (length footer) l) then
        Some ([], match drop_blank_lines r with [] => [] | rest => NL :: join_nl rest end)
      else
        match r with
        | [] => None                              (* the last line has no newline after it *)
        | _ => match find_footer footer r with
               | Some (body, rest) => Some (l ++ NL :: body, rest)
               | None => None
               end
        end
  end.

Definition footer_of (header : bytes) : bytes := firstn 5 header ++ [69; 78; 68] ++ skipn 10 header.

(* ------------------------------------------------------------------------------------------- *)
(* _parse_pem / _parse_rfc4716 / _parse_openssh *)

Definition COLON : Z := 58.
Definition has_byte (c : Z) (s : bytes) : bool := existsb (Z.eqb c) s.

(* header loop of _parse_pem over the lines of the block; result: headers in file order, base64 text *)
Fixpoint pem_headers (ls : list bytes) : list (bytes * bytes) * bytes :=
  match ls with
  | [] => ([], [])
  | l :: r =>
      match split_once COLON (rstrip l) with
      | Some (h, v) => let '(hs, body) := pem_headers r in ((strip h, strip v) :: hs, body)
      | None => ([], join_nl ls)
      end
  end.

(* dict semantics: the last occurrence of a key wins *)
Fixpoint lookup_last (k : bytes) (hs : list (bytes * bytes)) : option bytes :=
  match hs with
  | [] => None
  | (k', v) :: r => match lookup_last k r with
                    | Some v' => Some v'
                    | None => if zlist_eqb k k' then Some v else None
                    end
  end.

Definition parse_pem (data : bytes) : option (list (bytes * bytes) * bytes) :=
  let '(hs, body) := pem_headers (split_nl data) in
  match a2b body with Some d => Some (hs, d) | None => None end.

Definition COMMENT_ : bytes := [67; 111; 109; 109; 101; 110; 116].   (* "Comment" *)
Definition QUOTE : Z := 34.
Definition BACKSLASH : Z := 92.

Definition unquote (c : bytes) : bytes :=
  match c, rev c with
  | a :: _, z :: _ => if (a =? QUOTE) && (z =? QUOTE) then slice 1 (zlen c - 1) c else c
  | _, _ => c
  end.

(* header loop of _parse_rfc4716; hdr = the continuation lines accumulated so far *)
Fixpoint rfc4716_headers (ls : list bytes) (hdr : bytes) (comment : option bytes) : option bytes * bytes :=
  match ls with
  | [] =>
      (* the extra iteration(s) at start = len(data): an empty line *)
      match split_once COLON hdr with
      | Some (h, v) => (if zlist_eqb (strip h) COMMENT_ then Some (unquote (strip v)) else comment, [])
      | None => (comment, [])
      end
  | l :: r =>
      let line := rstrip l in
      match rev line with
      | c :: before => if c =? BACKSLASH then rfc4716_headers r (hdr ++ rev before) comment
                       else
                         match split_once COLON (hdr ++ line) with
                         | Some (h, v) =>
                             rfc4716_headers r []
                               (if zlist_eqb (strip h) COMMENT_ then Some (unquote (strip v)) else comment)
                         | None => (comment, join_nl ls)
                         end
      | [] =>
          match split_once COLON hdr with
          | Some (h, v) =>
              rfc4716_headers r []
                (if zlist_eqb (strip h) COMMENT_ then Some (unquote (strip v)) else comment)
          | None => (comment, join_nl ls)
          end
      end
  end.

Definition parse_rfc4716 (data : bytes) : option (option bytes * bytes) :=
  let '(c, body) := rfc4716_headers (split_nl data) [] None in
  match a2b body with Some d => Some (c, d) | None => None end.

(* bytes.split(None, 2) *)
Fixpoint take_word (s : bytes) : bytes * bytes :=
  match s with
  | c :: r => if is_ws c then ([], s) else let '(w, rest) := take_word r in (c :: w, rest)
  | [] => ([], [])
  end.

(* None = KeyImportError *)
Definition parse_openssh (known_alg : bytes -> bool) (line : bytes) : option (bytes * option bytes * bytes) :=
  let '(w0, r0) := take_word (lstrip line) in
  let '(w1, r1) := take_word (lstrip r0) in
  match w0, w1 with
  | _ :: _, _ :: _ =>
      let comment := match lstrip r1 with [] => None | c => Some c end in
      if known_alg w0 then
        match a2b w1 with Some d => Some (w0, comment, d) | None => None end
      else None
  | _, _ => None
  end.

(* ------------------------------------------------------------------------------------------- *)
(* _match_next *)

Inductive ferr := ImportErr | DerErr (e : derr).

Inductive found :=
| FDer (v : value) (rest : bytes)
| FPem (name : bytes) (headers : list (bytes * bytes)) (data : bytes) (rest : bytes)
| FRfc4716 (comment : option bytes) (data : bytes) (rest : bytes)
| FOpenSSH (alg : bytes) (comment : option bytes) (data : bytes) (rest : bytes)
| FNone
| FErr (e : ferr).

Definition BEGIN_PEM : bytes := [45; 45; 45; 45; 45; 66; 69; 71; 73; 78; 32].          (* "-----BEGIN " *)
Definition DASH5 : bytes := [45; 45; 45; 45; 45].
Definition RFC4716_BEGIN : bytes :=
  [45;45;45;45;32;66;69;71;73;78;32;83;83;72;50;32;80;85;66;76;73;67;32;75;69;89;32;45;45;45;45].

Section MatchNext.
  Variable known_alg : bytes -> bool.     (* line[0] in _public_key_alg_map or _certificate_alg_map *)
  Variable keytype : bytes.
  Variable public : bool.
  Variable whole : list bytes.            (* all lines of data (search restarts at 0 when end == 0) *)

  Fixpoint scan_lines (ls : list bytes) : found :=
    match ls with
    | [] => FNone
    | l :: r =>
        let line := rstrip l in
        if zprefix BEGIN_PEM line && ends_with (32 :: keytype ++ DASH5) line then
          let name := strip (slice 11 (zlen line - (6 + zlen keytype)) line) in
          match find_footer (footer_of line) (match r with [] => whole | _ => r end) with
          | None => FErr ImportErr                              (* Missing PEM footer *)
          | Some (body, rest) =>
              match parse_pem body with
              | Some (hs, d) => FPem name hs d rest
              | None => FErr ImportErr                          (* Invalid PEM data *)
              end
          end
        else if public && zlist_eqb line RFC4716_BEGIN then
          match find_footer (footer_of line) (match r with [] => whole | _ => r end) with
          | None => FErr ImportErr
          | Some (body, rest) =>
              match parse_rfc4716 body with
              | Some (c, d) => FRfc4716 c d rest
              | None => FErr ImportErr
              end
          end
        else
          match (if public then parse_openssh known_alg line else None) with
          | Some (alg, c, d) => FOpenSSH alg c d (join_nl r)
          | None => scan_lines r
          end
    end.
End MatchNext.

Definition match_next (known_alg : bytes -> bool) (data keytype : bytes) (public : bool) : found :=
  let text := scan_lines known_alg keytype public (split_nl data) (split_nl data) in
  match data with
  | 48 :: _ =>
      match der_decode_partial data with
      | Ok (v, rest) => FDer v rest
      | Err DecodeErr => text
      | Err e => FErr (DerErr e)
      end
  | _ => text
  end.

(* SSHKey.export_public_key('openssh') and ('rfc4716') before fdd47d0: every comment was written
   out unchecked; comment = self._comment (None or non-empty) *)
Definition export_openssh_public_old (alg blob : bytes) (comment : option bytes) : bytes :=
  alg ++ [32] ++ b2a blob ++ (match comment with Some c => 32 :: c | None => [] end) ++ [NL].

Definition SSH2_PUBLIC_KEY : bytes := [83;83;72;50;32;80;85;66;76;73;67;32;75;69;89].
Definition export_rfc4716_old (blob : bytes) (comment : option bytes) : bytes :=
  wrap_base64 blob SSH2_PUBLIC_KEY
    (match comment with Some c => COMMENT_ ++ [COLON; 32; QUOTE] ++ c ++ [QUOTE; NL] | None => [] end)
    true 70.

(* the code of record: a comment containing LF or CR is refused (None = KeyExportError) *)
Definition comment_exportable (comment : option bytes) : bool :=
  match comment with Some c => negb (has_byte 10 c || has_byte 13 c) | None => true end.

Definition export_openssh_public (alg blob : bytes) (comment : option bytes) : option bytes :=
  if comment_exportable comment then Some (export_openssh_public_old alg blob comment) else None.

Definition export_rfc4716 (blob : bytes) (comment : option bytes) : option bytes :=
  if comment_exportable comment then Some (export_rfc4716_old blob comment) else None.

(* ------------------------------------------------------------------------------------------- *)
(* SSH wire encodings *)

Definition u32 (n : Z) : bytes := be_fixed 4 n [].
Definition sshstring (s : bytes) : bytes := u32 (zlen s) ++ s.

(* None = PacketDecodeError *)
Definition get_bytes (n : Z) (p : bytes) : option (bytes * bytes) :=
  if zlen p <? n then None else Some (firstn (Z.to_nat n) p, skipn (Z.to_nat n) p).
Definition get_u32 (p : bytes) : option (Z * bytes) :=
  match get_bytes 4 p with Some (b, r) => Some (undigits 256 b, r) | None => None end.
Definition get_string (p : bytes) : option (bytes * bytes) :=
  match get_u32 p with Some (n, r) => get_bytes n r | None => None end.

(* ------------------------------------------------------------------------------------------- *)
(* openssh-key-v1 container *)

Definition OPENSSH_KEY_V1 : bytes := [111;112;101;110;115;115;104;45;107;101;121;45;118;49;0].
Definition NONE_ : bytes := [110; 111; 110; 101].
Definition BCRYPT_ : bytes := [98; 99; 114; 121; 112; 116].

(* bytes(range(1, n+1)) *)
Fixpoint count_from (k : Z) (n : nat) : bytes :=
  match n with O => [] | S n' => k :: count_from (k + 1) n' end.

(* export: pad = len(data) % block_size; if pad: data += bytes(range(1, block_size + 1 - pad)) *)
Definition openssh_pad (block_size : Z) (data : bytes) : bytes :=
  let pad := zlen data mod block_size in
  if pad =? 0 then data else data ++ count_from 1 (Z.to_nat (block_size - pad)).

Inductive oerr := OImportErr | OEncryptionErr.      (* KeyImportError, KeyEncryptionError *)
Inductive ores (A : Type) := OOk (a : A) | OErr (e : oerr).
Arguments OOk {A} a.
Arguments OErr {A} e.

Section OpenSSH.
  Variable params : Type.                                  (* the algorithm's private key parameters *)
  Variable enc_priv : params -> bytes.                     (* String(alg) + encode_ssh_private() *)
  Variable dec_priv : bytes -> option (params * bytes).    (* get_string alg; decode_ssh_private(packet) *)
  (* cipher selected by name: key/iv size for the KDF, block size, encrypt_packet / decrypt_packet *)
  Variable cipher_known : bytes -> bool.
  Variable block_size : bytes -> Z.
  Variable kdf : bytes -> bytes -> Z -> bytes -> bytes.   (* cipher name, passphrase, rounds, salt -> key *)
  Variable encrypt : bytes -> bytes -> bytes -> bytes * bytes.         (* cipher, key, data -> (data, mac) *)
  Variable decrypt : bytes -> bytes -> bytes -> bytes -> option bytes. (* cipher, key, data, mac *)

  (* export_private_key('openssh'): check = os.urandom(4), salt = os.urandom(16) are inputs here *)
  Definition openssh_encode (check : bytes) (p : params) (comment pub : bytes)
             (enc : option (bytes * bytes * bytes * Z)) (* cipher name, passphrase, salt, rounds *) : bytes :=
    let plain := check ++ check ++ enc_priv p ++ sshstring comment in
    match enc with
    | None =>
        OPENSSH_KEY_V1 ++ sshstring NONE_ ++ sshstring NONE_ ++ sshstring [] ++ u32 1 ++
        sshstring pub ++ sshstring (openssh_pad 8 plain)
    | Some (alg, pass, salt, rounds) =>
        let '(data, mac) := encrypt alg (kdf alg pass rounds salt)
                                    (openssh_pad (Z.max (block_size alg) 8) plain) in
        OPENSSH_KEY_V1 ++ sshstring alg ++ sshstring BCRYPT_ ++ sshstring (sshstring salt ++ u32 rounds) ++
        u32 1 ++ sshstring pub ++ sshstring data ++ mac
    end.

  Definition lift {A} (o : option A) : ores A := match o with Some a => OOk a | None => OErr OImportErr end.

  (* the part of _decode_openssh_private after decryption: check ints, key, comment, padding *)
  Definition openssh_private_section (encrypted : bool) (kd : bytes) : ores (params * bytes) :=
    match get_u32 kd with None => OErr OImportErr | Some (check1, q1) =>
    match get_u32 q1 with None => OErr OImportErr | Some (check2, q2) =>
    if negb (check1 =? check2) then OErr (if encrypted then OEncryptionErr else OImportErr)
    else
      match dec_priv q2 with None => OErr OImportErr | Some (prm, q3) =>
      match get_string q3 with None => OErr OImportErr | Some (comment, pad) =>
      if (256 <=? zlen pad) || negb (zlist_eqb pad (count_from 1 (length pad))) then OErr OImportErr
      else OOk (prm, comment)
      end end
    end end.

  (* the decryption step: cipher "none" passes the data through *)
  Definition openssh_decrypt (cipher_name kdf_name kdf_data key_data mac : bytes) (passphrase : option bytes)
    : ores bytes :=
    if zlist_eqb cipher_name NONE_ then OOk key_data
    else
      match passphrase with
      | None => OErr OImportErr
      | Some pass =>
          if negb (cipher_known cipher_name) then OErr OEncryptionErr
          else if negb (zlist_eqb kdf_name BCRYPT_) then OErr OEncryptionErr
          else
            match get_string kdf_data with None => OErr OImportErr | Some (salt, k1) =>
            match get_u32 k1 with None => OErr OImportErr | Some (rounds, k2) =>
            match k2 with _ :: _ => OErr OImportErr | [] =>
            match decrypt cipher_name (kdf cipher_name pass rounds salt) key_data mac with
            | None => OErr OEncryptionErr
            | Some d => OOk d
            end end end end
      end.

  (* _decode_openssh_private(data, passphrase): result = (params, comment) *)
  Definition openssh_decode (data : bytes) (passphrase : option bytes) : ores (params * bytes) :=
    if negb (zprefix OPENSSH_KEY_V1 data) then OErr OImportErr
    else
      let p0 := skipn (length OPENSSH_KEY_V1) data in
      match get_string p0 with None => OErr OImportErr | Some (cipher_name, p1) =>
      match get_string p1 with None => OErr OImportErr | Some (kdf_name, p2) =>
      match get_string p2 with None => OErr OImportErr | Some (kdf_data, p3) =>
      match get_u32 p3 with None => OErr OImportErr | Some (nkeys, p4) =>
      match get_string p4 with None => OErr OImportErr | Some (_, p5) =>
      match get_string p5 with None => OErr OImportErr | Some (key_data, mac) =>
      if negb (nkeys =? 1) then OErr OImportErr
      else
        match openssh_decrypt cipher_name kdf_name kdf_data key_data mac passphrase with
        | OErr e => OErr e
        | OOk kd => openssh_private_section (negb (zlist_eqb cipher_name NONE_)) kd
        end
      end end end end end end.
End OpenSSH.

(* ------------------------------------------------------------------------------------------- *)
(* pbe._RFC1423Pad around a block cipher *)

Definition rfc1423_pad (block_size : Z) (data : bytes) : bytes :=
  let pad := block_size - zlen data mod block_size in data ++ repeat pad (Z.to_nat pad).

(* None = KeyEncryptionError('Unable to decrypt key') *)
Definition rfc1423_unpad (block_size : Z) (data : bytes) : option bytes :=
  match rev data with
  | [] => None
  | pad :: _ =>
      if (1 <=? pad) && (pad <=? block_size) &&
         zlist_eqb (skipn (length data - Z.to_nat pad) data) (repeat pad (Z.to_nat pad))
      then Some (firstn (length data - Z.to_nat pad) data) else None
  end.

(* ------------------------------------------------------------------------------------------- *)
(* PKCS#8 / PKCS#1 wrappers as DER trees *)

(* export_private_key('pkcs8-der'): der_encode((0, (oid[, alg_params]), pkcs8_data)) *)
Definition pkcs8_private (oid : list Z) (alg_params : option value) (key : bytes) : value :=
  VSeq [VInt 0;
        VSeq (VOid oid :: match alg_params with Some p => [p] | None => [] end);
        VOctets key].

(* export_public_key('pkcs8-der'): der_encode(((oid[, alg_params]), BitString(data))) *)
Definition pkcs8_public (oid : list Z) (alg_params : option value) (key : bytes) : value :=
  VSeq [VSeq (VOid oid :: match alg_params with Some p => [p] | None => [] end); VBits 0 key].

(* Python `x in (0, 1)` for a decoded value: ints 0/1 and (quirk) booleans *)
Definition is_0_or_1 (v : value) : bool :=
  match v with VInt i => (i =? 0) || (i =? 1) | VBool _ => true | _ => false end.

(* the shape checks of _decode_pkcs8_private: (algorithm id value, params or OMIT, key octets) *)
Definition pkcs8_private_shape (v : value) : option (value * option value * bytes) :=
  match v with
  | VSeq (ver :: VSeq [alg] :: VOctets key :: _) => if is_0_or_1 ver then Some (alg, None, key) else None
  | VSeq (ver :: VSeq [alg; p] :: VOctets key :: _) => if is_0_or_1 ver then Some (alg, Some p, key) else None
  | _ => None
  end.

Definition pkcs8_public_shape (v : value) : option (value * option value * bytes) :=
  match v with
  | VSeq [VSeq [alg]; VBits u key] => if u =? 0 then Some (alg, None, key) else None
  | VSeq [VSeq [alg; p]; VBits u key] => if u =? 0 then Some (alg, Some p, key) else None
  | _ => None
  end.

(* rsa.py: encode_pkcs1_private / decode_pkcs1_private (all_ints also admits booleans) *)
Definition rsa_pkcs1_private (n e d p q dmp1 dmq1 iqmp : Z) : value :=
  VSeq [VInt 0; VInt n; VInt e; VInt d; VInt p; VInt q; VInt dmp1; VInt dmq1; VInt iqmp].

Definition as_int (v : value) : option Z :=
  match v with VInt i => Some i | VBool b => Some (if b then 1 else 0) | _ => None end.

Fixpoint all_ints (l : list value) : option (list Z) :=
  match l with
  | [] => Some []
  | v :: r => match as_int v, all_ints r with Some i, Some is => Some (i :: is) | _, _ => None end
  end.

Definition rsa_decode_pkcs1_private (v : value) : option (list Z) :=
  match v with
  | VSeq l => match all_ints l with
              | Some is => if 9 <=? zlen is then Some (firstn 8 (skipn 1 is)) else None
              | None => None
              end
  | _ => None
  end.

Definition rsa_pkcs1_public (n e : Z) : value := VSeq [VInt n; VInt e].

Definition rsa_decode_pkcs1_public (v : value) : option (list Z) :=
  match v with
  | VSeq l => match all_ints l with
              | Some is => if zlen is =? 2 then Some is else None
              | None => None
              end
  | _ => None
  end.

Definition RSA_OID : list Z := [1; 2; 840; 113549; 1; 1; 1].

(* RSAKey.decode_pkcs8_private(alg_params, data): alg_params must be None (DER NULL) *)
Definition rsa_decode_pkcs8_private (alg_params : option value) (data : bytes) : option (list Z) :=
  match alg_params with
  | Some VNull =>
      match der_decode data with
      | Ok v => rsa_decode_pkcs1_private v
      | Err _ => None
      end
  | _ => None
  end.

(* export('pkcs8-der') then import, for RSA: der bytes -> the eight private integers *)
Definition rsa_pkcs8_export (n e d p q dmp1 dmq1 iqmp : Z) : bytes :=
  enc (pkcs8_private RSA_OID (Some VNull) (enc (rsa_pkcs1_private n e d p q dmp1 dmq1 iqmp))).

Definition rsa_pkcs8_import (data : bytes) : option (list Z) :=
  match der_decode data with
  | Ok v =>
      match pkcs8_private_shape v with
      | Some (VOid oid, prm, key) => if zlist_eqb oid RSA_OID then rsa_decode_pkcs8_private prm key else None
      | _ => None
      end
  | Err _ => None
  end.

(* ------------------------------------------------------------------------------------------- *)
(* a key's comment is an option: String(self._comment or b'') on export, `comment or None` in
   set_comment on import.  The file name a key was read from (SSHKey._filename) is not part of any
   exported byte. *)
Definition comment_field (c : option bytes) : bytes := match c with Some c => c | None => [] end.
Definition set_comment (b : bytes) : option bytes := match b with [] => None | _ => Some b end.

(* ------------------------------------------------------------------------------------------- *)
(* pbe._pbes2_pbkdf2: the PBKDF2-params of RFC 8018 A.2
     SEQUENCE { salt OCTET STRING, iterationCount INTEGER, keyLength INTEGER OPTIONAL,
                prf AlgorithmIdentifier DEFAULT hmacWithSHA1 }
   kdf_params = what follows the KDF OID.  Result: salt, count, key size, PRF OID. *)
Definition HMAC_SHA1_OID : list Z := [1; 2; 840; 113549; 2; 7].

Definition pbkdf2_params (known_prf : list Z -> bool) (default_key_size : Z) (kdf_params : list value)
  : option (bytes * Z * Z * list Z) :=
  match kdf_params with
  | [VSeq (VOctets salt :: c :: rest)] =>
      match as_int c with
      | None => None
      | Some count =>
          let '(ks, rest') :=
            match rest with
            | v :: r => match as_int v with Some k => (k, r) | None => (default_key_size, rest) end
            | [] => (default_key_size, [])
            end in
          match rest' with
          | [] => Some (salt, count, ks, HMAC_SHA1_OID)
          | VSeq [VOid prf; _] :: _ => if known_prf prf then Some (salt, count, ks, prf) else None
          | _ => None
          end
      end
  | _ => None
  end.

(* ------------------------------------------------------------------------------------------- *)
(* the private key record inside the OpenSSH container: String(alg) followed by the fields of
   encode_ssh_private().  Every field is a length-prefixed string (or mpint) except the FLAGS of the
   security-key types, which is a single byte (sk_eddsa.py / sk_ecdsa.py: Byte(self._flags),
   packet.get_byte()). *)
Inductive field := FStr (b : bytes) | FByte (x : Z).

Definition field_is_str (f : field) : bool := match f with FStr _ => true | FByte _ => false end.
Definition enc_field (f : field) : bytes := match f with FStr b => sshstring b | FByte x => [x] end.
Definition krecord := (bytes * list field)%type.
Definition enc_record (r : krecord) : bytes := sshstring (fst r) ++ concat (map enc_field (snd r)).

Fixpoint get_fields (layout : list bool) (p : bytes) : option (list field * bytes) :=
  match layout with
  | [] => Some ([], p)
  | true :: l =>
      match get_string p with
      | Some (s, r) => match get_fields l r with Some (fs, r') => Some (FStr s :: fs, r') | None => None end
      | None => None
      end
  | false :: l =>
      match p with
      | x :: r => match get_fields l r with Some (fs, r') => Some (FByte x :: fs, r') | None => None end
      | [] => None
      end
  end.

Definition dec_record (layout_of : bytes -> option (list bool)) (p : bytes) : option (krecord * bytes) :=
  match get_string p with
  | Some (alg, r) =>
      match layout_of alg with
      | Some l => match get_fields l r with Some (fs, r') => Some ((alg, fs), r') | None => None end
      | None => None
      end
  | None => None
  end.

(* sk-ssh-ed25519@openssh.com: public value, application, flags, key handle, reserved;
   sk-ecdsa-sha2-nistp256@openssh.com: curve id, public value, application, flags, key handle, reserved *)
Definition SK_ED25519_LAYOUT : list bool := [true; true; false; true; true].
Definition SK_ECDSA_LAYOUT : list bool := [true; true; true; false; true; true].
