(* Executable model of the host / principal matching used by trust-file lookups.
   Sources modelled (asyncssh, /repo):
     pattern.py   _BaseWildcardPattern (fnmatch after bracket escaping), WildcardPattern,
                  WildcardHostPattern, CIDRHostPattern, _PatternList, WildcardPatternList,
                  HostPatternList
     misc.py      ip_address / ip_network  (IPv4 text parsing as done by CPython's ipaddress;
                  IPv6 text -> integer is an external function, see [ext])
     known_hosts.py  _PlainHost, _HashedHost, SSHKnownHosts.load/_add_exact/_add_pattern/_match/match
   Text is a list of Unicode code points (list Z); byte strings are list Z as well.
   Functions the model does not implement (key import, base64 decoding, HMAC-SHA1, IPv6 text
   parsing) are fields of the record [ext]; theorems quantify over every [ext].
   No proofs here. *)
From AV Require Import Base.Prelude.

Definition text := list Z.

Definition nonempty {A} (l : list A) : bool := match l with [] => false | _ => true end.

Fixpoint mem_z (x : Z) (l : text) : bool :=
  match l with [] => false | y :: r => (x =? y) || mem_z x r end.

(* ---- external functions ------------------------------------------------------------------ *)

(* outcome of import_public_key on the key field of a line:
   KOk id   the key parsed; id identifies the public key
   KBad     KeyImportError (the loaders skip the line)
   KRaise   any other exception (not caught by the loaders).  Since repair e01fa70 the importer
            reports impossible key parameters as KeyImportError; the theorems about skipped lines
            carry "the importer never raises anything else" as an explicit premise and the
            correspondence checks that the recorded importer outcomes satisfy it. *)
Inductive keyres := KOk (id : Z) | KBad | KRaise.

Record ext := {
  keyof : text -> keyres;                  (* import_public_key *)
  b64 : text -> option bytes;              (* binascii.a2b_base64; None = binascii.Error/ValueError *)
  hmac : bytes -> text -> option bytes;    (* hmac.new(salt, value.encode(), sha1).digest() *)
  ip6 : text -> option Z                   (* IPv6 text -> integer; None = not an IPv6 address *)
}.

(* ---- str.split(sep) for a one-character separator ---------------------------------------- *)
Fixpoint tsplit (sep : Z) (s : text) : list text :=
  match s with
  | [] => [[]]
  | c :: r =>
      if c =? sep then [] :: tsplit sep r
      else match tsplit sep r with
           | h :: t => (c :: h) :: t
           | [] => [[c]]
           end
  end.

(* ---- wildcard matcher --------------------------------------------------------------------
   fnmatch(value, escaped_pattern) on POSIX: '*' any run (newlines included), '?' any one code
   point, every other code point literal; '[' and ']' are literal because pattern.py rewrites
   them to the one-element classes "[[]" and "[]]"; case-sensitive. *)
Definition STAR : Z := 42.
Definition QMARK : Z := 63.

Fixpoint wild_match (p s : text) : bool :=
  match p with
  | [] => match s with [] => true | _ => false end
  | c :: p' =>
      if c =? STAR then
        (fix star (s : text) : bool :=
           wild_match p' s || match s with [] => false | _ :: s' => star s' end) s
      else match s with
           | [] => false
           | d :: s' => ((c =? QMARK) || (c =? d)) && wild_match p' s'
           end
  end.

(* ---- decimal numbers ---------------------------------------------------------------------- *)
Definition is_digit (c : Z) : bool := (48 <=? c) && (c <=? 57).

Definition dec_value (s : text) : Z := fold_left (fun acc c => acc * 10 + (c - 48)) s 0.

Definition all_digits (s : text) : bool := nonempty s && forallb is_digit s.

Fixpoint uint_text (u : Decimal.uint) : text :=
  match u with
  | Decimal.Nil => []
  | Decimal.D0 r => 48 :: uint_text r | Decimal.D1 r => 49 :: uint_text r
  | Decimal.D2 r => 50 :: uint_text r | Decimal.D3 r => 51 :: uint_text r
  | Decimal.D4 r => 52 :: uint_text r | Decimal.D5 r => 53 :: uint_text r
  | Decimal.D6 r => 54 :: uint_text r | Decimal.D7 r => 55 :: uint_text r
  | Decimal.D8 r => 56 :: uint_text r | Decimal.D9 r => 57 :: uint_text r
  end.

(* str(int) *)
Definition z_to_dec (n : Z) : text :=
  match Z.to_int n with
  | Decimal.Pos u => uint_text u
  | Decimal.Neg u => 45 :: uint_text u
  end.

(* ---- IP addresses and networks ------------------------------------------------------------ *)
Inductive ipaddr := IP4 (n : Z) | IP6 (n : Z).
(* network address, prefix length *)
Inductive ipnet := Net4 (net plen : Z) | Net6 (net plen : Z).

(* ipaddress.IPv4Address._parse_octet *)
Definition parse_octet (o : text) : option Z :=
  if negb (all_digits o) then None
  else if (3 <? Z.of_nat (length o)) then None
  else if (1 <? Z.of_nat (length o)) && (match o with c :: _ => c =? 48 | [] => false end) then None
  else let v := dec_value o in if v <=? 255 then Some v else None.

(* ipaddress.IPv4Address(str) as an integer *)
Definition parse_ip4 (t : text) : option Z :=
  match map parse_octet (tsplit 46 t) with
  | [Some a; Some b; Some c; Some d] => Some (((a * 256 + b) * 256 + c) * 256 + d)
  | _ => None
  end.

(* misc.ip_address: IPv4 first, then IPv6 *)
Definition parse_ip (x : ext) (t : text) : option ipaddr :=
  match parse_ip4 t with
  | Some n => Some (IP4 n)
  | None => match ip6 x t with Some n => Some (IP6 n) | None => None end
  end.

Definition plens (bits : nat) : list Z := map Z.of_nat (seq 0 (S bits)).

(* IPv4Network._prefix_from_ip_string: a netmask (ones then zeros) or else a hostmask *)
Definition prefix_from_mask4 (m : Z) : option Z :=
  match find (fun pl => m =? 2 ^ 32 - 2 ^ (32 - pl)) (plens 32) with
  | Some pl => Some pl
  | None => find (fun pl => m =? 2 ^ (32 - pl) - 1) (plens 32)
  end.

(* _make_netmask for IPv4: prefix-length string, else dotted netmask / hostmask *)
Definition parse_prefix4 (m : text) : option Z :=
  if all_digits m && (dec_value m <=? 32) then Some (dec_value m)
  else match parse_ip4 m with Some n => prefix_from_mask4 n | None => None end.

Definition parse_prefix6 (m : text) : option Z :=
  if all_digits m && (dec_value m <=? 128) then Some (dec_value m) else None.

(* ipaddress.IPv4Network(str, strict=True) *)
Definition parse_net4 (t : text) : option (Z * Z) :=
  match tsplit 47 t with
  | [a] => match parse_ip4 a with Some n => Some (n, 32) | None => None end
  | [a; m] =>
      match parse_ip4 a, parse_prefix4 m with
      | Some n, Some pl => if n mod 2 ^ (32 - pl) =? 0 then Some (n, pl) else None
      | _, _ => None
      end
  | _ => None
  end.

Definition parse_net6 (x : ext) (t : text) : option (Z * Z) :=
  match tsplit 47 t with
  | [a] => match ip6 x a with Some n => Some (n, 128) | None => None end
  | [a; m] =>
      match ip6 x a, parse_prefix6 m with
      | Some n, Some pl => if n mod 2 ^ (128 - pl) =? 0 then Some (n, pl) else None
      | _, _ => None
      end
  | _ => None
  end.

(* misc.ip_network; None = ValueError *)
Definition parse_net (x : ext) (t : text) : option ipnet :=
  match parse_net4 t with
  | Some (n, pl) => Some (Net4 n pl)
  | None => match parse_net6 x t with Some (n, pl) => Some (Net6 n pl) | None => None end
  end.

(* ip in network *)
Definition ip_in_net (a : ipaddr) (n : ipnet) : bool :=
  match a, n with
  | IP4 v, Net4 net pl => (v / 2 ^ (32 - pl)) * 2 ^ (32 - pl) =? net
  | IP6 v, Net6 net pl => (v / 2 ^ (128 - pl)) * 2 ^ (128 - pl) =? net
  | _, _ => false
  end.

(* ---- single patterns and pattern lists ------------------------------------------------------ *)
Inductive hpat := HWild (p : text) | HCidr (n : ipnet).

(* HostPatternList.build_pattern: CIDR if ip_network accepts the text, else wildcard *)
Definition hp_parse (x : ext) (p : text) : hpat :=
  match parse_net x p with Some n => HCidr n | None => HWild p end.

(* WildcardHostPattern.matches / CIDRHostPattern.matches *)
Definition hp_match (h : hpat) (host addr : text) (ip : option ipaddr) : bool :=
  match h with
  | HWild p => (nonempty host && wild_match p host) || (nonempty addr && wild_match p addr)
  | HCidr n => match ip with Some a => ip_in_net a n | None => false end
  end.

(* _PatternList.__init__: comma split, leading '!' = negated. Result keeps file order:
   (negated?, pattern text without the '!') *)
Definition plist_split (t : text) : list (bool * text) :=
  map (fun p => match p with
                | c :: r => if c =? 33 then (true, r) else (false, p)
                | [] => (false, [])
                end) (tsplit 44 t).

(* HostPatternList(t).matches(host, addr, ip) *)
Definition hpl_match (x : ext) (t : text) (host addr : text) (ip : option ipaddr) : bool :=
  let ps := plist_split t in
  existsb (fun np => negb (fst np) && hp_match (hp_parse x (snd np)) host addr ip) ps &&
  negb (existsb (fun np => fst np && hp_match (hp_parse x (snd np)) host addr ip) ps).

(* WildcardPatternList(t).matches(value) *)
Definition wpl_match (t : text) (value : text) : bool :=
  let ps := plist_split t in
  existsb (fun np => negb (fst np) && wild_match (snd np) value) ps &&
  negb (existsb (fun np => fst np && wild_match (snd np) value) ps).

(* ---- Python str whitespace / line boundaries ------------------------------------------------- *)
(* str.isspace() code points (CPython 3.12) *)
Definition is_uspace (c : Z) : bool :=
  ((9 <=? c) && (c <=? 13)) || ((28 <=? c) && (c <=? 32)) || (c =? 133) || (c =? 160) ||
  (c =? 5760) || ((8192 <=? c) && (c <=? 8202)) || (c =? 8232) || (c =? 8233) || (c =? 8239) ||
  (c =? 8287) || (c =? 12288).

(* str.splitlines() boundaries *)
Definition is_linebreak (c : Z) : bool :=
  ((10 <=? c) && (c <=? 13)) || ((28 <=? c) && (c <=? 30)) || (c =? 133) || (c =? 8232) || (c =? 8233).

Fixpoint splitlines_aux (s : text) (cur : text) (after_cr : bool) : list text :=
  match s with
  | [] => if nonempty cur then [rev cur] else []
  | c :: r =>
      if (c =? 10) && after_cr then splitlines_aux r cur false
      else if is_linebreak c then rev cur :: splitlines_aux r [] (c =? 13)
      else splitlines_aux r (c :: cur) false
  end.

(* str.splitlines() *)
Definition splitlines (s : text) : list text := splitlines_aux s [] false.

Fixpoint skip_space (s : text) : text :=
  match s with c :: r => if is_uspace c then skip_space r else s | [] => [] end.

(* str.strip() *)
Definition strip (s : text) : text := rev (skip_space (rev (skip_space s))).

Fixpoint take_token (s : text) : text * text :=
  match s with
  | [] => ([], [])
  | c :: r => if is_uspace c then ([], s) else let '(t, rest) := take_token r in (c :: t, rest)
  end.

(* str.split(None, n) *)
Fixpoint split_ws_n (n : nat) (s : text) : list text :=
  match skip_space s with
  | [] => []
  | s' => match n with
          | O => [s']
          | S n' => let '(t, rest) := take_token s' in t :: split_ws_n n' rest
          end
  end.

(* ---- known_hosts ------------------------------------------------------------------------------ *)
Inductive marker := MNone | MCA | MRevoked.

Definition marker_eqb (a b : marker) : bool :=
  match a, b with MNone, MNone | MCA, MCA | MRevoked, MRevoked => true | _, _ => false end.

Definition txt_cert_authority : text := [99;101;114;116;45;97;117;116;104;111;114;105;116;121].
Definition txt_revoked : text := [114;101;118;111;107;101;100].

(* one non-blank, non-comment line after the field split:
   LErr  = the loader raises ValueError (whole load fails)
   LSkip = key field not importable, line ignored
   LEntry marker pattern keyid *)
Inductive kh_line := LBlank | LErr | LSkip | LEntry (m : marker) (pat : text) (key : Z).

Definition kh_parse_line (x : ext) (raw : text) : kh_line :=
  let line := strip raw in
  match line with
  | [] => LBlank
  | c :: rest =>
      if c =? 35 then LBlank
      else
        let fields :=
          if c =? 64 then
            match split_ws_n 2 rest with
            | [m; p; d] =>
                if zlist_eqb m txt_cert_authority then Some (MCA, p, d)
                else if zlist_eqb m txt_revoked then Some (MRevoked, p, d)
                else None
            | _ => None
            end
          else
            match split_ws_n 1 line with
            | [p; d] => Some (MNone, p, d)
            | _ => None
            end in
        match fields with
        | None => LErr
        | Some (m, p, d) =>
            match keyof x d with
            | KOk id => LEntry m p id
            | KBad => LSkip
            | KRaise => LErr
            end
        end
  end.

Inductive hostpat := PPlain (patterns : text) | PHashed (salt hash : bytes).

Definition entry := (marker * Z)%type.

Record kh_state := { kh_exact : list (text * entry); kh_pats : list (hostpat * entry) }.

(* any(c in pattern for c in '*?|/!') *)
Definition is_pattern_line (p : text) : bool :=
  existsb (fun c => mem_z c p) [42; 63; 124; 47; 33].

(* _HashedHost.__init__ : None = ValueError *)
Definition parse_hashed (x : ext) (p : text) : option hostpat :=
  match tsplit 124 (tl p) with
  | [magic; salt; hash] =>
      match b64 x salt, b64 x hash with
      | Some s, Some h => if zlist_eqb magic [49] then Some (PHashed s h) else None
      | _, _ => None
      end
  | _ => None
  end.

(* one step of SSHKnownHosts.load on an already classified line; None = ValueError *)
Definition kh_add (x : ext) (st : kh_state) (m : marker) (p : text) (k : Z) : option kh_state :=
  if is_pattern_line p then
    if (match p with c :: _ => c =? 124 | [] => false end) then
      match parse_hashed x p with
      | Some hp => Some {| kh_exact := kh_exact st; kh_pats := kh_pats st ++ [(hp, (m, k))] |}
      | None => None
      end
    else Some {| kh_exact := kh_exact st; kh_pats := kh_pats st ++ [(PPlain p, (m, k))] |}
  else
    Some {| kh_exact := kh_exact st ++ map (fun h => (h, (m, k))) (tsplit 44 p);
            kh_pats := kh_pats st |}.

Fixpoint kh_load_lines (x : ext) (lines : list text) (st : kh_state) : option kh_state :=
  match lines with
  | [] => Some st
  | l :: r =>
      match kh_parse_line x l with
      | LBlank | LSkip => kh_load_lines x r st
      | LErr => None
      | LEntry m p k =>
          match kh_add x st m p k with
          | Some st' => kh_load_lines x r st'
          | None => None
          end
      end
  end.

Definition kh_empty : kh_state := {| kh_exact := []; kh_pats := [] |}.

(* SSHKnownHosts(text) *)
Definition kh_load (x : ext) (t : text) : option kh_state :=
  kh_load_lines x (splitlines t) kh_empty.

Definition hashed_match (x : ext) (salt hash : bytes) (v : text) : bool :=
  match hmac x salt v with Some d => zlist_eqb d hash | None => false end.

Definition hostpat_match (x : ext) (hp : hostpat) (host addr : text) (ip : option ipaddr) : bool :=
  match hp with
  | PPlain t => hpl_match x t host addr ip
  | PHashed s h => hashed_match x s h host || hashed_match x s h addr
  end.

(* f'[{host}]:{port}' if host else '' *)
Definition with_port (h : text) (port : Z) : text :=
  match h with [] => [] | _ => 91 :: h ++ [93; 58] ++ z_to_dec port end.

(* the three key lists of a lookup result *)
Record kh_result := { r_host : list Z; r_ca : list Z; r_revoked : list Z }.

Definition keys_with (m : marker) (es : list entry) : list Z :=
  map snd (filter (fun e => marker_eqb (fst e) m) es).

(* SSHKnownHosts._match ; port = 0 stands for None (both are falsy in `if port:`).
   None = ValueError (addr given but not an IP address).
   [guard] = the exact index is consulted only for a non-empty name (repair 1ebb7df);
   guard = false is the code before that repair (kept for the _old refutation).
   [portip] = false: address / CIDR patterns are matched by the parsed address only when the names
   are plain, i.e. `ip = None` in the pass with a port (repair 9f68483); portip = true is
   the code before (kept for the _mid / _old refutations). *)
Definition kh_match_gen (guard portip : bool) (x : ext) (st : kh_state) (host addr : text) (port : Z)
  : option kh_result :=
  let ipr :=
    match addr with
    | [] => Some (parse_ip x host)
    | _ => match parse_ip x addr with Some a => Some (Some a) | None => None end
    end in
  match ipr with
  | None => None
  | Some ip0 =>
      let ip := if (port =? 0) || portip then ip0 else None in
      let host' := if port =? 0 then host else with_port host port in
      let addr' := if port =? 0 then addr else with_port addr port in
      let ms :=
        map snd (filter (fun e => (negb guard || nonempty host') && zlist_eqb (fst e) host') (kh_exact st)) ++
        map snd (filter (fun e => (negb guard || nonempty addr') && zlist_eqb (fst e) addr') (kh_exact st)) ++
        map snd (filter (fun e => hostpat_match x (fst e) host' addr' ip) (kh_pats st)) in
      Some {| r_host := keys_with MNone ms; r_ca := keys_with MCA ms; r_revoked := keys_with MRevoked ms |}
  end.

Definition kh_match := kh_match_gen true false.
Definition kh_match_mid := kh_match_gen true true.
Definition kh_match_old := kh_match_gen false true.

(* SSHKnownHosts.match : retry without the port when no trusted key / CA was found; the revoked
   keys of the lookup with the port are kept in front of those of the retry (repair 890407a) *)
Definition kh_lookup_st (x : ext) (st : kh_state) (host addr : text) (port : Z) : option kh_result :=
  match kh_match x st host addr port with
  | None => None
  | Some r =>
      if negb (port =? 0) && negb (nonempty (r_host r) || nonempty (r_ca r))
      then match kh_match x st host addr 0 with
           | Some r2 => Some {| r_host := r_host r2; r_ca := r_ca r2;
                                r_revoked := r_revoked r ++ r_revoked r2 |}
           | None => None
           end
      else Some r
  end.

(* the code between 890407a/1ebb7df and 9f68483: as kh_lookup_st, but address patterns were
   matched by the parsed address in the pass with the port as well *)
Definition kh_lookup_st_mid (x : ext) (st : kh_state) (host addr : text) (port : Z) : option kh_result :=
  match kh_match_mid x st host addr port with
  | None => None
  | Some r =>
      if negb (port =? 0) && negb (nonempty (r_host r) || nonempty (r_ca r))
      then match kh_match_mid x st host addr 0 with
           | Some r2 => Some {| r_host := r_host r2; r_ca := r_ca r2;
                                r_revoked := r_revoked r ++ r_revoked r2 |}
           | None => None
           end
      else Some r
  end.

(* the code before 890407a and 1ebb7df: the retry replaced all three lists, and the exact index
   was consulted for empty names too *)
Definition kh_lookup_st_old (x : ext) (st : kh_state) (host addr : text) (port : Z) : option kh_result :=
  match kh_match_old x st host addr port with
  | None => None
  | Some r =>
      if negb (port =? 0) && negb (nonempty (r_host r) || nonempty (r_ca r))
      then kh_match_old x st host addr 0
      else Some r
  end.

(* match_known_hosts(bytes, host, addr, port); None = ValueError *)
Definition kh_lookup_lines (x : ext) (lines : list text) (host addr : text) (port : Z) : option kh_result :=
  match kh_load_lines x lines kh_empty with
  | Some st => kh_lookup_st x st host addr port
  | None => None
  end.

Definition kh_lookup (x : ext) (t : text) (host addr : text) (port : Z) : option kh_result :=
  kh_lookup_lines x (splitlines t) host addr port.

Definition kh_lookup_lines_mid (x : ext) (lines : list text) (host addr : text) (port : Z) : option kh_result :=
  match kh_load_lines x lines kh_empty with
  | Some st => kh_lookup_st_mid x st host addr port
  | None => None
  end.

Definition kh_lookup_lines_old (x : ext) (lines : list text) (host addr : text) (port : Z) : option kh_result :=
  match kh_load_lines x lines kh_empty with
  | Some st => kh_lookup_st_old x st host addr port
  | None => None
  end.

(* read_known_hosts([file1; file2; ...]) then match: every file is loaded by its own load() call, so a
   line never spans two files; the texts are the file contents as read in text mode *)
Definition kh_lookup_files (x : ext) (ts : list text) (host addr : text) (port : Z) : option kh_result :=
  kh_lookup_lines x (flat_map splitlines ts) host addr port.
