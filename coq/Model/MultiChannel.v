(* N channels on one connection: every channel has its own sender / receiver state (Model/Channel.v)
   but they all share the two FIFO wires of the connection; a packet carries the number of the channel
   it belongs to and the connection dispatches it by that number (connection.py _recv_packet: the
   recipient channel number selects the handler).  Plus: text mode as an incremental codec law.
   No proofs here. *)
From AV Require Import Base.Prelude Model.Channel.

Record conn := mkConn {
  c_snd : Z -> sender;
  c_rcv : Z -> receiver;
  c_written : Z -> list tok;
  c_fwd : list (Z * pkt);          (* shared wire, sender side -> receiver side *)
  c_back : list (Z * pkt);         (* shared wire back *)
  c_stuck : bool }.

Definition upd {A} (f : Z -> A) (i : Z) (v : A) : Z -> A := fun j => if j =? i then v else f j.

Definition tag (i : Z) (l : list pkt) : list (Z * pkt) := map (pair i) l.

(* the private view of channel i: its endpoints and the packets of the shared wires that carry its number *)
Definition sel (i : Z) (l : list (Z * pkt)) : list pkt :=
  map snd (filter (fun p => fst p =? i) l).

Definition view (i : Z) (c : conn) : sys :=
  mkSys (c_snd c i) (c_rcv c i) (sel i (c_fwd c)) (sel i (c_back c)) (c_written c i) (c_stuck c).

(* operations: an application / reader operation on channel i, or delivery of the packet at the head
   of a shared wire (whatever channel it belongs to) *)
Inductive mop :=
| MChan (i : Z) (o : op)          (* o is OWrite / OEof / OClose / OPause / OResume / ORaw on channel i *)
| MDeliverFwd
| MDeliverBack.

Definition is_local (o : op) : bool :=
  match o with ODeliverFwd | ODeliverBack => false | _ => true end.

(* what a receiver does with one packet arriving on the forward wire / a sender with one packet on
   the backward wire: exactly the ODeliverFwd / ODeliverBack branches of Channel.step *)
Definition recv_pkt (strict : bool) (r : receiver) (p : pkt) : receiver * list pkt :=
  match p with
  | PData dt d => r_data strict r dt d
  | PEof => r_eof r
  | PClose => r_close r
  | PAdjust _ => (r, [])
  end.

Definition send_pkt (s : sender) (p : pkt) : option (sender * list pkt) :=
  match p with
  | PAdjust n => s_adjust s n
  | _ => Some (s, [])
  end.

Definition mstep (strict : bool) (c : conn) (m : mop) : conn :=
  if c_stuck c then c else
  match m with
  | MChan i o =>
      if is_local o
      then let v := view i c in
           let v' := step strict v o in
           mkConn (upd (c_snd c) i (snd_ v')) (upd (c_rcv c) i (rcv_ v')) (upd (c_written c) i (written v'))
                  (c_fwd c ++ tag i (skipn (length (fwd v)) (fwd v')))
                  (c_back c ++ tag i (skipn (length (back v)) (back v')))
                  (stuck v')
      else c
  | MDeliverFwd =>
      match c_fwd c with
      | [] => c
      | (i, p) :: rest =>
          let '(r', adj) := recv_pkt strict (c_rcv c i) p in
          mkConn (c_snd c) (upd (c_rcv c) i r') (c_written c) rest (c_back c ++ tag i adj) false
      end
  | MDeliverBack =>
      match c_back c with
      | [] => c
      | (i, p) :: rest =>
          match send_pkt (c_snd c i) p with
          | None => mkConn (c_snd c) (c_rcv c) (c_written c) (c_fwd c) rest true
          | Some (s', out) => mkConn (upd (c_snd c) i s') (c_rcv c) (c_written c) (c_fwd c ++ tag i out) rest false
          end
      end
  end.

Definition conn_init (window pktsize : Z -> Z) : conn :=
  mkConn (fun i => mkS [] (window i) (pktsize i) SOpen)
         (fun i => mkR [] (window i) (window i) false ROpen false [])
         (fun _ => []) [] [] false.

Definition mrun (strict : bool) (window pktsize : Z -> Z) (ms : list mop) : conn :=
  fold_left (mstep strict) ms (conn_init window pktsize).

(* ---- text mode ----------------------------------------------------------------------------------
   A channel with an encoding runs every write through an incremental encoder and every received
   packet through an incremental decoder (channel.py write / _deliver_data).  The codecs themselves
   are Python's; what the channel relies on is the incremental law below. *)
Section Text.
  Variables (C S : Type).                 (* characters, codec state *)
  Variable dec : S -> bytes -> S * list C.

  Fixpoint dec_chunks (s : S) (chunks : list bytes) : S * list C :=
    match chunks with
    | [] => (s, [])
    | c :: r => let '(s1, o1) := dec s c in let '(s2, o2) := dec_chunks s1 r in (s2, o1 ++ o2)
    end.
End Text.
