(* Executable model of the authorized_keys option handling.
   Sources modelled (asyncssh, /repo):
     misc.py       OptionsParser._parse_options (the character loop) and _add_option
     auth_keys.py  _SSHAuthorizedKeyEntry.__init__ / _set_string / _add_environment / _add_from /
                   _add_permitopen / _add_principals, match_options,
                   SSHAuthorizedKeys.load / validate
   Not modelled: the "subject" option and X.509 entries (need X509NamePattern).
   Every Python exception (ValueError from the parser, AttributeError/TypeError from a flag that
   is later used as a value) is the single outcome None.  No proofs here. *)
From AV Require Import Base.Prelude Model.Match.

(* ---- the character loop of _parse_options -----------------------------------------------------
   Returns (completed options in reverse order, current option reversed, quoted, escaped, rest)
   where rest is line[idx:] : from the unquoted blank that ended the loop, or the last character
   when the loop ran to the end (idx keeps the last index). *)
(* [mode] selects the treatment of a backslash:
   TLook  the code of record (since repair fd4aee3): a backslash is an escape only directly in front
          of a double quote; in front of anything else it is kept and that character is then handled
          as usual (so it may itself be a backslash that escapes a following quote);
   TPair  the code between 2e10b73 and fd4aee3: the backslash is kept but the next character is
          consumed with it;
   TDrop  the code before 2e10b73: every backslash is dropped and the next character kept.
   TPair and TDrop are used by the _old refutations only. *)
Inductive tokmode := TLook | TPair | TDrop.

Fixpoint tok_gen (mode : tokmode) (s : text) (quoted escaped : bool) (cur : text) (acc : list text) (last : text)
  : list text * text * bool * bool * text :=
  match s with
  | [] => (acc, cur, quoted, escaped, last)
  | ch :: r =>
      let consume :=      (* the escaped character is taken literally and the escape ends *)
        match mode with
        | TDrop => escaped
        | TPair => escaped
        | TLook => escaped && (ch =? 34)
        end in
      if consume then
        tok_gen mode r quoted false
          (match mode with TPair => if ch =? 34 then ch :: cur else ch :: 92 :: cur | _ => ch :: cur end) acc [ch]
      else
        let cur := if escaped then 92 :: cur else cur in      (* TLook: the pending backslash is kept *)
        if ch =? 92 then tok_gen mode r quoted true cur acc [ch]
        else if ch =? 34 then tok_gen mode r (negb quoted) false cur acc [ch]
        else if quoted then tok_gen mode r quoted false (ch :: cur) acc [ch]
        else if (ch =? 32) || (ch =? 9) then (acc, cur, false, false, s)
        else if ch =? 44 then tok_gen mode r quoted false [] (rev cur :: acc) [ch]
        else tok_gen mode r quoted false (ch :: cur) acc [ch]
  end.

Definition tok := tok_gen TLook.

(* raw option strings handed to _add_option (in order), and the text after the options;
   None = "Unbalanced quote" / "Unbalanced backslash" *)
Definition tokenize_gen (mode : tokmode) (line : text) : option (list text * text) :=
  let '(acc, cur, quoted, escaped, rest) := tok_gen mode line false false [] [] [] in
  if quoted || escaped then None else Some (rev (rev cur :: acc), strip rest).

Definition tokenize := tokenize_gen TLook.
Definition tokenize_mid := tokenize_gen TPair.
Definition tokenize_old := tokenize_gen TDrop.

(* ---- option values ------------------------------------------------------------------------------ *)
Inductive oval :=
| VTrue                                   (* flag *)
| VStr (s : text)                         (* command *)
| VEnv (kv : list (text * text))          (* environment dict *)
| VFrom (l : list text)                   (* one raw pattern list per from= *)
| VPrinc (l : list text)                  (* one raw pattern list per principals= *)
| VPermit (l : list (text * option Z))    (* permitopen set: (host, port or None for '*') *)
| VList (l : list text).                  (* any other name=value *)

Definition optmap := list (text * oval).

Fixpoint opt_get (m : optmap) (k : text) : option oval :=
  match m with
  | [] => None
  | (k', v) :: r => if zlist_eqb k k' then Some v else opt_get r k
  end.

Fixpoint opt_set (m : optmap) (k : text) (v : oval) : optmap :=
  match m with
  | [] => [(k, v)]
  | (k', v') :: r => if zlist_eqb k k' then (k, v) :: r else (k', v') :: opt_set r k v
  end.

Definition starts_with (c : Z) (s : text) : bool :=
  match s with d :: _ => d =? c | [] => false end.

(* str.split(sep, 1) when sep occurs *)
Fixpoint split_first (sep : Z) (s : text) : option (text * text) :=
  match s with
  | [] => None
  | c :: r => if c =? sep then Some ([], r)
              else match split_first sep r with Some (a, b) => Some (c :: a, b) | None => None end
  end.

(* str.rsplit(sep, 1) when sep occurs *)
Definition split_last (sep : Z) (s : text) : option (text * text) :=
  match split_first sep (rev s) with
  | Some (b, a) => Some (rev a, rev b)
  | None => None
  end.

(* int(str): blanks stripped, optional sign, ASCII digits with single inner underscores *)
Fixpoint digits_ok (d : text) (prev_digit : bool) : bool :=
  match d with
  | [] => prev_digit
  | c :: r => if is_digit c then digits_ok r true
              else if c =? 95 then prev_digit && digits_ok r false
              else false
  end.

Definition py_int (s : text) : option Z :=
  let t := strip s in
  let '(neg, d) :=
    match t with
    | c :: r => if c =? 45 then (true, r) else if c =? 43 then (false, r) else (false, t)
    | [] => (false, t)
    end in
  if digits_ok d false then
    let v := dec_value (filter is_digit d) in Some (if neg then - v else v)
  else None.

Definition n_command : text := [99;111;109;109;97;110;100].
Definition n_environment : text := [101;110;118;105;114;111;110;109;101;110;116].
Definition n_from : text := [102;114;111;109].
Definition n_permitopen : text := [112;101;114;109;105;116;111;112;101;110].
Definition n_principals : text := [112;114;105;110;99;105;112;97;108;115].
Definition n_subject : text := [115;117;98;106;101;99;116].
Definition n_cert_authority : text := [99;101;114;116;45;97;117;116;104;111;114;105;116;121].

Fixpoint env_set (kv : list (text * text)) (k v : text) : list (text * text) :=
  match kv with
  | [] => [(k, v)]
  | (k', v') :: r => if zlist_eqb k k' then (k, v) :: r else (k', v') :: env_set r k v
  end.

Definition permit_eqb (a b : text * option Z) : bool :=
  zlist_eqb (fst a) (fst b) && option_eqb Z.eqb (snd a) (snd b).

Definition permit_add (l : list (text * option Z)) (e : text * option Z) :=
  if existsb (permit_eqb e) l then l else l ++ [e].

(* _add_permitopen value parsing *)
Definition parse_permitopen (v : text) : option (text * option Z) :=
  match split_last 58 v with
  | None => None
  | Some (h, p) =>
      let h' := match h with
                | c :: r => if (c =? 91) && (match rev r with d :: _ => d =? 93 | [] => false end)
                            then removelast r else h
                | [] => h
                end in
      if zlist_eqb p [42] then Some (h', None)
      else match py_int p with Some n => Some (h', Some n) | None => None end
  end.

(* str.lower() on ASCII letters (non-ASCII upper-case letters in option keywords are not modelled) *)
Definition lower (s : text) : text := map (fun c => if (65 <=? c) && (c <=? 90) then c + 32 else c) s.

(* OptionsParser._add_option.  [handlers] = true for _SSHAuthorizedKeyEntry, false for the bare
   OptionsParser (every name=value is collected in a list). None = an exception.
   [ci] = true: keywords are lower-cased (repair c342bf5); ci = false is the code before. *)
Definition add_option_gen (ci : bool) (handlers : bool) (m : optmap) (o : text) : option optmap :=
  if starts_with 61 o then None
  else
    match split_first 61 o with
    | None => Some (opt_set m (if ci then lower o else o) VTrue)
    | Some (name0, value) =>
        let name := if ci then lower name0 else name0 in
        if handlers && zlist_eqb name n_command then Some (opt_set m name (VStr value))
        else if handlers && zlist_eqb name n_environment then
          if starts_with 61 value then None
          else
            match split_first 61 value with
            | None => None
            | Some (k, v) =>
                match opt_get m name with
                | None => Some (opt_set m name (VEnv [(k, v)]))
                | Some (VEnv kv) => Some (opt_set m name (VEnv (env_set kv k v)))
                | Some _ => None
                end
            end
        else if handlers && zlist_eqb name n_from then
          match opt_get m name with
          | None => Some (opt_set m name (VFrom [value]))
          | Some (VFrom l) => Some (opt_set m name (VFrom (l ++ [value])))
          | Some _ => None
          end
        else if handlers && zlist_eqb name n_permitopen then
          match parse_permitopen value with
          | None => None
          | Some e =>
              match opt_get m name with
              | None => Some (opt_set m name (VPermit [e]))
              | Some (VPermit l) => Some (opt_set m name (VPermit (permit_add l e)))
              | Some _ => None
              end
          end
        else if handlers && zlist_eqb name n_principals then
          match opt_get m name with
          | None => Some (opt_set m name (VPrinc [value]))
          | Some (VPrinc l) => Some (opt_set m name (VPrinc (l ++ [value])))
          | Some _ => None
          end
        else if handlers && zlist_eqb name n_subject then Some m
        else
          match opt_get m name with
          | None => Some (opt_set m name (VList [value]))
          | Some (VList l) => Some (opt_set m name (VList (l ++ [value])))
          | Some _ => None
          end
    end.

Definition add_option := add_option_gen true.
Definition add_option_old := add_option_gen false.

Fixpoint add_options (handlers : bool) (m : optmap) (os : list text) : option optmap :=
  match os with
  | [] => Some m
  | o :: r => match add_option handlers m o with
              | Some m' => add_options handlers m' r
              | None => None
              end
  end.

(* OptionsParser._parse_options as a whole: (options, rest of line) *)
Definition parse_options (handlers : bool) (line : text) : option (optmap * text) :=
  let '(acc, cur, quoted, escaped, rest) := tok line false false [] [] [] in
  match add_options handlers [] (rev (rev cur :: acc)) with
  | None => None
  | Some m => if quoted || escaped then None else Some (m, strip rest)
  end.

(* ---- entries ------------------------------------------------------------------------------------- *)
Record ak_entry := { ae_key : Z; ae_opts : optmap }.

Inductive ak_line := ALBlank | ALErr | ALSkip | ALEntry (e : ak_entry).

(* _SSHAuthorizedKeyEntry(line) on a raw line of the file *)
Definition ak_parse_line (x : ext) (raw : text) : ak_line :=
  let line := strip raw in
  match line with
  | [] => ALBlank
  | c :: _ =>
      if c =? 35 then ALBlank
      else match keyof x line with
           | KOk id => ALEntry {| ae_key := id; ae_opts := [] |}
           | KRaise => ALErr
           | KBad =>
               match parse_options true line with
               | None => ALErr
               | Some (m, rest) =>
                   match keyof x rest with
                   | KOk id => ALEntry {| ae_key := id; ae_opts := m |}
                   | KBad => ALSkip
                   | KRaise => ALErr
                   end
               end
           end
  end.

Record ak_state := { ak_user : list ak_entry; ak_ca : list ak_entry }.

Definition is_ca (e : ak_entry) : bool :=
  match opt_get (ae_opts e) n_cert_authority with Some _ => true | None => false end.

Fixpoint ak_load_lines (x : ext) (lines : list text) (st : ak_state) : option ak_state :=
  match lines with
  | [] => Some st
  | l :: r =>
      match ak_parse_line x l with
      | ALBlank | ALSkip => ak_load_lines x r st
      | ALErr => None
      | ALEntry e =>
          ak_load_lines x r
            (if is_ca e then {| ak_user := ak_user st; ak_ca := ak_ca st ++ [e] |}
             else {| ak_user := ak_user st ++ [e]; ak_ca := ak_ca st |})
      end
  end.

Definition ak_empty : ak_state := {| ak_user := []; ak_ca := [] |}.

(* SSHAuthorizedKeys.load: "No valid entries found" is an error *)
Definition ak_load_from_lines (x : ext) (lines : list text) : option ak_state :=
  match ak_load_lines x lines ak_empty with
  | Some st => if nonempty (ak_user st) || nonempty (ak_ca st) then Some st else None
  | None => None
  end.

(* SSHAuthorizedKeys(text): empty text loads nothing and is not an error *)
Definition ak_load (x : ext) (t : text) : option ak_state :=
  match t with
  | [] => Some ak_empty
  | _ => ak_load_from_lines x (splitlines t)
  end.

(* read_authorized_keys([file1; file2; ...]): one load() per file on the same object; the
   "No valid entries found" test is made after each file on everything loaded so far *)
Fixpoint ak_load_files_from (x : ext) (ts : list text) (st : ak_state) : option ak_state :=
  match ts with
  | [] => Some st
  | t :: r =>
      match ak_load_lines x (splitlines t) st with
      | Some st' => if nonempty (ak_user st') || nonempty (ak_ca st') then ak_load_files_from x r st' else None
      | None => None
      end
  end.

Definition ak_load_files (x : ext) (ts : list text) : option ak_state := ak_load_files_from x ts ak_empty.

(* _SSHAuthorizedKeyEntry.match_options (from and principals); None = an exception *)
Definition match_options (x : ext) (m : optmap) (host addr : text) (princs : option (list text))
  : option bool :=
  let from_ok :=
    match opt_get m n_from with
    | None | Some (VFrom []) => Some true
    | Some (VFrom l) =>
        match parse_ip x addr with
        | None => None
        | Some ip => Some (forallb (fun t => hpl_match x t host addr (Some ip)) l)
        end
    | Some _ => None
    end in
  match from_ok with
  | None => None
  | Some false => Some false
  | Some true =>
      match princs, opt_get m n_principals with
      | Some ps, Some (VPrinc l) => Some (forallb (fun t => existsb (wpl_match t) ps) l)
      | Some _, Some _ => None
      | _, _ => Some true
      end
  end.

(* SSHAuthorizedKeys.validate over the chosen entry list:
   None = exception, Some None = no entry, Some (Some opts) = options of the first match *)
Fixpoint ak_validate_list (x : ext) (es : list ak_entry) (key : Z) (host addr : text)
         (princs : option (list text)) : option (option optmap) :=
  match es with
  | [] => Some None
  | e :: r =>
      if ae_key e =? key then
        match match_options x (ae_opts e) host addr princs with
        | None => None
        | Some true => Some (Some (ae_opts e))
        | Some false => ak_validate_list x r key host addr princs
        end
      else ak_validate_list x r key host addr princs
  end.

Definition ak_validate (x : ext) (st : ak_state) (key : Z) (host addr : text)
           (princs : option (list text)) (ca : bool) : option (option optmap) :=
  ak_validate_list x (if ca then ak_ca st else ak_user st) key host addr princs.
