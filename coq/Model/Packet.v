(* Executable model of SSH binary packet framing and key derivation.
   Sources modelled (asyncssh):
     connection.py send_packet      : padding computation, length header         (pad_len, frame)
     connection.py _recv_pkthdr / _recv_packet : incremental receive over an input buffer, in the
                                      clear-text phase (no cipher, no MAC, block size 8)  (feed)
     kex.py Kex.compute_key         : K || H || X || session_id with extension    (derive_key)
   Byte strings are list Z.  No proofs here. *)
From AV Require Import Base.Prelude.

Definition zlen (l : list Z) : Z := Z.of_nat (length l).

(* big-endian 32-bit *)
Definition u32 (n : Z) : bytes :=
  [(n / 16777216) mod 256; (n / 65536) mod 256; (n / 256) mod 256; n mod 256].

Definition get_u32 (b : bytes) : Z :=
  match b with
  | a :: b :: c :: d :: _ => ((a * 256 + b) * 256 + c) * 256 + d
  | _ => 0
  end.

(* send_packet: padlen = -(enchdrlen + len(payload)) % blocksize; if padlen < 4: padlen += blocksize.
   [hdr] is _send_enchdrlen: 5 when the length field is encrypted with the packet, 1 for
   encrypt-then-MAC and AEAD modes where only the padding-length byte counts. *)
Definition pad_len (hdr blocksize len : Z) : Z :=
  let p := (- (hdr + len)) mod blocksize in
  if p <? 4 then p + blocksize else p.

(* packet = Byte(padlen) + payload + padding ; hdr = UInt32(len(packet)) *)
Definition frame (payload padding : bytes) : bytes :=
  u32 (1 + zlen payload + zlen padding) ++ (zlen padding :: payload ++ padding).

(* ---- incremental receiver (clear text: blocksize 8, no MAC) --------------------------------
   State: the input buffer, and - once a header block has been taken - the first block and the
   packet length.  One call of [recv_step] is one call of the current _recv_handler; None means
   "need more data" (handler returned False). *)
Definition BS : Z := 8.

Inductive rphase := PHdr | PBody (first : bytes) (pktlen : Z).

(* [short] is a ghost flag (no effect on behaviour): a header announcing a packet_length below 4
   (less than one block in total) has been seen.  For such malformed lengths the Python slices
   inpbuf[:rem] / inpbuf[rem:] take a NEGATIVE rem and the parse depends on how much data happens
   to be buffered; the segmentation theorem excludes them through this flag. *)
Record rstate := mkRS { inbuf : bytes; phase : rphase; got : list bytes; failed : bool; short : bool }.

(* Python slice semantics data[1:-padlen] as used by orig_payload = packet_data[1:-packet_data[0]] *)
Definition py_payload (packet_data : bytes) : bytes :=
  match packet_data with
  | [] => []
  | padlen :: _ =>
      let n := zlen packet_data in
      let stop := if padlen =? 0 then 0 else n - padlen in     (* [1:-0] is [1:0] *)
      let stop := if stop <? 0 then 0 else stop in
      if stop <=? 1 then [] else firstn (Z.to_nat (stop - 1)) (tl packet_data)
  end.

Definition recv_step (s : rstate) : option rstate :=
  if failed s then None else
  match phase s with
  | PHdr =>
      if zlen (inbuf s) <? BS then None
      else let first := firstn (Z.to_nat BS) (inbuf s) in
           Some (mkRS (skipn (Z.to_nat BS) (inbuf s)) (PBody first (get_u32 first)) (got s) false
                       (short s || (get_u32 first <? 4)))
  | PBody first pktlen =>
      (* rem = 4 + pktlen + macsize - blocksize ; Python: if len(inpbuf) < rem: return False *)
      let rem := 4 + pktlen - BS in
      if zlen (inbuf s) <? rem then None
      else
        (* rest = inpbuf[:rem] (negative rem: Python slice from the end) *)
        let rest := if rem <? 0
                    then firstn (Z.to_nat (Z.max 0 (zlen (inbuf s) + rem))) (inbuf s)
                    else firstn (Z.to_nat rem) (inbuf s) in
        let inbuf' := if rem <? 0
                      then skipn (Z.to_nat (Z.max 0 (zlen (inbuf s) + rem))) (inbuf s)
                      else skipn (Z.to_nat rem) (inbuf s) in
        let packet_data := skipn 4 first ++ rest in
        match py_payload packet_data with
        | [] => Some (mkRS inbuf' PHdr (got s) true (short s))   (* empty payload: PacketDecodeError on get_byte *)
        | payload => Some (mkRS inbuf' PHdr (got s ++ [payload]) false (short s))
        end
  end.

(* the while loop of _recv_data: run handlers until one needs more data; fuel bounds iterations *)
Fixpoint recv_loop (fuel : nat) (s : rstate) : rstate :=
  match fuel with
  | O => s
  | S f => match inbuf s with
           | [] => s
           | _ => match recv_step s with
                  | None => s
                  | Some s' => recv_loop f s'
                  end
           end
  end.

(* data_received(chunk): append to the buffer, then loop.  Two handler calls per packet at most,
   and every packet consumes at least one block, so 2 * |buffer| + 9 iterations always suffice. *)
Definition feed (s : rstate) (chunk : bytes) : rstate :=
  let s' := mkRS (inbuf s ++ chunk) (phase s) (got s) (failed s) (short s) in
  recv_loop (S (2 * length (inbuf s') + 8)) s'.

Definition rs_init : rstate := mkRS [] PHdr [] false false.

(* ---- key derivation ------------------------------------------------------------------------ *)
Section Derive.
  Variable H : bytes -> bytes.          (* the negotiated hash, as a function on byte strings *)

  (* while len(key) < keylen: key += H(k || h || (key if key else x || session_id)) *)
  Fixpoint derive_loop (fuel : nat) (k h x sid : bytes) (keylen : Z) (key : bytes) : bytes :=
    match fuel with
    | O => key
    | S f => if zlen key <? keylen
             then derive_loop f k h x sid keylen
                    (key ++ H (k ++ h ++ (match key with [] => x ++ sid | _ => key end)))
             else key
    end.

  Definition derive_key (k h x sid : bytes) (keylen : Z) : bytes :=
    firstn (Z.to_nat keylen) (derive_loop (Z.to_nat keylen + 1) k h x sid keylen []).
End Derive.

(* a toy hash with a d-byte digest, implemented identically in the harness so that the real
   Kex.compute_key can be run with it: byte j = sum_i data[i] * (i + j + 1) mod 256 *)
Fixpoint toy_sum (data : bytes) (i j : Z) : Z :=
  match data with
  | [] => 0
  | b :: r => b * (i + j + 1) + toy_sum r (i + 1) j
  end.

Definition toy_hash (d : nat) (data : bytes) : bytes :=
  map (fun j => (toy_sum data 0 (Z.of_nat j)) mod 256) (seq 0 d).
