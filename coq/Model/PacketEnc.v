(* Executable byte-level model of the ENCRYPTED phase of the SSH binary packet layer, for every
   block size, MAC size and the four packet-encryption shim classes, over abstract primitives.
   Sources modelled (asyncssh):
     connection.py  _recv_data / data_received : the `while self._inpbuf and handler()` loop   (eloop, efeed)
     connection.py  _recv_pkthdr               : take one block, decrypt_header, packet_length (estep, EHdr)
     connection.py  _recv_packet               : rem / rest / mac slicing (Python slice semantics,
                                                 also for negative bounds), decrypt_packet, MACError on
                                                 an empty result, inpbuf[rem:], payload slice, get_byte (estep, EBody)
     connection.py  _finish_recv_packet        : _recv_seq = (seq + 1) & 0xffffffff
     connection.py  send_packet                : padding, header, encrypt_packet, packet + mac, _send_seq,
                                                 the MSG_IGNORE inserted before packets of type > 49  (send_frame,
                                                 send_stream, send_payloads)
     encryption.py  BasicEncryption / ETMEncryption / GCMEncryption / ChachaEncryption
                    .decrypt_header / .decrypt_packet / .encrypt_packet               (dec_header, dec_packet, enc_packet)
     mac.py         MAC.verify = compare_digest(sign(seq, packet), sig)               (tag ... =? mac)
   NOT modelled (abstract section variables): BasicCipher.encrypt/decrypt, MAC.sign, GCMCipher /
   ChachaCipher encrypt_and_sign / verify_and_decrypt / decrypt_header.  Out of scope: compression, the
   strict-kex sequence reset at NEWKEYS, the dispatcher behind process_packet.
   Byte strings are list Z.  No proofs here. *)
From AV Require Import Base.Prelude Model.Packet.

(* ---- Python slice semantics ------------------------------------------------------------------- *)
(* index normalisation of s[a:b] for a sequence of length n: negative counts from the end, clamp *)
Definition py_idx (n i : Z) : Z := if i <? 0 then Z.max 0 (n + i) else Z.min i n.

(* l[a:b] *)
Definition py_slice (l : bytes) (a b : Z) : bytes :=
  let a' := py_idx (zlen l) a in
  let b' := py_idx (zlen l) b in
  firstn (Z.to_nat (b' - a')) (skipn (Z.to_nat a') l).

(* l[a:] *)
Definition py_from (l : bytes) (a : Z) : bytes := skipn (Z.to_nat (py_idx (zlen l) a)) l.

(* int.from_bytes(b, 'big') for any length (a block shorter than 4 bytes gives a shorter field) *)
Definition be_int (l : bytes) : Z := fold_left (fun acc b => acc * 256 + b) l 0.

Definition M32 : Z := 4294967296.

(* sq0, sq0 + 1, ... (n values) modulo 2^32 *)
Definition seqs_from (sq0 : Z) (n : nat) : list Z := map (fun i => (sq0 + Z.of_nat i) mod M32) (List.seq 0 n).

Inductive emode := Basic | ETM | GCM | Chacha.

(* receive phase: header wanted, or header taken.  [raw] (the first block as it came off the wire) is
   ghost; [first] is self._packet after decrypt_header; [pktlen] is self._pktlen *)
Inductive ephase := EHdr | EBody (raw first : bytes) (pktlen : Z).

Inductive estatus := SOk | SMac | SDecode.

Section Recv.
  Variable cst : Type.        (* state of the cipher object (CTR counter / CBC chaining value / GCM invocation counter) *)

  (* ghost log entry: one per delivered payload - the arguments and the result of the successful
     decrypt_packet call *)
  Record vrec := mkV { vseq : Z; vcst : cst; vraw : bytes; vfirst : bytes; vrest : bytes; vmac : bytes;
                       vdata : bytes }.

  (* [eshort] and [elog] are ghost (no effect on behaviour).  eshort: a header with
     4 + packet_length < blocksize has been seen; for such lengths rem - macsize is negative, the Python
     slices count from the end of the buffer and the parse depends on how much happens to be buffered. *)
  Record estate := mkES { ebuf : bytes; eph : ephase; eseq : Z; ecst : cst; egot : list bytes;
                          est : estatus; eshort : bool; elog : list vrec }.

  (* the two shim methods used by the receiver: any functions of these types *)
  Variable dh : cst -> Z -> bytes -> cst * bytes * bytes.                 (* decrypt_header(seq, first_block, 4) *)
  Variable dp : cst -> Z -> bytes -> bytes -> bytes -> cst * option bytes. (* decrypt_packet(seq, first, rest, 4, mac) *)
  Variables bs macsz : Z.                                                 (* _recv_blocksize, _recv_macsize *)

  (* one call of the current _recv_handler; None = "return False" (need more data) or connection dead *)
  Definition estep (s : estate) : option estate :=
    match est s with
    | SOk =>
      match eph s with
      | EHdr =>
          if zlen (ebuf s) <? bs then None
          else let raw := firstn (Z.to_nat bs) (ebuf s) in
               let '(c', first, lenb) := dh (ecst s) (eseq s) raw in
               let pktlen := be_int lenb in
               Some (mkES (skipn (Z.to_nat bs) (ebuf s)) (EBody raw first pktlen) (eseq s) c' (egot s) SOk
                          (eshort s || (4 + pktlen <? bs)) (elog s))
      | EBody raw first pktlen =>
          let rem := 4 + pktlen + macsz - bs in
          if zlen (ebuf s) <? rem then None
          else
            let rest := py_slice (ebuf s) 0 (rem - macsz) in          (* inpbuf[:rem-macsize] *)
            let mac := py_slice (ebuf s) (rem - macsz) rem in         (* inpbuf[rem-macsize:rem] *)
            let '(c', r) := dp (ecst s) (eseq s) first rest mac in
            match r with
            | Some (d0 :: dt) =>
                let pd := d0 :: dt in
                let buf' := py_from (ebuf s) rem in                   (* inpbuf[rem:] *)
                match py_payload pd with                              (* packet_data[1:-packet_data[0]] *)
                | [] => Some (mkES buf' EHdr (eseq s) c' (egot s) SDecode (eshort s) (elog s))   (* get_byte fails *)
                | p0 :: pt =>
                    Some (mkES buf' EHdr ((eseq s + 1) mod M32) c' (egot s ++ [p0 :: pt]) SOk (eshort s)
                               (elog s ++ [mkV (eseq s) (ecst s) raw first rest mac pd]))
                end
            | _ => (* `if not packet_data: raise MACError` (None, or an empty byte string) *)
                Some (mkES (ebuf s) EHdr (eseq s) c' (egot s) SMac (eshort s) (elog s))
            end
      end
    | _ => None
    end.

  (* while self._inpbuf and self._recv_handler(): pass *)
  Fixpoint eloop (fuel : nat) (s : estate) : estate :=
    match fuel with
    | O => s
    | S f => match ebuf s with
             | [] => s
             | _ => match estep s with
                    | None => s
                    | Some s' => eloop f s'
                    end
             end
    end.

  Definition eapp (s : estate) (c : bytes) : estate :=
    mkES (ebuf s ++ c) (eph s) (eseq s) (ecst s) (egot s) (est s) (eshort s) (elog s).

  (* data_received(chunk).  Every handler call lowers 2 * |buffer| + [header taken] (for blocksize >= 1),
     so this fuel always suffices (PacketEncProofs.efeed_nf). *)
  Definition efeed (s : estate) (chunk : bytes) : estate :=
    let s' := eapp s chunk in eloop (S (S (2 * length (ebuf s')))) s'.

  Definition einit (c : cst) (sq : Z) : estate := mkES [] EHdr sq c [] SOk false [].
End Recv.

Arguments mkV {cst}. Arguments vseq {cst}. Arguments vcst {cst}. Arguments vraw {cst}. Arguments vfirst {cst}.
Arguments vrest {cst}. Arguments vmac {cst}. Arguments vdata {cst}.
Arguments mkES {cst}. Arguments ebuf {cst}. Arguments eph {cst}. Arguments eseq {cst}. Arguments ecst {cst}.
Arguments egot {cst}. Arguments est {cst}. Arguments eshort {cst}. Arguments elog {cst}.
Arguments estep {cst}. Arguments eloop {cst}. Arguments eapp {cst}. Arguments efeed {cst}. Arguments einit {cst}.

(* ---- the four shim classes over abstract primitives -------------------------------------------- *)
Section Shims.
  Variable cst : Type.
  Variables cenc cdec : cst -> bytes -> cst * bytes.          (* BasicCipher.encrypt / .decrypt (stateful) *)
  Variable tag : Z -> bytes -> bytes.                          (* MAC.sign(seq, data) *)
  Variable gcm_enc : cst -> bytes -> bytes -> cst * (bytes * bytes).       (* GCMCipher.encrypt_and_sign(header, data) *)
  Variable gcm_dec : cst -> bytes -> bytes -> bytes -> cst * option bytes. (* GCMCipher.verify_and_decrypt(header, data, mac) *)
  Variable cc_enc : Z -> bytes -> bytes -> bytes * bytes.      (* ChachaCipher.encrypt_and_sign(header, data, UInt64(seq)) *)
  Variable cc_hdr : Z -> bytes -> bytes.                       (* ChachaCipher.decrypt_header(header, UInt64(seq)) *)
  Variable cc_dec : Z -> bytes -> bytes -> bytes -> option bytes.  (* ChachaCipher.verify_and_decrypt(header, data, nonce, tag) *)

  (* decrypt_header(seq, first_block, header_len = 4) -> (first_block', first_block'[:4] or decrypted header) *)
  Definition dec_header (m : emode) (c : cst) (sq : Z) (first : bytes) : cst * bytes * bytes :=
    match m with
    | Basic => let '(c', fb) := cdec c first in (c', fb, firstn 4 fb)
    | ETM | GCM => (c, first, firstn 4 first)
    | Chacha => (c, first, cc_hdr sq (firstn 4 first))
    end.

  (* decrypt_packet(seq, first, rest, header_len = 4, mac) *)
  Definition dec_packet (m : emode) (c : cst) (sq : Z) (first rest mac : bytes) : cst * option bytes :=
    match m with
    | Basic => let '(c', r) := cdec c rest in
               let packet := first ++ r in
               (c', if zlist_eqb (tag sq packet) mac then Some (skipn 4 packet) else None)
    | ETM => let packet := first ++ rest in
             if zlist_eqb (tag sq packet) mac
             then let '(c', d) := cdec c (skipn 4 packet) in (c', Some d)
             else (c, None)
    | GCM => gcm_dec c (firstn 4 first) (skipn 4 first ++ rest) mac
    | Chacha => (c, cc_dec sq (firstn 4 first) (skipn 4 first ++ rest) mac)
    end.

  (* encrypt_packet(seq, header, packet) -> (packet', mac) *)
  Definition enc_packet (m : emode) (c : cst) (sq : Z) (hdr packet : bytes) : cst * bytes * bytes :=
    match m with
    | Basic => let pkt := hdr ++ packet in
               let '(c', ct) := cenc c pkt in (c', ct, tag sq pkt)
    | ETM => let '(c', ct) := cenc c packet in
             let pkt := hdr ++ ct in (c', pkt, tag sq pkt)
    | GCM => let '(c', (out, t)) := gcm_enc c hdr packet in (c', out, t)
    | Chacha => let '(out, t) := cc_enc sq hdr packet in (c, out, t)
    end.

  (* _send_enchdrlen as set in connection.py when keys are taken into use: 1 if etm else 5, where
     GCM and chacha report etm = True (get_mac_params) *)
  Definition hdrlen (m : emode) : Z := match m with Basic => 5 | _ => 1 end.

  (* what one pass through the body of send_packet writes to the transport, given the padding bytes *)
  Definition send_frame (m : emode) (c : cst) (sq : Z) (payload padding : bytes) : cst * bytes :=
    let packet := zlen padding :: payload ++ padding in
    let hdr := u32 (zlen packet) in
    let '(c', out, mac) := enc_packet m c sq hdr packet in (c', out ++ mac).

  (* a sequence of (payload, padding): frames written, final cipher state and _send_seq *)
  Fixpoint send_stream (m : emode) (c : cst) (sq : Z) (pkts : list (bytes * bytes)) : cst * Z * list bytes :=
    match pkts with
    | [] => (c, sq, [])
    | (payload, padding) :: r =>
        let '(c', w) := send_frame m c sq payload padding in
        let '(c'', sq'', ws) := send_stream m c' ((sq + 1) mod M32) r in
        (c'', sq'', w :: ws)
    end.

  (* the receiver for mode m *)
  Definition mstep (m : emode) (bs macsz : Z) := estep (dec_header m) (dec_packet m) bs macsz.
  Definition mfeed (m : emode) (bs macsz : Z) := efeed (dec_header m) (dec_packet m) bs macsz.

  (* what "accepted by the integrity check" means for a logged delivery, per shim class: the bytes the
     check covered are the whole packet including the length field (plain text for Basic, cipher text
     for the others), under the logged sequence number *)
  Definition covered (m : emode) (e : vrec cst) : bytes :=
    match m with
    | Basic => vfirst e ++ snd (cdec (vcst e) (vrest e))
    | _ => vfirst e ++ vrest e
    end.

  Definition accepted (m : emode) (e : vrec cst) : Prop :=
    match m with
    | Basic | ETM => vmac e = tag (vseq e) (covered m e)
    | GCM => exists c', gcm_dec (vcst e) (firstn 4 (vfirst e)) (skipn 4 (vfirst e) ++ vrest e) (vmac e) = (c', Some (vdata e))
    | Chacha => cc_dec (vseq e) (firstn 4 (vfirst e)) (skipn 4 (vfirst e) ++ vrest e) (vmac e) = Some (vdata e)
    end.

  (* the logged first block is what decrypt_header made of the logged raw block under the logged
     sequence number *)
  Definition header_of (m : emode) (e : vrec cst) : Prop :=
    exists c0 c1 lenb, dec_header m c0 (vseq e) (vraw e) = (c1, vfirst e, lenb).

  (* ---- C01 at byte level: what the honest sender put under its MACs ------------------------------ *)
  (* one entry per frame written by send_packet: sequence number, the bytes the integrity check of the
     shim class covers (Basic: plain text length || packet; ETM: length || cipher text; GCM: length ||
     cipher text as associated data + cipher text; chacha: encrypted length || cipher text), the tag
     attached, the plain packet (padlen || payload || padding), the bytes written, and the cipher state
     before / after *)
  Record srec := mkS { sseq : Z; scov : bytes; smac : bytes; spkt : bytes; swire : bytes; scst0 : cst; scst1 : cst }.

  Definition sent_rec (m : emode) (c : cst) (sq : Z) (payload padding : bytes) : srec :=
    let packet := zlen padding :: payload ++ padding in
    let hdr := u32 (zlen packet) in
    let '(c', out, mac) := enc_packet m c sq hdr packet in
    mkS sq (match m with Basic => hdr ++ packet | _ => out end) mac packet (out ++ mac) c c'.

  Fixpoint send_log (m : emode) (c : cst) (sq : Z) (pkts : list (bytes * bytes)) : list srec :=
    match pkts with
    | [] => []
    | (payload, padding) :: r =>
        let e := sent_rec m c sq payload padding in
        e :: send_log m (scst1 e) ((sq + 1) mod M32) r
    end.

  (* sender state (cipher state, _send_seq) after a list of packets *)
  Definition sender_after (m : emode) (c : cst) (sq : Z) (pkts : list (bytes * bytes)) : cst * Z :=
    fold_left (fun st p => (scst1 (sent_rec m (fst st) (snd st) (fst p) (snd p)), (snd st + 1) mod M32)) pkts (c, sq).

  (* UNFORGEABLE on this run: every (sequence number, covered bytes, tag) triple that the receiver's
     verification accepted for a delivery occurs in the sender's log - the adversary may replay,
     reorder, cut and splice what the sender produced, but has not minted a new valid tag.  A premise
     about the run, not an axiom about the tag function. *)
  Definition unforgeable (m : emode) (slog : list srec) (s : estate cst) : Prop :=
    Forall (fun e => exists r, In r slog /\ sseq r = vseq e /\ scov r = covered m e /\ smac r = vmac e) (elog s).

  (* the laws of the primitives the byte-level integrity theorem needs, per shim class (bs = block size):
     Basic  - decryption preserves length; ENcrypting what was DEcrypted from the same state gives the
              cipher text back and ends in the same state (block-aligned data), i.e. cipher text is
              determined by state and plain text; decrypting an aligned first block and then the aligned
              rest equals decrypting at once
     ETM    - encryption preserves length; decryption inverts encryption from the same state
     GCM    - header in clear in front of the cipher text; verify_and_decrypt of what encrypt_and_sign
              produced from the same state returns the data and the same next state
     chacha - decrypt_header inverts the header encryption; verify_and_decrypt inverts encrypt_and_sign
              under the same sequence number *)
  Definition mode_laws (bs : Z) (m : emode) : Prop :=
    match m with
    | Basic =>
        (forall c x, zlen (snd (cdec c x)) = zlen x) /\
        (forall c x, zlen x mod bs = 0 -> cenc c (snd (cdec c x)) = (fst (cdec c x), x)) /\
        (forall c a b, zlen a mod bs = 0 -> zlen b mod bs = 0 ->
           cdec c (a ++ b) = (fst (cdec (fst (cdec c a)) b), snd (cdec c a) ++ snd (cdec (fst (cdec c a)) b)))
    | ETM =>
        (forall c x, zlen (snd (cenc c x)) = zlen x) /\
        (forall c x, zlen x mod bs = 0 -> cdec c (snd (cenc c x)) = (fst (cenc c x), x))
    | GCM =>
        forall c h d, zlen h = 4 ->
          let r := gcm_enc c h d in
          zlen (fst (snd r)) = 4 + zlen d /\ firstn 4 (fst (snd r)) = h /\
          gcm_dec c h (skipn 4 (fst (snd r))) (snd (snd r)) = (fst r, Some d)
    | Chacha =>
        forall sq h d, zlen h = 4 ->
          let r := cc_enc sq h d in
          zlen (fst r) = 4 + zlen d /\ cc_hdr sq (firstn 4 (fst r)) = h /\
          cc_dec sq (firstn 4 (fst r)) (skipn 4 (fst r)) (snd r) = Some d
    end.
End Shims.

(* send_packet: `if self._send_encryption and pkttype > MSG_KEX_LAST: self.send_packet(MSG_IGNORE, String(b''))`
   - the payloads one call puts on the wire *)
Definition send_payloads (encrypted : bool) (payload : bytes) : list bytes :=
  match payload with
  | t :: _ => if encrypted && (49 <? t) then [[2; 0; 0; 0; 0]; payload] else [payload]
  | [] => [payload]
  end.

(* ---- toy primitives (implemented identically in harness/c02_enc.py and installed in the REAL shim
   classes there).  Position-dependent XOR key stream; tag byte j = a position-weighted sum with odd
   multipliers over UInt32(seq) || data, so that every single-byte change changes every tag byte. ---- *)
Definition tks (k p : Z) : Z := (k + 5 * p + p / 7) mod 256.

Fixpoint txor (k p : Z) (l : bytes) : bytes :=
  match l with
  | [] => []
  | b :: r => Z.lxor b (tks k p) :: txor k (p + 1) r
  end.

(* cipher state = stream position *)
Definition toy_crypt (k : Z) (c : Z) (x : bytes) : Z * bytes := (c + zlen x, txor k c x).

Fixpoint tsum (l : bytes) (i j : Z) : Z :=
  match l with
  | [] => 0
  | b :: r => b * (2 * (i + j) + 1) + tsum r (i + 1) j
  end.

Definition toy_tag (tl : nat) (k : Z) (sq : Z) (data : bytes) : bytes :=
  let d := u32 sq ++ data in
  map (fun j => (k + 31 * zlen d + tsum d 0 (Z.of_nat j)) mod 256) (List.seq 0 tl).

(* GCM-like AEAD: state = invocation counter, cleartext header is associated data *)
Definition toy_gcm_enc (tl : nat) (k : Z) (n : Z) (hdr data : bytes) : Z * (bytes * bytes) :=
  let out := hdr ++ txor (k + 101) (11 * n) data in
  (n + 1, (out, toy_tag tl (k + 7) n out)).

Definition toy_gcm_dec (tl : nat) (k : Z) (n : Z) (hdr data mac : bytes) : Z * option bytes :=
  (n + 1, if zlist_eqb (toy_tag tl (k + 7) n (hdr ++ data)) mac then Some (txor (k + 101) (11 * n) data) else None).

(* chacha20-poly1305-like AEAD: nonce = sequence number, separately encrypted header *)
Definition toy_cc_hdr (k : Z) (sq : Z) (hdr : bytes) : bytes := txor (k + 33) (13 * sq) hdr.

Definition toy_cc_enc (tl : nat) (k : Z) (sq : Z) (hdr data : bytes) : bytes * bytes :=
  let out := toy_cc_hdr k sq hdr ++ txor (k + 77) (17 * sq + 64) data in
  (out, toy_tag tl (k + 9) sq out).

Definition toy_cc_dec (tl : nat) (k : Z) (sq : Z) (hdr data mac : bytes) : option bytes :=
  if zlist_eqb (toy_tag tl (k + 9) sq (hdr ++ data)) mac then Some (txor (k + 77) (17 * sq + 64) data) else None.

(* the model instantiated with the toy primitives: key k, tag length tl *)
Definition toy_feed (m : emode) (bs : Z) (tl : nat) (k : Z) :=
  mfeed Z (toy_crypt k) (toy_tag tl k) (toy_gcm_dec tl k) (toy_cc_hdr k) (toy_cc_dec tl k) m bs (Z.of_nat tl).

Definition toy_send_frame (m : emode) (tl : nat) (k : Z) :=
  send_frame Z (toy_crypt k) (toy_tag tl k) (toy_gcm_enc tl k) (toy_cc_enc tl k) m.

Definition toy_send_stream (m : emode) (tl : nat) (k : Z) :=
  send_stream Z (toy_crypt k) (toy_tag tl k) (toy_gcm_enc tl k) (toy_cc_enc tl k) m.

Definition toy_send_log (m : emode) (tl : nat) (k : Z) :=
  send_log Z (toy_crypt k) (toy_tag tl k) (toy_gcm_enc tl k) (toy_cc_enc tl k) m.

Definition toy_unforgeable (m : emode) (k : Z) := unforgeable Z (toy_crypt k) m.

(* decidable version for concrete runs *)
Definition toy_unforgeable_b (m : emode) (k : Z) (slog : list (srec Z)) (s : estate Z) : bool :=
  forallb (fun e => existsb (fun r => (sseq Z r =? vseq e) && zlist_eqb (scov Z r) (covered Z (toy_crypt k) m e) &&
                                        zlist_eqb (smac Z r) (vmac e)) slog) (elog s).
