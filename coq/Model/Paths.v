(* Executable model of the path handling that confines SFTP serving and downloads.
   Sources modelled (asyncssh, /repo):
     posixpath.join / posixpath.normpath           (CPython, as used by sftp.py)
     SFTPServer.map_path / reverse_map_path        sftp.py  "def map_path" / "def reverse_map_path"
     _parse_cd_args name filter                    scp.py
     recursive copy name joining                   sftp.py  SFTPClient._copy
   Paths are byte strings = list Z.  No proofs here. *)
From AV Require Import Base.Prelude.

Definition SLASH : Z := 47.
Definition DOT : Z := 46.
Definition BSLASH : Z := 92.
Definition dotdot : bytes := [DOT; DOT].

(* bytes.split(b'/') : always returns at least one component *)
Fixpoint split_on (sep : Z) (s : bytes) : list bytes :=
  match s with
  | [] => [[]]
  | c :: r =>
      if c =? sep then [] :: split_on sep r
      else match split_on sep r with
           | h :: t => (c :: h) :: t
           | [] => [[c]]
           end
  end.

(* sep.join(comps) *)
Fixpoint join_sep (sep : Z) (comps : list bytes) : bytes :=
  match comps with
  | [] => []
  | [c] => c
  | c :: r => c ++ sep :: join_sep sep r
  end.

Definition starts_with_slash (p : bytes) : bool :=
  match p with c :: _ => c =? SLASH | [] => false end.

Definition ends_with_slash (p : bytes) : bool :=
  match rev p with c :: _ => c =? SLASH | [] => false end.

(* posixpath.join(a, b) *)
Definition pjoin (a b : bytes) : bytes :=
  if starts_with_slash b then b
  else if (match a with [] => true | _ => false end) || ends_with_slash a then a ++ b
  else a ++ SLASH :: b.

(* number of leading slashes kept by normpath: 0, 1 or 2 *)
Definition initial_slashes (p : bytes) : nat :=
  match p with
  | a :: b :: c :: _ => if a =? SLASH then if b =? SLASH then if c =? SLASH then 1%nat else 2%nat else 1%nat else 0%nat
  | [a; b] => if a =? SLASH then if b =? SLASH then 2%nat else 1%nat else 0%nat
  | [a] => if a =? SLASH then 1%nat else 0%nat
  | [] => 0%nat
  end.

(* the component loop of normpath; the stack is kept reversed (head = last component) *)
Definition norm_step (abs : bool) (stack : list bytes) (comp : bytes) : list bytes :=
  if zlist_eqb comp [] || zlist_eqb comp [DOT] then stack
  else if negb (zlist_eqb comp dotdot) then comp :: stack
  else match stack with
       | [] => if abs then [] else [comp]
       | top :: rest => if zlist_eqb top dotdot then comp :: stack else rest
       end.

Definition norm_comps (abs : bool) (comps : list bytes) : list bytes :=
  rev (fold_left (norm_step abs) comps []).

Definition normpath (p : bytes) : bytes :=
  match p with
  | [] => [DOT]
  | _ =>
      let n := initial_slashes p in
      let body := join_sep SLASH (norm_comps (negb (Nat.eqb n 0)) (split_on SLASH p)) in
      let r := repeat SLASH n ++ body in
      match r with [] => [DOT] | _ => r end
  end.

Fixpoint lstrip_slash (p : bytes) : bytes :=
  match p with
  | c :: r => if c =? SLASH then lstrip_slash r else p
  | [] => []
  end.

(* SFTPServer.map_path with a chroot, as repaired (leading slashes stripped).  *)
Definition map_path (root path : bytes) : bytes :=
  pjoin root (lstrip_slash (normpath (pjoin [SLASH] path))).

(* The pre-repair code: normpath[1:] instead of stripping all leading slashes. *)
Definition map_path_old (root path : bytes) : bytes :=
  pjoin root (tl (normpath (pjoin [SLASH] path))).

(* reverse_map_path: Some client-visible path, or None for SFTPNoSuchFile *)
Definition reverse_map_path (root path : bytes) : option bytes :=
  if zlist_eqb path root then Some [SLASH]
  else if zprefix (root ++ [SLASH]) path then Some (skipn (length root) path)
  else None.

(* ---- download side ------------------------------------------------------- *)

Fixpoint mem_z (x : Z) (l : bytes) : bool :=
  match l with [] => false | y :: r => (x =? y) || mem_z x r end.

(* scp.py _parse_cd_args name filter: true = accepted *)
Definition scp_name_ok (name : bytes) : bool :=
  negb (mem_z SLASH name) && negb (mem_z BSLASH name) && negb (zlist_eqb name dotdot).

(* sftp.py recursive copy: entry names a remote directory listing may contribute.
   true = the entry is used (joined onto the destination), false = skipped / rejected. *)
Definition get_name_skipped (name : bytes) : bool :=
  zlist_eqb name [DOT] || zlist_eqb name dotdot.

(* as repaired: names containing a separator are refused *)
Definition get_name_ok (name : bytes) : bool :=
  negb (get_name_skipped name) && negb (mem_z SLASH name).

Definition get_dst (dst name : bytes) : bytes := pjoin dst name.

(* ---- SCP sink: directory stack of _SCPSink._recv_files / _recv_dir ---------------------------
   Records after the name filter: C = file, D = enter directory, E = leave directory,
   T = times (no path), X = anything else (error).  [isdir] is the (adversarial) answer of the
   local file system to "is the current destination a directory".  The result is the list of
   local paths the sink opens / creates / sets attributes on. *)
Inductive scp_rec := RecC (name : bytes) | RecD (name : bytes) | RecE | RecT | RecX.

Definition scp_target (isdir : bytes -> bool) (cur name : bytes) : bytes :=
  if isdir cur then pjoin cur name else cur.

(* continue_on_error = an error handler is installed (non-fatal errors are reported and the
   transfer goes on); otherwise the first error ends the transfer. *)
Fixpoint scp_sink (isdir : bytes -> bool) (cont : bool) (recs : list scp_rec)
         (stack : list bytes) (touched : list bytes) : list bytes :=
  match recs, stack with
  | [], _ => touched
  | _, [] => touched
  | r :: rest, cur :: up =>
      match r with
      | RecT => scp_sink isdir cont rest stack touched
      | RecE => scp_sink isdir cont rest up touched
      | RecX => if cont then scp_sink isdir cont rest stack touched else touched
      | RecC name =>
          if scp_name_ok name
          then scp_sink isdir cont rest stack (touched ++ [scp_target isdir cur name])
          else if cont then scp_sink isdir cont rest stack touched else touched
      | RecD name =>
          if scp_name_ok name
          then let d := scp_target isdir cur name in
               scp_sink isdir cont rest (d :: stack) (touched ++ [d])
          else if cont then scp_sink isdir cont rest stack touched else touched
      end
  end.

(* ---- scp.py _parse_cd_args: "perm size name" split with bytes.split(None, 2) ----------------
   Python whitespace for bytes.split: space, \t \n \r \v \f. *)
Definition is_ws (c : Z) : bool :=
  (c =? 32) || (c =? 9) || (c =? 10) || (c =? 13) || (c =? 11) || (c =? 12).

Fixpoint skip_ws (s : bytes) : bytes :=
  match s with c :: r => if is_ws c then skip_ws r else s | [] => [] end.

Fixpoint skip_token (s : bytes) : bytes :=
  match s with c :: r => if is_ws c then s else skip_token r | [] => [] end.

(* the third field of split(None, 2): everything after two tokens and the whitespace run that
   follows them, trailing whitespace included; None when there are fewer than three fields *)
Definition cd_name_field (args : bytes) : option bytes :=
  let a := skip_ws args in
  match a with [] => None | _ =>
  let b := skip_ws (skip_token a) in
  match b with [] => None | _ =>
  let c := skip_ws (skip_token b) in
  match c with [] => None | _ => Some c end end end.

(* accepted name, or None = request rejected *)
Definition parse_cd_name (args : bytes) : option bytes :=
  match cd_name_field args with
  | Some n => if scp_name_ok n then Some n else None
  | None => None
  end.
