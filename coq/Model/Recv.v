(* Symbolic model of the encrypted receive path (connection.py _recv_pkthdr / _recv_packet /
   _finish_recv_packet, encryption.py decrypt_header / decrypt_packet, mac.py verify):
   the sender's output after keys are in effect is the list of packets p_0, p_1, ... ; packet i was
   protected under (sequence number i mod 2^32, the current keys).  The adversary replaces the
   stream by any list of items.  Crypto is symbolic: a tag verifies exactly for the (keys,
   sequence number, bytes) it was computed over (trusted base), so an item is accepted iff it is
   an unmodified original packet whose index equals the receiver's sequence number modulo 2^32.
   A packet's application content is a list of bytes (empty for IGNORE and other non-data packets).
   No proofs here. *)
From AV Require Import Base.Prelude.

Inductive field := FLen | FBody | FPad | FTag.

Inductive item :=
| Orig (i : Z)                 (* the i-th packet the sender produced, byte for byte *)
| Flip (i : Z) (f : field)     (* the i-th packet with one bit flipped in the given field *)
| Trunc (i : Z)                (* a proper prefix of the i-th packet, later items follow immediately *)
| Foreign                      (* a packet protected under other keys / the other direction *)
| Cut.                         (* the byte stream ends here *)

Inductive status :=
| Running          (* no error so far *)
| Stalled          (* waiting for bytes that will not come; nothing further is delivered *)
| MacFailed        (* MACError -> DISCONNECT + forced close *)
| Lost.            (* connection lost reported as an error *)

Record rx := mkRx { rx_seq : Z; rx_out : list (list Z); rx_st : status }.

Definition M32 : Z := 4294967296.

(* what the receiver does with one item; [content i] is the application content of packet i *)
Definition rx_step (content : Z -> list Z) (r : rx) (it : item) : rx :=
  match rx_st r with
  | Running =>
      match it with
      | Orig i =>
          if (i mod M32 =? rx_seq r) then mkRx ((rx_seq r + 1) mod M32) (rx_out r ++ [content i]) Running
          else mkRx (rx_seq r) (rx_out r) MacFailed
      | Flip _ FLen => mkRx (rx_seq r) (rx_out r) Stalled     (* may also surface as MacFailed once enough bytes arrive *)
      | Flip _ _ => mkRx (rx_seq r) (rx_out r) MacFailed
      | Trunc _ => mkRx (rx_seq r) (rx_out r) Stalled
      | Foreign => mkRx (rx_seq r) (rx_out r) MacFailed
      | Cut => mkRx (rx_seq r) (rx_out r) Lost
      end
  | Stalled =>
      (* bytes keep being appended to the incomplete packet: at some point the claimed length is
         reached and the tag check fails, or the stream ends *)
      match it with
      | Cut => mkRx (rx_seq r) (rx_out r) Lost
      | _ => r
      end
  | _ => r
  end.

Definition rx_run (content : Z -> list Z) (start : Z) (items : list item) : rx :=
  fold_left (rx_step content) items (mkRx (start mod M32) [] Running).

(* the honest stream: packets start, start+1, ..., start+n-1 *)
Fixpoint honest_from (start : Z) (n : nat) : list item :=
  match n with O => [] | S k => Orig start :: honest_from (start + 1) k end.

(* length of the longest prefix of [items] that is the honest stream starting at [start] *)
Fixpoint intact (start : Z) (items : list item) : nat :=
  match items with
  | Orig i :: rest => if i =? start then S (intact (start + 1) rest) else O
  | _ => O
  end.
