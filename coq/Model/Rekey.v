(* Executable model of the SEND side of the asyncssh transport around key (re-)exchange.
   Sources modelled (asyncssh/connection.py, class SSHConnection):
     send_packet               : rekey trigger (bytes / time), deferral condition, the empty
                                 MSG_IGNORE in front of every non-kex packet once encrypting,
                                 sequence number, rekey byte accounting           (send_packet, emit)
     _send_kexinit             : kex_complete := False, byte counter reset, next rekey time,
                                 KEXINIT                                           (send_kexinit)
     _send_deferred_packets    : take the queue, empty it, re-send in order        (flush)
     _recv_version             : own KEXINIT when the peer's version line arrives  (recv_version)
     _process_kexinit          : "already in progress" error (an exchange object exists, or - since 9276b6d -
                                 our NEWKEYS is out and the peer's has not arrived), ext-info / strict markers latched on
                                 the first exchange, simultaneous-KEXINIT handling (process_kexinit)
     send_newkeys              : session id fixed at the first exchange, six keys from
                                 Kex.compute_key, NEWKEYS under the old keys, new send keys, next
                                 receive keys staged, EXT_INFO, kex_complete := True, service
                                 request (client, first exchange), flush           (send_newkeys)
     _process_newkeys          : staged receive keys installed and consumed, else error
                                                                                   (process_newkeys)
     _process_service_request / _process_service_accept : auth_in_progress (+ flush on the server)
     send_userauth_success / _process_userauth_success  : auth_complete, flush     (auth_begin/_done)
   time.monotonic() is an explicit input: every synchronous call (one [op]) carries the list of
   values successive monotonic() calls return inside it ([] = the clock stands still at [now]).
   A packet is (type, payload length, tag); payload bytes are irrelevant to the transport.
   Compression: which context a payload goes through is modelled (a new one at every NEWKEYS), the
   compressed sizes are not (p_len is the payload length; byte accounting is exact without compression).
   Not modelled: the receive path (C01/C06),
   negotiation failures, the 2^32 sequence rollover error before the first exchange completes, the
   `wait='kex'` early return of send_newkeys.  No proofs here. *)
From AV Require Import Base.Prelude Model.Packet.

(* message numbers (asyncssh/constants.py); tied to the live values by Corr/C11Corr.chk_consts *)
Definition MSG_IGNORE : Z := 2.
Definition MSG_DEBUG : Z := 4.
Definition MSG_SERVICE_REQUEST : Z := 5.
Definition MSG_SERVICE_ACCEPT : Z := 6.
Definition MSG_EXT_INFO : Z := 7.
Definition MSG_KEXINIT : Z := 20.
Definition MSG_NEWKEYS : Z := 21.
Definition MSG_KEX_LAST : Z := 49.
Definition MSG_USERAUTH_BANNER : Z := 53.
Definition MSG_USERAUTH_LAST : Z := 79.
Definition SEQ_MOD : Z := 4294967296.

Record pkt := mkP { p_ty : Z; p_len : Z; p_tag : Z }.
Record keys := mkK { k_iv : bytes; k_enc : bytes; k_mac : bytes }.

(* what one exchange negotiated, per direction (cs = client to server): _send_enchdrlen (1 for
   encrypt-then-MAC / AEAD, else 5), max(8, cipher block size), IV / key / MAC key sizes *)
Record algs := mkA { a_hdr_cs : Z; a_bs_cs : Z; a_hdr_sc : Z; a_bs_sc : Z;
                     a_iv_cs : Z; a_enc_cs : Z; a_mac_cs : Z;
                     a_iv_sc : Z; a_enc_sc : Z; a_mac_sc : Z;
                     a_cmp_cs : Z; a_cmp_sc : Z }.     (* compression: 0 none, 1 zlib, 2 zlib@openssh.com (after auth) *)

(* one packet written to the transport: sequence number, key epoch (number of own NEWKEYS sent
   before it) and the keys it was protected with, packet_length, and - when the payload went through
   the compressor - the payloads that compression context had been fed before this one *)
Record wrec := mkW { w_pkt : pkt; w_seq : Z; w_epoch : Z; w_keys : option keys; w_len : Z;
                     w_cmp : option (list pkt) }.

(* [legacy] is a switch of the MODEL, not of asyncssh: false = the code as it is; true = the code before
   fix 97cb05d (finding C11-1), where the rekey trigger was also evaluated for MSG_IGNORE. *)
Record cfg := mkC { is_client : bool; rekey_bytes : Z; rekey_seconds : Z;
                    kexinit_len : Z; extinfo_len : Z; legacy : bool }.

(* packets the transport itself originates (tag -1) *)
Definition IGN_pkt : pkt := mkP MSG_IGNORE 5 (-1).                 (* Byte(2) + String(b'') *)
Definition KEXINIT_pkt (c : cfg) : pkt := mkP MSG_KEXINIT (kexinit_len c) (-1).
Definition NEWKEYS_pkt : pkt := mkP MSG_NEWKEYS 1 (-1).
Definition EXTINFO_pkt (c : cfg) : pkt := mkP MSG_EXT_INFO (extinfo_len c) (-1).
Definition SVCREQ_pkt : pkt := mkP MSG_SERVICE_REQUEST 17 (-1).    (* Byte(5) + String('ssh-userauth') *)

(* ---- the part of the connection state send_packet reads but never writes ------------------- *)
Record env := mkE { e_auth_complete : bool; e_auth_in_progress : bool; e_strict : bool;
                    e_keys : option keys; e_hdr : Z; e_bs : Z; e_epoch : Z;
                    e_cmp : Z }.                  (* kind of self._compressor: 0 = None *)

(* ---- the part send_packet / _send_kexinit / _send_deferred_packets update ------------------- *)
Record sndst := mkS { kexinit_sent : bool; kex_complete : bool; deferred : list pkt;
                    send_seq : Z; rekey_sent : Z; rekey_time : Z;
                    now : Z; future : list Z; wire : list wrec;
                    cmp_seen : list pkt }.        (* ghost: what the current self._compressor has been fed *)

Definition set_kexinit_sent v (s : sndst) :=
  mkS v (kex_complete s) (deferred s) (send_seq s) (rekey_sent s) (rekey_time s) (now s) (future s) (wire s) (cmp_seen s).
Definition set_kex_complete v (s : sndst) :=
  mkS (kexinit_sent s) v (deferred s) (send_seq s) (rekey_sent s) (rekey_time s) (now s) (future s) (wire s) (cmp_seen s).
Definition set_deferred v (s : sndst) :=
  mkS (kexinit_sent s) (kex_complete s) v (send_seq s) (rekey_sent s) (rekey_time s) (now s) (future s) (wire s) (cmp_seen s).
Definition set_rekey_sent v (s : sndst) :=
  mkS (kexinit_sent s) (kex_complete s) (deferred s) (send_seq s) v (rekey_time s) (now s) (future s) (wire s) (cmp_seen s).
Definition set_rekey_time v (s : sndst) :=
  mkS (kexinit_sent s) (kex_complete s) (deferred s) (send_seq s) (rekey_sent s) v (now s) (future s) (wire s) (cmp_seen s).
Definition set_now v (s : sndst) :=
  mkS (kexinit_sent s) (kex_complete s) (deferred s) (send_seq s) (rekey_sent s) (rekey_time s) v (future s) (wire s) (cmp_seen s).
Definition set_cmp_seen v (s : sndst) :=
  mkS (kexinit_sent s) (kex_complete s) (deferred s) (send_seq s) (rekey_sent s) (rekey_time s) (now s) (future s) (wire s) v.
Definition set_future v (s : sndst) :=
  mkS (kexinit_sent s) (kex_complete s) (deferred s) (send_seq s) (rekey_sent s) (rekey_time s) (now s) v (wire s) (cmp_seen s).

(* one call of time.monotonic() *)
Definition read_clock (s : sndst) : Z * sndst :=
  match future s with
  | [] => (now s, s)
  | t :: r => (t, set_future r (set_now t s))
  end.

(* if (self._auth_complete and self._kex_complete and
       pkttype != MSG_IGNORE and
       (self._rekey_bytes_sent >= self._rekey_bytes or
        (self._rekey_seconds and time.monotonic() >= self._rekey_time))):
   Python evaluates left to right with short circuit: the clock is read only when reached. *)
Definition trigger (c : cfg) (e : env) (ty : Z) (s : sndst) : bool * sndst :=
  if e_auth_complete e && kex_complete s && (legacy c || negb (ty =? MSG_IGNORE)) then
    if rekey_bytes c <=? rekey_sent s then (true, s)
    else if rekey_seconds c =? 0 then (false, s)
    else let '(t, s1) := read_clock s in (rekey_time s1 <=? t, s1)
  else (false, s).

(* lines "orig_payload = ..." to the end of send_packet: frame, write, sequence number, byte count *)
(* if self._compressor and (self._auth_complete or not self._compress_after_auth) *)
Definition compressing (e : env) : bool :=
  negb (e_cmp e =? 0) && (e_auth_complete e || negb (e_cmp e =? 2)).

Definition emit (e : env) (p : pkt) (s : sndst) : sndst :=
  let pktlen := 1 + p_len p + pad_len (e_hdr e) (e_bs e) (p_len p) in      (* exact without compression *)
  mkS (kexinit_sent s) (kex_complete s) (deferred s)
      (if (p_ty p =? MSG_NEWKEYS) && e_strict e then 0 else (send_seq s + 1) mod SEQ_MOD)
      (if kex_complete s then rekey_sent s + pktlen else rekey_sent s)
      (rekey_time s) (now s) (future s)
      (wire s ++ [mkW p (send_seq s) (e_epoch e) (e_keys e) pktlen
                      (if compressing e then Some (cmp_seen s) else None)])
      (if compressing e then cmp_seen s ++ [p] else cmp_seen s).

(* _send_kexinit.  Its final self.send_packet(MSG_KEXINIT, ...) runs with kex_complete = False, so
   the trigger is off; 20 is not deferrable and 20 <= MSG_KEX_LAST gets no IGNORE: it is [emit]. *)
Definition send_kexinit (c : cfg) (e : env) (s : sndst) : sndst :=
  let s1 := set_rekey_sent 0 (set_kex_complete false s) in
  let s2 := if rekey_seconds c =? 0 then s1
            else let '(t, s') := read_clock s1 in set_rekey_time (t + rekey_seconds c) s' in
  emit e (KEXINIT_pkt c) s2.

(* first statement of send_packet: the trigger, then _send_kexinit(); _kexinit_sent = True *)
Definition send_pre (c : cfg) (e : env) (ty : Z) (s : sndst) : sndst :=
  let '(fire, s1) := trigger c e ty s in
  if fire then set_kexinit_sent true (send_kexinit c e s1) else s1.

(* if (((pkttype in {MSG_DEBUG, MSG_SERVICE_REQUEST, MSG_SERVICE_ACCEPT} or
          pkttype > MSG_KEX_LAST) and not self._kex_complete) or
        (pkttype == MSG_USERAUTH_BANNER and not (self._auth_in_progress or self._auth_complete)) or
        (pkttype > MSG_USERAUTH_LAST and not self._auth_complete)) *)
Definition kex_deferrable (t : Z) : bool :=
  (t =? MSG_DEBUG) || (t =? MSG_SERVICE_REQUEST) || (t =? MSG_SERVICE_ACCEPT) || (MSG_KEX_LAST <? t).

Definition defer_cond (e : env) (kc : bool) (t : Z) : bool :=
  (kex_deferrable t && negb kc)
  || ((t =? MSG_USERAUTH_BANNER) && negb (e_auth_in_progress e || e_auth_complete e))
  || ((MSG_USERAUTH_LAST <? t) && negb (e_auth_complete e)).

Definition encrypting (e : env) : bool := match e_keys e with Some _ => true | None => false end.

(* the nested self.send_packet(MSG_IGNORE, String(b'')): its first statement is the trigger again - off
   for type 2 since 97cb05d; before that fix it was evaluated a second time, with a second clock
   reading ([legacy]).  Type 2 is never deferred and gets no nested IGNORE. *)
Definition send_ignore (c : cfg) (e : env) (s : sndst) : sndst := emit e IGN_pkt (send_pre c e MSG_IGNORE s).

Definition send_packet (c : cfg) (e : env) (p : pkt) (s : sndst) : sndst :=
  let s1 := send_pre c e (p_ty p) s in
  if defer_cond e (kex_complete s1) (p_ty p) then set_deferred (deferred s1 ++ [p]) s1
  else
    let s2 := if encrypting e && (MSG_KEX_LAST <? p_ty p) then send_ignore c e s1 else s1 in
    emit e p s2.

(* _send_deferred_packets *)
Definition flush (c : cfg) (e : env) (s : sndst) : sndst :=
  fold_left (fun acc p => send_packet c e p acc) (deferred s) (set_deferred [] s).

(* ---- whole connection ---------------------------------------------------------------------- *)
Definition E_KEX_IN_PROGRESS : Z := 1.     (* ProtocolError('Key exchange already in progress') *)
Definition E_NEWKEYS : Z := 2.             (* ProtocolError('New keys not negotiated') *)

Record st := mkSt {
  started : bool;                 (* peer's version line received: packets are being parsed *)
  kex_active : bool;              (* self._kex is not None *)
  auth_in_progress : bool; auth_complete : bool;
  can_ext : bool;                 (* _can_send_ext_info *)
  strict : bool;                  (* _strict_kex *)
  sid : bytes;                    (* _session_id, b'' = not set *)
  send_keys : option keys; send_hdr : Z; send_bs : Z; send_epoch : Z;
  send_cmp : Z;                   (* kind of self._compressor *)
  staged : option keys;           (* _next_recv_encryption *)
  recv_keys : option keys; recv_epoch : Z;
  hist : list (bytes * bytes * algs);   (* ghost: (K, H, algorithms) of every exchange completed *)
  asked : list pkt;                     (* ghost: every packet handed to send_packet from outside *)
  err : option Z;
  sn : sndst }.

Definition env_of (s : st) : env :=
  mkE (auth_complete s) (auth_in_progress s) (strict s) (send_keys s) (send_hdr s) (send_bs s) (send_epoch s) (send_cmp s).

Definition set_sn v (s : st) :=
  mkSt (started s) (kex_active s) (auth_in_progress s) (auth_complete s) (can_ext s) (strict s) (sid s)
       (send_keys s) (send_hdr s) (send_bs s) (send_epoch s) (send_cmp s) (staged s) (recv_keys s) (recv_epoch s)
       (hist s) (asked s) (err s) v.
Definition set_started v (s : st) :=
  mkSt v (kex_active s) (auth_in_progress s) (auth_complete s) (can_ext s) (strict s) (sid s)
       (send_keys s) (send_hdr s) (send_bs s) (send_epoch s) (send_cmp s) (staged s) (recv_keys s) (recv_epoch s)
       (hist s) (asked s) (err s) (sn s).
Definition set_kex_active v (s : st) :=
  mkSt (started s) v (auth_in_progress s) (auth_complete s) (can_ext s) (strict s) (sid s)
       (send_keys s) (send_hdr s) (send_bs s) (send_epoch s) (send_cmp s) (staged s) (recv_keys s) (recv_epoch s)
       (hist s) (asked s) (err s) (sn s).
Definition set_auth v w (s : st) :=
  mkSt (started s) (kex_active s) v w (can_ext s) (strict s) (sid s)
       (send_keys s) (send_hdr s) (send_bs s) (send_epoch s) (send_cmp s) (staged s) (recv_keys s) (recv_epoch s)
       (hist s) (asked s) (err s) (sn s).
Definition set_markers v w (s : st) :=
  mkSt (started s) (kex_active s) (auth_in_progress s) (auth_complete s) v w (sid s)
       (send_keys s) (send_hdr s) (send_bs s) (send_epoch s) (send_cmp s) (staged s) (recv_keys s) (recv_epoch s)
       (hist s) (asked s) (err s) (sn s).
Definition set_sid v (s : st) :=
  mkSt (started s) (kex_active s) (auth_in_progress s) (auth_complete s) (can_ext s) (strict s) v
       (send_keys s) (send_hdr s) (send_bs s) (send_epoch s) (send_cmp s) (staged s) (recv_keys s) (recv_epoch s)
       (hist s) (asked s) (err s) (sn s).
Definition set_asked v (s : st) :=
  mkSt (started s) (kex_active s) (auth_in_progress s) (auth_complete s) (can_ext s) (strict s) (sid s)
       (send_keys s) (send_hdr s) (send_bs s) (send_epoch s) (send_cmp s) (staged s) (recv_keys s) (recv_epoch s)
       (hist s) v (err s) (sn s).
Definition set_err v (s : st) :=
  mkSt (started s) (kex_active s) (auth_in_progress s) (auth_complete s) (can_ext s) (strict s) (sid s)
       (send_keys s) (send_hdr s) (send_bs s) (send_epoch s) (send_cmp s) (staged s) (recv_keys s) (recv_epoch s)
       (hist s) (asked s) v (sn s).
(* send_newkeys after NEWKEYS went out: new send keys and framing parameters, the kind of the new
   compressor, receive keys staged *)
Definition install_send (ks : keys) (hdr bs cmp : Z) (nx : keys) (entry : bytes * bytes * algs) (s : st) :=
  mkSt (started s) (kex_active s) (auth_in_progress s) (auth_complete s) (can_ext s) (strict s) (sid s)
       (Some ks) hdr bs (send_epoch s + 1) cmp (Some nx) (recv_keys s) (recv_epoch s)
       (hist s ++ [entry]) (asked s) (err s) (sn s).
(* _process_newkeys: staged keys become the receive keys and are consumed *)
Definition install_recv (ks : keys) (s : st) :=
  mkSt (started s) (kex_active s) (auth_in_progress s) (auth_complete s) (can_ext s) (strict s) (sid s)
       (send_keys s) (send_hdr s) (send_bs s) (send_epoch s) (send_cmp s) None (Some ks) (recv_epoch s + 1)
       (hist s) (asked s) (err s) (sn s).

Definition is_nil {A} (l : list A) : bool := match l with [] => true | _ => false end.
Definition is_some {A} (o : option A) : bool := match o with Some _ => true | None => false end.

Section Rekey.
  Variable Hf : bytes -> bytes.        (* the hash of the negotiated kex method *)
  Variable c : cfg.

  (* Kex.compute_key(k, h, X, session_id, size) for X = 'A'..'F' (Model/Packet.derive_key) *)
  Definition mk_keys (cs : bool) (k h sidv : bytes) (a : algs) : keys :=
    if cs then mkK (derive_key Hf k h [65] sidv (a_iv_cs a)) (derive_key Hf k h [67] sidv (a_enc_cs a))
                   (derive_key Hf k h [69] sidv (a_mac_cs a))
    else mkK (derive_key Hf k h [66] sidv (a_iv_sc a)) (derive_key Hf k h [68] sidv (a_enc_sc a))
             (derive_key Hf k h [70] sidv (a_mac_sc a)).

  Definition do_send (p : pkt) (s : st) : st := set_sn (send_packet c (env_of s) p (sn s)) s.
  Definition do_flush (s : st) : st := set_sn (flush c (env_of s) (sn s)) s.

  (* _recv_version: self._send_kexinit(); self._kexinit_sent = True *)
  Definition recv_version (s : st) : st :=
    if started s then s
    else set_started true (set_sn (set_kexinit_sent true (send_kexinit c (env_of s) (sn s))) s).

  (* _process_kexinit up to and including self._kex = get_kex(...).  ext / strictp: the peer's
     kex list contains the ext-info / strict-kex marker for our role. *)
  Definition process_kexinit (ext strictp : bool) (s : st) : st :=
    if negb (started s) then s
    else if kex_active s || is_some (staged s) then set_err (Some E_KEX_IN_PROGRESS) s   (* self._kex or self._next_recv_encryption *)
    else
      let s1 := if is_nil (sid s) then set_markers (can_ext s || ext) (strict s || strictp) s else s in
      let n := sn s1 in
      let n' := if kexinit_sent n then set_kexinit_sent false n else send_kexinit c (env_of s1) n in
      set_kex_active true (set_sn n' s1).

  (* send_newkeys(k, h); only a live kex handler (self._kex) calls it *)
  Definition send_newkeys (k h : bytes) (a : algs) (s : st) : st :=
    if negb (kex_active s) then s
    else
      let first := is_nil (sid s) in
      let sid' := if first then h else sid s in
      let cs := is_client c in
      let s1 := do_send NEWKEYS_pkt (set_sid sid' (set_kex_active false s)) in
      let s2 := install_send (mk_keys cs k h sid' a)
                             (if cs then a_hdr_cs a else a_hdr_sc a) (if cs then a_bs_cs a else a_bs_sc a)
                             (if cs then a_cmp_cs a else a_cmp_sc a)
                             (mk_keys (negb cs) k h sid' a) (k, h, a)
                             (set_sn (set_cmp_seen [] (sn s1)) s1) in     (* get_compressor(): a NEW context, nothing fed to it yet *)
      let s3 := if can_ext s2 then set_markers false (strict s2) (do_send (EXTINFO_pkt c) s2) else s2 in
      let s4 := set_sn (set_kex_complete true (sn s3)) s3 in
      let s5 := if first && cs then do_send SVCREQ_pkt s4 else s4 in
      do_flush s5.

  Definition process_newkeys (s : st) : st :=
    match staged s with
    | Some ks => install_recv ks s
    | None => set_err (Some E_NEWKEYS) s
    end.

  (* server: _process_service_request after SERVICE_ACCEPT went out (flushes);
     client: _process_service_accept (does not flush) *)
  Definition auth_begin (s : st) : st :=
    let s1 := set_auth true (auth_complete s) s in
    if is_client c then s1 else do_flush s1.

  (* send_userauth_success after USERAUTH_SUCCESS went out / _process_userauth_success *)
  Definition auth_done (s : st) : st := do_flush (set_auth false true s).

  Inductive act :=
  | Tick (t : Z)                          (* the clock moves between two synchronous calls *)
  | RecvVersion
  | Send (p : pkt)                        (* any caller of send_packet outside the transport core *)
  | RecvKexInit (ext strictp : bool)
  | KexDone (k h : bytes) (a : algs)      (* the kex handler calls send_newkeys(k, h) *)
  | RecvNewKeys
  | AuthBegin
  | AuthDone.

  (* an operation = one synchronous call + the clock readings inside it *)
  Definition op := (act * list Z)%type.

  Definition run_act (a : act) (s : st) : st :=
    match a with
    | Tick t => set_sn (set_now t (sn s)) s
    | RecvVersion => recv_version s
    | Send p => do_send p (set_asked (asked s ++ [p]) s)
    | RecvKexInit ext sp => process_kexinit ext sp s
    | KexDone k h a => send_newkeys k h a s
    | RecvNewKeys => process_newkeys s
    | AuthBegin => auth_begin s
    | AuthDone => auth_done s
    end.

  (* an error closes the connection: nothing further is processed *)
  Definition step (s : st) (o : op) : st :=
    match err s with
    | Some _ => s
    | None =>
        let s1 := run_act (fst o) (set_sn (set_future (snd o) (sn s)) s) in
        set_sn (set_future [] (sn s1)) s1
    end.

  Definition run (ops : list op) (s : st) : st := fold_left step ops s.

  Definition init_snd : sndst := mkS false false [] 0 0 0 0 [] [] [].
  (* connection_made: _send_enchdrlen = 5, _send_blocksize = 8, nothing negotiated *)
  Definition init : st :=
    mkSt false false false false false false [] None 5 8 0 0 None None 0 [] [] None init_snd.
End Rekey.

(* ---- specification vocabulary ---------------------------------------------------------------- *)
(* key-exchange and transport-control message types: the complement of the first deferral clause *)
Definition quiet_ty (t : Z) : bool := negb (kex_deferrable t).

(* channel data, channel and global requests, channel opens and their replies *)
Definition sess (p : pkt) : bool := MSG_USERAUTH_LAST <? p_ty p.

Definition wire_types (s : st) : list Z := map (fun w => p_ty (w_pkt w)) (wire (sn s)).
Definition wire_pkts (s : st) : list pkt := map w_pkt (wire (sn s)).

(* scan a list of emitted types: Some b = fine so far, b = "own KEXINIT out, own NEWKEYS not yet";
   None = a packet that is neither key exchange nor transport control was seen in that window *)
Definition quiet_step (acc : option bool) (t : Z) : option bool :=
  match acc with
  | None => None
  | Some inkex =>
      if t =? MSG_KEXINIT then Some true
      else if t =? MSG_NEWKEYS then Some false
      else if inkex && negb (quiet_ty t) then None else Some inkex
  end.
Definition quiet_scan (l : list Z) : option bool := fold_left quiet_step l (Some false).

(* KEXINIT and NEWKEYS strictly alternate, starting with KEXINIT *)
Definition alt_step (acc : option bool) (t : Z) : option bool :=
  match acc with
  | None => None
  | Some inkex =>
      if t =? MSG_KEXINIT then (if inkex then None else Some true)
      else if t =? MSG_NEWKEYS then (if inkex then Some false else None)
      else Some inkex
  end.
Definition alt_scan (l : list Z) : option bool := fold_left alt_step l (Some false).

(* every record carries the epoch = number of NEWKEYS records before it *)
Definition epoch_step (acc : option Z) (w : wrec) : option Z :=
  match acc with
  | None => None
  | Some n => if w_epoch w =? n then Some (if p_ty (w_pkt w) =? MSG_NEWKEYS then n + 1 else n) else None
  end.
Definition epoch_scan (l : list wrec) : option Z := fold_left epoch_step l (Some 0).

(* compression contexts: the payloads of epoch [ep] in [l] that went through the compressor ... *)
Definition cmp_fed (ep : Z) (l : list wrec) : list pkt :=
  map w_pkt (filter (fun x => (w_epoch x =? ep) && is_some (w_cmp x)) l).
(* ... and: every compressed record of [l] (written after [pre]) used a context that had been fed exactly
   the compressed payloads of ITS OWN epoch that precede it *)
Fixpoint cmp_ok (pre l : list wrec) : Prop :=
  match l with
  | [] => True
  | w :: r => (forall ctx, w_cmp w = Some ctx -> ctx = cmp_fed (w_epoch w) pre) /\ cmp_ok (pre ++ [w]) r
  end.

(* the send keys of epoch n according to the history of completed exchanges *)
Definition keys_at (Hf : bytes -> bytes) (cs : bool) (sidv : bytes) (h : list (bytes * bytes * algs)) (n : Z)
  : option keys :=
  if n <=? 0 then None
  else match nth_error h (Z.to_nat (n - 1)) with
       | Some (k, hh, a) => Some (mk_keys Hf cs k hh sidv a)
       | None => None
       end.

Definition sends_of (ops : list op) : list pkt :=
  flat_map (fun o => match fst o with Send p => [p] | _ => [] end) ops.

(* operations the environment can really perform: KEXINIT / NEWKEYS are only sent by the transport *)
Definition ext_ok (o : op) : bool :=
  match fst o with
  | Send p => negb ((p_ty p =? MSG_KEXINIT) || (p_ty p =? MSG_NEWKEYS))
  | _ => true
  end.
(* the clock does not advance inside the synchronous call *)
Definition steady (o : op) : bool := is_nil (snd o).
(* exchange hashes are digests: never empty *)
Definition h_nonempty (o : op) : bool :=
  match fst o with KexDone _ h _ => negb (is_nil h) | _ => true end.
