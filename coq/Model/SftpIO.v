(* C12 - executable model of the SFTP parallel block I/O of asyncssh/sftp.py.
   Definitions only; proofs are in Proofs/SftpIOProofs.v.

   Modelled source (line numbers of the snapshot):
     _SFTPParallelIO        sftp.py:702-771   -> pio, start_tasks, refill, complete, batch
     _SFTPFileReader        sftp.py:774-807   -> reasm, reader_handle, reader_*
     _SFTPFileWriter        sftp.py:810-835   -> writer_handle, writer_*
     _SFTPFileCopier        sftp.py:837-939   -> copier_*  (parallel read/write branch; the
                                                 server-side copy-data branch is not modelled)
     _request_ranges        sftp.py:676-690   -> req_ranges (SEEK_DATA/SEEK_HOLE over an extent list)
     _process_ranges        sftp.py:6815-6845 -> server_ranges
     SFTPClientFile.request_ranges 3365-3392  -> client_ranges
     SFTPClientFile.read/write/seek/tell 3394-3630 -> fo_*

   asyncio is modelled as run-to-suspension: a state carries the list of outstanding requests in
   creation order; one adversary step is a batch of completions (the `done` set returned by one
   asyncio.wait) followed by _start_tasks. *)
From AV Require Import Base.Prelude.

(* ------------------------------------------------------------------------------------------ *)
(* byte strings indexed by Z *)

Definition zlen {A} (l : list A) : Z := Z.of_nat (length l).
Definition ztake (n : Z) (l : bytes) : bytes := firstn (Z.to_nat n) l.
Definition zdrop (n : Z) (l : bytes) : bytes := skipn (Z.to_nat n) l.
Definition zeros (n : Z) : bytes := repeat 0 (Z.to_nat n).
Definition znth (l : bytes) (i : Z) : Z := if i <? 0 then 0 else nth (Z.to_nat i) l 0.

(* F[off : off+size] for off, size >= 0 *)
Definition slice (F : bytes) (off size : Z) : bytes := ztake size (zdrop off F).

(* bytearray reassembly, sftp.py:799-805:
     pad = pos - len(result); if pad > 0: result += pad * b'\0'; result[pos:pos+len(data)] = data
   (pos >= 0 always: every request offset is >= the start offset).
   The same function is the effect of seek(pos); write(data) on a file when data is not empty. *)
Definition reasm (buf : bytes) (pos : Z) (d : bytes) : bytes :=
  let buf' := buf ++ zeros (pos - zlen buf) in
  ztake pos buf' ++ d ++ zdrop (pos + zlen d) buf'.

(* a file-system write at an absolute offset; an empty write does not extend the file *)
Definition file_write (f : bytes) (pos : Z) (d : bytes) : bytes :=
  match d with [] => f | _ => reasm f pos d end.

(* ------------------------------------------------------------------------------------------ *)
(* _SFTPParallelIO *)

Record pio := mkPio {
  p_bs : Z;                  (* _block_size *)
  p_max : Z;                 (* _max_requests *)
  p_off : Z;                 (* _offset: next unscheduled byte *)
  p_left : Z;                (* _bytes_left *)
  p_pend : list (Z * Z);     (* _pending: outstanding (offset, size), in creation order *)
  p_sent : list (Z * Z)      (* every request ever issued, in order (observable at the handler) *)
}.

Definition add_req (s : pio) (o z : Z) : pio :=
  mkPio (p_bs s) (p_max s) (p_off s) (p_left s) (p_pend s ++ [(o, z)]) (p_sent s ++ [(o, z)]).

Definition set_range (s : pio) (o l : Z) : pio :=
  mkPio (p_bs s) (p_max s) o l (p_pend s) (p_sent s).

Definition set_left (s : pio) (l : Z) : pio :=
  mkPio (p_bs s) (p_max s) (p_off s) l (p_pend s) (p_sent s).

Definition set_pend (s : pio) (l : list (Z * Z)) : pio :=
  mkPio (p_bs s) (p_max s) (p_off s) (p_left s) l (p_sent s).

Definition remove_nth {A} (i : nat) (l : list A) : list A := firstn i l ++ skipn (S i) l.

(* _start_tasks, sftp.py:724-734.  The while loop adds one request per iteration and stops when
   len(pending) >= max_requests, so Z.to_nat max_requests iterations always suffice: running out
   of fuel coincides with the loop condition becoming false. *)
Fixpoint start_tasks (fuel : nat) (s : pio) : pio :=
  match fuel with
  | O => s
  | S f =>
    if (p_left s =? 0) || (p_max s <=? zlen (p_pend s)) then s
    else
      let size := Z.min (p_left s) (p_bs s) in
      let s1 := add_req s (p_off s) size in
      start_tasks f (set_range s1 (p_off s + size) (p_left s - size))
  end.

Definition refill (s : pio) : pio := start_tasks (Z.to_nat (p_max s)) s.

(* what one finished task means to the scheduler *)
Inductive outcome := OData (count : Z) | OEof | OErr.

Record mach (A : Type) := mkMach { m_pio : pio; m_acc : A; m_failed : bool }.
Arguments mkMach {A}.
Arguments m_pio {A}.
Arguments m_acc {A}.
Arguments m_failed {A}.

Section Machine.
  Context {A R : Type}.
  (* client-specific effect of a reply to request (offset, size): new accumulator and what the
     scheduler sees (run_task result / SFTPEOFError / other error) *)
  Variable handle : A -> Z -> Z -> R -> A * outcome.

  (* body of `for task in done` for one task, sftp.py:752-763.  i indexes the outstanding list;
     an index that names no outstanding request is ignored. *)
  Definition complete (s : mach A) (ir : nat * R) : mach A :=
    match nth_error (p_pend (m_pio s)) (fst ir) with
    | None => s
    | Some (o, z) =>
      let p := set_pend (m_pio s) (remove_nth (fst ir) (p_pend (m_pio s))) in
      match handle (m_acc s) o z (snd ir) with
      | (a, OData c) =>
          mkMach (if negb (c =? 0) && (c <? z) then add_req p (o + c) (z - c) else p) a (m_failed s)
      | (_, OEof) => mkMach (set_left p 0) (m_acc s) (m_failed s)
      | (_, OErr) => mkMach p (m_acc s) true
      end
    end.

  (* one round of the `while self._pending` loop of iter(), sftp.py:746-771: process the done set,
     then raise (cancelling what is outstanding) or _start_tasks.  Once failed, nothing happens. *)
  Definition batch (s : mach A) (b : list (nat * R)) : mach A :=
    if m_failed s then s else
    let s' := fold_left complete b s in
    if m_failed s' then mkMach (set_pend (m_pio s') []) (m_acc s') true
    else mkMach (refill (m_pio s')) (m_acc s') false.

  (* honesty of a schedule with respect to a per-request predicate *)
  Variable honest : Z -> Z -> R -> bool.

  Fixpoint honest_picks (s : mach A) (b : list (nat * R)) : bool :=
    match b with
    | [] => true
    | ir :: b' =>
      match nth_error (p_pend (m_pio s)) (fst ir) with
      | None => false
      | Some (o, z) => honest o z (snd ir) && honest_picks (complete s ir) b'
      end
    end.

  Fixpoint honest_run (s : mach A) (sched : list (list (nat * R))) : bool :=
    match sched with
    | [] => true
    | b :: r => honest_picks s b && honest_run (batch s b) r
    end.
End Machine.

Definition pio_init (bs maxreq off size : Z) : pio := mkPio bs maxreq off size [] [].

(* iter() begins with _start_tasks *)
Definition mach_init {A} (bs maxreq off size : Z) (a : A) : mach A :=
  mkMach (refill (pio_init bs maxreq off size)) a false.

Inductive result (A : Type) := Running | Failed | Done (a : A).
Arguments Running {A}.
Arguments Failed {A}.
Arguments Done {A}.

Definition mach_result {A} (s : mach A) : result A :=
  if m_failed s then Failed
  else match p_pend (m_pio s) with [] => Done (m_acc s) | _ => Running end.

(* ------------------------------------------------------------------------------------------ *)
(* _SFTPFileReader *)

Inductive rreply := RData (d : bytes) | REof | RErr.

Definition reader_handle (start : Z) (buf : bytes) (o z : Z) (r : rreply) : bytes * outcome :=
  match r with
  | RData d => (reasm buf (o - start) d, OData (zlen d))
  | REof => (buf, OEof)
  | RErr => (buf, OErr)
  end.

Definition reader_init (bs maxreq start size : Z) : mach bytes := mach_init bs maxreq start size [].
Definition reader_batch (start : Z) := batch (reader_handle start).
Definition reader_run (bs maxreq start size : Z) (sched : list (list (nat * rreply))) : mach bytes :=
  fold_left (reader_batch start) sched (reader_init bs maxreq start size).

(* the server is the fixed file F: below EOF it answers with 1 <= c <= size bytes of F at the
   requested offset, at or after EOF with SSH_FX_EOF; it never reports an error *)
Definition honest_read (F : bytes) (o z : Z) (r : rreply) : bool :=
  match r with
  | RData d => (1 <=? zlen d) && (zlen d <=? z) && (o + zlen d <=? zlen F)
               && zlist_eqb d (slice F o (zlen d))
  | REof => zlen F <=? o
  | RErr => false
  end.

(* ------------------------------------------------------------------------------------------ *)
(* _SFTPFileWriter.  The accumulator is the destination file as the server holds it; a write is
   applied when its (successful) reply is processed, so completion order = application order. *)

Inductive wreply := WOk | WErr.

Definition writer_handle (start : Z) (data : bytes) (dst : bytes) (o z : Z) (r : wreply)
  : bytes * outcome :=
  match r with
  | WOk => (file_write dst o (slice data (o - start) z), OData z)
  | WErr => (dst, OErr)
  end.

Definition writer_init (bs maxreq start : Z) (data dst0 : bytes) : mach bytes :=
  mach_init bs maxreq start (zlen data) dst0.
Definition writer_batch (start : Z) (data : bytes) := batch (writer_handle start data).
Definition writer_run (bs maxreq start : Z) (data dst0 : bytes) (sched : list (list (nat * wreply)))
  : mach bytes :=
  fold_left (writer_batch start data) sched (writer_init bs maxreq start data dst0).

Definition honest_write (o z : Z) (r : wreply) : bool :=
  match r with WOk => true | WErr => false end.

(* the blocks a writer must issue: consecutive, block_size each, the last one shorter *)
Fixpoint blocks (fuel : nat) (bs off left : Z) : list (Z * Z) :=
  match fuel with
  | O => []
  | S f => if left <=? 0 then []
           else let z := Z.min left bs in (off, z) :: blocks f bs (off + z) (left - z)
  end.

(* the requests l are consecutive non-empty ranges that tile [lo, hi) *)
Fixpoint chain (lo : Z) (l : list (Z * Z)) (hi : Z) : Prop :=
  match l with
  | [] => lo = hi
  | (o, z) :: r => o = lo /\ 0 < z /\ chain (o + z) r hi
  end.

(* ------------------------------------------------------------------------------------------ *)
(* _SFTPFileCopier (parallel branch, sftp.py:918-933) *)

Inductive creply :=
  | CData (d : bytes)      (* src.read returned d (empty at EOF) and dst.write succeeded *)
  | CEof                   (* src.read raised SFTPEOFError *)
  | CErr.                  (* src.read or dst.write raised OSError/SFTPError *)

(* accumulator: destination file, _bytes_copied *)
Definition copier_handle (acc : bytes * Z) (o z : Z) (r : creply) : (bytes * Z) * outcome :=
  match r with
  | CData d => ((file_write (fst acc) o d, snd acc + zlen d), OData (zlen d))
  | CEof => (acc, OEof)
  | CErr => (acc, OErr)
  end.

Inductive cstatus := CRunning | COk | CFail.

Record copier := mkCopier {
  c_m : mach (bytes * Z);
  c_ranges : list (Z * Z);   (* ranges not yet started *)
  c_total : Z;               (* _total_bytes *)
  c_sparse : bool;
  c_fix : bool;              (* false = the code as it is; true = proposed repair (see copier_finish) *)
  c_last : Z;                (* end of the last range started (used by the repair only) *)
  c_status : cstatus
}.

(* `async for self._offset, self._bytes_left in ranges: async for ... in self.iter()`: start the next
   range; a range that creates no request is finished at once *)
Fixpoint next_range (p : pio) (rs : list (Z * Z)) (last : Z) : pio * list (Z * Z) * Z :=
  match rs with
  | [] => (p, [], last)
  | (o, l) :: rest =>
    let p' := refill (set_range p o l) in
    match p_pend p' with
    | [] => next_range p' rest (o + l)
    | _ => (p', rest, o + l)
    end
  end.

(* after the last range: the total-bytes check of sftp.py:927-933.
   Repair (c_fix): a sparse copy whose last data range ends before total_bytes writes one zero byte
   at total_bytes - 1 so that the destination gets the announced length. *)
Definition copier_finish (c : copier) (p : pio) (last : Z) : copier :=
  let dst := fst (m_acc (c_m c)) in
  let copied := snd (m_acc (c_m c)) in
  let dst' := if c_fix c && c_sparse c && (last <? c_total c)
              then file_write dst (c_total c - 1) [0] else dst in
  let st := if negb (copied =? c_total c) && negb (c_sparse c) then CFail else COk in
  mkCopier (mkMach p (dst', copied) false) [] (c_total c) (c_sparse c) (c_fix c) last st.

Definition copier_advance (c : copier) : copier :=
  match next_range (m_pio (c_m c)) (c_ranges c) (c_last c) with
  | (p, rest, last) =>
    match p_pend p with
    | [] => copier_finish c p last
    | _ => mkCopier (mkMach p (m_acc (c_m c)) false) rest (c_total c) (c_sparse c) (c_fix c) last CRunning
    end
  end.

(* ranges = the data ranges of the source when sparse, else the single range (0, total) *)
Definition copier_init (bs maxreq total : Z) (sparse fixd : bool) (ranges : list (Z * Z)) : copier :=
  copier_advance
    (mkCopier (mkMach (pio_init bs maxreq 0 0) ([], 0) false)
              (if sparse then ranges else [(0, total)]) total sparse fixd 0 CRunning).

Definition copier_step (c : copier) (b : list (nat * creply)) : copier :=
  match c_status c with
  | CRunning =>
    let m := batch copier_handle (c_m c) b in
    if m_failed m then mkCopier m (c_ranges c) (c_total c) (c_sparse c) (c_fix c) (c_last c) CFail
    else match p_pend (m_pio m) with
         | [] => copier_advance (mkCopier m (c_ranges c) (c_total c) (c_sparse c) (c_fix c) (c_last c) CRunning)
         | _ => mkCopier m (c_ranges c) (c_total c) (c_sparse c) (c_fix c) (c_last c) CRunning
         end
  | _ => c
  end.

Definition copier_run (bs maxreq total : Z) (sparse fixd : bool) (ranges : list (Z * Z))
  (sched : list (list (nat * creply))) : copier :=
  fold_left copier_step sched (copier_init bs maxreq total sparse fixd ranges).

Definition copier_dst (c : copier) : bytes := fst (m_acc (c_m c)).
Definition copier_copied (c : copier) : Z := snd (m_acc (c_m c)).

(* the source is the fixed file F: below EOF a read returns 1 <= c <= size bytes of F, at or after
   EOF it returns the empty string; writes succeed *)
Definition honest_copy (F : bytes) (o z : Z) (r : creply) : bool :=
  match r with
  | CData d =>
    if o <? zlen F
    then (1 <=? zlen d) && (zlen d <=? z) && (o + zlen d <=? zlen F) && zlist_eqb d (slice F o (zlen d))
    else zlen d =? 0
  | CEof => false
  | CErr => false
  end.

Fixpoint copier_honest (F : bytes) (c : copier) (sched : list (list (nat * creply))) : bool :=
  match sched with
  | [] => true
  | b :: r =>
    match c_status c with
    | CRunning => honest_picks copier_handle (honest_copy F) (c_m c) b
    | _ => true
    end && copier_honest F (copier_step c b) r
  end.

(* ------------------------------------------------------------------------------------------ *)
(* sparse ranges *)

(* _request_ranges (sftp.py:676-690) over a file whose data extents are the sorted, pairwise
   separated list ext of (start, stop): seek(e, SEEK_DATA) is the first data byte >= e (ENXIO ends
   the loop), seek(start, SEEK_HOLE) the end of the extent holding start. *)
Fixpoint req_ranges (ext : list (Z * Z)) (e limit : Z) : list (Z * Z) :=
  match ext with
  | [] => []
  | (a, b) :: r =>
    if e <? limit then
      if e <? b then
        let st := Z.max e a in
        let e' := Z.min b limit in
        (st, e' - st) :: req_ranges r e' limit
      else req_ranges r e limit
    else []
  end.

Definition request_ranges (ext : list (Z * Z)) (offset len : Z) : list (Z * Z) :=
  req_ranges ext offset (offset + len).

(* server side, _process_ranges: at most K (= _MAX_SPARSE_RANGES) ranges per reply, at_end when fewer
   than K were found, SSH_FX_EOF (None) when there is none *)
Definition server_ranges (K : nat) (ext : list (Z * Z)) (offset len : Z)
  : option (list (Z * Z) * bool) :=
  match firstn K (request_ranges ext offset len) with
  | [] => None
  | pg => Some (pg, (length pg <? K)%nat)
  end.

(* client side, SFTPClientFile.request_ranges: keep asking from the end of the last range received *)
Fixpoint client_ranges (fuel : nat) (srv : Z -> Z -> option (list (Z * Z) * bool))
  (next_off next_len end_ : Z) : list (Z * Z) :=
  match fuel with
  | O => []
  | S f =>
    match srv next_off next_len with
    | None => []
    | Some (rs, at_end) =>
      match rev rs with
      | [] => []
      | (ro, rl) :: _ =>
        rs ++ (if at_end then [] else client_ranges f srv (ro + rl) (end_ - (ro + rl)) end_)
      end
    end
  end.

(* a file layout: data extents (start, stop) ascending, separated by at least one hole byte, inside [lo, hi] *)
Fixpoint ext_wf (lo hi : Z) (ext : list (Z * Z)) : bool :=
  match ext with
  | [] => true
  | (a, b) :: r => (lo <=? a) && (a <? b) && (b <=? hi) && ext_wf (b + 1) hi r
  end.

Fixpoint in_ext (ext : list (Z * Z)) (q : Z) : bool :=
  match ext with
  | [] => false
  | (a, b) :: r => ((a <=? q) && (q <? b)) || in_ext r q
  end.

(* a byte position is a data position of the range list *)
Fixpoint in_ranges (rs : list (Z * Z)) (p : Z) : bool :=
  match rs with
  | [] => false
  | (o, l) :: r => ((o <=? p) && (p <? o + l)) || in_ranges r p
  end.

(* ranges ascending and disjoint, all at or above lo, non-empty *)
Fixpoint ranges_sorted (lo : Z) (rs : list (Z * Z)) : bool :=
  match rs with
  | [] => true
  | (o, l) :: r => (lo <=? o) && (0 <? l) && ranges_sorted (o + l) r
  end.

Fixpoint ranges_end (lo : Z) (rs : list (Z * Z)) : Z :=
  match rs with
  | [] => lo
  | (o, l) :: r => ranges_end (o + l) r
  end.

(* ------------------------------------------------------------------------------------------ *)
(* SFTPClientFile offset tracking, sftp.py:3394-3630.  The server is an ideal file that answers
   each single READ with at most cap bytes; a parallel read returns the whole requested slice and a
   parallel write stores the whole data (theorems C12_read / C12_write). *)

Record fobj := mkFobj {
  f_off : option Z;    (* _offset; None = appending and not sought since the last write *)
  f_app : bool;        (* _appending (the server was opened with FXF_APPEND) *)
  f_rlen : Z;          (* read_len *)
  f_wlen : Z;          (* write_len *)
  f_maxr : Z;          (* handler.limits.max_read_len *)
  f_cap : Z            (* most bytes the server returns for one READ *)
}.

Definition set_off (f : fobj) (o : option Z) : fobj :=
  mkFobj o (f_app f) (f_rlen f) (f_wlen f) (f_maxr f) (f_cap f).

Inductive fop :=
  | FRead (size : Z) (off : option Z)        (* size < 0: to the end of the file *)
  | FWrite (d : bytes) (off : option Z)
  | FSeek (off : Z) (whence : Z)             (* 0 SEEK_SET, 1 SEEK_CUR, 2 SEEK_END *)
  | FTell.

Inductive fres := FBytes (d : bytes) | FInt (n : Z) | FExc.

Definition opt_or (a : option Z) (b : option Z) : option Z := match a with Some _ => a | None => b end.

(* (file object, server file) -> op -> new state and the value returned *)
Definition fo_step (st : fobj * bytes) (op : fop) : (fobj * bytes) * fres :=
  let (f, F) := st in
  match op with
  | FRead size off =>
    match opt_or off (f_off f) with
    | None => (st, FBytes [])
    | Some o =>
      let size' := if size <? 0 then zlen F - o else size in
      if negb (f_rlen f =? 0) && (Z.min (f_rlen f) (f_maxr f) <? size') then
        let d := slice F o size' in ((set_off f (Some (o + zlen d)), F), FBytes d)
      else if size' <? 0 then (st, FExc)        (* UInt32(negative) raises *)
      else
        let d := slice F o (Z.min size' (f_cap f)) in
        match d with
        | [] => (st, FBytes [])                 (* SSH_FX_EOF: offset left alone *)
        | _ => ((set_off f (Some (o + zlen d)), F), FBytes d)
        end
    end
  | FWrite d off =>
    let o := match opt_or off (f_off f) with Some o => o | None => 0 end in
    let F' := if f_app f then F ++ d else file_write F o d in
    ((set_off f (if f_app f then None else Some (o + zlen d)), F'), FInt (zlen d))
  | FSeek off whence =>
    if whence =? 0 then ((set_off f (Some off), F), FInt off)
    else if whence =? 1 then
      let n := match f_off f with None => zlen F + off | Some o => o + off end in
      ((set_off f (Some n), F), FInt n)
    else if whence =? 2 then ((set_off f (Some (zlen F + off)), F), FInt (zlen F + off))
    else (st, FExc)
  | FTell =>
    match f_off f with
    | None => ((set_off f (Some (zlen F)), F), FInt (zlen F))
    | Some o => (st, FInt o)
    end
  end.

Fixpoint fo_run (st : fobj * bytes) (ops : list fop) : (fobj * bytes) * list fres :=
  match ops with
  | [] => (st, [])
  | op :: r => let (st', x) := fo_step st op in let (st'', xs) := fo_run st' r in (st'', x :: xs)
  end.

(* reference semantics: an ordinary file object with an explicit position (always known) *)
Record sfile := mkSfile { s_pos : Z; s_app : bool; s_rlen : Z; s_maxr : Z; s_cap : Z }.

Definition s_set (s : sfile) (p : Z) : sfile := mkSfile p (s_app s) (s_rlen s) (s_maxr s) (s_cap s).

Definition sp_step (st : sfile * bytes) (op : fop) : (sfile * bytes) * fres :=
  let (s, F) := st in
  match op with
  | FRead size off =>
    let o := match off with Some o => o | None => s_pos s end in
    let size' := if size <? 0 then zlen F - o else size in
    let whole := negb (s_rlen s =? 0) && (Z.min (s_rlen s) (s_maxr s) <? size') in
    if negb whole && (size' <? 0) then (st, FExc)
    else
      let d := slice F o (if whole then size' else Z.min size' (s_cap s)) in
      match d with
      | [] => if whole then ((s_set s o, F), FBytes []) else (st, FBytes [])
      | _ => ((s_set s (o + zlen d), F), FBytes d)
      end
  | FWrite d off =>
    let o := match off with Some o => o | None => s_pos s end in
    if s_app s then ((s_set s (zlen F + zlen d), F ++ d), FInt (zlen d))
    else ((s_set s (o + zlen d), file_write F o d), FInt (zlen d))
  | FSeek off whence =>
    if whence =? 0 then ((s_set s off, F), FInt off)
    else if whence =? 1 then ((s_set s (s_pos s + off), F), FInt (s_pos s + off))
    else if whence =? 2 then ((s_set s (zlen F + off), F), FInt (zlen F + off))
    else (st, FExc)
  | FTell => (st, FInt (s_pos s))
  end.

Fixpoint sp_run (st : sfile * bytes) (ops : list fop) : (sfile * bytes) * list fres :=
  match ops with
  | [] => (st, [])
  | op :: r => let (st', x) := sp_step st op in let (st'', xs) := sp_run st' r in (st'', x :: xs)
  end.

(* ------------------------------------------------------------------------------------------ *)
(* SFTPClient._copy (sftp.py, "Copy a file, directory, or symbolic link"): which attributes decide
   the kind of copy and the total_bytes handed to _SFTPFileCopier.  srcattrs arrive from lstat
   (directory listing, glob) or from stat; with follow_symlinks a symlink is re-stat'ed and BOTH the
   type and the size are taken from the result.  Types are FILEXFER_TYPE_*: 1 regular, 2 directory,
   3 symlink. *)
Record fattrs := mkFattrs { a_type : Z; a_size : Z }.

Definition copy_attrs (follow : bool) (lst st : fattrs) : fattrs :=
  if follow && (a_type lst =? 3) then st else lst.

(* None: no file copier is started (directory walk, or the symlink is recreated) *)
Definition copy_total (follow : bool) (lst st : fattrs) : option Z :=
  let a := copy_attrs follow lst st in
  if (a_type a =? 2) || (a_type a =? 3) then None else Some (a_size a).

(* ------------------------------------------------------------------------------------------ *)
(* _SFTPFileCopier.run(): the try/finally around the copy.  After the body (normal return, or the
   exception of a failed block / of the total-bytes check) the finally clause closes the source and
   then the destination, one after the other:
       if self._src: await self._src.close()
       if self._dst: await self._dst.close()
   An exception raised by a close replaces whatever the body raised; when closing the source fails
   the destination is not closed at all. *)
Inductive cerr := EBody | ESrcClose | EDstClose.

Definition cerr_eqb (a b : cerr) : bool :=
  match a, b with
  | EBody, EBody | ESrcClose, ESrcClose | EDstClose, EDstClose => true
  | _, _ => false
  end.

(* (what run() raises: None = normal return, was the destination closed) *)
Definition copier_outcome (c : copier) (src_close_ok dst_close_ok : bool) : option cerr * bool :=
  if negb src_close_ok then (Some ESrcClose, false)
  else if negb dst_close_ok then (Some EDstClose, true)
  else (match c_status c with COk => None | _ => Some EBody end, true).

(* ------------------------------------------------------------------------------------------ *)
(* Open dispositions.  How the destination of a transfer is opened decides what it holds before
   the first write.
     client: mode string -> SFTPv3 pflags (_open_modes); for a v5/v6 session pflags -> desired
             access + disposition (_pflags_to_flags)
     server: SFTPServer.open (v3/v4 pflags) and SFTPServer.open56 (v5/v6) -> os.open flags
   pflags bits: 0 READ, 1 WRITE, 2 APPEND, 3 CREAT, 4 TRUNC, 5 EXCL.
   dispositions (flags & 7): 0 CREATE_NEW, 1 CREATE_TRUNCATE, 2 OPEN_EXISTING, 3 OPEN_OR_CREATE,
   4 TRUNCATE_EXISTING; flags bit 3 APPEND_DATA; desired access bits 0 READ_DATA, 1 WRITE_DATA,
   2 APPEND_DATA, 7 READ_ATTRIBUTES, 8 WRITE_ATTRIBUTES. *)
Record oflags := mkOflags { o_creat : bool; o_excl : bool; o_trunc : bool; o_append : bool }.

(* SFTPServer.open *)
Definition server_open_v3 (pflags : Z) : oflags :=
  mkOflags (Z.testbit pflags 3) (Z.testbit pflags 5) (Z.testbit pflags 4) (Z.testbit pflags 2).

(* _pflags_to_flags: (desired_access, flags) *)
Definition pflags_to_flags (pflags : Z) : Z * Z :=
  let c := Z.testbit pflags 3 in
  let t := Z.testbit pflags 4 in
  let e := Z.testbit pflags 5 in
  let disp := if c && e then 0 else if c && t then 1 else if c then 3 else if t then 4 else 2 in
  let acc := (if Z.testbit pflags 0 then 1 + 128 else 0) + (if Z.testbit pflags 1 then 2 + 256 else 0)
             + (if Z.testbit pflags 2 then 4 else 0) in
  (acc, disp + (if Z.testbit pflags 2 then 8 else 0)).

(* SFTPServer.open56 *)
Definition server_open_v56 (desired_access flags : Z) : oflags :=
  let disp := Z.land flags 7 in
  mkOflags ((disp =? 0) || (disp =? 1) || (disp =? 3)) (disp =? 0) ((disp =? 1) || (disp =? 4))
           (Z.testbit desired_access 2 || Z.testbit flags 3).

(* what the server does with the pflags of a client request in a session of the given version *)
Definition session_open (version pflags : Z) : oflags :=
  if 5 <=? version then let (acc, fl) := pflags_to_flags pflags in server_open_v56 acc fl
  else server_open_v3 pflags.

(* os.open on a regular file: None = the open fails; Some c = it succeeds and the file then holds c.
   O_EXCL only matters together with O_CREAT. *)
Definition posix_open (f : oflags) (existing : option bytes) : option bytes :=
  match existing with
  | None => if o_creat f then Some [] else None
  | Some c => if o_creat f && o_excl f then None else Some (if o_trunc f then [] else c)
  end.

(* _open_modes: 'w' / 'wb', the mode every get/put/copy destination is opened with *)
Definition PFLAGS_W : Z := 2 + 8 + 16.
