(* Executable model of the SFTP request/response machinery of asyncssh (property C14).
   Sources modelled (/repo/asyncssh):
     packet.py   Byte / UInt32 / UInt64 / String, SSHPacket.get_* / check_end
     sftp.py     SFTPAttrs.encode / SFTPAttrs.decode          ("class SFTPAttrs")
                 SFTPName.encode / SFTPName.decode             ("class SFTPName")
                 _stat_mode_to_filetype
                 SFTPError.encode (version down-mapping) / SFTPError.construct
                 SFTPClientHandler._send_request / _process_packet / _cleanup / _make_request
                   and the reply decoders _process_status/_handle/_data/_name/_attrs
                 SFTPHandler.recv_packets (what ends a session)
                 SFTPServerHandler._process_packet (one reply per request, exception ladder),
                   the body layout read by every _process_<request> handler, the handle table
   Byte strings are [list Z]; text fields (owner, group, mime type, reason) are kept as their UTF-8
   bytes.  No proofs here. *)
From AV Require Import Base.Prelude.

(* ------------------------------------------------------------------------------------------ *)
(* 1. wire primitives                                                                           *)

Definition TWO32 : Z := 4294967296.
Definition TWO64 : Z := 18446744073709551616.

Definition in_u8 (x : Z) : bool := (0 <=? x) && (x <? 256).
Definition in_u32 (x : Z) : bool := (0 <=? x) && (x <? TWO32).
Definition in_u64 (x : Z) : bool := (0 <=? x) && (x <? TWO64).

(* UInt32(x) = x.to_bytes(4,'big'); raises OverflowError outside [0,2^32) (see the *_enc_ok predicates) *)
Definition put_u32 (x : Z) : bytes :=
  [x / 16777216 mod 256; x / 65536 mod 256; x / 256 mod 256; x mod 256].
Definition put_u64 (x : Z) : bytes := put_u32 (x / TWO32) ++ put_u32 (x mod TWO32).
Definition put_string (s : bytes) : bytes := put_u32 (Z.of_nat (length s)) ++ s.
Definition str_ok (s : bytes) : bool := Z.of_nat (length s) <? TWO32.

(* SSHPacket readers: None = PacketDecodeError('Incomplete packet') *)
Definition get_byte (b : bytes) : option (Z * bytes) :=
  match b with x :: r => Some (x, r) | [] => None end.
Definition get_u32 (b : bytes) : option (Z * bytes) :=
  match b with
  | a :: b1 :: c :: d :: r => Some (((a * 256 + b1) * 256 + c) * 256 + d, r)
  | _ => None
  end.
Definition get_u64 (b : bytes) : option (Z * bytes) :=
  match get_u32 b with
  | Some (hi, r) => match get_u32 r with Some (lo, r') => Some (hi * TWO32 + lo, r') | None => None end
  | None => None
  end.
Definition get_bytes (n : Z) (b : bytes) : option (bytes * bytes) :=
  if n <=? Z.of_nat (length b) then Some (firstn (Z.to_nat n) b, skipn (Z.to_nat n) b) else None.
Definition get_string (b : bytes) : option (bytes * bytes) :=
  match get_u32 b with Some (n, r) => get_bytes n r | None => None end.
Definition get_pair {A B} (f : bytes -> option (A * bytes)) (g : bytes -> option (B * bytes))
    (b : bytes) : option ((A * B) * bytes) :=
  match f b with
  | Some (x, r) => match g r with Some (y, r') => Some ((x, y), r') | None => None end
  | None => None
  end.

(* exception classes that matter to the property *)
Inductive err : Type :=
| EDecode                (* packet.PacketDecodeError *)
| ESftp (code : Z)       (* SFTPError (any subclass) carrying this status code *)
| EOther.                (* anything else (ValueError, OverflowError, KeyError ...) *)

Inductive res (A : Type) : Type :=
| Ok (a : A)
| Err (e : err).
Arguments Ok {A} a.
Arguments Err {A} e.

Definition lift {A} (o : option A) : res A :=
  match o with Some x => Ok x | None => Err EDecode end.

Notation "'let*' p ':=' m 'in' k" :=
  (match m with Ok p => k | Err e => Err e end)
  (at level 200, p pattern, m at level 100, k at level 200, right associativity).

(* str.decode('utf-8') with errors='strict' succeeds (CPython: shortest form, no surrogates, <= U+10FFFF) *)
Definition rng (lo hi c : Z) : bool := (lo <=? c) && (c <=? hi).
Definition ucont (c : Z) : bool := rng 128 191 c.
Fixpoint utf8_valid (b : bytes) : bool :=
  match b with
  | [] => true
  | c :: r =>
    if c <? 128 then (0 <=? c) && utf8_valid r
    else if rng 194 223 c then
      match r with c1 :: r1 => ucont c1 && utf8_valid r1 | _ => false end
    else if c =? 224 then
      match r with c1 :: c2 :: r2 => rng 160 191 c1 && ucont c2 && utf8_valid r2 | _ => false end
    else if rng 225 236 c || rng 238 239 c then
      match r with c1 :: c2 :: r2 => ucont c1 && ucont c2 && utf8_valid r2 | _ => false end
    else if c =? 237 then
      match r with c1 :: c2 :: r2 => rng 128 159 c1 && ucont c2 && utf8_valid r2 | _ => false end
    else if c =? 240 then
      match r with c1 :: c2 :: c3 :: r3 => rng 144 191 c1 && ucont c2 && ucont c3 && utf8_valid r3 | _ => false end
    else if rng 241 243 c then
      match r with c1 :: c2 :: c3 :: r3 => ucont c1 && ucont c2 && ucont c3 && utf8_valid r3 | _ => false end
    else if c =? 244 then
      match r with c1 :: c2 :: c3 :: r3 => rng 128 143 c1 && ucont c2 && ucont c3 && utf8_valid r3 | _ => false end
    else false
  end.
Definition ascii_valid (b : bytes) : bool := forallb (fun c => rng 0 127 c) b.

(* str(int) for the SFTPv4+ uid/gid -> owner/group fallback *)
Fixpoint dec_digits (fuel : nat) (n : Z) (acc : bytes) : bytes :=
  match fuel with
  | O => acc
  | S k => let acc' := (48 + n mod 10) :: acc in
           if n <? 10 then acc' else dec_digits k (n / 10) acc'
  end.
Definition z_to_dec (n : Z) : bytes :=
  if n <? 0 then 45 :: dec_digits (S (Z.to_nat (Z.log2 (- n)))) (- n) []
  else dec_digits (S (Z.to_nat (Z.log2 n))) n [].

(* ------------------------------------------------------------------------------------------ *)
(* 2. constants (constants.py)                                                                  *)

Definition FXP_INIT := 1.      Definition FXP_VERSION := 2.   Definition FXP_OPEN := 3.
Definition FXP_CLOSE := 4.     Definition FXP_READ := 5.      Definition FXP_WRITE := 6.
Definition FXP_LSTAT := 7.     Definition FXP_FSTAT := 8.     Definition FXP_SETSTAT := 9.
Definition FXP_FSETSTAT := 10. Definition FXP_OPENDIR := 11.  Definition FXP_READDIR := 12.
Definition FXP_REMOVE := 13.   Definition FXP_MKDIR := 14.    Definition FXP_RMDIR := 15.
Definition FXP_REALPATH := 16. Definition FXP_STAT := 17.     Definition FXP_RENAME := 18.
Definition FXP_READLINK := 19. Definition FXP_SYMLINK := 20.  Definition FXP_LINK := 21.
Definition FXP_BLOCK := 22.    Definition FXP_UNBLOCK := 23.
Definition FXP_STATUS := 101.  Definition FXP_HANDLE := 102.  Definition FXP_DATA := 103.
Definition FXP_NAME := 104.    Definition FXP_ATTRS := 105.
Definition FXP_EXTENDED := 200. Definition FXP_EXTENDED_REPLY := 201.

Definition FX_OK := 0.            Definition FX_EOF := 1.             Definition FX_NO_SUCH_FILE := 2.
Definition FX_PERMISSION_DENIED := 3. Definition FX_FAILURE := 4.     Definition FX_BAD_MESSAGE := 5.
Definition FX_OP_UNSUPPORTED := 8.    Definition FX_INVALID_HANDLE := 9.
Definition FX_FILE_ALREADY_EXISTS := 11. Definition FX_WRITE_PROTECT := 12.
Definition FX_NO_SPACE_ON_FILESYSTEM := 14. Definition FX_QUOTA_EXCEEDED := 15.
Definition FX_UNKNOWN_PRINCIPAL := 16.
Definition FX_DIR_NOT_EMPTY := 18.    Definition FX_NOT_A_DIRECTORY := 19.
Definition FX_INVALID_FILENAME := 20. Definition FX_LINK_LOOP := 21.
Definition FX_INVALID_PARAMETER := 23. Definition FX_FILE_IS_A_DIRECTORY := 24.
Definition FX_OWNER_INVALID := 29.    Definition FX_GROUP_INVALID := 30.
Definition FX_V3_END := 8.  Definition FX_V4_END := 13.  Definition FX_V5_END := 17.  Definition FX_V6_END := 31.

Definition F_SIZE := 1.          Definition F_UIDGID := 2.       Definition F_PERM := 4.
Definition F_ACMOD := 8.  (* FILEXFER_ATTR_ACMODTIME (v3) = FILEXFER_ATTR_ACCESSTIME (v4+) *)
Definition F_CRTIME := 16.       Definition F_MTIME := 32.       Definition F_ACL := 64.
Definition F_OWNGRP := 128.      Definition F_SUBSEC := 256.     Definition F_BITS := 512.
Definition F_ALLOC := 1024.      Definition F_HINT := 2048.      Definition F_MIME := 4096.
Definition F_NLINK := 8192.      Definition F_UNTRANS := 16384.  Definition F_CTIME := 32768.
Definition F_EXT := 2147483648.

(* _valid_attr_flags *)
Definition valid_flags (v : Z) : Z :=
  if v =? 3 then 2147483663        (* 0x8000000f *)
  else if v =? 4 then 2147484157   (* 0x800001fd *)
  else if v =? 5 then 2147484669   (* 0x800003fd *)
  else 2147549181.                 (* 0x8000fffd *)

Definition FT_REGULAR := 1. Definition FT_DIRECTORY := 2. Definition FT_SYMLINK := 3.
Definition FT_SPECIAL := 4. Definition FT_UNKNOWN := 5.   Definition FT_SOCKET := 6.
Definition FT_CHAR := 7.    Definition FT_BLOCK := 8.     Definition FT_FIFO := 9.

(* _stat_mode_to_filetype *)
Definition filetype_of_mode (mode : Z) : Z :=
  let fmt := Z.land mode 61440 in
  if fmt =? 32768 then FT_REGULAR
  else if fmt =? 16384 then FT_DIRECTORY
  else if fmt =? 40960 then FT_SYMLINK
  else if fmt =? 49152 then FT_SOCKET
  else if fmt =? 8192 then FT_CHAR
  else if fmt =? 24576 then FT_BLOCK
  else if fmt =? 4096 then FT_FIFO
  else if negb (fmt =? 0) then FT_SPECIAL
  else FT_UNKNOWN.

(* ------------------------------------------------------------------------------------------ *)
(* 3. SFTPAttrs                                                                                 *)

Record attrs : Type := mkattrs {
  a_type : Z;
  a_size : option Z;   a_alloc : option Z;
  a_uid : option Z;    a_gid : option Z;
  a_owner : option bytes; a_group : option bytes;
  a_perm : option Z;
  a_atime : option Z;  a_atime_ns : option Z;
  a_crtime : option Z; a_crtime_ns : option Z;
  a_mtime : option Z;  a_mtime_ns : option Z;
  a_ctime : option Z;  a_ctime_ns : option Z;
  a_acl : option bytes;
  a_bits : option Z;   a_valid : option Z;
  a_hint : option Z;   a_mime : option bytes;
  a_nlink : option Z;  a_untrans : option bytes;
  a_ext : list (bytes * bytes)
}.

Definition attrs_default : attrs :=
  mkattrs FT_UNKNOWN None None None None None None None None None None None None None None None
          None None None None None None None [].

Definition is_some {A} (o : option A) : bool := match o with Some _ => true | None => false end.
Definition opt_pair {A B} (x : option A) (y : option B) : option (A * B) :=
  match x, y with Some a, Some b => Some (a, b) | _, _ => None end.
Definition enc_opt {A} (f : A -> bytes) (o : option A) : bytes :=
  match o with Some x => f x | None => [] end.
Definition or0 (o : option Z) : Z := match o with Some n => n | None => 0 end.

Definition has (flags m : Z) : bool := negb (Z.land flags m =? 0).   (* "flags & m" is truthy *)
Definition FL (p : bool) (m : Z) : Z := if p then m else 0.
Definition flagsum (l : list (bool * Z)) : Z :=
  fold_right (fun pm acc => Z.lor (FL (fst pm) (snd pm)) acc) 0 l.

Definition subsecond (a : attrs) : bool :=
  is_some (a_atime_ns a) || is_some (a_crtime_ns a) || is_some (a_mtime_ns a) || is_some (a_ctime_ns a).

(* the value of `flags` at the end of SFTPAttrs.encode *)
Definition attr_flags (v : Z) (a : attrs) : Z :=
  let v3 := v =? 3 in
  flagsum [
    (is_some (a_size a), F_SIZE);
    (is_some (a_alloc a), F_ALLOC);
    (v3 && is_some (opt_pair (a_uid a) (a_gid a)), F_UIDGID);
    (negb v3 && (is_some (opt_pair (a_owner a) (a_group a)) || is_some (opt_pair (a_uid a) (a_gid a))), F_OWNGRP);
    (is_some (a_perm a), F_PERM);
    (v3 && is_some (opt_pair (a_atime a) (a_mtime a)), F_ACMOD);
    (negb v3 && subsecond a, F_SUBSEC);
    (negb v3 && is_some (a_atime a), F_ACMOD);
    (negb v3 && is_some (a_crtime a), F_CRTIME);
    (negb v3 && is_some (a_mtime a), F_MTIME);
    (negb v3 && (6 <=? v) && is_some (a_ctime a), F_CTIME);
    ((4 <=? v) && is_some (a_acl a), F_ACL);
    ((5 <=? v) && is_some (opt_pair (a_bits a) (a_valid a)), F_BITS);
    ((6 <=? v) && is_some (a_hint a), F_HINT);
    ((6 <=? v) && is_some (a_mime a), F_MIME);
    ((6 <=? v) && is_some (a_nlink a), F_NLINK);
    ((6 <=? v) && is_some (a_untrans a), F_UNTRANS);
    (negb (match a_ext a with [] => true | _ => false end), F_EXT)
  ].

Definition put_pair32 (p : Z * Z) : bytes := put_u32 (fst p) ++ put_u32 (snd p).
Definition put_strpair (p : bytes * bytes) : bytes := put_string (fst p) ++ put_string (snd p).
Definition put_time (sub : bool) (ns : option Z) (t : Z) : bytes :=
  put_u64 t ++ (if sub then put_u32 (or0 ns) else []).
Definition put_ext (l : list (bytes * bytes)) : bytes :=
  match l with
  | [] => []
  | _ => put_u32 (Z.of_nat (length l)) ++ flat_map put_strpair l
  end.

(* the file type byte written for SFTPv4+ *)
Definition enc_filetype (v : Z) (a : attrs) : Z :=
  if (v <? 5) && (FT_SOCKET <=? a_type a) then FT_SPECIAL else a_type a.

(* owner/group block for SFTPv4+: names if both given, else decimal uid/gid if both given *)
Definition enc_owngrp (a : attrs) : bytes :=
  match opt_pair (a_owner a) (a_group a) with
  | Some og => put_strpair og
  | None => match opt_pair (a_uid a) (a_gid a) with
            | Some (u, g) => put_string (z_to_dec u) ++ put_string (z_to_dec g)
            | None => []
            end
  end.

(* SFTPAttrs.encode(sftp_version): the fields after the flags word *)
Definition attrs_encode_body (v : Z) (a : attrs) : bytes :=
  let sub := subsecond a in
  (if 4 <=? v then [enc_filetype v a] else []) ++
  enc_opt put_u64 (a_size a) ++
  enc_opt put_u64 (a_alloc a) ++
  (if v =? 3 then enc_opt put_pair32 (opt_pair (a_uid a) (a_gid a)) else enc_owngrp a) ++
  enc_opt put_u32 (a_perm a) ++
  (if v =? 3 then enc_opt put_pair32 (opt_pair (a_atime a) (a_mtime a))
   else enc_opt (put_time sub (a_atime_ns a)) (a_atime a) ++
        enc_opt (put_time sub (a_crtime_ns a)) (a_crtime a) ++
        enc_opt (put_time sub (a_mtime_ns a)) (a_mtime a) ++
        (if 6 <=? v then enc_opt (put_time sub (a_ctime_ns a)) (a_ctime a) else [])) ++
  (if 4 <=? v then enc_opt put_string (a_acl a) else []) ++
  (if 5 <=? v then enc_opt put_pair32 (opt_pair (a_bits a) (a_valid a)) else []) ++
  (if 6 <=? v then enc_opt (fun h => [h]) (a_hint a) ++ enc_opt put_string (a_mime a) ++
                   enc_opt put_u32 (a_nlink a) ++ enc_opt put_string (a_untrans a) else []) ++
  put_ext (a_ext a).

(* SFTPAttrs.encode(sftp_version): the bytes produced when no exception is raised *)
Definition attrs_encode (v : Z) (a : attrs) : bytes :=
  put_u32 (attr_flags v a) ++ attrs_encode_body v a.

(* encode raises (ValueError / OverflowError) exactly when this is false *)
Definition opt_all {A} (p : A -> bool) (o : option A) : bool :=
  match o with Some x => p x | None => true end.
Definition pair_all {A} (p : A -> bool) (o : option (A * A)) : bool :=
  match o with Some (x, y) => p x && p y | None => true end.
Definition time_enc_ok (sub : bool) (t ns : option Z) : bool :=
  match t with Some x => in_u64 x && (negb sub || in_u32 (or0 ns)) | None => true end.
Definition ext_ok (l : list (bytes * bytes)) : bool :=
  (Z.of_nat (length l) <? TWO32) && forallb (fun p => str_ok (fst p) && str_ok (snd p)) l.

Definition attrs_enc_ok (v : Z) (a : attrs) : bool :=
  let sub := subsecond a in
  ((v <? 4) || in_u8 (enc_filetype v a)) &&
  opt_all in_u64 (a_size a) && opt_all in_u64 (a_alloc a) &&
  (if v =? 3 then
     pair_all in_u32 (opt_pair (a_uid a) (a_gid a)) &&
     (is_some (opt_pair (a_uid a) (a_gid a)) || negb (is_some (opt_pair (a_owner a) (a_group a))))
   else pair_all str_ok (opt_pair (a_owner a) (a_group a))) &&
  opt_all in_u32 (a_perm a) &&
  (if v =? 3 then pair_all in_u32 (opt_pair (a_atime a) (a_mtime a))
   else time_enc_ok sub (a_atime a) (a_atime_ns a) && time_enc_ok sub (a_crtime a) (a_crtime_ns a) &&
        time_enc_ok sub (a_mtime a) (a_mtime_ns a) &&
        ((v <? 6) || time_enc_ok sub (a_ctime a) (a_ctime_ns a))) &&
  ((v <? 4) || opt_all str_ok (a_acl a)) &&
  ((v <? 5) || pair_all in_u32 (opt_pair (a_bits a) (a_valid a))) &&
  ((v <? 6) || (opt_all in_u8 (a_hint a) && opt_all str_ok (a_mime a) &&
                opt_all in_u32 (a_nlink a) && opt_all str_ok (a_untrans a))) &&
  ext_ok (a_ext a).

(* optional field reader *)
Definition p_opt {A} (present : bool) (g : bytes -> option (A * bytes)) (b : bytes)
    : res (option A * bytes) :=
  if present then match g b with Some (x, r) => Ok (Some x, r) | None => Err EDecode end
  else Ok (None, b).

Definition get_time (sub : bool) (b : bytes) : option ((Z * option Z) * bytes) :=
  match get_u64 b with
  | Some (t, r) =>
      if sub then match get_u32 r with Some (ns, r') => Some ((t, Some ns), r') | None => None end
      else Some ((t, None), r)
  | None => None
  end.

(* the `for _ in range(count)` loop reading extended pairs; fuel = number of bytes left + 1, which
   the loop can never exhaust before get_string fails, so out-of-fuel = Incomplete packet *)
Fixpoint get_ext (fuel : nat) (count : Z) (b : bytes) : option (list (bytes * bytes) * bytes) :=
  if count <=? 0 then Some ([], b) else
  match fuel with
  | O => None
  | S f =>
    match get_pair get_string get_string b with
    | Some (kd, r) =>
        match get_ext f (count - 1) r with Some (l, r') => Some (kd :: l, r') | None => None end
    | None => None
    end
  end.

Definition get_owngrp (b : bytes) : res (option (bytes * bytes) * bytes) :=
  let* (o, b1) := lift (get_string b) in
  if negb (utf8_valid o) then Err (ESftp FX_OWNER_INVALID) else
  let* (g, b2) := lift (get_string b1) in
  if negb (utf8_valid g) then Err (ESftp FX_GROUP_INVALID) else
  Ok (Some (o, g), b2).

Definition tsec (x : option (Z * option Z)) : option Z := option_map fst x.
Definition tns (x : option (Z * option Z)) : option Z := match x with Some (_, ns) => ns | None => None end.

(* SFTPAttrs.decode(packet, sftp_version) after the flags word was read *)
Definition attrs_decode_body (v flags0 : Z) (b : bytes) : res (attrs * bytes) :=
  let v3 := v =? 3 in
  let flags := if v3 && has flags0 (Z.lor F_ACMOD F_MTIME) then Z.land flags0 (Z.lnot F_MTIME) else flags0 in
  if negb (Z.land flags (Z.lnot (valid_flags v)) =? 0) then Err (ESftp FX_BAD_MESSAGE) else
  let* (ty, b) := (if 4 <=? v then lift (get_byte b) else Ok (FT_UNKNOWN, b)) in
  let* (size, b) := p_opt (has flags F_SIZE) get_u64 b in
  let* (alloc, b) := p_opt (has flags F_ALLOC) get_u64 b in
  let* (ug, b) := p_opt (v3 && has flags F_UIDGID) (get_pair get_u32 get_u32) b in
  let* (og, b) := (if negb v3 && has flags F_OWNGRP then get_owngrp b else Ok (None, b)) in
  let* (mode, b) := p_opt (has flags F_PERM) get_u32 b in
  let ty := match mode with Some m => if v3 then filetype_of_mode m else ty | None => ty end in
  let perm := option_map (fun m => if v3 then Z.land m 65535 else Z.land m 4095) mode in
  let sub := has flags F_SUBSEC in
  let* (am, b) := p_opt (v3 && has flags F_ACMOD) (get_pair get_u32 get_u32) b in
  let* (at_, b) := p_opt (negb v3 && has flags F_ACMOD) (get_time sub) b in
  let* (crt, b) := p_opt (negb v3 && has flags F_CRTIME) (get_time sub) b in
  let* (mt, b) := p_opt (negb v3 && has flags F_MTIME) (get_time sub) b in
  let* (ct, b) := p_opt (negb v3 && has flags F_CTIME) (get_time sub) b in
  let* (acl, b) := p_opt (has flags F_ACL) get_string b in
  let* (bv, b) := p_opt (has flags F_BITS) (get_pair get_u32 get_u32) b in
  let* (hint, b) := p_opt (has flags F_HINT) get_byte b in
  let* (mime, b) := p_opt (has flags F_MIME) get_string b in
  if negb (opt_all utf8_valid mime) then Err (ESftp FX_BAD_MESSAGE) else
  let* (nlink, b) := p_opt (has flags F_NLINK) get_u32 b in
  let* (untrans, b) := p_opt (has flags F_UNTRANS) get_string b in
  let* (ext, b) := (if has flags F_EXT then
                      let* (count, b1) := lift (get_u32 b) in lift (get_ext (S (length b1)) count b1)
                    else Ok ([], b)) in
  Ok (mkattrs ty size alloc
        (option_map fst ug) (option_map snd ug) (option_map fst og) (option_map snd og) perm
        (if v3 then option_map fst am else tsec at_) (tns at_)
        (tsec crt) (tns crt)
        (if v3 then option_map snd am else tsec mt) (tns mt)
        (tsec ct) (tns ct)
        acl (option_map fst bv) (option_map snd bv) hint mime nlink untrans ext, b).

(* SFTPAttrs.decode(packet, sftp_version): result and the unread rest of the packet *)
Definition attrs_decode (v : Z) (b0 : bytes) : res (attrs * bytes) :=
  let* (flags0, b) := lift (get_u32 b0) in attrs_decode_body v flags0 b.

(* Which attribute records an SFTP version can carry: every field the version has no slot for is
   unset, paired fields come in pairs, numbers fit their wire width, text is valid UTF-8.
   (v3: the file type travels inside the permission word.) *)
Definition both_or_none {A B} (x : option A) (y : option B) : bool := Bool.eqb (is_some x) (is_some y).
Definition is_none {A} (o : option A) : bool := negb (is_some o).
Definition time_carriable (sub : bool) (t ns : option Z) : bool :=
  match t, ns with
  | None, None => true
  | None, Some _ => false
  | Some x, None => in_u64 x && negb sub
  | Some x, Some n => in_u64 x && in_u32 n
  end.

Definition attrs_carriable (v : Z) (a : attrs) : bool :=
  let sub := subsecond a in
  opt_all in_u64 (a_size a) && ext_ok (a_ext a) &&
  (if v =? 3 then
     (a_type a =? match a_perm a with Some m => filetype_of_mode m | None => FT_UNKNOWN end) &&
     opt_all (fun m => (0 <=? m) && (m <? 65536)) (a_perm a) &&
     is_none (a_alloc a) &&
     both_or_none (a_uid a) (a_gid a) && opt_all in_u32 (a_uid a) && opt_all in_u32 (a_gid a) &&
     is_none (a_owner a) && is_none (a_group a) &&
     both_or_none (a_atime a) (a_mtime a) && opt_all in_u32 (a_atime a) && opt_all in_u32 (a_mtime a) &&
     is_none (a_atime_ns a) && is_none (a_mtime_ns a) &&
     is_none (a_crtime a) && is_none (a_crtime_ns a) && is_none (a_ctime a) && is_none (a_ctime_ns a) &&
     is_none (a_acl a) && is_none (a_bits a) && is_none (a_valid a) &&
     is_none (a_hint a) && is_none (a_mime a) && is_none (a_nlink a) && is_none (a_untrans a)
   else
     in_u8 (a_type a) && ((5 <=? v) || (a_type a <? FT_SOCKET)) &&
     opt_all (fun m => (0 <=? m) && (m <? 4096)) (a_perm a) &&
     (if 6 <=? v then opt_all in_u64 (a_alloc a) else is_none (a_alloc a)) &&
     is_none (a_uid a) && is_none (a_gid a) &&
     both_or_none (a_owner a) (a_group a) &&
     opt_all (fun s => str_ok s && utf8_valid s) (a_owner a) &&
     opt_all (fun s => str_ok s && utf8_valid s) (a_group a) &&
     time_carriable sub (a_atime a) (a_atime_ns a) &&
     time_carriable sub (a_crtime a) (a_crtime_ns a) &&
     time_carriable sub (a_mtime a) (a_mtime_ns a) &&
     (if 6 <=? v then time_carriable sub (a_ctime a) (a_ctime_ns a)
      else is_none (a_ctime a) && is_none (a_ctime_ns a)) &&
     opt_all str_ok (a_acl a) &&
     (if 5 <=? v then both_or_none (a_bits a) (a_valid a) && opt_all in_u32 (a_bits a) && opt_all in_u32 (a_valid a)
      else is_none (a_bits a) && is_none (a_valid a)) &&
     (if 6 <=? v then opt_all in_u8 (a_hint a) && opt_all (fun s => str_ok s && utf8_valid s) (a_mime a) &&
                      opt_all in_u32 (a_nlink a) && opt_all str_ok (a_untrans a)
      else is_none (a_hint a) && is_none (a_mime a) && is_none (a_nlink a) && is_none (a_untrans a))).

(* ------------------------------------------------------------------------------------------ *)
(* 4. SFTPName                                                                                  *)

Record sname : Type := mkname { n_filename : bytes; n_longname : option bytes; n_attrs : attrs }.

Definition name_encode (v : Z) (n : sname) : bytes :=
  put_string (n_filename n) ++
  (if v =? 3 then put_string (match n_longname n with Some l => l | None => [] end) else []) ++
  attrs_encode v (n_attrs n).

(* String(None) raises TypeError: in v3 a long name must be present *)
Definition name_enc_ok (v : Z) (n : sname) : bool :=
  str_ok (n_filename n) &&
  (if v =? 3 then match n_longname n with Some l => str_ok l | None => false end else true) &&
  attrs_enc_ok v (n_attrs n).

Definition name_decode (v : Z) (b : bytes) : res (sname * bytes) :=
  let* (f, b) := lift (get_string b) in
  let* (l, b) := (if v =? 3 then let* (l, b) := lift (get_string b) in Ok (Some l, b) else Ok (None, b)) in
  let* (a, b) := attrs_decode v b in
  Ok (mkname f l a, b).

Definition name_carriable (v : Z) (n : sname) : bool :=
  str_ok (n_filename n) &&
  (if v =? 3 then match n_longname n with Some l => str_ok l | None => false end
   else is_none (n_longname n)) &&
  attrs_carriable v (n_attrs n).

(* the list of names in an FXP_NAME reply *)
Fixpoint names_decode (fuel : nat) (v count : Z) (b : bytes) : res (list sname * bytes) :=
  if count <=? 0 then Ok ([], b) else
  match fuel with
  | O => Err EDecode
  | S f =>
    let* (n, b) := name_decode v b in
    let* (l, b) := names_decode f v (count - 1) b in
    Ok (n :: l, b)
  end.

(* ------------------------------------------------------------------------------------------ *)
(* 5. status codes                                                                              *)

(* the minimum protocol version each status code is documented for (docs/api.rst "SFTP error codes") *)
Definition fx_min_version (code : Z) : Z :=
  if code <=? FX_V3_END then 3 else if code <=? FX_V4_END then 4
  else if code <=? FX_V5_END then 5 else 6.

(* SFTPError.encode(version): the code actually put on the wire *)
Definition status_code_for (v code : Z) : Z :=
  if (code =? FX_NOT_A_DIRECTORY) && (v <? 6) then FX_NO_SUCH_FILE
  else if (code <=? FX_V6_END) &&
          (((FX_V3_END <? code) && (v <=? 3)) || ((FX_V4_END <? code) && (v <=? 4)) ||
           ((FX_V5_END <? code) && (v <=? 5))) then FX_FAILURE
  else code.

Definition status_encode (v code : Z) (reason lang : bytes) : bytes :=
  put_u32 (status_code_for v code) ++ put_string reason ++ put_string lang.

(* the OSError ladder of SFTPServerHandler._process_packet, by symbolic errno:
   0 other, 1 ENOENT, 2 EACCES, 3 EEXIST, 4 EROFS, 5 ENOSPC, 6 EDQUOT, 7 ENOTEMPTY, 8 ENOTDIR,
   9 ENAMETOOLONG, 10 EILSEQ, 11 ELOOP, 12 EINVAL, 13 EISDIR *)
Definition errno_code (sym : Z) : Z :=
  if sym =? 1 then FX_NO_SUCH_FILE
  else if sym =? 2 then FX_PERMISSION_DENIED
  else if sym =? 3 then FX_FILE_ALREADY_EXISTS
  else if sym =? 4 then FX_WRITE_PROTECT
  else if sym =? 5 then FX_NO_SPACE_ON_FILESYSTEM
  else if sym =? 6 then FX_QUOTA_EXCEEDED
  else if sym =? 7 then FX_DIR_NOT_EMPTY
  else if sym =? 8 then FX_NOT_A_DIRECTORY
  else if (sym =? 9) || (sym =? 10) then FX_INVALID_FILENAME
  else if sym =? 11 then FX_LINK_LOOP
  else if sym =? 12 then FX_INVALID_PARAMETER
  else if sym =? 13 then FX_FILE_IS_A_DIRECTORY
  else FX_FAILURE.

(* trailing unknown-principal names of SFTPUnknownPrincipal.decode *)
Fixpoint get_utf8_strings (fuel : nat) (b : bytes) : res (list bytes) :=
  match b with
  | [] => Ok []
  | _ => match fuel with
         | O => Err EDecode
         | S f => let* (s, r) := lift (get_string b) in
                  if negb (utf8_valid s) then Err (ESftp FX_BAD_MESSAGE) else
                  let* l := get_utf8_strings f r in Ok (s :: l)
         end
  end.

(* SFTPError.construct + the check_end of _process_status: (code, reason, lang) *)
Definition status_decode (v : Z) (b0 : bytes) : res (Z * bytes * bytes) :=
  let* (code, b) := lift (get_u32 b0) in
  let* (rl, b) := (match b with
                   | [] => Ok (([], []), b)
                   | _ => let* (reason, b1) := lift (get_string b) in
                          if negb (utf8_valid reason) then Err (ESftp FX_BAD_MESSAGE) else
                          let* (lang, b2) := lift (get_string b1) in
                          if negb (ascii_valid lang) then Err (ESftp FX_BAD_MESSAGE) else
                          Ok ((reason, lang), b2)
                   end) in
  let* b := (if code =? FX_UNKNOWN_PRINCIPAL then
               let* _ := get_utf8_strings (S (length b)) b in Ok []
             else Ok b) in
  if (v <? 6) && negb (match b with [] => true | _ => false end) then Err EDecode
  else Ok (code, fst rl, snd rl).

(* ------------------------------------------------------------------------------------------ *)
(* 6. request -> reply type (SFTPHandler._return_types); unlisted requests are answered by STATUS *)

Definition EXT_STATVFS : bytes := [115;116;97;116;118;102;115;64;111;112;101;110;115;115;104;46;99;111;109].
Definition EXT_FSTATVFS : bytes := 102 :: EXT_STATVFS.
Definition EXT_LIMITS : bytes := [108;105;109;105;116;115;64;111;112;101;110;115;115;104;46;99;111;109].
Definition EXT_RANGES : bytes := [114;97;110;103;101;115;64;97;115;121;110;99;115;115;104;46;99;111;109].
Definition EXT_POSIX_RENAME : bytes :=
  [112;111;115;105;120;45;114;101;110;97;109;101;64;111;112;101;110;115;115;104;46;99;111;109].
Definition EXT_HARDLINK : bytes := [104;97;114;100;108;105;110;107;64;111;112;101;110;115;115;104;46;99;111;109].
Definition EXT_FSYNC : bytes := [102;115;121;110;99;64;111;112;101;110;115;115;104;46;99;111;109].
Definition EXT_LSETSTAT : bytes := [108;115;101;116;115;116;97;116;64;111;112;101;110;115;115;104;46;99;111;109].
Definition EXT_COPY_DATA : bytes := [99;111;112;121;45;100;97;116;97].

(* a request kind: plain packet type, or FXP_EXTENDED with a name *)
Inductive hkey : Type := HInt (t : Z) | HExt (name : bytes).

Definition return_type (k : hkey) : option Z :=
  match k with
  | HInt t =>
      if (t =? FXP_OPEN) || (t =? FXP_OPENDIR) then Some FXP_HANDLE
      else if t =? FXP_READ then Some FXP_DATA
      else if (t =? FXP_LSTAT) || (t =? FXP_FSTAT) || (t =? FXP_STAT) then Some FXP_ATTRS
      else if (t =? FXP_READDIR) || (t =? FXP_REALPATH) || (t =? FXP_READLINK) then Some FXP_NAME
      else None
  | HExt n =>
      if zlist_eqb n EXT_STATVFS || zlist_eqb n EXT_FSTATVFS || zlist_eqb n EXT_LIMITS || zlist_eqb n EXT_RANGES
      then Some FXP_EXTENDED_REPLY else None
  end.

(* ------------------------------------------------------------------------------------------ *)
(* 7. client: ids, waiter table, routing (SFTPClientHandler)                                    *)

(* A waiter is identified by the serial number of its request (0,1,2,... unbounded). *)
Record cstate : Type := mkc {
  c_next : Z;                 (* _next_pktid *)
  c_count : Z;                (* number of requests issued so far = serial of the next waiter *)
  c_reqs : list (Z * Z);      (* _requests: id -> waiter, in insertion order *)
  c_open : bool;              (* reader/writer still set *)
  c_cancelled : list Z        (* waiters whose future was cancelled while still in _requests *)
}.
Definition c_init : cstate := mkc 0 0 [] true [].

Inductive cev : Type :=
| CSend                                  (* a caller issues a request (_send_request) *)
| CRecv (pkttype id : Z) (payload : bytes)   (* a well-framed packet arrives *)
| CBadFrame                              (* a packet too short to hold type and id *)
| CEof                                   (* the channel ends *)
| CCancel (w : Z)                        (* the task awaiting request w is cancelled *)
| CAbort.                                (* the stream fails: ConnectionLost / DisconnectError (SSH Error) or OSError (reset) *)

Inductive cout : Type :=
| OSent (w id : Z)                        (* request of waiter w went out with this id *)
| ORefused (w : Z)                        (* SFTPNoConnection raised to the caller *)
| ODeliver (w pkttype id : Z) (payload : bytes)   (* waiter w's future resolved with this reply *)
| OFail (w : Z) (e : err)                 (* waiter w's future failed (session error) *)
| OCancelled (w : Z).                     (* waiter w's caller got CancelledError *)

Fixpoint dict_pop (d : list (Z * Z)) (k : Z) : option (Z * list (Z * Z)) :=
  match d with
  | [] => None
  | (k', w) :: r =>
      if k' =? k then Some (w, r)
      else match dict_pop r k with Some (x, r') => Some (x, (k', w) :: r') | None => None end
  end.
(* d[k] = w : an existing key keeps its position *)
Fixpoint dict_set (d : list (Z * Z)) (k w : Z) : list (Z * Z) :=
  match d with
  | [] => [(k, w)]
  | (k', w') :: r => if k' =? k then (k, w) :: r else (k', w') :: dict_set r k w
  end.

Definition memz (x : Z) (l : list Z) : bool := existsb (Z.eqb x) l.
Fixpoint removez (x : Z) (l : list Z) : list Z :=
  match l with [] => [] | y :: r => if x =? y then removez x r else y :: removez x r end.

(* _cleanup: every waiter that was not cancelled gets the exception *)
Definition c_cleanup (s : cstate) (e : err) : cstate * list cout :=
  (mkc (c_next s) (c_count s) [] false [],
   map (fun kw => OFail (snd kw) e) (filter (fun kw => negb (memz (snd kw) (c_cancelled s))) (c_reqs s))).

Definition FX_CONNECTION_LOST := 7.
Definition FX_NO_CONNECTION := 6.

Definition c_step (s : cstate) (e : cev) : cstate * list cout :=
  match e with
  | CSend =>
      let id := c_next s in
      let w := c_count s in
      let s' := mkc ((id + 1) mod TWO32) (w + 1) (dict_set (c_reqs s) id w) (c_open s) (c_cancelled s) in
      (s', [if c_open s then OSent w id else ORefused w])
  | CRecv ty id p =>
      if c_open s then
        match dict_pop (c_reqs s) id with
        | Some (w, rest) =>
            (* the entry of a cancelled waiter is still there: its late reply is dropped, not an error *)
            if memz w (c_cancelled s) then (mkc (c_next s) (c_count s) rest true (removez w (c_cancelled s)), [])
            else (mkc (c_next s) (c_count s) rest true (c_cancelled s), [ODeliver w ty id p])
        | None => c_cleanup s (ESftp FX_BAD_MESSAGE)
        end
      else (s, [])
  | CBadFrame => if c_open s then c_cleanup s (ESftp FX_BAD_MESSAGE) else (s, [])
  | CEof => if c_open s then c_cleanup s (ESftp FX_CONNECTION_LOST) else (s, [])
  (* recv_packets: except (OSError, Error) as exc -> _cleanup(exc): every waiter gets that exception *)
  | CAbort => if c_open s then c_cleanup s EOther else (s, [])
  | CCancel w =>
      if c_open s && memz w (map snd (c_reqs s)) && negb (memz w (c_cancelled s))
      then (mkc (c_next s) (c_count s) (c_reqs s) true (w :: c_cancelled s), [OCancelled w])
      else (s, [])
  end.

Fixpoint c_run (s : cstate) (evs : list cev) : cstate * list cout :=
  match evs with
  | [] => (s, [])
  | e :: r => let '(s1, o1) := c_step s e in
              let '(s2, o2) := c_run s1 r in (s2, o1 ++ o2)
  end.

(* what _make_request hands to its caller once its future resolved with (resptype, payload) *)
Inductive cval : Type :=
| VNone                                  (* FX_OK for a request answered by status only *)
| VHandle (h : bytes)
| VData (d : bytes) (at_end : bool)
| VNames (l : list sname) (at_end : bool)
| VAttrs (a : attrs)
| VExt (raw : bytes).

Definition at_end_flag (v : Z) (b : bytes) : res (bool * bytes) :=
  match b with
  | [] => Ok (false, b)
  | x :: r => if 6 <=? v then Ok (negb (x =? 0), r) else Ok (false, b)
  end.
Definition check_end_lt6 {A} (v : Z) (x : A) (b : bytes) : res A :=
  if (v <? 6) && negb (match b with [] => true | _ => false end) then Err EDecode else Ok x.

(* _make_request before the fix "report malformed SFTP replies ... as SFTPBadMessage": a reply body that
   cannot be decoded leaked packet.PacketDecodeError to the caller (kept as a refutation record) *)
Definition accept_old (v : Z) (rt : option Z) (resptype : Z) (payload : bytes) : res cval :=
  if negb ((resptype =? FXP_STATUS) || match rt with Some t => resptype =? t | None => false end)
  then Err (ESftp FX_BAD_MESSAGE)
  else if resptype =? FXP_STATUS then
    let* cr := status_decode v payload in
    let code := fst (fst cr) in
    if code =? FX_OK then
      match rt with None => Ok VNone | Some _ => Err (ESftp FX_BAD_MESSAGE) end
    else Err (ESftp code)
  else if resptype =? FXP_HANDLE then
    let* (h, b) := lift (get_string payload) in check_end_lt6 v (VHandle h) b
  else if resptype =? FXP_DATA then
    let* (d, b) := lift (get_string payload) in
    let* (e, b) := at_end_flag v b in check_end_lt6 v (VData d e) b
  else if resptype =? FXP_NAME then
    let* (count, b) := lift (get_u32 payload) in
    let* (l, b) := names_decode (S (length b)) v count b in
    let* (e, b) := at_end_flag v b in check_end_lt6 v (VNames l e) b
  else if resptype =? FXP_ATTRS then
    let* (a, b) := attrs_decode v payload in check_end_lt6 v (VAttrs a) b
  else Ok (VExt payload).

(* _make_request: the reply handler runs inside try/except PacketDecodeError -> SFTPBadMessage, so a reply
   of a legal type whose body cannot be decoded is reported to its caller as the SFTP error BAD_MESSAGE *)
Definition accept (v : Z) (rt : option Z) (resptype : Z) (payload : bytes) : res cval :=
  match accept_old v rt resptype payload with
  | Err EDecode => Err (ESftp FX_BAD_MESSAGE)
  | r => r
  end.

(* ------------------------------------------------------------------------------------------ *)
(* 8. server: one reply per request (SFTPServerHandler._process_packet)                         *)

Inductive fld : Type := FStr | FU32 | FU64 | FByte | FAttrs | FRest.   (* FRest: `while packet: get_string()` *)
Inductive endchk : Type := EndNever | EndAlways | EndLt6.
Inductive fval : Type := XStr (s : bytes) | XInt (n : Z) | XAttrs (a : attrs) | XStrs (l : list bytes).

Fixpoint get_strings (fuel : nat) (b : bytes) : option (list bytes) :=
  match b with
  | [] => Some []
  | _ => match fuel with
         | O => None
         | S f => match get_string b with
                  | Some (s, r) => match get_strings f r with Some l => Some (s :: l) | None => None end
                  | None => None
                  end
         end
  end.

Definition parse_fld (v : Z) (f : fld) (b : bytes) : res (fval * bytes) :=
  match f with
  | FStr => let* (s, r) := lift (get_string b) in Ok (XStr s, r)
  | FU32 => let* (n, r) := lift (get_u32 b) in Ok (XInt n, r)
  | FU64 => let* (n, r) := lift (get_u64 b) in Ok (XInt n, r)
  | FByte => let* (n, r) := lift (get_byte b) in Ok (XInt n, r)
  | FAttrs => let* (a, r) := attrs_decode v b in Ok (XAttrs a, r)
  | FRest => let* l := lift (get_strings (S (length b)) b) in Ok (XStrs l, [])
  end.

Fixpoint parse_flds (v : Z) (fs : list fld) (b : bytes) : res (list fval * bytes) :=
  match fs with
  | [] => Ok ([], b)
  | f :: r => let* (x, b1) := parse_fld v f b in
              let* (xs, b2) := parse_flds v r b1 in Ok (x :: xs, b2)
  end.

(* body layout of every request the server has a handler for; None = no handler *)
Definition req_spec (v : Z) (k : hkey) : option (list fld * endchk) :=
  match k with
  | HInt t =>
      if t =? FXP_OPEN then Some (if 5 <=? v then [FStr; FU32; FU32; FAttrs] else [FStr; FU32; FAttrs], EndLt6)
      else if t =? FXP_CLOSE then Some ([FStr], EndLt6)
      else if t =? FXP_READ then Some ([FStr; FU64; FU32], EndLt6)
      else if t =? FXP_WRITE then Some ([FStr; FU64; FStr], EndLt6)
      else if (t =? FXP_LSTAT) || (t =? FXP_FSTAT) || (t =? FXP_STAT) then
        Some (if 4 <=? v then [FStr; FU32] else [FStr], EndLt6)
      else if (t =? FXP_SETSTAT) || (t =? FXP_FSETSTAT) || (t =? FXP_MKDIR) then Some ([FStr; FAttrs], EndLt6)
      else if (t =? FXP_OPENDIR) || (t =? FXP_READDIR) || (t =? FXP_REMOVE) || (t =? FXP_RMDIR) ||
              (t =? FXP_READLINK) then Some ([FStr], EndLt6)
      else if t =? FXP_REALPATH then Some (if 6 <=? v then [FStr; FByte; FRest] else [FStr], EndNever)
      else if t =? FXP_RENAME then Some (if 5 <=? v then [FStr; FStr; FU32] else [FStr; FStr], EndLt6)
      else if t =? FXP_SYMLINK then Some ([FStr; FStr], EndAlways)
      else if t =? FXP_LINK then Some ([FStr; FStr; FByte], EndNever)
      else if t =? FXP_BLOCK then Some ([FStr; FU64; FU64; FU32], EndNever)
      else if t =? FXP_UNBLOCK then Some ([FStr; FU64; FU64], EndNever)
      else None
  | HExt n =>
      if zlist_eqb n EXT_POSIX_RENAME || zlist_eqb n EXT_HARDLINK then Some ([FStr; FStr], EndAlways)
      else if zlist_eqb n EXT_STATVFS || zlist_eqb n EXT_FSTATVFS || zlist_eqb n EXT_FSYNC then Some ([FStr], EndAlways)
      else if zlist_eqb n EXT_LSETSTAT then Some ([FStr; FAttrs], EndLt6)
      else if zlist_eqb n EXT_LIMITS then Some ([], EndAlways)
      else if zlist_eqb n EXT_COPY_DATA then Some ([FStr; FU64; FU64; FStr; FU64], EndAlways)
      else if zlist_eqb n EXT_RANGES then Some ([FStr; FU64; FU64], EndAlways)
      else None
  end.

(* what the application's SFTPServer method did when (if) the handler reached it *)
Inductive bres : Type :=
| BOk                   (* returned a usable value *)
| BEmpty                (* returned no data / no names / no ranges *)
| BSftp (code : Z)      (* raised SFTPError(code) *)
| BOs (sym : Z)         (* raised OSError with this (symbolic, see errno_code) errno *)
| BNotImpl              (* raised NotImplementedError *)
| BOther.               (* raised any other Exception *)

Record sstate : Type := mks {
  s_next_handle : Z;
  s_files : list bytes;     (* _file_handles keys *)
  s_dirs : list bytes;      (* _dir_handles keys *)
  s_open : bool
}.
Definition s_init : sstate := mks 0 [] [] true.

Definition mem_bytes (h : bytes) (l : list bytes) : bool := existsb (zlist_eqb h) l.
Fixpoint remove_bytes (h : bytes) (l : list bytes) : list bytes :=
  match l with [] => [] | x :: r => if zlist_eqb h x then r else x :: remove_bytes h r end.

(* _get_next_handle: skip handles in use; fuel = number of handles in use + 1 always suffices *)
Fixpoint next_handle (fuel : nat) (n : Z) (used : list bytes) : Z * bytes :=
  let h := put_u32 n in
  let n' := (n + 1) mod TWO32 in
  match fuel with
  | O => (n', h)
  | S f => if mem_bytes h used then next_handle f n' used else (n', h)
  end.

Inductive rbody : Type :=
| RStatus (code : Z)
| RHandle (h : bytes)
| RValue.                  (* data / names / attrs / extended reply produced from the application's value *)
Record reply : Type := mkreply { r_type : Z; r_id : Z; r_body : rbody }.

(* outcome of the `try` block: the reply type and body, or the exception that left it *)
Definition SUPPORTED_ACCESS := 391.   (* ACE4 read|write|append data, read|write attributes *)
Definition SUPPORTED_OPEN_FLAGS := 15. (* FXF_ACCESS_DISPOSITION | FXF_APPEND_DATA *)

Definition first_str (xs : list fval) : bytes := match xs with XStr s :: _ => s | _ => [] end.
Definition nth_int (xs : list fval) (i : nat) : Z := match nth i xs (XInt 0) with XInt n => n | _ => 0 end.
Definition nth_str (xs : list fval) (i : nat) : bytes := match nth i xs (XStr []) with XStr s => s | _ => [] end.

Inductive houtcome : Type :=
| HReply (s : sstate) (body : rbody)   (* handler returned: reply of the request's return type *)
| HRaise (s : sstate) (e : err)        (* SFTPError / PacketDecodeError / other exception *)
| HBackend (s : sstate).               (* reached the application method: outcome = the scripted bres *)

(* open / setstat / fsetstat / lsetstat format the decoded attributes for the debug log (hide_empty(attrs),
   evaluated eagerly); str(SFTPAttrs) calls time.ctime on every time stamp, which raises beyond the
   platform's range, and that exception leaves the handler.  Whether formatting succeeds is a parameter
   of the server model; the theorems hold for every such function. *)
Section Server.
Variable fmt_ok : attrs -> bool.

Definition nth_attrs_ok (xs : list fval) : bool :=
  forallb (fun x => match x with XAttrs a => fmt_ok a | _ => true end) xs.

(* the part of each handler after its body was read, up to the call into the application *)
Definition handler_sem (v : Z) (s : sstate) (k : hkey) (xs : list fval) : houtcome :=
  let need_file (h : bytes) := if mem_bytes h (s_files s) then HBackend s else HRaise s (ESftp FX_INVALID_HANDLE) in
  match k with
  | HInt t =>
      if ((t =? FXP_OPEN) || (t =? FXP_SETSTAT) || (t =? FXP_FSETSTAT)) && negb (nth_attrs_ok xs) then HRaise s EOther
      else if t =? FXP_OPEN then
        if (5 <=? v) && negb (Z.land (nth_int xs 1) (Z.lnot SUPPORTED_ACCESS) =? 0) then HRaise s (ESftp FX_INVALID_PARAMETER)
        else if (5 <=? v) && negb (Z.land (nth_int xs 2) (Z.lnot SUPPORTED_OPEN_FLAGS) =? 0) then HRaise s (ESftp FX_INVALID_PARAMETER)
        else HBackend s
      else if t =? FXP_CLOSE then
        let h := first_str xs in
        if mem_bytes h (s_files s) then HBackend (mks (s_next_handle s) (remove_bytes h (s_files s)) (s_dirs s) (s_open s))
        else if mem_bytes h (s_dirs s) then HReply (mks (s_next_handle s) (s_files s) (remove_bytes h (s_dirs s)) (s_open s)) (RStatus FX_OK)
        else HRaise s (ESftp FX_INVALID_HANDLE)
      else if (t =? FXP_READ) || (t =? FXP_WRITE) || (t =? FXP_FSTAT) || (t =? FXP_FSETSTAT) ||
              (t =? FXP_BLOCK) || (t =? FXP_UNBLOCK) then need_file (first_str xs)
      else if t =? FXP_OPENDIR then
        let '(n', h) := next_handle (S (length (s_files s ++ s_dirs s))) (s_next_handle s) (s_files s ++ s_dirs s) in
        HReply (mks n' (s_files s) (h :: s_dirs s) (s_open s)) (RHandle h)
      else if t =? FXP_READDIR then
        if mem_bytes (first_str xs) (s_dirs s) then HBackend s else HRaise s (ESftp FX_INVALID_HANDLE)
      else if t =? FXP_REALPATH then
        if (6 <=? v) && negb (rng 1 3 (nth_int xs 1)) then HRaise s (ESftp FX_INVALID_PARAMETER) else HBackend s
      else HBackend s
  | HExt n =>
      if zlist_eqb n EXT_LSETSTAT && negb (nth_attrs_ok xs) then HRaise s EOther
      else if zlist_eqb n EXT_FSTATVFS || zlist_eqb n EXT_FSYNC then need_file (first_str xs)
      else if zlist_eqb n EXT_RANGES then
        (* an empty range request produces no ranges: SFTPEOFError without touching the file *)
        if mem_bytes (first_str xs) (s_files s) && (nth_int xs 2 <=? 0) then HRaise s (ESftp FX_EOF)
        else need_file (first_str xs)
      else if zlist_eqb n EXT_COPY_DATA then
        if mem_bytes (nth_str xs 0) (s_files s) && mem_bytes (nth_str xs 3) (s_files s) then
          (* source and destination are the same open file: refused (SFTPFailure) before any I/O *)
          if zlist_eqb (nth_str xs 0) (nth_str xs 3) then HRaise s (ESftp FX_FAILURE) else HBackend s
        else HRaise s (ESftp FX_INVALID_HANDLE)
      else if zlist_eqb n EXT_LIMITS then HReply s RValue
      else HBackend s
  end.

(* does an empty result of this request mean end-of-file? *)
Definition empty_is_eof (k : hkey) : bool :=
  match k with
  | HInt t => (t =? FXP_READ) || (t =? FXP_READDIR)
  | HExt n => zlist_eqb n EXT_RANGES
  end.

(* the exception ladder: every way out of the try block ends in exactly one status body *)
Definition ladder (v : Z) (e : err) : rbody :=
  match e with
  | EDecode => RStatus FX_BAD_MESSAGE
  | ESftp code => RStatus (status_code_for v code)
  | EOther => RStatus FX_FAILURE
  end.

Definition reply_type_of (k : hkey) : Z := match return_type k with Some t => t | None => FXP_STATUS end.

(* one request packet (type, id already read) -> new state and the packets sent *)
Definition s_process (v : Z) (s : sstate) (pkttype pktid : Z) (body : bytes) (br : bres) : sstate * list reply :=
  let status (s' : sstate) (rb : rbody) := (s', [mkreply FXP_STATUS pktid rb]) in
  let kr : res (hkey * bytes) :=
    if pkttype =? FXP_EXTENDED then let* (n, r) := lift (get_string body) in Ok (HExt n, r)
    else Ok (HInt pkttype, body) in
  match kr with
  | Err e => status s (ladder v e)
  | Ok (k, b) =>
    match req_spec v k with
    | None => status s (RStatus FX_OP_UNSUPPORTED)
    | Some (fs, ec) =>
      match parse_flds v fs b with
      | Err e => status s (ladder v e)
      | Ok (xs, rest) =>
        let trailing := negb (match rest with [] => true | _ => false end) in
        if trailing && match ec with EndNever => false | EndAlways => true | EndLt6 => v <? 6 end
        then status s (RStatus FX_BAD_MESSAGE)
        else
          match handler_sem v s k xs with
          | HRaise s' e => status s' (ladder v e)
          | HReply s' rb => (s', [mkreply (reply_type_of k) pktid rb])
          | HBackend s' =>
            let ok_reply := (s', [mkreply (reply_type_of k) pktid
                                   (match return_type k with None => RStatus FX_OK | Some _ => RValue end)]) in
            let br := match br with BEmpty => if empty_is_eof k then BEmpty else BOk | x => x end in
            match br with
            | BSftp code => status s' (ladder v (ESftp code))
            | BOs sym => status s' (RStatus (status_code_for v (errno_code sym)))
            | BNotImpl => status s' (RStatus FX_OP_UNSUPPORTED)
            | BOther => status s' (RStatus FX_FAILURE)
            | BEmpty => status s' (RStatus FX_EOF)
            | BOk =>
                match k with
                | HInt t =>
                    if t =? FXP_OPEN then
                      let '(n', h) := next_handle (S (length (s_files s' ++ s_dirs s'))) (s_next_handle s')
                                                  (s_files s' ++ s_dirs s') in
                      (mks n' (h :: s_files s') (s_dirs s') (s_open s'), [mkreply FXP_HANDLE pktid (RHandle h)])
                    else ok_reply
                | HExt _ => ok_reply
                end
            end
          end
      end
    end
  end.

(* recv_packets: a packet too short for type+id ends the session without a reply *)
Definition s_step (v : Z) (s : sstate) (pb : bytes * bres) : sstate * list reply :=
  if s_open s then
    match get_byte (fst pb) with
    | None => (mks (s_next_handle s) [] [] false, [])
    | Some (ty, b) =>
      match get_u32 b with
      | None => (mks (s_next_handle s) [] [] false, [])
      | Some (id, body) => s_process v s ty id body (snd pb)
      end
    end
  else (s, []).

Fixpoint s_run (v : Z) (s : sstate) (pkts : list (bytes * bres)) : sstate * list (list reply) :=
  match pkts with
  | [] => (s, [])
  | p :: r => let '(s1, o1) := s_step v s p in
              let '(s2, o2) := s_run v s1 r in (s2, o1 :: o2)
  end.

End Server.

(* ------------------------------------------------------------------------------------------ *)
(* 9. boolean checks of tables extracted from the running code (Gen/SftpTables.v) against this model *)

Definition VERSIONS : list Z := [3; 4; 5; 6].
Definition upto (n : nat) : list Z := map Z.of_nat (seq 0 n).
Fixpoint assoc_z (k : Z) (l : list (Z * Z)) : option Z :=
  match l with [] => None | (k', x) :: r => if k' =? k then Some x else assoc_z k r end.

(* OSError(errno) -> status code per version; rows are (errno, symbolic index, codes for v3..v6) *)
Definition errno_table_ok (tab : list (Z * Z * list Z)) : bool :=
  forallb (fun r => let '(_, sym, codes) := r in
                    list_eqb Z.eqb codes (map (fun v => status_code_for v (errno_code sym)) VERSIONS)) tab.

(* SFTPError(code) -> status code per version *)
Definition sftp_table_ok (tab : list (Z * list Z)) : bool :=
  forallb (fun r => list_eqb Z.eqb (snd r) (map (fun v => status_code_for v (fst r)) VERSIONS)) tab.

(* which packet types 0..255 have a handler, per version *)
Definition handled_table_ok (tab : list (Z * list Z)) : bool :=
  forallb (fun r => let '(v, l) := r in
                    forallb (fun t => Bool.eqb (is_some (req_spec v (HInt t))) (existsb (Z.eqb t) l)) (upto 256)) tab.

(* which single attribute flag bits the decoder accepts, per version *)
Definition bit_accepted (v k : Z) : bool :=
  match attrs_decode v (put_u32 (2 ^ k) ++ repeat 0 96) with
  | Err (ESftp 5) => false
  | _ => true
  end.
Definition attr_bits_table_ok (tab : list (Z * list Z)) : bool :=
  forallb (fun r => let '(v, l) := r in
                    forallb (fun k => Bool.eqb (bit_accepted v k) (existsb (Z.eqb k) l)) (upto 32)) tab.

(* the exception the client builds for a status code carries that code *)
Definition client_err_table_ok (tab : list (Z * Z)) : bool := forallb (fun r => snd r =? fst r) tab.

(* SFTPHandler._return_types (when the attribute could be read) *)
Definition return_types_table_ok (avail : bool) (ti : list (Z * Z)) (te : list (bytes * Z)) : bool :=
  negb avail ||
  (forallb (fun t => option_eqb Z.eqb (return_type (HInt t)) (assoc_z t ti)) (upto 256) &&
   forallb (fun r => option_eqb Z.eqb (return_type (HExt (fst r))) (Some (snd r))) te &&
   forallb (fun n => existsb (fun r => zlist_eqb n (fst r)) te) [EXT_STATVFS; EXT_FSTATVFS; EXT_LIMITS; EXT_RANGES]).
