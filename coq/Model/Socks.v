(* C20 - executable model of the SOCKS4 / SOCKS4a / SOCKS5 request parser of asyncssh/socks.py
   (class SSHSOCKSForwarder: data_received and the _recv_* handlers, _connect, _send_socks4_ok,
   _send_socks5_ok, and SSHForwarder.close as far as it concerns the parser).  No proofs here.

   Python runs with assertions enabled (the default); `assert self._transport is not None`
   failing is modelled as [k_crash] (an AssertionError escapes data_received into the event loop).
   A host is kept as data, not as text: the 4 / 16 address bytes handed to ipaddress.ip_address,
   or the UTF-8 bytes of a host name (str(ip_address(..)) formatting is the standard library's). *)
From AV Require Import Base.Prelude.

Inductive host := HName (utf8 : bytes) | HV4 (b : bytes) | HV6 (b : bytes).

Definition host_eqb (a b : host) : bool :=
  match a, b with
  | HName x, HName y | HV4 x, HV4 y | HV6 x, HV6 y => zlist_eqb x y
  | _, _ => false
  end.

(* `if self._host:` - only the empty string is falsy; str(ip_address(..)) is never empty *)
Definition host_truthy (h : host) : bool :=
  match h with HName [] => false | _ => true end.

Inductive handler :=
  | HVersion | HS4Addr | HS4User | HS4Host
  | HS5Auth | HS5Cmd | HS5Addr | HS5HostLen | HS5Host | HS5Port
  | HNone.

Definition is_none (h : handler) : bool := match h with HNone => true | _ => false end.

(* calls on the SOCKS client's socket transport *)
Inductive sev := SWrite (d : bytes) | SClose.

Record sk := mkSk {
  k_h : handler;          (* _recv_handler *)
  k_need : Z;             (* _bytes_needed; negative = up to the next NUL *)
  k_buf : bytes;          (* _inpbuf while parsing *)
  k_host : host;          (* _host ('' initially) *)
  k_port : Z;             (* _port *)
  k_atyp : Z;             (* _addrtype *)
  k_tr : bool;            (* _transport is not None *)
  k_out : list sev;       (* transport.write / transport.close calls, oldest first *)
  k_req : option (host * Z);   (* forward(self._host, self._port, ...) was called with these *)
  k_early : bytes;        (* bytes handed on to SSHLocalForwarder.data_received (relayed later) *)
  k_crash : bool;         (* AssertionError escaped *)
  k_oof : bool            (* model only: the loop fuel ran out (never happens, see SocksProofs) *)
}.

Definition sk0 : sk := mkSk HVersion 2 [] (HName []) 0 0 true [] None [] false false.

Definition set_h (s : sk) (h : handler) (need : Z) : sk :=
  mkSk h need (k_buf s) (k_host s) (k_port s) (k_atyp s) (k_tr s) (k_out s) (k_req s) (k_early s)
       (k_crash s) (k_oof s).
Definition set_buf (s : sk) (b : bytes) : sk :=
  mkSk (k_h s) (k_need s) b (k_host s) (k_port s) (k_atyp s) (k_tr s) (k_out s) (k_req s) (k_early s)
       (k_crash s) (k_oof s).
Definition set_host (s : sk) (h : host) : sk :=
  mkSk (k_h s) (k_need s) (k_buf s) h (k_port s) (k_atyp s) (k_tr s) (k_out s) (k_req s) (k_early s)
       (k_crash s) (k_oof s).
Definition set_port (s : sk) (p : Z) : sk :=
  mkSk (k_h s) (k_need s) (k_buf s) (k_host s) p (k_atyp s) (k_tr s) (k_out s) (k_req s) (k_early s)
       (k_crash s) (k_oof s).
Definition set_atyp (s : sk) (a : Z) : sk :=
  mkSk (k_h s) (k_need s) (k_buf s) (k_host s) (k_port s) a (k_tr s) (k_out s) (k_req s) (k_early s)
       (k_crash s) (k_oof s).
Definition crash (s : sk) : sk :=
  mkSk (k_h s) (k_need s) (k_buf s) (k_host s) (k_port s) (k_atyp s) (k_tr s) (k_out s) (k_req s) (k_early s)
       true (k_oof s).
Definition out_of_fuel (s : sk) : sk :=
  mkSk (k_h s) (k_need s) (k_buf s) (k_host s) (k_port s) (k_atyp s) (k_tr s) (k_out s) (k_req s) (k_early s)
       (k_crash s) true.
Definition add_early (s : sk) (d : bytes) : sk :=
  mkSk (k_h s) (k_need s) (k_buf s) (k_host s) (k_port s) (k_atyp s) (k_tr s) (k_out s) (k_req s)
       (k_early s ++ d) (k_crash s) (k_oof s).

(* SSHForwarder.close(): `if self._transport: self._transport.close(); self._transport = None`
   (there is no peer yet).  _recv_handler is NOT cleared. *)
Definition sclose (s : sk) : sk :=
  if k_tr s then
    mkSk (k_h s) (k_need s) (k_buf s) (k_host s) (k_port s) (k_atyp s) false (k_out s ++ [SClose])
         (k_req s) (k_early s) (k_crash s) (k_oof s)
  else s.

(* `assert self._transport is not None; self._transport.write(d)` *)
Definition swrite (s : sk) (d : bytes) : sk :=
  if k_tr s then
    mkSk (k_h s) (k_need s) (k_buf s) (k_host s) (k_port s) (k_atyp s) true (k_out s ++ [SWrite d])
         (k_req s) (k_early s) (k_crash s) (k_oof s)
  else crash s.

(* _connect: assert transport; _recv_handler = None; forward(host, port, orig_host, orig_port) *)
Definition sconnect (s : sk) : sk :=
  if k_crash s then s
  else if k_tr s then
    mkSk HNone (k_need s) (k_buf s) (k_host s) (k_port s) (k_atyp s) true (k_out s)
         (Some (k_host s, k_port s)) (k_early s) false (k_oof s)
  else crash s.

Definition SOCKS4_OK_RESPONSE : bytes := [0; 90; 0; 0; 0; 0; 0; 0].
Definition socks5_addr_len (atyp : Z) : Z := if atyp =? 1 then 4 else 16.
Definition socks5_ok_response (atyp : Z) : bytes :=
  [5; 0; 0; atyp] ++ repeat 0 (Z.to_nat (socks5_addr_len atyp + 2)).

(* strict UTF-8 validity as enforced by bytes.decode('utf-8') *)
Definition ucont (b : Z) : bool := (128 <=? b) && (b <=? 191).
Fixpoint utf8_ok (l : bytes) : bool :=
  match l with
  | [] => true
  | b0 :: r0 =>
      if b0 <? 128 then (0 <=? b0) && utf8_ok r0
      else match r0 with
      | [] => false
      | b1 :: r1 =>
          if (194 <=? b0) && (b0 <=? 223) then ucont b1 && utf8_ok r1
          else match r1 with
          | [] => false
          | b2 :: r2 =>
              if b0 =? 224 then (160 <=? b1) && (b1 <=? 191) && ucont b2 && utf8_ok r2
              else if b0 =? 237 then (128 <=? b1) && (b1 <=? 159) && ucont b2 && utf8_ok r2
              else if (225 <=? b0) && (b0 <=? 239) then ucont b1 && ucont b2 && utf8_ok r2
              else match r2 with
              | [] => false
              | b3 :: r3 =>
                  if b0 =? 240 then (144 <=? b1) && (b1 <=? 191) && ucont b2 && ucont b3 && utf8_ok r3
                  else if b0 =? 244 then (128 <=? b1) && (b1 <=? 143) && ucont b2 && ucont b3 && utf8_ok r3
                  else if (241 <=? b0) && (b0 <=? 243) then ucont b1 && ucont b2 && ucont b3 && utf8_ok r3
                  else false
              end
          end
      end
  end.

Definition nth0 (l : bytes) (i : nat) : Z := nth i l 0.
Definition zmem0 (l : bytes) : bool := existsb (Z.eqb 0) l.

(* one call of self._recv_handler(data) *)
Definition call (s : sk) (data : bytes) : sk :=
  match k_h s with
  | HVersion =>
      if nth0 data 0 =? 4 then
        if nth0 data 1 =? 1 then set_h s HS4Addr 6 else sclose s
      else if nth0 data 0 =? 5 then set_h s HS5Auth (nth0 data 1)
      else sclose s
  | HS4Addr =>
      let s := set_port s (nth0 data 0 * 256 + nth0 data 1) in
      let s := if negb ((nth0 data 2 =? 0) && (nth0 data 3 =? 0) && (nth0 data 4 =? 0))
                  || (nth0 data 5 =? 0)
               then set_host s (HV4 (skipn 2 data)) else s in
      set_h s HS4User (-1)
  | HS4User =>
      if host_truthy (k_host s)
      then sconnect (swrite s SOCKS4_OK_RESPONSE)
      else set_h s HS4Host (-1)
  | HS4Host =>
      if utf8_ok data
      then sconnect (swrite (set_host s (HName data)) SOCKS4_OK_RESPONSE)
      else sclose s
  | HS5Auth =>
      if k_tr s then
        if zmem0 data then set_h (swrite s [5; 0]) HS5Cmd 4 else sclose s
      else crash s
  | HS5Cmd =>
      if (nth0 data 0 =? 5) && (nth0 data 1 =? 1) && (nth0 data 2 =? 0) then
        if nth0 data 3 =? 3 then set_atyp (set_h s HS5HostLen 1) 1
        else if nth0 data 3 =? 1 then set_atyp (set_h s HS5Addr 4) 1
        else if nth0 data 3 =? 4 then set_atyp (set_h s HS5Addr 16) 4
        else sclose s
      else sclose s
  | HS5Addr =>
      set_h (set_host s (if Nat.eqb (length data) 4 then HV4 data else HV6 data)) HS5Port 2
  | HS5HostLen => set_h s HS5Host (nth0 data 0)
  | HS5Host =>
      if utf8_ok data then set_h (set_host s (HName data)) HS5Port 2 else sclose s
  | HS5Port =>
      let s := set_port s (nth0 data 0 * 256 + nth0 data 1) in
      sconnect (swrite s (socks5_ok_response (k_atyp s)))
  | HNone => s
  end.

(* bytes.find(b'\0'): split at the first NUL *)
Fixpoint find0 (l : bytes) : option (bytes * bytes) :=
  match l with
  | [] => None
  | x :: r => if x =? 0 then Some ([], r)
              else match find0 r with
                   | Some (a, b) => Some (x :: a, b)
                   | None => None
                   end
  end.

(* the proposed repair (fx = true): every close also clears _recv_handler, so the loop stops;
   fx = false is the code as it is *)
Definition fixup (fx : bool) (s s' : sk) : sk :=
  if fx && k_tr s && negb (k_tr s') then set_h s' HNone (k_need s') else s'.
Definition callx (fx : bool) (s : sk) (data : bytes) : sk := fixup fx s (call s data).

(* the `while self._recv_handler:` loop of data_received.  The second component says how the
   loop ended: true = the while condition became false (fall through to the code after the
   loop), false = `return` from inside the loop / exception. *)
Fixpoint pump (fx : bool) (fuel : nat) (s : sk) : sk * bool :=
  if k_crash s then (s, false)
  else if is_none (k_h s) then (s, true)
  else match fuel with
  | O => (out_of_fuel s, false)
  | S f =>
      if k_need s <? 0 then
        match find0 (k_buf s) with
        | Some (d, rest) => pump fx f (callx fx (set_buf s rest) d)
        | None => if Z.of_nat (length (k_buf s)) >? 255 then (fixup fx s (sclose s), false)
                  else (s, false)
        end
      else
        if Z.of_nat (length (k_buf s)) >=? k_need s
        then pump fx f (callx fx (set_buf s (skipn (Z.to_nat (k_need s)) (k_buf s)))
                                 (firstn (Z.to_nat (k_need s)) (k_buf s)))
        else (s, false)
  end.

Definition pump_fuel (s : sk) : nat := length (k_buf s) + 16.

(* SSHSOCKSForwarder.data_received(data) *)
Definition data_received (fx : bool) (s : sk) (chunk : bytes) : sk :=
  if is_none (k_h s) then
    match chunk with [] => s | _ => add_early s chunk end
  else
    let s := set_buf s (k_buf s ++ chunk) in
    let '(s, fell_through) := pump fx (pump_fuel s) s in
    if fell_through then
      match k_buf s with
      | [] => s
      | d => add_early (set_buf s []) d
      end
    else s.

(* what the socket transport does: nothing is delivered once the forwarder closed the transport
   or an exception escaped (asyncio then force-closes the transport) *)
Definition feed (fx : bool) (s : sk) (chunk : bytes) : sk :=
  if k_crash s || negb (k_tr s) then s else data_received fx s chunk.

Definition feed_all (fx : bool) (chunks : list bytes) : sk := fold_left (feed fx) chunks sk0.

(* the code as it is now *)
Definition socks_fx_head : bool := true.

(* SSHSOCKSForwarder.eof_received (fe = true: the proposed repair, an EOF while the request is still
   being parsed closes the forwarder; fe = false: inherited SSHForwarder.eof_received, which with no
   peer just records the EOF and answers "keep open" - and nothing will ever close that socket).
   Returns the new state and the answer given to the transport (true = keep the transport open).
   Once the request is complete the inherited behaviour is the pair model's EofA. *)
Definition seof (fe : bool) (s : sk) : sk * bool :=
  if is_none (k_h s) then (s, true)
  else if fe then (set_h (sclose s) HNone (k_need s), false)
  else (s, true).

(* the code as it is now: repaired by 18cb9f6 (an EOF while the request is still being parsed closes the forwarder) *)
Definition socks_eof_fx_head : bool := true.


(* ---------------------------------------------------------------------------------------- *)
(* Specification side: what a well-formed request is and what it asks for. *)

Inductive sreq :=
  | R4 (ip : bytes) (port : Z) (user : bytes)                      (* SOCKS4 *)
  | R4a (x : Z) (port : Z) (user : bytes) (name : bytes)           (* SOCKS4a, address 0.0.0.x *)
  | R5 (methods : bytes) (dst : host) (port : Z).                  (* SOCKS5 greeting + CONNECT *)

Definition zlen (l : bytes) : Z := Z.of_nat (length l).
Definition is_byte (b : Z) : bool := (0 <=? b) && (b <=? 255).
Definition all_bytes (l : bytes) : bool := forallb is_byte l.
Definition port_ok (p : Z) : bool := (0 <=? p) && (p <=? 65535).
Definition cstr_ok (l : bytes) : bool := all_bytes l && negb (zmem0 l) && (zlen l <=? 255).

Definition host_ok5 (h : host) : bool :=
  match h with
  | HV4 b => all_bytes b && (zlen b =? 4)
  | HV6 b => all_bytes b && (zlen b =? 16)
  | HName n => all_bytes n && (zlen n <=? 255) && utf8_ok n
  end.

Definition req_ok (r : sreq) : bool :=
  match r with
  | R4 ip port user =>
      all_bytes ip && (zlen ip =? 4) && port_ok port && cstr_ok user &&
      (negb ((nth0 ip 0 =? 0) && (nth0 ip 1 =? 0) && (nth0 ip 2 =? 0)) || (nth0 ip 3 =? 0))
  | R4a x port user name =>
      (1 <=? x) && (x <=? 255) && port_ok port && cstr_ok user && cstr_ok name && utf8_ok name
  | R5 methods dst port =>
      all_bytes methods && (zlen methods <=? 255) && zmem0 methods && host_ok5 dst && port_ok port
  end.

Definition enc_port (p : Z) : bytes := [p / 256; p mod 256].

Definition encode (r : sreq) : bytes :=
  match r with
  | R4 ip port user => [4; 1] ++ enc_port port ++ ip ++ user ++ [0]
  | R4a x port user name => [4; 1] ++ enc_port port ++ [0; 0; 0; x] ++ user ++ [0] ++ name ++ [0]
  | R5 methods dst port =>
      [5; zlen methods] ++ methods ++ [5; 1; 0] ++
      match dst with
      | HV4 b => 1 :: b
      | HV6 b => 4 :: b
      | HName n => 3 :: zlen n :: n
      end ++ enc_port port
  end.

Definition target (r : sreq) : host * Z :=
  match r with
  | R4 ip port _ => (HV4 ip, port)
  | R4a _ port _ name => (HName name, port)
  | R5 _ dst port => (dst, port)
  end.

Definition replies (r : sreq) : list sev :=
  match r with
  | R4 _ _ _ | R4a _ _ _ _ => [SWrite SOCKS4_OK_RESPONSE]
  | R5 _ dst _ => [SWrite [5; 0];
                   SWrite (socks5_ok_response (match dst with HV6 _ => 4 | _ => 1 end))]
  end.
