(* Executable model of the stream and process read side of asyncssh.
   Sources modelled (asyncssh, /repo):
     SSHStreamSession.data_received / eof_received / connection_lost     stream.py
     SSHServerStreamSession.exception_received (break, signal, soft EOF)  stream.py
     SSHStreamSession._maybe_pause_reading / _maybe_resume_reading        stream.py
     SSHStreamSession.read (read n / read to EOF / readexactly)          stream.py "async def read"
     SSHStreamSession.readuntil / readline (incremental search window)   stream.py "async def readuntil"
     SSHStreamSession.drain, pause_writing, resume_writing               stream.py "async def drain"
     SSHClientProcess.wait / communicate / collect_output, exit status   process.py, channel.py
     SSHProcess.data_received / eof_received / feed_recv_buf (redirects) process.py
   One data type (stdout or stderr) per modelled session: the receive buffer of that data type.
   A coroutine that awaits is a function that returns either a finished result or a saved local
   state ("blocked"); it is re-entered with that state when the scheduler runs it again.
   chan.resume_reading() may deliver data synchronously (the real channel flushes its queue from
   inside the call): each resume takes the next batch of an environment-supplied list of batches.
   The model of record follows /repo as repaired by b8d274c (data_received ignores empty data) and d47620c
   (readuntil re-evaluates the read pause after consuming data in front of a queued exception).  The
   functions take a flag [fx]: true = the repaired code, false = the code before those two commits, kept only
   for the *_refuted theorems of Props/C19.v.  The plain names are the repaired code.
   No proofs here. *)
From AV Require Import Base.Prelude.

Definition zlen (b : bytes) : Z := Z.of_nat (length b).

(* an element of SSHStreamSession._recv_buf[datatype] *)
Inductive item := Chunk (b : bytes) | Exn (e : Z).

(* exception codes: 0 = SoftEOFReceived, anything else = BreakReceived / SignalReceived /
   TerminalSizeChanged / the exception passed to connection_lost *)
Definition SOFT_EOF : Z := 0.

Record sess := mkSess {
  rbuf : list item;        (* _recv_buf[datatype] *)
  eof : bool;              (* _eof_received *)
  lost : bool;             (* _connection_lost *)
  lost_exc : option Z;     (* _exception *)
  blen : Z;                (* _recv_buf_len *)
  rpaused : bool;          (* _read_paused *)
  wpaused : bool;          (* _write_paused *)
  limit : Z;               (* _limit = chan.get_recv_window() *)
  calls : list bool;       (* chan.pause_reading() = true / chan.resume_reading() = false, latest first *)
  (* history variables (not in the code, never read by the model): *)
  dl : list item;          (* every item ever appended to the receive buffer, in order *)
  late : bool              (* an item was appended after EOF had been received *)
}.

Definition init_sess (lim : Z) : sess := mkSess [] false false None 0 false false lim [] [] false.

Definition set_rbuf (s : sess) (rb : list item) (bl : Z) : sess :=
  mkSess rb (eof s) (lost s) (lost_exc s) bl (rpaused s) (wpaused s) (limit s) (calls s) (dl s) (late s).

(* recv_buf.append(it) *)
Definition push (s : sess) (it : item) (add : Z) : sess :=
  mkSess (rbuf s ++ [it]) (eof s) (lost s) (lost_exc s) (blen s + add) (rpaused s) (wpaused s) (limit s)
         (calls s) (dl s ++ [it]) (late s || eof s).

(* _should_pause_reading: bool(self._limit) and self._recv_buf_len >= self._limit *)
Definition should_pause (s : sess) : bool := negb (limit s =? 0) && (limit s <=? blen s).

Definition set_flags (s : sess) (e l : bool) (x : option Z) (rp wp : bool) (c : list bool) : sess :=
  mkSess (rbuf s) e l x (blen s) rp wp (limit s) c (dl s) (late s).

Definition maybe_pause (s : sess) : sess :=
  if negb (rpaused s) && should_pause s
  then set_flags s (eof s) (lost s) (lost_exc s) true (wpaused s) (true :: calls s)
  else s.

Definition maybe_resume (s : sess) : sess * bool :=
  if rpaused s && negb (should_pause s)
  then (set_flags s (eof s) (lost s) (lost_exc s) false (wpaused s) (false :: calls s), true)
  else (s, false).

(* callbacks from the channel *)
Inductive ev :=
| EvData (b : bytes)          (* data_received *)
| EvExn (e : Z)               (* exception_received / break_received / signal_received / soft_eof_received *)
| EvEof                       (* eof_received *)
| EvLost (exc : option Z)     (* connection_lost *)
| EvPauseW                    (* pause_writing *)
| EvResumeW.                  (* resume_writing *)

Definition is_nil {A} (l : list A) : bool := match l with [] => true | _ => false end.

Definition deliver_v (fx : bool) (s : sess) (e : ev) : sess :=
  match e with
  | EvData d => if fx && is_nil d then s       (* b8d274c: if not data: return *)
                else maybe_pause (push s (Chunk d) (zlen d))
  | EvExn x => push s (Exn x) 0
  | EvEof => set_flags s true (lost s) (lost_exc s) (rpaused s) (wpaused s) (calls s)
  | EvLost exc =>
      let s1 := if eof s then s else match exc with Some x => push s (Exn x) 0 | None => s end in
      set_flags s1 true true exc (rpaused s) (wpaused s) (calls s)
  | EvPauseW => set_flags s (eof s) (lost s) (lost_exc s) (rpaused s) true (calls s)
  | EvResumeW => set_flags s (eof s) (lost s) (lost_exc s) (rpaused s) false (calls s)
  end.

Definition deliver_all_v (fx : bool) (s : sess) (b : list ev) : sess := fold_left (deliver_v fx) b s.

Notation deliver := (deliver_v true).
Notation deliver_all := (deliver_all_v true).

(* chan.resume_reading() was just called (resumed = true): the environment's next batch is
   delivered synchronously *)
Definition after_resume_v (fx : bool) (s : sess) (resumed : bool) (orc : list (list ev)) : sess * list (list ev) :=
  if resumed then match orc with b :: orc' => (deliver_all_v fx s b, orc') | [] => (s, []) end
  else (s, orc).
Notation after_resume := (after_resume_v true).

(* ------------------------------------------------------------------------------------------ *)
(* results of read calls *)
Inductive result :=
| ROk (d : bytes)
| RIncomplete (partial : bytes) (expected : option Z)    (* asyncio.IncompleteReadError *)
| RRaise (e : Z)                                         (* the buffered exception is raised *)
| RTypeError                                             (* "exceptions must derive from BaseException" *)
| RValueError                                            (* empty separator *)
| RBrokenPipe.                                           (* drain: BrokenPipeError *)

(* local variables of a suspended read / readuntil call *)
Record loc := mkLoc {
  l_n : Z;          (* read: n *)
  l_acc : bytes;    (* read: b''.join(data) ; readuntil: buf *)
  l_got : bool;     (* read: bool(data), i.e. the list of collected chunks is non-empty *)
  l_cur : nat;      (* readuntil: curbuf *)
  l_buflen : Z      (* readuntil: buflen *)
}.

Inductive outcome := Done (r : result) | Blocked (l : loc).

(* ---- read --------------------------------------------------------------------------------- *)
Inductive rexit := XFall | XBreakRead | XRaise (e : Z).

(* the inner "while recv_buf and n != 0" loop *)
Fixpoint read_inner (rb : list item) (n : Z) (acc : bytes) (got : bool) (bl : Z)
  : list item * Z * bytes * bool * Z * rexit :=
  match rb with
  | [] => (rb, n, acc, got, bl, XFall)
  | it :: rest =>
      if n =? 0 then (rb, n, acc, got, bl, XFall) else
      match it with
      | Exn e =>
          if got then (rb, n, acc, got, bl, XBreakRead)
          else if e =? SOFT_EOF then (rest, 0, acc, got, bl, XFall)
          else (rest, n, acc, got, bl, XRaise e)
      | Chunk d =>
          let l := zlen d in
          if (n <? l) && (0 <? n)
          then (Chunk (skipn (Z.to_nat n) d) :: rest, 0, acc ++ firstn (Z.to_nat n) d, true, bl - n, XFall)
          else read_inner rest (n - l) (acc ++ d) true (bl - l)
      end
  end.

(* the break condition and the result construction after the loop *)
Definition read_finish (exact : bool) (s : sess) (n : Z) (acc : bytes) (got : bool) (brk : bool) : outcome :=
  if (n =? 0) || ((0 <? n) && got && negb exact)
     || ((n <? 0) && (match rbuf s with [] => false | _ => true end))
     || eof s || brk
  then Done (if (0 <? n) && exact then RIncomplete acc (Some (zlen acc + n)) else ROk acc)
  else Blocked (mkLoc n acc got 0 0).

(* the outer "while True" loop; one iteration per synchronous resume batch *)
Fixpoint read_loop_v (fx : bool) (exact : bool) (orc : list (list ev)) (s : sess) (n : Z) (acc : bytes) (got : bool) {struct orc}
  : outcome * sess * list (list ev) :=
  let '(rb, n1, acc1, got1, bl1, ex) := read_inner (rbuf s) n acc got (blen s) in
  let s1 := set_rbuf s rb bl1 in
  match ex with
  | XRaise e => (Done (RRaise e), s1, orc)
  | _ =>
      let brk := match ex with XBreakRead => true | _ => false end in
      let '(s2, resumed) := maybe_resume s1 in
      match resumed, orc with
      | true, b :: orc' =>
          if brk then (read_finish exact (deliver_all_v fx s2 b) n1 acc1 got1 true, deliver_all_v fx s2 b, orc')
          else read_loop_v fx exact orc' (deliver_all_v fx s2 b) n1 acc1 got1
      | _, _ => (read_finish exact s2 n1 acc1 got1 brk, s2, orc)
      end
  end.
Notation read_loop := (read_loop_v true).

(* ---- readuntil ------------------------------------------------------------------------------ *)
(* re.compile('|'.join(re.escape(sep))).search(buf, start): leftmost start position, and at that
   position the first alternative (in list order) that matches; returns match.end() *)
Fixpoint match_at (seps : list bytes) (s : bytes) : option Z :=
  match seps with
  | [] => None
  | p :: r => if zprefix p s then Some (zlen p) else match_at r s
  end.

Fixpoint search_from (seps : list bytes) (s : bytes) (pos : Z) : option Z :=
  match match_at seps s with
  | Some l => Some (pos + l)
  | None => match s with [] => None | _ :: r => search_from seps r (pos + 1) end
  end.

Definition search (seps : list bytes) (buf : bytes) (start : Z) : option Z :=
  search_from seps (skipn (Z.to_nat start) buf) start.

(* start = 0 if seplen == 0 else max(buflen + 1 - seplen, 0) *)
Definition search_start (seplen buflen : Z) : Z :=
  if seplen =? 0 then 0 else Z.max (buflen + 1 - seplen) 0.

Inductive scan :=
| ScanMatch (cur : nat) (buf : bytes) (idx : Z)
| ScanExn (cur : nat) (buf : bytes) (buflen : Z)
| ScanEnd (cur : nat) (buf : bytes) (buflen : Z).

(* "while curbuf < len(recv_buf)" over recv_buf[curbuf:] *)
Fixpoint until_scan (seps : list bytes) (seplen : Z) (rest : list item) (cur : nat) (buf : bytes) (buflen : Z) : scan :=
  match rest with
  | [] => ScanEnd cur buf buflen
  | Exn _ :: _ => ScanExn cur buf buflen
  | Chunk d :: rest' =>
      let buf' := buf ++ d in
      match search seps buf' (search_start seplen buflen) with
      | Some idx => ScanMatch cur buf' idx
      | None => until_scan seps seplen rest' (S cur) buf' (buflen + zlen d)
      end
  end.

Definition until_run_v (fx : bool) (seps : list bytes) (seplen : Z) (orc : list (list ev)) (s : sess) (l : loc)
  : outcome * sess * list (list ev) :=
  let rb := rbuf s in
  match until_scan seps seplen (skipn (l_cur l) rb) (l_cur l) (l_acc l) (l_buflen l) with
  | ScanMatch c buf idx =>
      let tailbuf := skipn (Z.to_nat idx) buf in
      let rb2 := match skipn c rb with
                 | _ :: r => if is_nil tailbuf then r else Chunk tailbuf :: r
                 | [] => []
                 end in
      let '(s2, resumed) := maybe_resume (set_rbuf s rb2 (blen s - idx)) in
      let '(s3, orc') := after_resume_v fx s2 resumed orc in
      (Done (ROk (firstn (Z.to_nat idx) buf)), s3, orc')
  | ScanExn c buf bl =>
      if negb (is_nil buf)
      then if fx
           then (* d47620c: self._maybe_resume_reading() before raising *)
                let '(s2, resumed) := maybe_resume (set_rbuf s (skipn c rb) (blen s - bl)) in
                let '(s3, orc') := after_resume_v fx s2 resumed orc in
                (Done (RIncomplete buf None), s3, orc')
           else (Done (RIncomplete buf None), set_rbuf s (skipn c rb) (blen s - bl), orc)
      else match rb with               (* exc = recv_buf.pop(0) *)
           | Exn e :: r => (Done (if e =? SOFT_EOF then ROk buf else RRaise e), set_rbuf s r (blen s), orc)
           | Chunk _ :: r => (Done RTypeError, set_rbuf s r (blen s), orc)
           | [] => (Done RTypeError, s, orc)
           end
  | ScanEnd c buf bl =>
      if rpaused s || eof s
      then let '(s2, resumed) := maybe_resume (set_rbuf s (skipn c rb) (blen s - bl)) in
           let '(s3, orc') := after_resume_v fx s2 resumed orc in
           (Done (RIncomplete buf None), s3, orc')
      else (Blocked (mkLoc 0 buf false c bl), s, orc)
  end.
Notation until_run := (until_run_v true).

(* ---- drain ---------------------------------------------------------------------------------- *)
Definition drain_run (s : sess) : outcome :=
  if wpaused s && negb (lost s) then Blocked (mkLoc 0 [] false 0 0)
  else if lost s then
    match lost_exc s with
    | Some e => Done (RRaise e)
    | None => if wpaused s then Done RBrokenPipe else Done (ROk [])
    end
  else Done (ROk []).

(* ---- calls made by one consumer coroutine --------------------------------------------------- *)
Inductive op :=
| OpRead (n : Z)                 (* SSHReader.read(n) *)
| OpExact (n : Z)                (* SSHReader.readexactly(n) *)
| OpUntil1 (sep : bytes)         (* readuntil(bytes) *)
| OpUntilN (seps : list bytes)   (* readuntil(sequence of bytes) *)
| OpLine                         (* readline() *)
| OpDrain.                       (* SSHWriter.drain() *)

Definition NL : Z := 10.

Definition max_len (seps : list bytes) : Z := fold_left (fun m p => Z.max m (zlen p)) seps 0.

Definition loc0 (o : op) : loc :=
  match o with
  | OpRead n | OpExact n => mkLoc n [] false 0 0
  | _ => mkLoc 0 [] false 0 0
  end.

Definition line_result (o : outcome) : outcome :=
  match o with Done (RIncomplete p _) => Done (ROk p) | _ => o end.

Definition run_op_v (fx : bool) (o : op) (l : loc) (orc : list (list ev)) (s : sess) : outcome * sess * list (list ev) :=
  match o with
  | OpRead _ => read_loop_v fx false orc s (l_n l) (l_acc l) (l_got l)
  | OpExact _ => read_loop_v fx true orc s (l_n l) (l_acc l) (l_got l)
  | OpUntil1 sep => if is_nil sep then (Done RValueError, s, orc) else until_run_v fx [sep] (zlen sep) orc s l
  | OpUntilN seps => if is_nil seps then (Done RValueError, s, orc) else until_run_v fx seps (max_len seps) orc s l
  | OpLine => let '(r, s', orc') := until_run_v fx [[NL]] 1 orc s l in (line_result r, s', orc')
  | OpDrain => (drain_run s, s, orc)
  end.
Notation run_op := (run_op_v true).

(* the consumer: runs its calls in order until one blocks *)
Fixpoint run_ops_v (fx : bool) (ops : list (op * loc)) (orc : list (list ev)) (s : sess)
  : list result * list (op * loc) * sess * list (list ev) :=
  match ops with
  | [] => ([], [], s, orc)
  | (o, l) :: rest =>
      match run_op_v fx o l orc s with
      | (Done r, s', orc') =>
          let '(rs, rem, s'', orc'') := run_ops_v fx rest orc' s' in (r :: rs, rem, s'', orc'')
      | (Blocked l', s', orc') => ([], (o, l') :: rest, s', orc')
      end
  end.
Notation run_ops := (run_ops_v true).

(* a schedule: channel callbacks and turns of the consumer, in any order *)
Inductive step := SDeliver (e : ev) | SRun (orc : list (list ev)).

Record world := mkWorld { w_sess : sess; w_ops : list (op * loc); w_res : list result }.

Definition wstep_v (fx : bool) (w : world) (st : step) : world :=
  match st with
  | SDeliver e => mkWorld (deliver_v fx (w_sess w) e) (w_ops w) (w_res w)
  | SRun orc =>
      let '(rs, rem, s', _) := run_ops_v fx (w_ops w) orc (w_sess w) in
      mkWorld s' rem (w_res w ++ rs)
  end.
Notation wstep := (wstep_v true).

Definition init_world (lim : Z) (prog : list op) : world :=
  mkWorld (init_sess lim) (map (fun o => (o, loc0 o)) prog) [].

Definition run_sched_v (fx : bool) (lim : Z) (prog : list op) (sch : list step) : world :=
  fold_left (wstep_v fx) sch (init_world lim prog).
Notation run_sched := (run_sched_v true).
(* the code before b8d274c and d47620c *)
Notation run_sched_old := (run_sched_v false).

(* ------------------------------------------------------------------------------------------ *)
(* Process level: what SSHClientProcess.wait() / SSHClientConnection.run() report.
   Channel messages arrive in any order; wait() returns only once the channel is closed
   (communicate sets the limit to 0, awaits wait_closed, then collect_output). *)
Inductive wire :=
| WOut (d : bytes) | WErr (d : bytes) | WEof | WExit (status : Z) | WSignal | WClose.

Record proc := mkProc {
  p_out : bytes; p_err : bytes; p_status : option Z; p_signal : bool; p_eof : bool; p_closed : bool }.

Definition proc0 : proc := mkProc [] [] None false false false.

Definition proc_step (p : proc) (m : wire) : proc :=
  if p_closed p then p else
  match m with
  | WOut d => if p_eof p then p else mkProc (p_out p ++ d) (p_err p) (p_status p) (p_signal p) (p_eof p) false
  | WErr d => if p_eof p then p else mkProc (p_out p) (p_err p ++ d) (p_status p) (p_signal p) (p_eof p) false
  | WEof => mkProc (p_out p) (p_err p) (p_status p) (p_signal p) true false
  | WExit st => mkProc (p_out p) (p_err p) (Some (Z.land st 255)) (p_signal p) (p_eof p) false
  | WSignal => mkProc (p_out p) (p_err p) (p_status p) true (p_eof p) false
  | WClose => mkProc (p_out p) (p_err p) (p_status p) (p_signal p) (p_eof p) true
  end.

(* SSHClientChannel.get_exit_status *)
Definition exit_status (p : proc) : option Z :=
  match p_status p with Some s => Some s | None => if p_signal p then Some (-1) else None end.

(* wait(): None = still waiting *)
Definition proc_wait (p : proc) : option (option Z * bytes * bytes) :=
  if p_closed p then Some (exit_status p, p_out p, p_err p) else None.

Definition proc_run (ms : list wire) : proc := fold_left proc_step ms proc0.

(* ------------------------------------------------------------------------------------------ *)
(* Redirection of received data to a writer (file, pipe, stream, another process):
   SSHProcess.data_received / exception_received / eof_received / set_writer + feed_recv_buf *)
Inductive wtok := TData (d : bytes) | TExc (e : Z) | TEof.

Record redir := mkRedir { r_buf : list item; r_eof : bool; r_writer : bool; r_recv_eof : bool; r_written : list wtok }.

Inductive revent := RvData (d : bytes) | RvExn (e : Z) | RvEof | RvSetWriter (recv_eof : bool).

Definition item_tok (i : item) : wtok := match i with Chunk d => TData d | Exn e => TExc e end.

Definition redir_step (r : redir) (e : revent) : redir :=
  match e with
  | RvData d => if r_writer r then mkRedir (r_buf r) (r_eof r) true (r_recv_eof r) (r_written r ++ [TData d])
                else mkRedir (r_buf r ++ [Chunk d]) (r_eof r) false (r_recv_eof r) (r_written r)
  | RvExn x => if r_writer r then mkRedir (r_buf r) (r_eof r) true (r_recv_eof r) (r_written r ++ [TExc x])
               else mkRedir (r_buf r ++ [Exn x]) (r_eof r) false (r_recv_eof r) (r_written r)
  | RvEof => mkRedir (r_buf r) true (r_writer r) (r_recv_eof r)
                     (if r_writer r && r_recv_eof r then r_written r ++ [TEof] else r_written r)
  | RvSetWriter re =>
      (* feed_recv_buf: the buffered items first, then write_eof() if EOF was already received; a
         writer closes its target only when it was attached with recv_eof *)
      mkRedir [] (r_eof r) true re
              (r_written r ++ map item_tok (r_buf r) ++ (if r_eof r && re then [TEof] else []))
  end.

Definition redir0 : redir := mkRedir [] false false false [].
Definition redir_run (es : list revent) : redir := fold_left redir_step es redir0.

(* ------------------------------------------------------------------------------------------ *)
(* Asynchronously written redirect targets (process.py _AsyncFileWriter, _StreamWriter, _PipeWriter).
   Until the writer is attached (create_process / redirect still awaiting connect_write_pipe) received data
   and EOF stay in the receive buffer; attaching feeds them to the writer (feed_recv_buf).  Data and EOF
   handed to the writer are queued; a writer task (or the pipe transport) moves one queued item to the target
   per turn, EOF = the target is closed (e328342: before the queue is reported as joined).
   SSHProcess.wait_closed(), on which wait()/run()/communicate() rest, returns when the channel is closed AND
   the cleanup tasks (queue.join() / the pipe's close event) are done; since fb5761c a pipe writer attached
   after the channel has closed registers its cleanup task too.  [await_done_old] is the code before
   fb5761c, kept only for the *_old_refuted theorem. *)
Record aredir := mkA { a_buf : list wtok; a_queue : list wtok; a_target : list wtok;
                       a_chan_closed : bool; a_att : bool; a_late : bool }.
Inductive aev := AvData (d : bytes) | AvEof | AvAttach | AvTurn | AvClose.

Definition a_recv (a : aredir) (x : wtok) : aredir :=
  if a_chan_closed a then a
  else if a_att a then mkA (a_buf a) (a_queue a ++ [x]) (a_target a) false true (a_late a)
  else mkA (a_buf a ++ [x]) (a_queue a) (a_target a) false false (a_late a).

Definition astep (a : aredir) (e : aev) : aredir :=
  match e with
  | AvData d => a_recv a (TData d)
  | AvEof => a_recv a TEof
  | AvAttach => if a_att a then a
                else mkA [] (a_queue a ++ a_buf a) (a_target a) (a_chan_closed a) true (a_chan_closed a)
  | AvTurn => match a_queue a with
              | x :: q => mkA (a_buf a) q (a_target a ++ [x]) (a_chan_closed a) (a_att a) (a_late a)
              | [] => a
              end
  | AvClose => mkA (a_buf a) (a_queue a) (a_target a) true (a_att a) (a_late a)
  end.

Definition arun (es : list aev) : aredir := fold_left astep es (mkA [] [] [] false false false).
(* wait() is called after the target has been attached *)
Definition await_done (a : aredir) : bool := a_chan_closed a && a_att a && is_nil (a_queue a).
Definition await_done_old (a : aredir) : bool := a_chan_closed a && a_att a && (is_nil (a_queue a) || a_late a).
