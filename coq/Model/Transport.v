(* C06 - hand model of the transport/authentication layer of asyncssh's packet receive path.

   Modelled source (asyncssh/connection.py unless stated otherwise):
     SSHConnection._recv_packet            the phase gate in front of every received packet      [dispatch]
     SSHConnection._finish_recv_packet     receive sequence number, strict reset, _auth_final   [finish_recv]
     SSHConnection.send_packet             deferral rules, IGNORE before non-kex packets,
                                           send sequence number with strict reset               [send_packet, note_sent]
     SSHConnection._recv_version, _send_kexinit, _process_kexinit, _process_newkeys, send_newkeys
     SSHConnection._process_disconnect/_ignore/_unimplemented/_debug/_service_request/
                   _service_accept/_ext_info
     SSHConnection._process_userauth_request/_finish_userauth/_failure/_success/_banner,
                   send_userauth_failure, send_userauth_success
     SSHClientConnection.try_next_auth;  auth.py: ClientAuth (none, password), _ServerPasswordAuth,
                   lookup_server_auth;  kex_dh.py: _KexDHBase._process_init/_process_reply (role checks)
     packet.py: SSHPacketHandler.process_packet (unknown type -> False -> UNIMPLEMENTED / strict violation)

   A message is (type, cls): the type byte and a small class of its (well-formed) body, see [cls] comments.
   The connection layer (types >= 80 once authentication is complete) is NOT modelled: such messages only
   move the counters and are reported as delegated.  asyncio is modelled as run-to-suspension: created
   tasks sit in [pending] until an EvSettle event runs them (FIFO); handlers that are coroutines (_process_kexinit,
   _finish_userauth) run to completion within the packet's own step, as asyncssh buffers further input for them.  Application callbacks are fixed to
   what the harness applications answer: begin_auth = True, validate_password = table lookup,
   password_auth_requested = a password, password_change_requested = NotImplemented,
   client preferred_auth folded into the class of USERAUTH_FAILURE, no rekey thresholds, no timers, no compression, no GSS, no EXT_INFO sent.

   The functions that depend on them carry two switches ([..._g fixed fixk]) so that one set of lemmas
   covers the code before and after two repairs:
   [fixed]  USERAUTH_SUCCESS is accepted only while a request of the current auth object has been issued
            (/repo 5ecc05e); false = the code before that commit;
   [fixk]   a KEXINIT is refused while the peer's NEWKEYS is still awaited (/repo 9276b6d); false = before.
   THE MODEL OF RECORD is the repaired code: [dispatch], [recv], [step], [run] below are the _g functions at
   true true, and only those are compared with the running code.  The [..._old] definitions (false false)
   exist for the _refuted theorems about the code as it was. *)
From AV Require Import Base.Prelude.

Inductive task :=
| TClientAuth (m : Z)                         (* ClientAuth._start of method m: 0 none, 1 password, 2 keyboard-interactive *)
| TChangePw                                   (* _ClientPasswordAuth._change_password *)
| TClientKbdResp (cancel : Z)                 (* _ClientKbdIntAuth._receive_challenge: 0 answers, else the user cancels *)
| TClientPkSign                               (* _ClientPublicKeyAuth._send_signed_request *)
| TServerPw (u pw : Z)                        (* _ServerPasswordAuth._start for user u *)
| TServerKbd (u : Z)                          (* _ServerKbdIntAuth._start: sends the challenge *)
| TServerKbdResp (u ok : Z)                   (* _ServerKbdIntAuth._validate_response; ok = 0: the answer is right *)
| TServerPk.                                  (* _ServerPublicKeyAuth._start with a key the application rejects *)

Record conn := mkconn {
  srv : bool;
  strict : bool;
  sid : bool;
  kex : bool;
  kexinit_sent : bool;
  kex_complete : bool;
  send_enc : bool;
  recv_enc : bool;
  next_recv : bool;
  can_recv_ext : bool;
  next_service : bool;
  auth_in_prog : bool;
  auth : Z;
  req_issued : bool;
  methods : list Z;
  auth_complete : bool;
  auth_final : bool;
  user : Z;
  deferred : list Z;
  pending : list task;
  closed : bool;
  authed : Z;
  unsolicited : bool;
  app_events : Z;
  desync : bool;
  olog : list (Z * Z);
  deleg : bool;
  gated : bool;
  waiting : bool;
  ignore_first : bool
}.

Definition set_srv (v : bool) (c : conn) : conn := mkconn v (strict c) (sid c) (kex c) (kexinit_sent c) (kex_complete c) (send_enc c) (recv_enc c) (next_recv c) (can_recv_ext c) (next_service c) (auth_in_prog c) (auth c) (req_issued c) (methods c) (auth_complete c) (auth_final c) (user c) (deferred c) (pending c) (closed c) (authed c) (unsolicited c) (app_events c) (desync c) (olog c) (deleg c) (gated c) (waiting c) (ignore_first c).
Definition set_strict (v : bool) (c : conn) : conn := mkconn (srv c) v (sid c) (kex c) (kexinit_sent c) (kex_complete c) (send_enc c) (recv_enc c) (next_recv c) (can_recv_ext c) (next_service c) (auth_in_prog c) (auth c) (req_issued c) (methods c) (auth_complete c) (auth_final c) (user c) (deferred c) (pending c) (closed c) (authed c) (unsolicited c) (app_events c) (desync c) (olog c) (deleg c) (gated c) (waiting c) (ignore_first c).
Definition set_sid (v : bool) (c : conn) : conn := mkconn (srv c) (strict c) v (kex c) (kexinit_sent c) (kex_complete c) (send_enc c) (recv_enc c) (next_recv c) (can_recv_ext c) (next_service c) (auth_in_prog c) (auth c) (req_issued c) (methods c) (auth_complete c) (auth_final c) (user c) (deferred c) (pending c) (closed c) (authed c) (unsolicited c) (app_events c) (desync c) (olog c) (deleg c) (gated c) (waiting c) (ignore_first c).
Definition set_kex (v : bool) (c : conn) : conn := mkconn (srv c) (strict c) (sid c) v (kexinit_sent c) (kex_complete c) (send_enc c) (recv_enc c) (next_recv c) (can_recv_ext c) (next_service c) (auth_in_prog c) (auth c) (req_issued c) (methods c) (auth_complete c) (auth_final c) (user c) (deferred c) (pending c) (closed c) (authed c) (unsolicited c) (app_events c) (desync c) (olog c) (deleg c) (gated c) (waiting c) (ignore_first c).
Definition set_kexinit_sent (v : bool) (c : conn) : conn := mkconn (srv c) (strict c) (sid c) (kex c) v (kex_complete c) (send_enc c) (recv_enc c) (next_recv c) (can_recv_ext c) (next_service c) (auth_in_prog c) (auth c) (req_issued c) (methods c) (auth_complete c) (auth_final c) (user c) (deferred c) (pending c) (closed c) (authed c) (unsolicited c) (app_events c) (desync c) (olog c) (deleg c) (gated c) (waiting c) (ignore_first c).
Definition set_kex_complete (v : bool) (c : conn) : conn := mkconn (srv c) (strict c) (sid c) (kex c) (kexinit_sent c) v (send_enc c) (recv_enc c) (next_recv c) (can_recv_ext c) (next_service c) (auth_in_prog c) (auth c) (req_issued c) (methods c) (auth_complete c) (auth_final c) (user c) (deferred c) (pending c) (closed c) (authed c) (unsolicited c) (app_events c) (desync c) (olog c) (deleg c) (gated c) (waiting c) (ignore_first c).
Definition set_send_enc (v : bool) (c : conn) : conn := mkconn (srv c) (strict c) (sid c) (kex c) (kexinit_sent c) (kex_complete c) v (recv_enc c) (next_recv c) (can_recv_ext c) (next_service c) (auth_in_prog c) (auth c) (req_issued c) (methods c) (auth_complete c) (auth_final c) (user c) (deferred c) (pending c) (closed c) (authed c) (unsolicited c) (app_events c) (desync c) (olog c) (deleg c) (gated c) (waiting c) (ignore_first c).
Definition set_recv_enc (v : bool) (c : conn) : conn := mkconn (srv c) (strict c) (sid c) (kex c) (kexinit_sent c) (kex_complete c) (send_enc c) v (next_recv c) (can_recv_ext c) (next_service c) (auth_in_prog c) (auth c) (req_issued c) (methods c) (auth_complete c) (auth_final c) (user c) (deferred c) (pending c) (closed c) (authed c) (unsolicited c) (app_events c) (desync c) (olog c) (deleg c) (gated c) (waiting c) (ignore_first c).
Definition set_next_recv (v : bool) (c : conn) : conn := mkconn (srv c) (strict c) (sid c) (kex c) (kexinit_sent c) (kex_complete c) (send_enc c) (recv_enc c) v (can_recv_ext c) (next_service c) (auth_in_prog c) (auth c) (req_issued c) (methods c) (auth_complete c) (auth_final c) (user c) (deferred c) (pending c) (closed c) (authed c) (unsolicited c) (app_events c) (desync c) (olog c) (deleg c) (gated c) (waiting c) (ignore_first c).
Definition set_can_recv_ext (v : bool) (c : conn) : conn := mkconn (srv c) (strict c) (sid c) (kex c) (kexinit_sent c) (kex_complete c) (send_enc c) (recv_enc c) (next_recv c) v (next_service c) (auth_in_prog c) (auth c) (req_issued c) (methods c) (auth_complete c) (auth_final c) (user c) (deferred c) (pending c) (closed c) (authed c) (unsolicited c) (app_events c) (desync c) (olog c) (deleg c) (gated c) (waiting c) (ignore_first c).
Definition set_next_service (v : bool) (c : conn) : conn := mkconn (srv c) (strict c) (sid c) (kex c) (kexinit_sent c) (kex_complete c) (send_enc c) (recv_enc c) (next_recv c) (can_recv_ext c) v (auth_in_prog c) (auth c) (req_issued c) (methods c) (auth_complete c) (auth_final c) (user c) (deferred c) (pending c) (closed c) (authed c) (unsolicited c) (app_events c) (desync c) (olog c) (deleg c) (gated c) (waiting c) (ignore_first c).
Definition set_auth_in_prog (v : bool) (c : conn) : conn := mkconn (srv c) (strict c) (sid c) (kex c) (kexinit_sent c) (kex_complete c) (send_enc c) (recv_enc c) (next_recv c) (can_recv_ext c) (next_service c) v (auth c) (req_issued c) (methods c) (auth_complete c) (auth_final c) (user c) (deferred c) (pending c) (closed c) (authed c) (unsolicited c) (app_events c) (desync c) (olog c) (deleg c) (gated c) (waiting c) (ignore_first c).
Definition set_auth (v : Z) (c : conn) : conn := mkconn (srv c) (strict c) (sid c) (kex c) (kexinit_sent c) (kex_complete c) (send_enc c) (recv_enc c) (next_recv c) (can_recv_ext c) (next_service c) (auth_in_prog c) v (req_issued c) (methods c) (auth_complete c) (auth_final c) (user c) (deferred c) (pending c) (closed c) (authed c) (unsolicited c) (app_events c) (desync c) (olog c) (deleg c) (gated c) (waiting c) (ignore_first c).
Definition set_req_issued (v : bool) (c : conn) : conn := mkconn (srv c) (strict c) (sid c) (kex c) (kexinit_sent c) (kex_complete c) (send_enc c) (recv_enc c) (next_recv c) (can_recv_ext c) (next_service c) (auth_in_prog c) (auth c) v (methods c) (auth_complete c) (auth_final c) (user c) (deferred c) (pending c) (closed c) (authed c) (unsolicited c) (app_events c) (desync c) (olog c) (deleg c) (gated c) (waiting c) (ignore_first c).
Definition set_methods (v : list Z) (c : conn) : conn := mkconn (srv c) (strict c) (sid c) (kex c) (kexinit_sent c) (kex_complete c) (send_enc c) (recv_enc c) (next_recv c) (can_recv_ext c) (next_service c) (auth_in_prog c) (auth c) (req_issued c) v (auth_complete c) (auth_final c) (user c) (deferred c) (pending c) (closed c) (authed c) (unsolicited c) (app_events c) (desync c) (olog c) (deleg c) (gated c) (waiting c) (ignore_first c).
Definition set_auth_complete (v : bool) (c : conn) : conn := mkconn (srv c) (strict c) (sid c) (kex c) (kexinit_sent c) (kex_complete c) (send_enc c) (recv_enc c) (next_recv c) (can_recv_ext c) (next_service c) (auth_in_prog c) (auth c) (req_issued c) (methods c) v (auth_final c) (user c) (deferred c) (pending c) (closed c) (authed c) (unsolicited c) (app_events c) (desync c) (olog c) (deleg c) (gated c) (waiting c) (ignore_first c).
Definition set_auth_final (v : bool) (c : conn) : conn := mkconn (srv c) (strict c) (sid c) (kex c) (kexinit_sent c) (kex_complete c) (send_enc c) (recv_enc c) (next_recv c) (can_recv_ext c) (next_service c) (auth_in_prog c) (auth c) (req_issued c) (methods c) (auth_complete c) v (user c) (deferred c) (pending c) (closed c) (authed c) (unsolicited c) (app_events c) (desync c) (olog c) (deleg c) (gated c) (waiting c) (ignore_first c).
Definition set_user (v : Z) (c : conn) : conn := mkconn (srv c) (strict c) (sid c) (kex c) (kexinit_sent c) (kex_complete c) (send_enc c) (recv_enc c) (next_recv c) (can_recv_ext c) (next_service c) (auth_in_prog c) (auth c) (req_issued c) (methods c) (auth_complete c) (auth_final c) v (deferred c) (pending c) (closed c) (authed c) (unsolicited c) (app_events c) (desync c) (olog c) (deleg c) (gated c) (waiting c) (ignore_first c).
Definition set_deferred (v : list Z) (c : conn) : conn := mkconn (srv c) (strict c) (sid c) (kex c) (kexinit_sent c) (kex_complete c) (send_enc c) (recv_enc c) (next_recv c) (can_recv_ext c) (next_service c) (auth_in_prog c) (auth c) (req_issued c) (methods c) (auth_complete c) (auth_final c) (user c) v (pending c) (closed c) (authed c) (unsolicited c) (app_events c) (desync c) (olog c) (deleg c) (gated c) (waiting c) (ignore_first c).
Definition set_pending (v : list task) (c : conn) : conn := mkconn (srv c) (strict c) (sid c) (kex c) (kexinit_sent c) (kex_complete c) (send_enc c) (recv_enc c) (next_recv c) (can_recv_ext c) (next_service c) (auth_in_prog c) (auth c) (req_issued c) (methods c) (auth_complete c) (auth_final c) (user c) (deferred c) v (closed c) (authed c) (unsolicited c) (app_events c) (desync c) (olog c) (deleg c) (gated c) (waiting c) (ignore_first c).
Definition set_closed (v : bool) (c : conn) : conn := mkconn (srv c) (strict c) (sid c) (kex c) (kexinit_sent c) (kex_complete c) (send_enc c) (recv_enc c) (next_recv c) (can_recv_ext c) (next_service c) (auth_in_prog c) (auth c) (req_issued c) (methods c) (auth_complete c) (auth_final c) (user c) (deferred c) (pending c) v (authed c) (unsolicited c) (app_events c) (desync c) (olog c) (deleg c) (gated c) (waiting c) (ignore_first c).
Definition set_authed (v : Z) (c : conn) : conn := mkconn (srv c) (strict c) (sid c) (kex c) (kexinit_sent c) (kex_complete c) (send_enc c) (recv_enc c) (next_recv c) (can_recv_ext c) (next_service c) (auth_in_prog c) (auth c) (req_issued c) (methods c) (auth_complete c) (auth_final c) (user c) (deferred c) (pending c) (closed c) v (unsolicited c) (app_events c) (desync c) (olog c) (deleg c) (gated c) (waiting c) (ignore_first c).
Definition set_unsolicited (v : bool) (c : conn) : conn := mkconn (srv c) (strict c) (sid c) (kex c) (kexinit_sent c) (kex_complete c) (send_enc c) (recv_enc c) (next_recv c) (can_recv_ext c) (next_service c) (auth_in_prog c) (auth c) (req_issued c) (methods c) (auth_complete c) (auth_final c) (user c) (deferred c) (pending c) (closed c) (authed c) v (app_events c) (desync c) (olog c) (deleg c) (gated c) (waiting c) (ignore_first c).
Definition set_app_events (v : Z) (c : conn) : conn := mkconn (srv c) (strict c) (sid c) (kex c) (kexinit_sent c) (kex_complete c) (send_enc c) (recv_enc c) (next_recv c) (can_recv_ext c) (next_service c) (auth_in_prog c) (auth c) (req_issued c) (methods c) (auth_complete c) (auth_final c) (user c) (deferred c) (pending c) (closed c) (authed c) (unsolicited c) v (desync c) (olog c) (deleg c) (gated c) (waiting c) (ignore_first c).
Definition set_desync (v : bool) (c : conn) : conn := mkconn (srv c) (strict c) (sid c) (kex c) (kexinit_sent c) (kex_complete c) (send_enc c) (recv_enc c) (next_recv c) (can_recv_ext c) (next_service c) (auth_in_prog c) (auth c) (req_issued c) (methods c) (auth_complete c) (auth_final c) (user c) (deferred c) (pending c) (closed c) (authed c) (unsolicited c) (app_events c) v (olog c) (deleg c) (gated c) (waiting c) (ignore_first c).
Definition set_olog (v : list (Z * Z)) (c : conn) : conn := mkconn (srv c) (strict c) (sid c) (kex c) (kexinit_sent c) (kex_complete c) (send_enc c) (recv_enc c) (next_recv c) (can_recv_ext c) (next_service c) (auth_in_prog c) (auth c) (req_issued c) (methods c) (auth_complete c) (auth_final c) (user c) (deferred c) (pending c) (closed c) (authed c) (unsolicited c) (app_events c) (desync c) v (deleg c) (gated c) (waiting c) (ignore_first c).
Definition set_deleg (v : bool) (c : conn) : conn := mkconn (srv c) (strict c) (sid c) (kex c) (kexinit_sent c) (kex_complete c) (send_enc c) (recv_enc c) (next_recv c) (can_recv_ext c) (next_service c) (auth_in_prog c) (auth c) (req_issued c) (methods c) (auth_complete c) (auth_final c) (user c) (deferred c) (pending c) (closed c) (authed c) (unsolicited c) (app_events c) (desync c) (olog c) v (gated c) (waiting c) (ignore_first c).
Definition set_gated (v : bool) (c : conn) : conn := mkconn (srv c) (strict c) (sid c) (kex c) (kexinit_sent c) (kex_complete c) (send_enc c) (recv_enc c) (next_recv c) (can_recv_ext c) (next_service c) (auth_in_prog c) (auth c) (req_issued c) (methods c) (auth_complete c) (auth_final c) (user c) (deferred c) (pending c) (closed c) (authed c) (unsolicited c) (app_events c) (desync c) (olog c) (deleg c) v (waiting c) (ignore_first c).
Definition set_waiting (v : bool) (c : conn) : conn := mkconn (srv c) (strict c) (sid c) (kex c) (kexinit_sent c) (kex_complete c) (send_enc c) (recv_enc c) (next_recv c) (can_recv_ext c) (next_service c) (auth_in_prog c) (auth c) (req_issued c) (methods c) (auth_complete c) (auth_final c) (user c) (deferred c) (pending c) (closed c) (authed c) (unsolicited c) (app_events c) (desync c) (olog c) (deleg c) (gated c) v (ignore_first c).
Definition set_ignore_first (v : bool) (c : conn) : conn := mkconn (srv c) (strict c) (sid c) (kex c) (kexinit_sent c) (kex_complete c) (send_enc c) (recv_enc c) (next_recv c) (can_recv_ext c) (next_service c) (auth_in_prog c) (auth c) (req_issued c) (methods c) (auth_complete c) (auth_final c) (user c) (deferred c) (pending c) (closed c) (authed c) (unsolicited c) (app_events c) (desync c) (olog c) (deleg c) (gated c) (waiting c) v.

(* counters and ghost history kept outside [conn] so that packet processing cannot touch them *)
Record st := mkst {
  cn : conn;
  recv_seq : Z;
  send_seq : Z;
  last_recv : Z;            (* ghost: type of the last packet accepted (-1 none) *)
  last_sent : Z;            (* ghost: type of the last packet sent (-1 none) *)
  clear_acc : list Z        (* ghost: types of the packets accepted while receiving in clear, oldest first *)
}.

(* gated: the client application's credential callbacks suspend until the harness releases them (EvRelease) *)
Definition init_conn (server gated_ : bool) : conn :=
  mkconn server false false false false false false false false false false false 0 false [0] false false 0
         [] [] false 0 false 0 false [] false gated_ false false.
Definition init_gated (server gated_ : bool) : st := mkst (init_conn server gated_) 0 0 (-1) (-1) [].
Definition init (server : bool) : st := init_gated server false.

Definition M32 : Z := 4294967296.

(* Every function below maps a connection state to a connection state; what is put on the wire is appended
   to the ghost field [olog] as (message type, argument), argument = the sequence number echoed by an
   UNIMPLEMENTED and 0 otherwise.  [deleg] is raised when a message is handed to the unmodelled
   connection layer. *)
Definition emit (c : conn) (t a : Z) : conn := set_olog (olog c ++ [(t, a)]) c.

(* ---- sending ------------------------------------------------------------------------------------ *)
(* send_packet: which packets are queued instead of sent *)
Definition defer_cond (c : conn) (t : Z) : bool :=
  (((t =? 4) || (t =? 5) || (t =? 6) || (49 <? t)) && negb (kex_complete c))
  || ((t =? 53) && negb (auth_in_prog c || auth_complete c))
  || ((79 <? t) && negb (auth_complete c)).

(* Where the client raises its request-outstanding flag (_auth_request_sent):
   false = in send_userauth_request, when the request is HANDED to send_packet - also when send_packet only queues
           it because a key exchange is in progress (the code before 2acdd0f);
   true  = in send_packet, when a USERAUTH_REQUEST is actually put on the wire (the code since repair 2acdd0f, C06-3);
   false was the code before it.
   A constant of the model, not detected from behaviour; every lemma below is proved for both values. *)
Definition request_flag_on_wire : bool := true.  (* HEAD since 2acdd0f: the flag is raised when the request is written *)

Definition send_packet (c : conn) (t a : Z) : conn :=
  if defer_cond c t then set_deferred (deferred c ++ [t]) c
  else
    let c1 := emit (if send_enc c && (49 <? t) then emit c 2 0 else c) t a in      (* IGNORE in front of non-kex packets *)
    if request_flag_on_wire && (t =? 50) then set_req_issued true c1 else c1.

(* send_userauth_request *)
Definition issue_request (c : conn) : conn :=
  let c1 := send_packet c 50 0 in if request_flag_on_wire then c1 else set_req_issued true c1.

Fixpoint send_list (c : conn) (l : list Z) : conn :=
  match l with
  | [] => c
  | t :: r => send_list (send_packet c t 0) r
  end.

(* _send_deferred_packets *)
Definition send_deferred (c : conn) : conn := send_list (set_deferred [] c) (deferred c).

(* the sequence number bookkeeping at the end of send_packet (connection.py 1815-1822), one packet.
   Not modelled: the 'Sequence rollover before kex complete' guard on the send side (it needs 2^32 packets
   sent in clear); the receive side guard is modelled in finish_recv. *)
Definition note_sent (strict_ : bool) (seq t : Z) : Z :=
  if (t =? 21) && strict_ then 0 else (seq + 1) mod M32.

(* a DisconnectError raised while processing: DISCONNECT is sent, then the connection is closed *)
Definition fatal (c : conn) : conn := set_closed true (set_pending [] (emit c 1 0)).
(* _force_close without a message *)
Definition abort (c : conn) : conn := set_closed true (set_pending [] c).

(* process_packet returned False: UNIMPLEMENTED reply, or a strict KEX violation in the initial exchange *)
Definition unimpl (c : conn) (seq : Z) : conn :=
  if strict c && negb (recv_enc c) then fatal c else send_packet c 3 seq.

(* _send_kexinit *)
Definition send_kexinit (c : conn) : conn := emit (set_kex_complete false c) 20 0.

(* send_newkeys *)
Definition send_newkeys (c : conn) : conn :=
  let first := negb (sid c) in
  let c1 := emit (set_kex false (set_sid true c)) 21 0 in
  let c2 := set_kex_complete true (set_next_recv true (set_send_enc true c1)) in
  let c3 := if first then
              (if srv c2 then set_next_service true c2 else send_packet (set_next_service true c2) 5 0)
            else c2 in
  send_deferred c3.

(* ---- transport handlers --------------------------------------------------------------------------- *)
(* KEXINIT.  cls = marker + 2 * guess: marker 1 = the peer's strict-KEX marker is present; guess 1 = the peer set
   first_kex_packet_follows and the first method on its list is not the one negotiated (a wrong guess: the kex
   packet that follows must be ignored, once, whatever strict says; a right guess needs nothing) *)
Definition on_kexinit_g (fixk : bool) (c : conn) (seq cls : Z) : conn :=
  if kex c || (fixk && next_recv c) then fatal c
  else
    let c1 := if negb (sid c) && Z.odd cls then set_strict true c else c in
    if strict c1 && negb (recv_enc c1) && negb (seq =? 0) then fatal c1
    else
      let c2 := if kexinit_sent c1 then set_kexinit_sent false c1 else send_kexinit c1 in
      let c3 := set_ignore_first (2 <=? cls) (set_kex true c2) in
      if srv c3 then c3 else emit c3 30 0.                (* client: kex.start() sends ECDH_INIT *)

(* NEWKEYS.  cls: 0 = sent by the peer's own protocol engine, 1 = injected: the receiving side switches to the
   new keys although the peer's engine has not, so from here on the byte stream cannot be decoded in step
   (what the implementation then does - wait for a nonsense packet length, or fail a MAC - is outside the
   model; [desync] marks it) *)
Definition on_newkeys (c : conn) (cls : Z) : conn :=
  if next_recv c then set_desync (cls =? 1) (set_can_recv_ext true (set_next_recv false (set_recv_enc true c)))
  else fatal c.

(* the key exchange handler (ECDH family: INIT = 30, REPLY = 31).  cls: 0 = valid, other = rejected *)
Definition on_kexmsg (c : conn) (seq t cls : Z) : conn :=
  if t =? 30 then
    (if negb (srv c) then fatal c
     else if cls =? 0 then send_newkeys (emit c 31 0) else fatal c)
  else if t =? 31 then
    (if srv c then fatal c else if cls =? 0 then send_newkeys c else fatal c)
  else unimpl c seq.

(* try_next_auth (client) *)
Definition not_client_task (k : task) : bool :=
  match k with TClientAuth _ => false | TChangePw => false | TClientKbdResp _ => false | TClientPkSign => false
             | _ => true end.

Definition try_next_auth (c : conn) (next_method : bool) : conn :=
  (* the request-outstanding flag is cleared on EVERY path, also when a method is skipped (next_method) after it
     had sent its request: keyboard-interactive prompt cancelled, password change not supported *)
  let c1 := set_waiting false (set_req_issued false (set_auth 0 (set_pending (filter not_client_task (pending c)) c))) in
  let ms := if next_method then tl (methods c1) else methods c1 in
  let c2 := set_methods ms c1 in
  match ms with
  | m :: _ => set_pending (pending c2 ++ [TClientAuth m]) (set_auth (m + 1) c2)
  | [] => abort c2                                   (* PermissionDenied: _force_close *)
  end.

(* SERVICE_REQUEST / SERVICE_ACCEPT.  cls: 0 = "ssh-userauth", other = another name *)
Definition on_service_request (c : conn) (cls : Z) : conn :=
  if negb (srv c) then fatal c
  else if negb (recv_enc c) then fatal c
  else if negb ((cls =? 0) && next_service c) then fatal c
  else send_deferred (set_can_recv_ext false (set_auth_in_prog true (set_next_service false (send_packet c 6 0)))).

Definition on_service_accept (c : conn) (cls : Z) : conn :=
  if srv c then fatal c
  else if negb (recv_enc c) then fatal c
  else if negb ((cls =? 0) && next_service c) then fatal c
  else try_next_auth (set_auth_in_prog true (set_next_service false c)) false.

Definition on_ext_info (c : conn) : conn := if can_recv_ext c then c else fatal c.

(* ---- authentication ----------------------------------------------------------------------------------- *)
(* the harness server's password table: user 1 has password 1, user 2 has password 2 *)
Definition pw_valid (u pw : Z) : bool := ((u =? 1) && (pw =? 1)) || ((u =? 2) && (pw =? 2)).

(* USERAUTH_REQUEST.  cls = 100*user + 10*method + password;  user 1..3, method 0 none / 1 password /
   2 unknown, password 0 wrong / 1 / 2;  cls < 0: wrong service name *)
Definition send_userauth_failure (c : conn) : conn := send_packet (set_auth 0 c) 51 0.

Definition not_server_task (k : task) : bool :=
  match k with TServerPw _ _ => false | TServerKbd _ => false | TServerKbdResp _ _ => false | TServerPk => false
             | _ => true end.

Definition on_userauth_request (c : conn) (cls : Z) : conn :=
  if cls <? 0 then fatal c
  else if negb (srv c) then fatal c
  else if auth_complete c then (if auth_final c then fatal c else c)
  else
    (* a new request supersedes the attempt in progress at once (its validator task is cancelled); then
       _finish_userauth runs to completion before any further input is read (the handler returns the coroutine,
       /repo 208592d): begin_auth answers True, lookup_server_auth creates the method object, whose own task
       (the credential check) is what stays pending *)
    let u := cls / 100 in
    let c1 := set_user u (set_auth 0 (set_pending (filter not_server_task (pending c)) c)) in
    let md := (cls / 10) mod 10 in
    if md =? 1 then set_pending (pending c1 ++ [TServerPw u (cls mod 10)]) (set_auth 3 c1)
    else if md =? 3 then set_pending (pending c1 ++ [TServerKbd u]) (set_auth 4 c1)
    else if md =? 4 then set_pending (pending c1 ++ [TServerPk]) (set_auth 5 c1)
    else send_userauth_failure c1.


Definition send_userauth_success (c : conn) : conn :=
  let c1 := send_packet c 52 0 in
  send_deferred (set_authed (user c1) (set_next_service false (set_auth_complete true
                (set_auth_in_prog false (set_auth 0 c1))))).

(* USERAUTH_FAILURE (client).  cls = the offered methods the client is configured to use, in its order of
   preference: 0 none of them, 1 [password], 2 [keyboard-interactive], 3 [keyboard-interactive; password] *)
Definition failure_methods (cls : Z) : list Z :=
  if cls =? 1 then [1] else if cls =? 2 then [2] else if cls =? 3 then [2; 1]
  else if cls =? 4 then [2; 1; 3] else if cls =? 5 then [3] else [].      (* 3 = publickey *)

Definition on_userauth_failure (c : conn) (cls : Z) : conn :=
  let c1 := set_methods (failure_methods cls) c in
  if negb (srv c1) && negb (auth c1 =? 0) then try_next_auth c1 false else fatal c1.

(* USERAUTH_SUCCESS (client) *)
Definition on_userauth_success_g (fixed : bool) (c : conn) : conn :=
  if negb (srv c) && negb (auth c =? 0) && (negb fixed || req_issued c) then
    let c1 := set_unsolicited (unsolicited c || negb (req_issued c)) c in
    send_deferred (set_authed 1 (set_can_recv_ext false (set_auth_complete true (set_auth_in_prog false
                  (set_waiting false (set_req_issued false (set_auth 0
                  (set_pending (filter not_client_task (pending c1)) c1))))))))
  else fatal c.

(* the client hands the banner to the application (auth_banner_received) *)
Definition on_banner (c : conn) : conn := if srv c then fatal c else set_app_events (app_events c + 1) c.

(* method specific messages 60..79, routed to the auth object.
   client objects (auth = method + 1): 1 'none' (no handlers), 2 password (60 = PASSWD_CHANGEREQ),
   3 keyboard-interactive (60 = INFO_REQUEST; cls 0 = the application answers, else it cancels the prompt),
   4 publickey (60 = PK_OK);
   server objects: 3 password (no handlers), 4 keyboard-interactive (61 = INFO_RESPONSE; cls 0 = the right answer),
   5 publickey (no handlers).  Auth.create_task cancels the object's previous task. *)
Definition on_authmsg (c : conn) (seq t cls : Z) : conn :=
  if negb (srv c) && (auth c =? 2) && (t =? 60)
  then set_pending (filter not_client_task (pending c) ++ [TChangePw]) c
  else if negb (srv c) && (auth c =? 3) && (t =? 60)
  then set_pending (filter not_client_task (pending c) ++ [TClientKbdResp (if cls =? 0 then 0 else 1)])
                   (set_waiting false c)
  else if negb (srv c) && (auth c =? 4) && (t =? 60)       (* PK_OK: cls 2 = names the key of our query *)
  then (if cls =? 2 then set_pending (filter not_client_task (pending c) ++ [TClientPkSign]) (set_waiting false c)
        else fatal c)
  else if srv c && (auth c =? 4) && (t =? 61)
  then set_pending (filter not_server_task (pending c) ++ [TServerKbdResp (user c) cls]) c
  else unimpl c seq.

(* ---- the phase gate of _recv_packet ------------------------------------------------------------------- *)
Definition is_deleg (t : Z) : bool :=
  (t =? 80) || (t =? 81) || (t =? 82) || (t =? 90) || (t =? 91) || (t =? 92) || ((93 <=? t) && (t <=? 127)).

Definition on_connmsg_g (fixed fixk : bool) (c : conn) (seq t cls : Z) : conn :=
  if t =? 1 then abort c
  else if (t =? 2) || (t =? 3) || (t =? 4) then c
  else if t =? 5 then on_service_request c cls
  else if t =? 6 then on_service_accept c cls
  else if t =? 7 then on_ext_info c
  else if t =? 20 then on_kexinit_g fixk c seq cls
  else if t =? 21 then on_newkeys c cls
  else if t =? 50 then on_userauth_request c cls
  else if t =? 51 then on_userauth_failure c cls
  else if t =? 52 then on_userauth_success_g fixed c
  else if t =? 53 then on_banner c
  else unimpl c seq.

Definition dispatch_g (fixed fixk : bool) (c : conn) (seq t cls : Z) : conn :=
  if (30 <=? t) && (t <=? 49) then
    (if kex c then (if ignore_first c then set_ignore_first false c      (* 'ignored first kex': not even parsed *)
                   else on_kexmsg c seq t cls)
     else fatal c)
  else if strict c && negb (recv_enc c) && (2 <=? t) && (t <=? 4) then fatal c
  else if (60 <=? t) && (t <=? 79) then (if negb (auth c =? 0) then on_authmsg c seq t cls else fatal c)
  else if (49 <? t) && negb (recv_enc c) then fatal c
  else if (79 <? t) && negb (auth_complete c) then fatal c
  else if is_deleg t then set_deleg true c
  else on_connmsg_g fixed fixk c seq t cls.

Definition with_conn (s : st) (c : conn) : st :=
  mkst c (recv_seq s) (send_seq s) (last_recv s) (last_sent s) (clear_acc s).

(* _finish_recv_packet *)
Definition finish_recv (s : st) (c1 : conn) (t : Z) : st :=
  let seq := recv_seq s in
  let c2 := if 79 <? t then set_auth_final true c1 else c1 in
  if (seq =? M32 - 1) && negb (recv_enc c2) then with_conn s (fatal c2)     (* 'Sequence rollover before kex complete' *)
  else
    mkst c2 (if (t =? 21) && strict c2 then 0 else (seq + 1) mod M32) (send_seq s) t (last_sent s)
         (if recv_enc (cn s) then clear_acc s else clear_acc s ++ [t]).

(* bookkeeping for everything the endpoint put on the wire in one step *)
Fixpoint note_all (s : st) (l : list Z) : st :=
  match l with
  | [] => s
  | t :: r => note_all (mkst (cn s) (recv_seq s) (note_sent (strict (cn s)) (send_seq s) t) (last_recv s) t
                             (clear_acc s)) r
  end.

(* one received packet *)
Definition recv_g (fixed fixk : bool) (s : st) (t cls : Z) : st :=
  if closed (cn s) then s
  else
    let c1 := dispatch_g fixed fixk (cn s) (recv_seq s) t cls in
    if closed c1 then with_conn s c1 else finish_recv s c1 t.

(* ---- tasks ------------------------------------------------------------------------------------------------ *)
Definition run_task (c : conn) (k : task) : conn :=
  match k with
  | TClientAuth m =>
      (* the start task asks the application for the credential; a gated application suspends it there *)
      if gated c && negb (m =? 0) then set_waiting true c      (* 'none' asks the application nothing *)
      else issue_request c
  | TChangePw => try_next_auth (set_app_events (app_events c + 1) c) true    (* password_change_requested -> NotImplemented *)
  | TClientKbdResp cancel =>                                 (* kbdint_challenge_received *)
      if cancel =? 0 then send_packet c 61 0 else try_next_auth c true
  | TClientPkSign => issue_request c
  | TServerPw u pw =>
      if pw_valid u pw then send_userauth_success c else send_userauth_failure c
  | TServerKbd u => send_packet c 60 0                      (* get_kbdint_challenge: INFO_REQUEST *)
  | TServerKbdResp u ok =>                                   (* validate_kbdint_response: True / False *)
      if ok =? 0 then send_userauth_success c else send_userauth_failure c
  | TServerPk => send_userauth_failure c                     (* validate_public_key answers False *)
  end.

Fixpoint run_tasks (fuel : nat) (c : conn) : conn :=
  match fuel with
  | O => c
  | S f =>
    if closed c then c else
    match pending c with
    | [] => c
    | k :: r => run_tasks f (run_task (set_pending r c) k)
    end
  end.

Definition TASK_FUEL : nat := 16.

Inductive event :=
| EvVersion                      (* the peer's identification string: _recv_version sends KEXINIT *)
| EvRecv (t cls : Z)             (* one packet of type t *)
| EvSettle                       (* the event loop runs every ready task *)
| EvRelease (v : Z).             (* a gated application answers the suspended credential callback: 0 = nothing to
                                    offer (the method is skipped), else a credential (the request goes out) *)

(* one event *)
Definition step_g (fixed fixk : bool) (s : st) (e : event) : st :=
  match e with
  | EvVersion =>
      if closed (cn s) then s else with_conn s (set_kexinit_sent true (send_kexinit (cn s)))
  | EvRecv t cls => recv_g fixed fixk s t cls
  | EvSettle => with_conn s (run_tasks TASK_FUEL (cn s))
  | EvRelease v =>
      if closed (cn s) || negb (waiting (cn s)) || (auth (cn s) =? 0) then s     (* only an auth object's start task waits *)
      else if v =? 0 then with_conn s (try_next_auth (set_waiting false (cn s)) true)
      else with_conn s (issue_request (set_waiting false (cn s)))
  end.

(* forget what the previous step logged *)
Definition begin_step (s : st) : st := with_conn s (set_deleg false (set_olog [] (cn s))).

(* a run with the send-side bookkeeping applied to exactly the packets the model itself emits
   (the correspondence checker instead books every packet the real endpoint was seen to send) *)
Definition step_booked_g (fixed fixk : bool) (s : st) (e : event) : st :=
  let s1 := step_g fixed fixk (begin_step s) e in note_all s1 (map fst (olog (cn s1))).

Definition run_g (fixed fixk : bool) (s : st) (l : list event) : st := fold_left (step_booked_g fixed fixk) l s.

(* ---- the model of record (repaired code) and the old definitions --------------------------------------- *)
Definition dispatch : conn -> Z -> Z -> Z -> conn := dispatch_g true true.
Definition recv : st -> Z -> Z -> st := recv_g true true.
Definition step : st -> event -> st := step_g true true.
Definition step_booked : st -> event -> st := step_booked_g true true.
Definition run : st -> list event -> st := run_g true true.
(* the code before /repo 5ecc05e and 9276b6d *)
Definition step_booked_old : st -> event -> st := step_booked_g false false.
Definition run_old : st -> list event -> st := run_g false false.

(* ---- the verdict vocabulary of the generated table ------------------------------------------------------ *)
Inductive verdict := VH | VU | VF | VI | VL | VX.
Definition verdict_eqb (a b : verdict) : bool :=
  match a, b with VH, VH | VU, VU | VF, VF | VI, VI | VL, VL | VX, VX => true | _, _ => false end.

(* ---- reading the generated table (Gen/MsgGate.v) ---------------------------------------------------------
   The table is a function rowf : server? -> phase -> strict? -> variant -> string of 256 verdict letters.
   phases 0..8 = K0 pre-kexinit, K1 kex-running, K2 kex-newkeys-sent, E0 post-newkeys-pre-service,
   A0 auth-running, A1 auth-done, C0 authenticated, R0 rekey-running, R1 rekey-newkeys-sent; phases 9..12 come from
   a second session with several authentication methods: M0 keyboard-interactive attempt running;
   M1 server: that attempt failed / client: answer sent; M2 server: publickey attempt failed / client:
   keyboard-interactive failed, password request outstanding; M3 server: password attempt failed / client:
   authenticated through keyboard-interactive; 13 G1 and 14 G2: like K1, but the peer's KEXINIT set
   first_kex_packet_follows - G1 with a wrong guess (first method on its list is not the negotiated one; the probe
   takes the place of the guessed packet), G2 with a right guess; client only, from two sessions whose credential
   callbacks suspend: 15 N0 'none' refused / 16 N1 keyboard-interactive prompt cancelled after its request / 17 N2 password change not
   supported after its request / 18 N3 keyboard-interactive skipped by its callback / 19 N4 password callback had
   nothing to offer / 20 N5 publickey query refused - each time with the next method's callback still pending;
   variants 0..3 = well-formed, empty body, last byte cut off, one trailing byte.
   Everything below is parametric in rowf so that a scratch run can check a live table that differs from
   the committed one. *)
From Coq Require Import String Ascii.

Definition rowfun := bool -> Z -> bool -> Z -> string.

Definition verdict_of_ascii (a : ascii) : verdict :=
  if Ascii.eqb a "H"%char then VH else if Ascii.eqb a "U"%char then VU else if Ascii.eqb a "F"%char then VF
  else if Ascii.eqb a "I"%char then VI else if Ascii.eqb a "L"%char then VL else VX.

Definition lookup (rowf : rowfun) (server : bool) (phase : Z) (strict_ : bool) (variant t : Z) : verdict :=
  nth (Z.to_nat t) (map verdict_of_ascii (list_ascii_of_string (rowf server phase strict_ variant))) VX.

Definition zrange (n : nat) : list Z := map Z.of_nat (seq 0 n).

(* a server has 15 phases; a client six more (15..20): the windows between two authentication methods *)
Definition nphases (server : bool) : nat := if server then 15%nat else 21%nat.
Definition NVARIANTS : nat := 4.
Definition NTYPES : nat := 256.

Definition row_of (rowf : rowfun) (server : bool) (phase : Z) (strict_ : bool) (variant : Z) : list verdict :=
  map verdict_of_ascii (list_ascii_of_string (rowf server phase strict_ variant)).

(* every (server, phase, strict, variant) of the table *)
Definition cells_of (server : bool) : list (bool * Z * bool * Z) :=
  list_prod (list_prod (list_prod [server] (zrange (nphases server))) [false; true]) (zrange NVARIANTS).
Definition all_cells : list (bool * Z * bool * Z) := cells_of false ++ cells_of true.

(* p t w v for every position of a row: w = verdict of the well-formed variant, v = verdict of this variant *)
Fixpoint row_all (p : Z -> verdict -> verdict -> bool) (t : Z) (lw l : list verdict) : bool :=
  match lw, l with
  | w :: rw, v :: r => p t w v && row_all p (t + 1) rw r
  | _, _ => true
  end.

(* the whole table: every row has 256 entries and p holds at every entry *)
Definition table_all (rowf : rowfun) (p : bool -> Z -> bool -> Z -> Z -> verdict -> verdict -> bool) : bool :=
  forallb (fun k => let '(sv, ph, sk, va) := k in
                    let lw := row_of rowf sv ph sk 0 in
                    let l := row_of rowf sv ph sk va in
                    Nat.eqb (List.length lw) NTYPES && Nat.eqb (List.length l) NTYPES && row_all (p sv ph sk va) 0 lw l)
          all_cells.

(* the message the running exchange calls for next (ECDH family) *)
Definition calls_for (server : bool) (phase t : Z) : bool :=
  if phase =? 0 then t =? 20
  else if phase =? 1 then (if server then t =? 30 else t =? 31)
  else if phase =? 2 then t =? 21
  else false.

Definition is_fatal (v : verdict) : bool := verdict_eqb v VF || verdict_eqb v VL.

(* messages only the OTHER role may send *)
Definition foreign_to (server : bool) (t : Z) : bool :=
  if server then (t =? 6) || (t =? 31) || (t =? 51) || (t =? 52) || (t =? 53) || (t =? 60)
  else (t =? 5) || (t =? 30) || (t =? 50) || (t =? 61).

(* message numbers with no meaning in any phase for the negotiated methods *)
Definition unassigned (t : Z) : bool :=
  (t =? 0) || ((8 <=? t) && (t <=? 19)) || ((22 <=? t) && (t <=? 29)) || ((54 <=? t) && (t <=? 59))
  || ((83 <=? t) && (t <=? 89)) || (128 <=? t).

Definition p_total (sv : bool) (ph : Z) (sk : bool) (va t : Z) (w v : verdict) : bool := negb (verdict_eqb v VX).

(* before the first key exchange completes only what the exchange calls for is handled *)
Definition p_prekex (sv : bool) (ph : Z) (sk : bool) (va t : Z) (w v : verdict) : bool :=
  if (ph <=? 2) && verdict_eqb v VH then calls_for sv ph t else true.

(* phases in which authentication has not completed / has completed *)
Definition preauth_phase (sv : bool) (ph : Z) : bool :=
  (ph <=? 4) || ((9 <=? ph) && (ph <=? 11)) || ((ph =? 12) && sv) || (negb sv && (15 <=? ph)).
Definition postauth_phase (sv : bool) (ph : Z) : bool :=
  ((5 <=? ph) && (ph <=? 8)) || ((ph =? 12) && negb sv).
(* phases in which no authentication attempt is in progress on the endpoint: a server everywhere except while its
   keyboard-interactive challenge is outstanding (M0) - in particular after every attempt that ended in FAILURE
   (A0, M1, M2, M3); a client before its first request and after authentication completed *)
Definition no_attempt (sv : bool) (ph : Z) : bool :=
  if sv then negb (ph =? 9) else (ph <=? 3) || postauth_phase false ph.

(* client only: the windows between two authentication methods - the previous method has ended (refused by
   USERAUTH_FAILURE, or skipped by the client itself: prompt cancelled, nothing to offer, password change not
   supported) and the next method's request has not been sent because its credential callback is still pending *)
Definition between_phase (sv : bool) (ph : Z) : bool := negb sv && (15 <=? ph) && (ph <=? 20).

(* in those windows no request is outstanding: USERAUTH_SUCCESS ends the connection *)
Definition p_between (sv : bool) (ph : Z) (sk : bool) (va t : Z) (w v : verdict) : bool :=
  if between_phase sv ph && (t =? 52) then verdict_eqb v VF else true.

Definition p_preauth (sv : bool) (ph : Z) (sk : bool) (va t : Z) (w v : verdict) : bool :=
  if preauth_phase sv ph && verdict_eqb v VH then t <=? 79 else true.

(* method-specific authentication messages (60..79) end the connection unless an attempt is in progress *)
Definition p_stale (sv : bool) (ph : Z) (sk : bool) (va t : Z) (w v : verdict) : bool :=
  if no_attempt sv ph && (60 <=? t) && (t <=? 79) then verdict_eqb v VF else true.

Definition p_role (sv : bool) (ph : Z) (sk : bool) (va t : Z) (w v : verdict) : bool :=
  if foreign_to sv t then negb (verdict_eqb v VH) else true.

(* strict KEX, initial exchange: whatever the exchange does not call for ends the connection - at once in
   K1/K2, and at the latest when the KEXINIT arrives with a non-zero sequence number in K0 *)
Definition p_strict (sv : bool) (ph : Z) (sk : bool) (va t : Z) (w v : verdict) : bool :=
  if sk && (ph <=? 2) && negb (calls_for sv ph t)
  then (if ph =? 0 then is_fatal v else verdict_eqb v VF) else true.

(* after authentication completed: a further USERAUTH_REQUEST is ignored or fatal on a server, a further
   FAILURE / SUCCESS is fatal on a client *)
Definition p_postauth (sv : bool) (ph : Z) (sk : bool) (va t : Z) (w v : verdict) : bool :=
  if postauth_phase sv ph then
    (if sv && (t =? 50) then verdict_eqb v VI || verdict_eqb v VF
     else if negb sv && ((t =? 51) || (t =? 52)) then verdict_eqb v VF else true)
  else true.

Definition p_unassigned (sv : bool) (ph : Z) (sk : bool) (va t : Z) (w v : verdict) : bool :=
  (* not in G1: there the session can only go on if the probe is the kex-range packet that gets ignored *)
  if unassigned t && negb (ph =? 13) then verdict_eqb v VU || is_fatal v else true.

(* a damaged body never makes a message more acceptable than its well-formed form *)
(* first_kex_packet_follows.  G1 (wrong guess pending): every packet of type 30..49 - whatever its body, strict or
   not - is ignored: no reaction, and the session then runs exactly like the untampered one without any guess.
   G2 (right guess): every entry equals the K1 entry, i.e. the exchange goes on as if nothing had been guessed and
   the packet the exchange calls for is processed. *)
Definition p_guess (rowf : rowfun) (sv : bool) (ph : Z) (sk : bool) (va t : Z) (w v : verdict) : bool :=
  if (ph =? 13) && (30 <=? t) && (t <=? 49) then verdict_eqb v VI
  else if ph =? 14 then verdict_eqb v (lookup rowf sv 1 sk va t)
  else true.

Definition p_malformed (sv : bool) (ph : Z) (sk : bool) (va t : Z) (w v : verdict) : bool :=
  if va =? 0 then true else verdict_eqb v VF || verdict_eqb v w.
