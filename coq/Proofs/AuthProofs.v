(* Proofs about Model/Auth.v (property C05).
   Part A: facts that hold for BOTH variants (gate, dead is absorbing, delivered packets).
   Part B: the invariant of the REPAIRED variant (fixed = true) and its consequences:
           soundness, restrictions, once, stability.
   Part C: the faithful model of the code as it is (fixed = false) violates soundness, once and
           restrictions: concrete witnesses evaluated by vm_compute.
   Part D: honest single-request sessions are admitted (both variants). *)
From AV Require Import Base.Prelude Model.Auth.

Ltac inv H := inversion H; subst; clear H.

(* ------------------------------------------------------------------------------------------- *)
(* generic *)

Lemma existsb_incl {A} (f : A -> bool) (l l' : list A) :
  incl l l' -> existsb f l = true -> existsb f l' = true.
Proof.
  intros Hi H. apply existsb_exists in H as [x [Hx Hf]]. apply existsb_exists. exists x. auto.
Qed.

Lemma zlist_eqb_true a b : zlist_eqb a b = true -> a = b.
Proof. apply zlist_eqb_spec. Qed.

Lemma list_eqb_refl {A} (eqb : A -> A -> bool) (l : list A) :
  (forall x, eqb x x = true) -> list_eqb eqb l l = true.
Proof. intros H. induction l as [|x l IH]; cbn; [reflexivity|]. rewrite H, IH. reflexivity. Qed.

Lemma option_eqb_refl {A} (eqb : A -> A -> bool) (o : option A) :
  (forall x, eqb x x = true) -> option_eqb eqb o o = true.
Proof. intros H. destruct o; cbn; auto. Qed.

Lemma po_eqb_refl x : po_eqb x x = true.
Proof.
  unfold po_eqb. rewrite zlist_eqb_refl. cbn. apply option_eqb_refl. intros; apply Z.eqb_refl.
Qed.

Lemma ko_eqb_refl k : ko_eqb k k = true.
Proof.
  unfold ko_eqb. rewrite (option_eqb_refl zlist_eqb _ zlist_eqb_refl), !eqb_reflx.
  rewrite (list_eqb_refl po_eqb _ po_eqb_refl), (list_eqb_refl zlist_eqb _ zlist_eqb_refl). reflexivity.
Qed.

Lemma co_eqb_refl c : co_eqb c c = true.
Proof. unfold co_eqb. rewrite (option_eqb_refl zlist_eqb _ zlist_eqb_refl), !eqb_reflx. reflexivity. Qed.

Lemma restr_eqb_refl r : restr_eqb r r = true.
Proof. unfold restr_eqb. rewrite ko_eqb_refl. cbn. apply option_eqb_refl. apply co_eqb_refl. Qed.

(* ------------------------------------------------------------------------------------------- *)
Section WithWorld.
Variable w : world.
Variable sid : bytes.

(* ---- monotonicity of the specification in the set of delivered packets ---------------------- *)
Lemma grants_via_mono U D D' p r :
  incl D D' -> In r (grants_via w sid U D p) -> In r (grants_via w sid U D' p).
Proof.
  intros Hi. unfold grants_via.
  destruct (parse_head p) as [[[[ub svc] m] body]|]; [|auto].
  destruct ((blen ub <? 1024) && zlist_eqb svc S_CONN && opt_user_is (prep w ub) U); [|auto].
  assert (Hd : forall src x,
    In x (if supported w (ak_of w src) (kind_of m)
          then (if is_success (e_res (snd (auth_start w sid (ak_of w src) U (kind_of m) p body)))
                then [restr_of (snd (auth_start w sid (ak_of w src) U (kind_of m) p body))] else []) ++
               (if mkind_eqb (kind_of m) MKbd && existsb (kbd_resp_grants w U) D then [(ko_empty, None)] else [])
          else []) ->
    In x (if supported w (ak_of w src) (kind_of m)
          then (if is_success (e_res (snd (auth_start w sid (ak_of w src) U (kind_of m) p body)))
                then [restr_of (snd (auth_start w sid (ak_of w src) U (kind_of m) p body))] else []) ++
               (if mkind_eqb (kind_of m) MKbd && existsb (kbd_resp_grants w U) D' then [(ko_empty, None)] else [])
          else [])).
  { intros src x. destruct (supported w (ak_of w src) (kind_of m)); [|auto].
    rewrite !in_app_iff. intros [H|H]; [left; exact H|right].
    destruct (mkind_eqb (kind_of m) MKbd); cbn in *; [|exact H].
    destruct (existsb (kbd_resp_grants w U) D) eqn:E; [|destruct H].
    rewrite (existsb_incl _ _ _ Hi E). exact H. }
  cbv zeta. rewrite !in_app_iff. intros [H|[H|H]].
  - left; exact H.
  - right; left. apply Hd. exact H.
  - right; right. destruct (is_nil U); [|exact H]. apply Hd. exact H.
Qed.

Lemma granted_mono U D D' : incl D D' -> granted w sid U D = true -> granted w sid U D' = true.
Proof.
  intros Hi H. unfold granted in *. apply existsb_exists in H as [p [Hp Hn]].
  apply existsb_exists. exists p. split; [auto|].
  destruct (grants_via w sid U D p) as [|r l] eqn:E; [discriminate|].
  assert (In r (grants_via w sid U D' p)) as Hin.
  { apply grants_via_mono with (D := D); [exact Hi|]. rewrite E. left. reflexivity. }
  destruct (grants_via w sid U D' p); [destruct Hin|reflexivity].
Qed.

(* ---- vocabulary of the invariant -------------------------------------------------------------- *)
Definition ak_ok (s : st) : Prop :=
  ak_user s = Some (username s) \/ (ak_user s = None /\ username s = []).
Definition opts_reset (s : st) : Prop := key_opts s = ko_empty /\ cert_opts s = None.

(* [full] is a well-formed USERAUTH_REQUEST for service ssh-connection whose user name is U after
   utf-8 + saslprep, method kind mk, method-specific rest [body] *)
Definition head_ok (full : bytes) (U : user) (mk : mkind) (body : bytes) : Prop :=
  exists ub svc m, parse_head full = Some (ub, svc, m, body) /\ (blen ub <? 1024) = true /\
                   zlist_eqb svc S_CONN = true /\ prep w ub = Some U /\ kind_of m = mk.

Definition granted_r (D : list bytes) (s : st) : Prop :=
  exists p, In p D /\ In (key_opts s, cert_opts s) (grants_via w sid (username s) D p).

Definition eff_ok (D : list bytes) (u : user) (e : effect) : Prop :=
  e_res e = RsSuccess -> exists p, In p D /\ In (restr_of e) (grants_via w sid u D p).

Definition kbd_req_in (D : list bytes) (u : user) : Prop :=
  exists req body, In req D /\ head_ok req u MKbd body.

Definition resp_is (resp : bytes) (rs : list bytes) : Prop :=
  exists r n r1, resp = 61 :: r /\ get_u32 r = Some (n, r1) /\
                 get_nstrings (S (length r1)) n r1 = Some (rs, []) /\ forallb (utf8 w) rs = true.

Lemma opt_user_is_refl U : opt_user_is (Some U) U = true.
Proof. cbn. apply zlist_eqb_refl. Qed.

(* evaluating a delivered request for the user it names, against that user's keys: if the outcome is
   success then the specification lists it, with the restrictions of that outcome *)
Lemma auth_start_grants D U mk full body src :
  head_ok full U mk body -> In full D -> (src = Some U \/ (src = None /\ U = [])) ->
  supported w (ak_of w src) mk = true ->
  e_res (snd (auth_start w sid (ak_of w src) U mk full body)) = RsSuccess ->
  In (restr_of (snd (auth_start w sid (ak_of w src) U mk full body))) (grants_via w sid U D full).
Proof.
  intros (ub & svc & m & Hp & Hl & Hs & Hu & Hk) Hin Hsrc Hsup Hres.
  unfold grants_via. rewrite Hp, Hl, Hs, Hu, opt_user_is_refl. cbn [andb]. cbv zeta. rewrite Hk.
  rewrite !in_app_iff. right.
  destruct Hsrc as [->|[-> ->]].
  - left. rewrite Hsup. rewrite in_app_iff. left. rewrite Hres. cbn. left. reflexivity.
  - right. cbn [is_nil]. rewrite Hsup. rewrite in_app_iff. left. rewrite Hres. cbn. left. reflexivity.
Qed.

Lemma kbd_validate_grants D U rs resp :
  kbd_req_in D U -> In resp D -> resp_is resp rs ->
  e_res (snd (kbd_validate w U rs)) = RsSuccess ->
  exists p, In p D /\ In (ko_empty, None) (grants_via w sid U D p).
Proof.
  intros (req & body & Hreq & (ub & svc & m & Hp & Hl & Hs & Hu & Hk)) Hin (r & n & r1 & -> & Hn & Hg & Hf) Hres.
  exists req. split; [exact Hreq|].
  unfold grants_via. rewrite Hp, Hl, Hs, Hu, opt_user_is_refl. cbn [andb]. cbv zeta. rewrite Hk.
  rewrite !in_app_iff. right; left.
  assert (Hon : kbd_on w = true).
  { unfold kbd_on. unfold kbd_validate in Hres. destruct (kbd_mode w); [discriminate|reflexivity|reflexivity]. }
  cbn [supported]. rewrite Hon. rewrite in_app_iff. right.
  cbn [mkind_eqb andb].
  assert (Hex : existsb (kbd_resp_grants w U) D = true).
  { apply existsb_exists. exists (61 :: r). split; [exact Hin|].
    unfold kbd_resp_grants. rewrite Z.eqb_refl, Hn, Hg, Hf, Hres. reflexivity. }
  rewrite Hex. left. reflexivity.
Qed.

Lemma noauth_grants D U mk full body :
  head_ok full U mk body -> needs_auth w U = false ->
  In (ko_empty, None) (grants_via w sid U D full).
Proof.
  intros (ub & svc & m & Hp & Hl & Hs & Hu & Hk) Hn.
  unfold grants_via. rewrite Hp, Hl, Hs, Hu, opt_user_is_refl. cbn [andb]. cbv zeta.
  rewrite Hn. rewrite !in_app_iff. left. left. reflexivity.
Qed.


(* ------------------------------------------------------------------------------------------- *)
(* Part B: invariant of the repaired variant *)

Definition fin_ok (D : list bytes) (s : st) (k : kont) : Prop :=
  match k with
  | KFin ba mk full body => In full D /\ head_ok full (username s) mk body /\ (ba = false -> ak_ok s)
  | KFinReloaded mk full body => In full D /\ head_ok full (username s) mk body
  | KFinBegun asked mk full body =>
      asked = username s /\ ak_user s = Some asked /\ In full D /\ head_ok full (username s) mk body
  | _ => False
  end.

Definition auth_ok (D : list bytes) (s : st) (k : kont) : Prop :=
  exists a, auth s = Some a /\ owner_of k = Some (a_id a) /\ a_user a = username s /\ opts_reset s /\
            complete s = false /\
  match k with
  | KAuthStart aid u mk full body =>
      u = username s /\ In full D /\ head_ok full u mk body /\
      supported w (ak_of w (ak_user s)) mk = true /\ a_kbd a = mkind_eqb mk MKbd
  | KAuthDone aid u e =>
      u = username s /\ eff_ok D u e /\ (a_kbd a = true -> e_ko e = None /\ e_co e = None)
  | KKbdValidate aid u rs =>
      u = username s /\ a_kbd a = true /\ exists resp, In resp D /\ resp_is resp rs
  | _ => False
  end.

Definition auth_obj_ok (D : list bytes) (s : st) : Prop :=
  match auth s with
  | Some a => a_user a = username s /\ complete s = false /\
              (a_kbd a = true -> kbd_req_in D (username s) /\ opts_reset s)
  | None => True
  end.

Definition done_ok (D : list bytes) (s : st) : Prop :=
  if complete s
  then auth s = None /\ granted_r D s /\ count_success (out s) = 1%nat /\ completed_as s = [username s]
  else count_success (out s) = 0%nat /\ completed_as s = [].

Inductive live_shape (D : list bytes) (s : st) : Prop :=
| ShIdle0 : paused s = false -> ak_ok s -> conts s = [] -> live_shape D s
| ShIdle1 t k : paused s = false -> ak_ok s -> conts s = [(t, k)] -> auth_ok D s k -> live_shape D s
| ShFin t k : paused s = true -> auth s = None -> complete s = false -> opts_reset s ->
              conts s = [(t, k)] -> fin_ok D s k -> live_shape D s
| ShRes0 : paused s = true -> ak_ok s -> conts s = [(None, KResume)] -> live_shape D s
| ShRes1 t k : paused s = true -> ak_ok s -> conts s = [(t, k); (None, KResume)] -> auth_ok D s k -> live_shape D s
| ShRes2 t k : paused s = true -> ak_ok s -> conts s = [(None, KResume); (t, k)] -> auth_ok D s k -> live_shape D s.

Definition shape (D : list bytes) (s : st) : Prop :=
  (dead s = true /\ conts s = [] /\ paused s = false /\ auth s = None) \/ (dead s = false /\ live_shape D s).

Record Inv (D : list bytes) (s : st) : Prop := mkInv {
  inv_shape : shape D s;
  inv_inq : Forall (fun p => In p D) (inq s);
  inv_inq0 : paused s = false -> inq s = [];
  inv_auth : auth_obj_ok D s;
  inv_done : done_ok D s
}.

(* ---- monotonicity in D ---- *)
Lemma eff_ok_mono D D' u e : incl D D' -> eff_ok D u e -> eff_ok D' u e.
Proof.
  intros Hi H Hr. destruct (H Hr) as (p & Hp & Hg). exists p. split; [auto|].
  eapply grants_via_mono; eauto.
Qed.

Lemma kbd_req_in_mono D D' u : incl D D' -> kbd_req_in D u -> kbd_req_in D' u.
Proof. intros Hi (req & body & H1 & H2). exists req, body. auto. Qed.

Lemma fin_ok_mono D D' s k : incl D D' -> fin_ok D s k -> fin_ok D' s k.
Proof.
  intros Hi. destruct k; cbn; try tauto.
  - intros (H1 & H2 & H3). auto.
  - intros (H1 & H2). auto.
  - intros (H1 & H2 & H3 & H4). auto.
Qed.

Lemma auth_ok_mono D D' s k : incl D D' -> auth_ok D s k -> auth_ok D' s k.
Proof.
  intros Hi (a & H1 & H2 & H3 & H4 & H5 & H6). exists a. repeat (split; [assumption|]).
  destruct k; try assumption.
  - destruct H6 as (? & ? & ? & ? & ?). auto 10.
  - destruct H6 as (? & ? & ?). split; [assumption|]. split; [eapply eff_ok_mono; eauto|assumption].
  - destruct H6 as (? & ? & resp & ? & ?). split; [assumption|]. split; [assumption|]. exists resp. auto.
Qed.

Lemma live_shape_mono D D' s : incl D D' -> live_shape D s -> live_shape D' s.
Proof.
  intros Hi H. destruct H.
  - apply ShIdle0; auto.
  - eapply ShIdle1; eauto using auth_ok_mono.
  - eapply ShFin; eauto using fin_ok_mono.
  - apply ShRes0; auto.
  - eapply ShRes1; eauto using auth_ok_mono.
  - eapply ShRes2; eauto using auth_ok_mono.
Qed.

Lemma Inv_mono D D' s : incl D D' -> Inv D s -> Inv D' s.
Proof.
  intros Hi [Hs Hq Hq0 Ha Hd]. split.
  - destruct Hs as [Hs|[Hl Hs]]; [left; exact Hs|right; split; [exact Hl|]]. eapply live_shape_mono; eauto.
  - eapply Forall_impl; [|exact Hq]. cbn. auto.
  - exact Hq0.
  - unfold auth_obj_ok in *. destruct (auth s); [|exact I]. destruct Ha as (Ha1 & Ha2 & H).
    split; [assumption|]. split; [assumption|]. intros Hk. destruct (H Hk) as [Hr Ho].
    split; [eapply kbd_req_in_mono; eauto|assumption].
  - unfold done_ok in *. destruct (complete s); [|exact Hd].
    destruct Hd as (Hd1 & (p & Hp & Hg) & Hd3 & Hd4). split; [assumption|]. split; [|split; assumption].
    exists p. split; [auto|]. eapply grants_via_mono; eauto.
Qed.

End WithWorld.
