(* Proofs about Model/Auth.v (property C05).
   Part A: facts that hold for BOTH variants (gate, dead is absorbing, delivered packets).
   Part B: the invariant of the REPAIRED variant (fixed = true) and its consequences:
           soundness, restrictions, once, stability.
   Part C: the faithful model of the code before repair 208592d (fixed = false) violates soundness, once and
           restrictions: concrete witnesses evaluated by vm_compute.
   Part D: honest single-request sessions are accepted (both variants). *)
From AV Require Import Base.Prelude Model.Auth.

Ltac inv H := inversion H; subst; clear H.

(* ------------------------------------------------------------------------------------------- *)
(* generic *)

Lemma existsb_incl {A} (f : A -> bool) (l l' : list A) :
  incl l l' -> existsb f l = true -> existsb f l' = true.
Proof.
  intros Hi H. apply existsb_exists in H as [x [Hx Hf]]. apply existsb_exists. exists x. auto.
Qed.

Lemma zlist_eqb_true a b : zlist_eqb a b = true -> a = b.
Proof. apply zlist_eqb_spec. Qed.

Lemma list_eqb_refl {A} (eqb : A -> A -> bool) (l : list A) :
  (forall x, eqb x x = true) -> list_eqb eqb l l = true.
Proof. intros H. induction l as [|x l IH]; cbn; [reflexivity|]. rewrite H, IH. reflexivity. Qed.

Lemma option_eqb_refl {A} (eqb : A -> A -> bool) (o : option A) :
  (forall x, eqb x x = true) -> option_eqb eqb o o = true.
Proof. intros H. destruct o; cbn; auto. Qed.

Lemma po_eqb_refl x : po_eqb x x = true.
Proof.
  unfold po_eqb. rewrite zlist_eqb_refl. cbn. apply option_eqb_refl. intros; apply Z.eqb_refl.
Qed.

Lemma ko_eqb_refl k : ko_eqb k k = true.
Proof.
  unfold ko_eqb. rewrite (option_eqb_refl zlist_eqb _ zlist_eqb_refl), !eqb_reflx.
  rewrite (list_eqb_refl po_eqb _ po_eqb_refl), (list_eqb_refl zlist_eqb _ zlist_eqb_refl). reflexivity.
Qed.

Lemma co_eqb_refl c : co_eqb c c = true.
Proof. unfold co_eqb. rewrite (option_eqb_refl zlist_eqb _ zlist_eqb_refl), !eqb_reflx. reflexivity. Qed.

Lemma restr_eqb_refl r : restr_eqb r r = true.
Proof. unfold restr_eqb. rewrite ko_eqb_refl. cbn. apply option_eqb_refl. apply co_eqb_refl. Qed.

(* ------------------------------------------------------------------------------------------- *)
Section WithWorld.
Variable w : world.
Variable sid : bytes.

(* ---- monotonicity of the specification in the set of delivered packets ---------------------- *)
Lemma grants_via_mono U D D' p r :
  incl D D' -> In r (grants_via w sid U D p) -> In r (grants_via w sid U D' p).
Proof.
  intros Hi. unfold grants_via.
  destruct (parse_head p) as [[[[ub svc] m] body]|]; [|auto].
  destruct ((blen ub <? 1024) && zlist_eqb svc S_CONN && opt_user_is (prep w ub) U); [|auto].
  assert (Hd : forall src x,
    In x (if supported w (ak_of w src) (kind_of m)
          then (if is_success (e_res (snd (auth_start w sid (ak_of w src) U (kind_of m) p body)))
                then [restr_of (snd (auth_start w sid (ak_of w src) U (kind_of m) p body))] else []) ++
               (if mkind_eqb (kind_of m) MKbd && existsb (kbd_resp_grants w U) D then [(ko_empty, None)] else [])
          else []) ->
    In x (if supported w (ak_of w src) (kind_of m)
          then (if is_success (e_res (snd (auth_start w sid (ak_of w src) U (kind_of m) p body)))
                then [restr_of (snd (auth_start w sid (ak_of w src) U (kind_of m) p body))] else []) ++
               (if mkind_eqb (kind_of m) MKbd && existsb (kbd_resp_grants w U) D' then [(ko_empty, None)] else [])
          else [])).
  { intros src x. destruct (supported w (ak_of w src) (kind_of m)); [|auto].
    rewrite !in_app_iff. intros [H|H]; [left; exact H|right].
    destruct (mkind_eqb (kind_of m) MKbd); cbn in *; [|exact H].
    destruct (existsb (kbd_resp_grants w U) D) eqn:E; [|destruct H].
    rewrite (existsb_incl _ _ _ Hi E). exact H. }
  cbv zeta. rewrite !in_app_iff. intros [H|[H|H]].
  - left; exact H.
  - right; left. apply Hd. exact H.
  - right; right. destruct (is_nil U); [|exact H]. apply Hd. exact H.
Qed.

Lemma granted_mono U D D' : incl D D' -> granted w sid U D = true -> granted w sid U D' = true.
Proof.
  intros Hi H. unfold granted in *. apply existsb_exists in H as [p [Hp Hn]].
  apply existsb_exists. exists p. split; [auto|].
  destruct (grants_via w sid U D p) as [|r l] eqn:E; [discriminate|].
  assert (In r (grants_via w sid U D' p)) as Hin.
  { apply grants_via_mono with (D := D); [exact Hi|]. rewrite E. left. reflexivity. }
  destruct (grants_via w sid U D' p); [destruct Hin|reflexivity].
Qed.

(* ---- vocabulary of the invariant -------------------------------------------------------------- *)
Definition ak_ok (s : st) : Prop :=
  ak_user s = key_src w (username s) \/ (ak_user s = None /\ username s = []).
Definition opts_reset (s : st) : Prop := key_opts s = ko_empty /\ cert_opts s = None.

(* [full] is a well-formed USERAUTH_REQUEST for service ssh-connection whose user name is U after
   utf-8 + saslprep, method kind mk, method-specific rest [body] *)
Definition head_ok (full : bytes) (U : user) (mk : mkind) (body : bytes) : Prop :=
  exists ub svc m, parse_head full = Some (ub, svc, m, body) /\ (blen ub <? 1024) = true /\
                   zlist_eqb svc S_CONN = true /\ prep w ub = Some U /\ kind_of m = mk.

Definition granted_r (D : list bytes) (s : st) : Prop :=
  exists p, In p D /\ In (key_opts s, cert_opts s) (grants_via w sid (username s) D p).

Definition eff_ok (D : list bytes) (u : user) (e : effect) : Prop :=
  e_res e = RsSuccess -> exists p, In p D /\ In (restr_of e) (grants_via w sid u D p).

Definition kbd_req_in (D : list bytes) (u : user) : Prop :=
  exists req body, In req D /\ head_ok req u MKbd body.

Definition resp_is (resp : bytes) (rs : list bytes) : Prop :=
  exists r n r1, resp = 61 :: r /\ get_u32 r = Some (n, r1) /\
                 get_nstrings (S (length r1)) n r1 = Some (rs, []) /\ forallb (utf8 w) rs = true.

Lemma opt_user_is_refl U : opt_user_is (Some U) U = true.
Proof. cbn. apply zlist_eqb_refl. Qed.

(* evaluating a delivered request for the user it names, against that user's keys: if the outcome is
   success then the specification lists it, with the restrictions of that outcome *)
Lemma auth_start_grants D U mk full body src :
  head_ok full U mk body -> In full D -> (src = key_src w U \/ (src = None /\ U = [])) ->
  supported w (ak_of w src) mk = true ->
  e_res (snd (auth_start w sid (ak_of w src) U mk full body)) = RsSuccess ->
  In (restr_of (snd (auth_start w sid (ak_of w src) U mk full body))) (grants_via w sid U D full).
Proof.
  intros (ub & svc & m & Hp & Hl & Hs & Hu & Hk) Hin Hsrc Hsup Hres.
  unfold grants_via. rewrite Hp, Hl, Hs, Hu, opt_user_is_refl. cbn [andb]. cbv zeta. rewrite Hk.
  rewrite !in_app_iff. right.
  destruct Hsrc as [->|[-> ->]].
  - left. rewrite Hsup. rewrite in_app_iff. left. rewrite Hres. cbn. left. reflexivity.
  - right. cbn [is_nil]. rewrite Hsup. rewrite in_app_iff. left. rewrite Hres. cbn. left. reflexivity.
Qed.

Lemma kbd_validate_grants D U rs resp :
  kbd_req_in D U -> In resp D -> resp_is resp rs ->
  e_res (snd (kbd_validate w U rs)) = RsSuccess ->
  exists p, In p D /\ In (ko_empty, None) (grants_via w sid U D p).
Proof.
  intros (req & body & Hreq & (ub & svc & m & Hp & Hl & Hs & Hu & Hk)) Hin (r & n & r1 & -> & Hn & Hg & Hf) Hres.
  exists req. split; [exact Hreq|].
  unfold grants_via. rewrite Hp, Hl, Hs, Hu, opt_user_is_refl. cbn [andb]. cbv zeta. rewrite Hk.
  rewrite !in_app_iff. right; left.
  assert (Hon : kbd_on w = true).
  { unfold kbd_on. unfold kbd_validate in Hres. destruct (kbd_mode w); [discriminate|reflexivity|reflexivity]. }
  cbn [supported]. rewrite Hon. rewrite in_app_iff. right.
  cbn [mkind_eqb andb].
  assert (Hex : existsb (kbd_resp_grants w U) D = true).
  { apply existsb_exists. exists (61 :: r). split; [exact Hin|].
    unfold kbd_resp_grants. rewrite Z.eqb_refl, Hn, Hg, Hf, Hres. reflexivity. }
  rewrite Hex. left. reflexivity.
Qed.

Lemma noauth_grants D U mk full body :
  head_ok full U mk body -> needs_auth w U = false ->
  In (ko_empty, None) (grants_via w sid U D full).
Proof.
  intros (ub & svc & m & Hp & Hl & Hs & Hu & Hk) Hn.
  unfold grants_via. rewrite Hp, Hl, Hs, Hu, opt_user_is_refl. cbn [andb]. cbv zeta.
  rewrite Hn. rewrite !in_app_iff. left. left. reflexivity.
Qed.


(* ------------------------------------------------------------------------------------------- *)
(* Part B: invariant of the repaired variant *)

Definition fin_ok (D : list bytes) (s : st) (k : kont) : Prop :=
  match k with
  | KFin ba mk full body => In full D /\ head_ok full (username s) mk body /\ (ba = false -> ak_ok s)
  | KFinReloaded mk full body => In full D /\ head_ok full (username s) mk body
  | KFinBegun asked mk full body =>
      asked = username s /\ ak_user s = key_src w asked /\ In full D /\ head_ok full (username s) mk body
  | _ => False
  end.

Definition auth_ok (D : list bytes) (s : st) (k : kont) : Prop :=
  exists a, auth s = Some a /\ owner_of k = Some (a_id a) /\ a_user a = username s /\ opts_reset s /\
            complete s = false /\
  match k with
  | KAuthStart aid u mk full body =>
      u = username s /\ In full D /\ head_ok full u mk body /\
      supported w (ak_of w (ak_user s)) mk = true /\ a_kbd a = mkind_eqb mk MKbd
  | KAuthDone aid u e =>
      u = username s /\ eff_ok D u e /\ (a_kbd a = true -> e_ko e = None /\ e_co e = None)
  | KKbdValidate aid u rs =>
      u = username s /\ a_kbd a = true /\ exists resp, In resp D /\ resp_is resp rs
  | _ => False
  end.

Definition auth_obj_ok (D : list bytes) (s : st) : Prop :=
  match auth s with
  | Some a => a_user a = username s /\ complete s = false /\
              (a_kbd a = true -> kbd_req_in D (username s) /\ opts_reset s)
  | None => True
  end.

Definition done_ok (D : list bytes) (s : st) : Prop :=
  if complete s
  then auth s = None /\ granted_r D s /\ count_success (out s) = 1%nat /\ completed_as s = [username s]
  else count_success (out s) = 0%nat /\ completed_as s = [].

Inductive live_shape (D : list bytes) (s : st) : Prop :=
| ShIdle0 : paused s = false -> ak_ok s -> conts s = [] -> live_shape D s
| ShIdle1 t k : paused s = false -> ak_ok s -> conts s = [(t, k)] -> auth_ok D s k -> live_shape D s
| ShFin t k : paused s = true -> auth s = None -> complete s = false -> opts_reset s ->
              conts s = [(t, k)] -> fin_ok D s k -> live_shape D s
| ShRes0 : paused s = true -> ak_ok s -> conts s = [(None, KResume)] -> live_shape D s
| ShRes1 t k : paused s = true -> ak_ok s -> conts s = [(t, k); (None, KResume)] -> auth_ok D s k -> live_shape D s
| ShRes2 t k : paused s = true -> ak_ok s -> conts s = [(None, KResume); (t, k)] -> auth_ok D s k -> live_shape D s.

Definition shape (D : list bytes) (s : st) : Prop :=
  (dead s = true /\ conts s = [] /\ paused s = false /\ auth s = None) \/ (dead s = false /\ live_shape D s).

Record Inv (D : list bytes) (s : st) : Prop := mkInv {
  inv_shape : shape D s;
  inv_inq : Forall (fun p => In p D) (inq s);
  inv_inq0 : paused s = false -> inq s = [];
  inv_auth : auth_obj_ok D s;
  inv_done : done_ok D s
}.

(* ---- monotonicity in D ---- *)
Lemma eff_ok_mono D D' u e : incl D D' -> eff_ok D u e -> eff_ok D' u e.
Proof.
  intros Hi H Hr. destruct (H Hr) as (p & Hp & Hg). exists p. split; [auto|].
  eapply grants_via_mono; eauto.
Qed.

Lemma kbd_req_in_mono D D' u : incl D D' -> kbd_req_in D u -> kbd_req_in D' u.
Proof. intros Hi (req & body & H1 & H2). exists req, body. auto. Qed.

Lemma fin_ok_mono D D' s k : incl D D' -> fin_ok D s k -> fin_ok D' s k.
Proof.
  intros Hi. destruct k; cbn; try tauto.
  - intros (H1 & H2 & H3). auto.
  - intros (H1 & H2). auto.
  - intros (H1 & H2 & H3 & H4). auto.
Qed.

Lemma auth_ok_mono D D' s k : incl D D' -> auth_ok D s k -> auth_ok D' s k.
Proof.
  intros Hi (a & H1 & H2 & H3 & H4 & H5 & H6). exists a. repeat (split; [assumption|]).
  destruct k; try assumption.
  - destruct H6 as (? & ? & ? & ? & ?). auto 10.
  - destruct H6 as (? & ? & ?). split; [assumption|]. split; [eapply eff_ok_mono; eauto|assumption].
  - destruct H6 as (? & ? & resp & ? & ?). split; [assumption|]. split; [assumption|]. exists resp. auto.
Qed.

Lemma live_shape_mono D D' s : incl D D' -> live_shape D s -> live_shape D' s.
Proof.
  intros Hi H. destruct H.
  - apply ShIdle0; auto.
  - eapply ShIdle1; eauto using auth_ok_mono.
  - eapply ShFin; eauto using fin_ok_mono.
  - apply ShRes0; auto.
  - eapply ShRes1; eauto using auth_ok_mono.
  - eapply ShRes2; eauto using auth_ok_mono.
Qed.

Lemma Inv_mono D D' s : incl D D' -> Inv D s -> Inv D' s.
Proof.
  intros Hi [Hs Hq Hq0 Ha Hd]. split.
  - destruct Hs as [Hs|[Hl Hs]]; [left; exact Hs|right; split; [exact Hl|]]. eapply live_shape_mono; eauto.
  - eapply Forall_impl; [|exact Hq]. cbn. auto.
  - exact Hq0.
  - unfold auth_obj_ok in *. destruct (auth s); [|exact I]. destruct Ha as (Ha1 & Ha2 & H).
    split; [assumption|]. split; [assumption|]. intros Hk. destruct (H Hk) as [Hr Ho].
    split; [eapply kbd_req_in_mono; eauto|assumption].
  - unfold done_ok in *. destruct (complete s); [|exact Hd].
    destruct Hd as (Hd1 & (p & Hp & Hg) & Hd3 & Hd4). split; [assumption|]. split; [|split; assumption].
    exists p. split; [auto|]. eapply grants_via_mono; eauto.
Qed.


(* ---- states from which the running continuation has been removed ---- *)
Definition Base (D : list bytes) (s : st) (r : bool) : Prop :=
  dead s = false /\ paused s = r /\ ak_ok s /\ conts s = (if r then [(None, KResume)] else []) /\
  Forall (fun p => In p D) (inq s) /\ (r = false -> inq s = []) /\ auth_obj_ok D s /\ done_ok D s.

Lemma base_inv D s r : Base D s r -> Inv D s.
Proof.
  intros (Hd & Hp & Hak & Hc & Hq & Hq0 & Ha & Hdn). split; auto.
  - right. split; [exact Hd|]. destruct r; [apply ShRes0|apply ShIdle0]; auto.
  - intros Hpf. apply Hq0. congruence.
Qed.

Definition upd (e : effect) (s : st) : st :=
  let s1 := match e_ko e with Some o => set_key_opts o s | None => s end in
  match e_co e with Some c => set_cert_opts (Some c) s1 | None => s1 end.

Lemma upd_restr e s : opts_reset s -> (key_opts (upd e s), cert_opts (upd e s)) = restr_of e.
Proof.
  intros [Hk Hc]. unfold upd, restr_of. destruct (e_ko e), (e_co e); cbn; congruence.
Qed.

Lemma upd_noopts e s : e_ko e = None -> e_co e = None -> upd e s = s.
Proof. intros H1 H2. unfold upd. rewrite H1, H2. reflexivity. Qed.

Lemma upd_fields e s :
  username (upd e s) = username s /\ complete (upd e s) = complete s /\ dead (upd e s) = dead s /\
  auth (upd e s) = auth s /\ conts (upd e s) = conts s /\ ak_user (upd e s) = ak_user s /\
  paused (upd e s) = paused s /\ inq (upd e s) = inq s /\ out (upd e s) = out s /\
  completed_as (upd e s) = completed_as s.
Proof. unfold upd. destruct (e_ko e), (e_co e); cbn; repeat split; reflexivity. Qed.

Lemma apply_effect_eq e s :
  apply_effect w e s =
  match e_res e with
  | RsSuccess => do_success (upd e s)
  | RsFailure => do_failure w (upd e s)
  | RsPkOk => emit RPkOk (upd e s)
  | RsChangeReq => emit RChangeReq (upd e s)
  | RsInfoReq n => emit (RInfoReq n) (upd e s)
  | RsDie => die (upd e s)
  end.
Proof. reflexivity. Qed.

Lemma dead_inv D s : done_ok D s -> auth s = None \/ complete s = false -> Inv D (die s).
Proof.
  intros Hd Hx. split; cbn; auto.
  - left. auto.
  - unfold done_ok in *. cbn. destruct (complete s); [|exact Hd].
    destruct Hd as (H1 & H2 & H3 & H4). auto.
Qed.

Lemma die_inv D s : Inv D s -> Inv D (die s).
Proof.
  intros [Hs Hq Hq0 Ha Hd]. apply dead_inv; [exact Hd|].
  unfold done_ok in Hd. destruct (complete s); [left; apply Hd|right; reflexivity].
Qed.

Ltac base_split := unfold Base; split; [|split; [|split; [|split; [|split; [|split; [|split]]]]]].

Lemma apply_effect_inv D s r e a :
  Base D s r -> auth s = Some a -> a_user a = username s ->
  (a_kbd a = true -> e_ko e = None /\ e_co e = None) ->
  opts_reset s -> complete s = false -> eff_ok D (username s) e ->
  Inv D (apply_effect w e s).
Proof.
  intros (Hd & Hp & Hak & Hc & Hq & Hq0 & Ha & Hdn) Hau Hus Hkb Hor Hco Heff.
  rewrite apply_effect_eq.
  destruct (upd_fields e s) as (Fu & Fc & Fd & Fa & Fk & Fak & Fp & Fq & Fo & Fca).
  unfold done_ok in Hdn. rewrite Hco in Hdn. destruct Hdn as [Hcs Hca].
  unfold auth_obj_ok in Ha. rewrite Hau in Ha. destruct Ha as (_ & _ & Hakbd).
  assert (Hak' : forall x y z v, ak_ok (set_completed_as x (set_complete y (set_auth z (set_out v (upd e s)))))).
  { intros. unfold ak_ok in *. cbn. rewrite Fak, Fu. exact Hak. }
  assert (Hak2 : forall z v, ak_ok (set_auth z (set_out v (upd e s)))).
  { intros. unfold ak_ok in *. cbn. rewrite Fak, Fu. exact Hak. }
  assert (Hak3 : forall v, ak_ok (set_out v (upd e s))).
  { intros. unfold ak_ok in *. cbn. rewrite Fak, Fu. exact Hak. }
  assert (Hobj : forall v, auth_obj_ok D (set_out v (upd e s))).
  { intros. unfold auth_obj_ok. cbn. rewrite Fa, Hau, Fu, Fc. split; [exact Hus|]. split; [exact Hco|].
    intros Hk. destruct (Hkb Hk) as [K1 K2]. rewrite (upd_noopts e s K1 K2). split; [apply Hakbd; exact Hk|exact Hor]. }
  assert (Hdone : forall v, count_success v = count_success (out s) -> done_ok D (set_out v (upd e s))).
  { intros v Hv. unfold done_ok. cbn. rewrite Fc, Hco, Fca, Hv. auto. }
  destruct (e_res e) eqn:Er.
  - (* success *)
    apply base_inv with (r := r). unfold do_success, emit. base_split.
    + cbn. congruence.
    + cbn. congruence.
    + apply Hak'.
    + cbn. congruence.
    + cbn. rewrite Fq. exact Hq.
    + cbn. rewrite Fq. exact Hq0.
    + unfold auth_obj_ok. cbn. exact I.
    + unfold done_ok. cbn. rewrite Fo, Fca, Fu, Hcs, Hca. split; [reflexivity|]. split; [|split; reflexivity].
      destruct (Heff Er) as (p & Hp1 & Hp2). exists p. split; [exact Hp1|]. cbn.
      rewrite Fu. pose proof (upd_restr e s Hor) as Hr. inversion Hr as [[Hr1 Hr2]]. rewrite Hr1, Hr2.
      exact Hp2.
  - (* failure *)
    apply base_inv with (r := r). unfold do_failure, emit. base_split.
    + cbn. congruence.
    + cbn. congruence.
    + apply Hak2.
    + cbn. congruence.
    + cbn. rewrite Fq. exact Hq.
    + cbn. rewrite Fq. exact Hq0.
    + unfold auth_obj_ok. cbn. exact I.
    + unfold done_ok. cbn. rewrite Fc, Hco, Fo, Fca. cbn. auto.
  - (* PK_OK *)
    apply base_inv with (r := r). unfold emit. base_split.
    + cbn. congruence.
    + cbn. congruence.
    + apply Hak3.
    + cbn. congruence.
    + cbn. rewrite Fq. exact Hq.
    + cbn. rewrite Fq. exact Hq0.
    + apply Hobj.
    + apply Hdone. cbn. rewrite Fo. reflexivity.
  - (* CHANGEREQ *)
    apply base_inv with (r := r). unfold emit. base_split.
    + cbn. congruence.
    + cbn. congruence.
    + apply Hak3.
    + cbn. congruence.
    + cbn. rewrite Fq. exact Hq.
    + cbn. rewrite Fq. exact Hq0.
    + apply Hobj.
    + apply Hdone. cbn. rewrite Fo. reflexivity.
  - (* INFO_REQUEST *)
    apply base_inv with (r := r). unfold emit. base_split.
    + cbn. congruence.
    + cbn. congruence.
    + apply Hak3.
    + cbn. congruence.
    + cbn. rewrite Fq. exact Hq.
    + cbn. rewrite Fq. exact Hq0.
    + apply Hobj.
    + apply Hdone. cbn. rewrite Fo. reflexivity.
  - (* die *)
    apply dead_inv.
    + unfold done_ok. rewrite Fc, Hco, Fo, Fca. auto.
    + right. rewrite Fc. exact Hco.
Qed.


(* a continuation of the current auth object is added to a Base state *)
Lemma base_add_auth D s r t k c' :
  Base D s r -> auth_ok D s k ->
  conts c' = conts s ++ [(t, k)] ->
  dead c' = dead s -> paused c' = paused s -> username c' = username s -> ak_user c' = ak_user s ->
  auth c' = auth s -> complete c' = complete s -> key_opts c' = key_opts s -> cert_opts c' = cert_opts s ->
  inq c' = inq s -> out c' = out s -> completed_as c' = completed_as s ->
  Inv D c'.
Proof.
  intros (Hd & Hp & Hak & Hc & Hq & Hq0 & Ha & Hdn) Hok E1 E2 E3 E4 E5 E6 E7 E8 E9 E10 E11 E12.
  assert (Hak' : ak_ok c') by (unfold ak_ok in *; rewrite E4, E5; exact Hak).
  assert (Hok' : auth_ok D c' k).
  { destruct Hok as (a & H1 & H2 & H3 & H4 & H5 & H6). exists a.
    split; [congruence|]. split; [exact H2|]. split; [congruence|].
    split; [unfold opts_reset in *; rewrite E8, E9; exact H4|]. split; [congruence|].
    destruct k; try exact H6; rewrite ?E4, ?E5; exact H6. }
  split.
  - right. split; [congruence|]. rewrite Hc in E1. destruct r; cbn in E1.
    + eapply ShRes2; eauto; congruence.
    + eapply ShIdle1; eauto; congruence.
  - rewrite E10. exact Hq.
  - rewrite E3, E10. intros Hpf. apply Hq0. congruence.
  - unfold auth_obj_ok in *. rewrite E6, E4, E7. unfold opts_reset in *. rewrite E8, E9. exact Ha.
  - unfold done_ok, granted_r in *. rewrite E7, E6, E11, E12, E4, E8, E9. exact Hdn.
Qed.

Lemma run_auth_inv D s r aid u ce a :
  Base D s r -> auth s = Some a -> a_id a = aid -> a_user a = username s -> u = username s ->
  (a_kbd a = true -> e_ko (snd ce) = None /\ e_co (snd ce) = None) ->
  opts_reset s -> complete s = false -> eff_ok D u (snd ce) ->
  Inv D (run_auth w aid u ce s).
Proof.
  intros HB Hau Hid Hus Hu Hkb Hor Hco Heff. unfold run_auth.
  destruct (is_async w (fst ce)).
  - eapply base_add_auth with (s := s) (t := Some (next_fid s)) (k := KAuthDone aid u (snd ce)); try reflexivity; eauto.
    exists a. cbn. subst aid. split; [assumption|]. split; [reflexivity|]. split; [assumption|]. split; [assumption|].
    split; [assumption|]. split; [assumption|]. split; assumption.
  - subst u. eapply apply_effect_inv; eauto.
Qed.


Lemma kbd_start_noopts u body : e_ko (snd (kbd_start w u body)) = None /\ e_co (snd (kbd_start w u body)) = None.
Proof.
  unfold kbd_start. destruct (get_string body) as [[lang r1]|]; [|split; reflexivity].
  destruct (get_string r1) as [[subm [|x r2]]|]; try (split; reflexivity).
  destruct (is_ascii lang && utf8 w subm); [|split; reflexivity].
  destruct (kbd_mode w); split; reflexivity.
Qed.

Lemma kbd_validate_noopts u rs :
  e_ko (snd (kbd_validate w u rs)) = None /\ e_co (snd (kbd_validate w u rs)) = None.
Proof.
  unfold kbd_validate. destruct (kbd_mode w); try (split; reflexivity).
  destruct rs as [|r [|r2 rs]]; split; reflexivity.
Qed.

Lemma mkind_eqb_true a b : mkind_eqb a b = true -> a = b.
Proof. destruct a, b; cbn; congruence. Qed.

Lemma run_authcont_inv D s r k :
  Base D s r -> auth_ok D s k -> Inv D (run_kont w sid true k s).
Proof.
  intros HB (a & Hau & Hown & Hus & Hor & Hco & Hk).
  pose proof HB as (Hd & Hp & Hak & Hc & Hq & Hq0 & Ha & Hdn).
  destruct k; try (exfalso; exact Hk); cbn [run_kont]; cbn in Hown; inversion Hown as [Hid].
  - (* KAuthStart *)
    destruct Hk as (Hu & Hin & Hhd & Hsup & Hkbd).
    eapply run_auth_inv; eauto.
    + intros Hkb. rewrite Hkb in Hkbd. symmetry in Hkbd. apply mkind_eqb_true in Hkbd. subst k.
      cbn [auth_start]. apply kbd_start_noopts.
    + intros Hres. exists full. split; [exact Hin|].
      destruct Hak as [Hak|[Hak1 Hak2]].
      * rewrite Hak in *. rewrite <- Hu in *.
        apply auth_start_grants with (src := key_src w u); auto.
      * rewrite Hak1 in *. rewrite <- Hu in Hak2.
        apply auth_start_grants with (src := None); auto.
  - (* KAuthDone *)
    destruct Hk as (Hu & Heff & Hkb). subst u. eapply apply_effect_inv; eauto.
  - (* KKbdValidate *)
    destruct Hk as (Hu & Hkb & resp & Hin & Hresp).
    eapply run_auth_inv; eauto.
    + intros _. apply kbd_validate_noopts.
    + intros Hres.
      unfold auth_obj_ok in Ha. rewrite Hau in Ha. destruct Ha as (_ & _ & Ha). destruct (Ha Hkb) as [Hreq _].
      rewrite <- Hu in Hreq.
      destruct (kbd_validate_grants D u rs resp Hreq Hin Hresp Hres) as (p & Hp1 & Hp2).
      exists p. split; [exact Hp1|].
      destruct (kbd_validate_noopts u rs) as [K1 K2]. unfold restr_of. rewrite K1, K2. exact Hp2.
Qed.


(* ---- the invariant only looks at some fields ---- *)
Definition same_core (s s' : st) : Prop :=
  username s' = username s /\ complete s' = complete s /\ dead s' = dead s /\ auth s' = auth s /\
  conts s' = conts s /\ ak_user s' = ak_user s /\ key_opts s' = key_opts s /\ cert_opts s' = cert_opts s /\
  paused s' = paused s /\ inq s' = inq s /\ completed_as s' = completed_as s /\
  count_success (out s') = count_success (out s).

Lemma ak_ok_core s s' : username s' = username s -> ak_user s' = ak_user s -> ak_ok s -> ak_ok s'.
Proof. unfold ak_ok. intros -> ->. auto. Qed.

Lemma opts_reset_core s s' : key_opts s' = key_opts s -> cert_opts s' = cert_opts s -> opts_reset s -> opts_reset s'.
Proof. unfold opts_reset. intros -> ->. auto. Qed.

Lemma auth_ok_core D s s' k :
  username s' = username s -> complete s' = complete s -> auth s' = auth s -> ak_user s' = ak_user s ->
  key_opts s' = key_opts s -> cert_opts s' = cert_opts s -> auth_ok D s k -> auth_ok D s' k.
Proof.
  intros E1 E2 E3 E4 E5 E6 (a & H1 & H2 & H3 & H4 & H5 & H6). exists a.
  split; [congruence|]. split; [exact H2|]. split; [congruence|].
  split; [eapply opts_reset_core; eauto|]. split; [congruence|].
  destruct k; try exact H6; rewrite ?E1, ?E4; exact H6.
Qed.

Lemma fin_ok_core D s s' k :
  username s' = username s -> ak_user s' = ak_user s -> fin_ok D s k -> fin_ok D s' k.
Proof.
  intros E1 E2. destruct k; cbn; try tauto.
  - intros (H1 & H2 & H3). rewrite E1. split; [auto|]. split; [auto|]. intros Hb. eapply ak_ok_core; eauto.
  - rewrite E1. auto.
  - rewrite E1, E2. auto.
Qed.

Lemma auth_obj_ok_core D s s' :
  username s' = username s -> complete s' = complete s -> auth s' = auth s ->
  key_opts s' = key_opts s -> cert_opts s' = cert_opts s -> auth_obj_ok D s -> auth_obj_ok D s'.
Proof.
  intros E1 E2 E3 E4 E5. unfold auth_obj_ok, opts_reset. rewrite E1, E2, E3, E4, E5. auto.
Qed.

Lemma done_ok_core D s s' :
  username s' = username s -> complete s' = complete s -> auth s' = auth s ->
  key_opts s' = key_opts s -> cert_opts s' = cert_opts s -> completed_as s' = completed_as s ->
  count_success (out s') = count_success (out s) -> done_ok D s -> done_ok D s'.
Proof.
  intros E1 E2 E3 E4 E5 E6 E7. unfold done_ok, granted_r. rewrite E1, E2, E3, E4, E5, E6, E7. auto.
Qed.

Lemma Inv_same_core D s s' : same_core s s' -> Inv D s -> Inv D s'.
Proof.
  intros (E1 & E2 & E3 & E4 & E5 & E6 & E7 & E8 & E9 & E10 & E11 & E12) [Hs Hq Hq0 Ha Hd]. split.
  - destruct Hs as [(H1 & H2 & H3 & H4)|[Hl Hs]].
    + left. repeat split; congruence.
    + right. split; [congruence|]. destruct Hs.
      * apply ShIdle0; try congruence. eapply ak_ok_core; eauto.
      * eapply ShIdle1; try congruence; [eapply ak_ok_core; eauto | rewrite E5; eassumption | eapply auth_ok_core; eauto].
      * eapply ShFin; try congruence; [eapply opts_reset_core; eauto | rewrite E5; eassumption | eapply fin_ok_core; eauto].
      * apply ShRes0; try congruence. eapply ak_ok_core; eauto.
      * eapply ShRes1; try congruence; [eapply ak_ok_core; eauto | rewrite E5; eassumption | eapply auth_ok_core; eauto].
      * eapply ShRes2; try congruence; [eapply ak_ok_core; eauto | rewrite E5; eassumption | eapply auth_ok_core; eauto].
  - rewrite E10. exact Hq.
  - rewrite E9, E10. exact Hq0.
  - eapply auth_obj_ok_core; eauto.
  - eapply done_ok_core; eauto.
Qed.


(* ---- the _finish_userauth task ---- *)
Definition FinBase (D : list bytes) (s : st) : Prop :=
  dead s = false /\ paused s = true /\ auth s = None /\ complete s = false /\ opts_reset s /\
  conts s = [] /\ Forall (fun p => In p D) (inq s) /\ done_ok D s.

Lemma done_ok_false D s : complete s = false -> done_ok D s -> count_success (out s) = 0%nat /\ completed_as s = [].
Proof. intros H. unfold done_ok. rewrite H. auto. Qed.

Lemma lookup_resume_inv D s mk full body :
  FinBase D s -> ak_ok s -> In full D -> head_ok full (username s) mk body ->
  Inv D (fin_done true (lookup w mk full body s)).
Proof.
  intros (Hd & Hp & Hau & Hco & Hor & Hc & Hq & Hdn) Hak Hin Hhd.
  destruct (done_ok_false D s Hco Hdn) as [Hcs Hca].
  unfold fin_done, lookup, cancel_auth. rewrite Hau.
  destruct (supported w (ak_of w (ak_user s)) mk) eqn:Hsup.
  - split.
    + right. split; [cbn; exact Hd|].
      eapply ShRes1 with (t := None) (k := KAuthStart (next_aid s) (username s) mk full body).
      * cbn. exact Hp.
      * unfold ak_ok in *. cbn. exact Hak.
      * cbn. rewrite Hc. reflexivity.
      * exists (mkAuth (next_aid s) (username s) (mkind_eqb mk MKbd)). cbn.
        split; [reflexivity|]. split; [reflexivity|]. split; [reflexivity|]. split; [exact Hor|].
        split; [exact Hco|]. split; [reflexivity|]. split; [exact Hin|]. split; [exact Hhd|].
        split; [exact Hsup|reflexivity].
    + cbn. exact Hq.
    + cbn. rewrite Hp. discriminate.
    + unfold auth_obj_ok. cbn. split; [reflexivity|]. split; [exact Hco|]. intros Hk.
      apply mkind_eqb_true in Hk. subst mk. split; [|exact Hor]. exists full, body. split; assumption.
    + unfold done_ok. cbn. rewrite Hco. auto.
  - apply base_inv with (r := true). unfold do_failure, emit, spawn, push. base_split.
    + cbn. exact Hd.
    + cbn. exact Hp.
    + unfold ak_ok in *. cbn. exact Hak.
    + cbn. rewrite Hc. reflexivity.
    + cbn. exact Hq.
    + discriminate.
    + unfold auth_obj_ok. cbn. exact I.
    + unfold done_ok. cbn. rewrite Hco. auto.
Qed.

Lemma success_resume_inv D s mk full body :
  FinBase D s -> ak_ok s -> In full D -> head_ok full (username s) mk body ->
  needs_auth w (username s) = false ->
  Inv D (fin_done true (do_success s)).
Proof.
  intros (Hd & Hp & Hau & Hco & Hor & Hc & Hq & Hdn) Hak Hin Hhd Hna.
  destruct (done_ok_false D s Hco Hdn) as [Hcs Hca].
  apply base_inv with (r := true). unfold fin_done, do_success, emit, spawn, push. base_split.
  - cbn. exact Hd.
  - cbn. exact Hp.
  - unfold ak_ok in *. cbn. exact Hak.
  - cbn. rewrite Hc. reflexivity.
  - cbn. exact Hq.
  - discriminate.
  - unfold auth_obj_ok. cbn. exact I.
  - unfold done_ok. cbn. rewrite Hcs, Hca. split; [reflexivity|]. split; [|split; reflexivity].
    exists full. split; [exact Hin|]. cbn. destruct Hor as [-> ->].
    eapply noauth_grants; eauto.
Qed.

Lemma run_begun_inv D s mk full body :
  FinBase D s -> ak_ok s -> In full D -> head_ok full (username s) mk body ->
  Inv D (run_begun w true (username s) mk full body s).
Proof.
  intros HB Hak Hin Hhd. unfold run_begun.
  destruct (needs_auth w (username s)) eqn:Hn.
  - apply lookup_resume_inv; assumption.
  - eapply success_resume_inv; eassumption.
Qed.

Lemma fin_block_inv D s k :
  FinBase D s -> fin_ok D s k -> Inv D (block k s).
Proof.
  intros (Hd & Hp & Hau & Hco & Hor & Hc & Hq & Hdn) Hk. split.
  - right. split; [cbn; exact Hd|].
    eapply ShFin with (t := Some (next_fid s)) (k := k); cbn; auto.
    all: try (rewrite Hc; reflexivity).
    all: try (eapply fin_ok_core; [| |exact Hk]; reflexivity).
  - cbn. exact Hq.
  - cbn. rewrite Hp. discriminate.
  - unfold auth_obj_ok. cbn. rewrite Hau. exact I.
  - eapply done_ok_core; [| | | | | | |exact Hdn]; reflexivity.
Qed.

Lemma run_fin_inv D s k :
  FinBase D s -> fin_ok D s k -> Inv D (run_kont w sid true k s).
Proof.
  intros HB Hk. pose proof HB as (Hd & Hp & Hau & Hco & Hor & Hc & Hq & Hdn).
  destruct k; try (exfalso; exact Hk); cbn [run_kont].
  - (* KFin *)
    destruct Hk as (Hin & Hhd & Hba). destruct ba.
    + apply fin_block_inv; [exact HB|]. cbn. auto.
    + apply lookup_resume_inv; auto.
  - (* KFinReloaded *)
    destruct Hk as (Hin & Hhd).
    set (s1 := set_begun (username s :: begun s) (set_ak_user (key_src w (username s)) s)).
    assert (HB1 : FinBase D s1).
    { unfold s1. unfold FinBase. cbn. repeat (split; [assumption|]).
      eapply done_ok_core; [| | | | | | |exact Hdn]; reflexivity. }
    assert (Hak1 : ak_ok s1) by (left; reflexivity).
    destruct (async_begin w).
    + apply fin_block_inv; [exact HB1|]. cbn. auto.
    + change (username s) with (username s1). apply run_begun_inv; auto.
  - (* KFinBegun *)
    destruct Hk as (Has & Hak & Hin & Hhd). subst asked.
    apply run_begun_inv; auto. left. exact Hak.
Qed.


(* ---- a packet processed while input is not paused ---- *)
Definition Idle (D : list bytes) (s : st) : Prop :=
  dead s = false /\ paused s = false /\ ak_ok s /\
  (conts s = [] \/ exists t k, conts s = [(t, k)] /\ auth_ok D s k) /\
  inq s = [] /\ auth_obj_ok D s /\ done_ok D s.

Lemma idle_inv D s : Idle D s -> Inv D s.
Proof.
  intros (Hd & Hp & Hak & Hc & Hq & Ha & Hdn). split; auto.
  - right. split; [exact Hd|]. destruct Hc as [Hc|(t & k & Hc & Hk)].
    + apply ShIdle0; auto.
    + eapply ShIdle1; eauto.
  - rewrite Hq. constructor.
Qed.

Lemma inv_idle D s : Inv D s -> dead s = false -> paused s = false -> Idle D s.
Proof.
  intros [Hs Hq Hq0 Ha Hd] Hdd Hp. destruct Hs as [(H1 & _)|[_ Hs]]; [congruence|].
  unfold Idle. destruct Hs; try congruence.
  - repeat (split; auto).
  - repeat (split; auto). right. eauto.
Qed.

Lemma cancel_auth_idle D s :
  Idle D s -> conts (cancel_auth s) = [].
Proof.
  intros (Hd & Hp & Hak & Hc & Hq & Ha & Hdn). unfold cancel_auth.
  destruct Hc as [Hc|(t & k & Hc & (a & H1 & H2 & _))].
  - destruct (auth s); cbn; rewrite Hc; reflexivity.
  - rewrite H1. cbn. rewrite Hc. cbn. unfold owned. cbn. rewrite H2, Z.eqb_refl. reflexivity.
Qed.

Lemma cancel_aid_idle D s a :
  Idle D s -> auth s = Some a -> conts (cancel_aid (a_id a) s) = [].
Proof.
  intros HI Hau. pose proof (cancel_auth_idle D s HI) as H. unfold cancel_auth in H. rewrite Hau in H. exact H.
Qed.

Lemma proc_request_inv D s p :
  Idle D s -> In p D -> Inv D (proc_request w true p s).
Proof.
  intros HI Hin. pose proof HI as (Hd & Hp & Hak & Hc & Hq & Ha & Hdn).
  pose proof (idle_inv D s HI) as HInv.
  unfold proc_request.
  destruct (parse_head p) as [[[[ub svc] m] body]|] eqn:Hph; [|apply die_inv; exact HInv].
  destruct (1024 <=? blen ub) eqn:Hlen; [apply die_inv; exact HInv|].
  destruct (zlist_eqb svc S_CONN) eqn:Hsvc; cbn [negb]; [|apply die_inv; exact HInv].
  destruct (prep w ub) as [u|] eqn:Hprep; [|apply die_inv; exact HInv].
  destruct (complete s) eqn:Hco.
  { destruct (final s); [apply die_inv; exact HInv|exact HInv]. }
  destruct (done_ok_false D s Hco Hdn) as [Hcs Hca].
  set (ba := negb (zlist_eqb u (username s))).
  set (s1 := if ba then set_username u s else s).
  assert (Hu1 : username s1 = u).
  { unfold s1, ba. destruct (zlist_eqb u (username s)) eqn:E; cbn; [|reflexivity].
    symmetry. apply zlist_eqb_true. exact E. }
  assert (Hc1 : conts (cancel_auth s1) = []).
  { unfold s1. destruct ba; [|eapply cancel_auth_idle; eauto].
    pose proof (cancel_auth_idle D s HI) as H. unfold cancel_auth in *. cbn. destruct (auth s); cbn in *; exact H. }
  assert (Hf1 : username (cancel_auth s1) = u /\ dead (cancel_auth s1) = false /\ complete (cancel_auth s1) = false /\
                inq (cancel_auth s1) = [] /\ out (cancel_auth s1) = out s /\ completed_as (cancel_auth s1) = completed_as s /\
                ak_user (cancel_auth s1) = ak_user s).
  { unfold cancel_auth, cancel_aid. destruct (auth s1); cbn; rewrite ?Hu1; unfold s1; destruct ba; cbn; auto 10. }
  destruct Hf1 as (F1 & F2 & F3 & F4 & F5 & F6 & F7).
  split.
  - right. split; [cbn; exact F2|].
    eapply ShFin with (t := None) (k := KFin ba (kind_of m) p body); cbn; auto.
    + split; reflexivity.
    + rewrite Hc1. reflexivity.
    + split; [exact Hin|]. split.
      * rewrite F1. exists ub, svc, m. split; [exact Hph|]. split; [|auto].
        apply Z.ltb_lt. apply Z.leb_gt in Hlen. exact Hlen.
      * intros Hba. unfold ak_ok in *. cbn. rewrite F1, F7.
        unfold ba in Hba. apply Bool.negb_false_iff in Hba. apply zlist_eqb_true in Hba. rewrite Hba. exact Hak.
  - cbn. rewrite F4. constructor.
  - cbn. discriminate.
  - unfold auth_obj_ok. cbn. exact I.
  - unfold done_ok. cbn. rewrite F3, F5, F6. auto.
Qed.

Lemma info_response_inv D s a r :
  Idle D s -> auth s = Some a -> a_kbd a = true -> In (61 :: r) D -> Inv D (info_response w a r s).
Proof.
  intros HI Hau Hkb Hin. pose proof HI as (Hd & Hp & Hak & Hc & Hq & Ha & Hdn).
  pose proof (idle_inv D s HI) as HInv.
  unfold info_response.
  destruct (get_u32 r) as [[n r1]|] eqn:Hn; [|apply die_inv; exact HInv].
  destruct (get_nstrings (S (length r1)) n r1) as [[rs [|x rest]]|] eqn:Hg; try (apply die_inv; exact HInv).
  destruct (forallb (utf8 w) rs) eqn:Hf; [|apply die_inv; exact HInv].
  pose proof (cancel_aid_idle D s a HI Hau) as Hc0.
  unfold auth_obj_ok in Ha. rewrite Hau in Ha. destruct Ha as (Ha1 & Ha2 & Ha3). destruct (Ha3 Hkb) as [Hreq Hor].
  split.
  - right. split; [cbn; exact Hd|].
    eapply ShIdle1 with (t := None) (k := KKbdValidate (a_id a) (a_user a) rs); cbn; auto.
    + cbn in Hc0. rewrite Hc0. reflexivity.
    + exists a. cbn. split; [exact Hau|]. split; [reflexivity|]. split; [exact Ha1|]. split; [exact Hor|].
      split; [exact Ha2|]. split; [exact Ha1|]. split; [exact Hkb|].
      exists (61 :: r). split; [exact Hin|]. exists r, n, r1. auto.
  - cbn. rewrite Hq. constructor.
  - cbn. intros _. exact Hq.
  - unfold auth_obj_ok. cbn. rewrite Hau. auto.
  - eapply done_ok_core; [| | | | | | |exact Hdn]; reflexivity.
Qed.

Lemma deliver1_inv D s p :
  Idle D s -> In p D -> Inv D (deliver1 w true p s).
Proof.
  intros HI Hin. pose proof HI as (Hd & Hp & Hak & Hc & Hq & Ha & Hdn).
  pose proof (idle_inv D s HI) as HInv.
  unfold deliver1. destruct p as [|t r]; [apply die_inv; exact HInv|].
  destruct (t =? 50); [apply proc_request_inv; assumption|].
  destruct (t =? 2).
  { destruct (get_string r) as [[x [|y l]]|]; try (apply die_inv; exact HInv). exact HInv. }
  destruct ((60 <=? t) && (t <=? 79)).
  { destruct (auth s) as [a|] eqn:Hau; [|apply die_inv; exact HInv].
    destruct (a_kbd a && (t =? 61)) eqn:Hk.
    - apply andb_true_iff in Hk as [Hk1 Hk2]. apply Z.eqb_eq in Hk2. subst t.
      apply info_response_inv; assumption.
    - eapply Inv_same_core; [|exact HInv]. unfold same_core, emit. cbn. repeat split; reflexivity. }
  destruct (80 <=? t); [|apply die_inv; exact HInv].
  destruct (complete s); [|apply die_inv; exact HInv].
  eapply Inv_same_core; [|exact HInv]. unfold same_core, emit. cbn. repeat split; reflexivity.
Qed.

Lemma Inv_set_inq D s q :
  Inv D s -> paused s = true -> Forall (fun p => In p D) q -> Inv D (set_inq q s).
Proof.
  intros [Hs Hq Hq0 Ha Hd] Hp Hf. split.
  - destruct Hs as [(H1 & H2 & H3 & H4)|[Hl Hs]]; [congruence|].
    right. split; [exact Hl|]. destruct Hs; try congruence.
    + eapply ShFin; eauto.
    + apply ShRes0; auto.
    + eapply ShRes1; eauto.
    + eapply ShRes2; eauto.
  - cbn. exact Hf.
  - cbn. rewrite Hp. discriminate.
  - eapply auth_obj_ok_core; [| | | | |exact Ha]; reflexivity.
  - eapply done_ok_core; [| | | | | | |exact Hd]; reflexivity.
Qed.

Lemma drain_inv D q : forall s,
  Idle D s -> Forall (fun p => In p D) q -> Inv D (drain w true q s).
Proof.
  induction q as [|p q IH]; intros s HI Hf; cbn [drain].
  - apply idle_inv. exact HI.
  - inversion Hf as [|? ? Hp Hq]; subst.
    pose proof (deliver1_inv D s p HI Hp) as HInv.
    destruct (dead (deliver1 w true p s)) eqn:Hdd; [exact HInv|].
    destruct (paused (deliver1 w true p s)) eqn:Hpp.
    + apply Inv_set_inq; assumption.
    + apply IH; [|exact Hq]. apply inv_idle; assumption.
Qed.


Lemma run_resume_inv D s :
  dead s = false -> paused s = true -> ak_ok s ->
  (conts s = [] \/ exists t k, conts s = [(t, k)] /\ auth_ok D s k) ->
  Forall (fun p => In p D) (inq s) -> auth_obj_ok D s -> done_ok D s ->
  Inv D (run_kont w sid true KResume s).
Proof.
  intros Hd Hp Hak Hc Hq Ha Hdn. cbn [run_kont]. apply drain_inv; [|exact Hq].
  unfold Idle. cbn. split; [exact Hd|]. split; [reflexivity|]. split; [exact Hak|].
  split; [|split; [reflexivity|split]].
  - destruct Hc as [Hc|(t & k & Hc & Hk)]; [left; exact Hc|right]. exists t, k. split; [exact Hc|].
    eapply auth_ok_core; [| | | | | |exact Hk]; reflexivity.
  - eapply auth_obj_ok_core; [| | | | |exact Ha]; reflexivity.
  - eapply done_ok_core; [| | | | | | |exact Hdn]; reflexivity.
Qed.

(* replacing the continuation list by another one of an allowed shape *)
Lemma Inv_set_conts D s c :
  Inv D s -> dead s = false -> live_shape D (set_conts c s) -> Inv D (set_conts c s).
Proof.
  intros [Hs Hq Hq0 Ha Hd] Hdd Hl. split.
  - right. split; [exact Hdd|exact Hl].
  - exact Hq.
  - exact Hq0.
  - eapply auth_obj_ok_core; [| | | | |exact Ha]; reflexivity.
  - eapply done_ok_core; [| | | | | | |exact Hd]; reflexivity.
Qed.

Lemma inv_base D s c r :
  Inv D s -> dead s = false -> paused s = r -> ak_ok s ->
  c = (if r then [(None, KResume)] else []) -> Base D (set_conts c s) r.
Proof.
  intros [Hs Hq Hq0 Ha Hd] Hdd Hp Hak Hc. base_split; cbn; auto; try (intros Hr; apply Hq0; congruence).
Qed.

Lemma inv_finbase D s :
  Inv D s -> dead s = false -> paused s = true -> auth s = None -> complete s = false -> opts_reset s ->
  FinBase D (set_conts [] s).
Proof.
  intros [Hs Hq Hq0 Ha Hd] Hdd Hp Hau Hco Hor. unfold FinBase. cbn. repeat (split; [assumption|]).
  split; [reflexivity|]. split; [exact Hq|].
  eapply done_ok_core; [| | | | | | |exact Hd]; reflexivity.
Qed.

Lemma complete_inv D s fid : Inv D s -> Inv D (step w sid true s (Complete fid)).
Proof.
  intros HInv. unfold step. destruct (dead s) eqn:Hdd; [exact HInv|].
  pose proof HInv as [Hs Hq Hq0 Ha Hd]. destruct Hs as [(H1 & _)|[_ Hs]]; [congruence|].
  destruct Hs as [Hp Hak Hc|t k Hp Hak Hc Hk|t k Hp Hau Hco Hor Hc Hk|Hp Hak Hc|t k Hp Hak Hc Hk|t k Hp Hak Hc Hk];
    rewrite Hc; cbn [extract].
  - exact HInv.
  - destruct t as [f|]; [|exact HInv]. destruct (f =? fid); [|exact HInv]. cbn [app].
    apply Inv_set_conts; auto.
    eapply ShIdle1 with (t := None) (k := k); [exact Hp|exact Hak|reflexivity|].
    eapply auth_ok_core; [| | | | | |exact Hk]; reflexivity.
  - destruct t as [f|]; [|exact HInv]. destruct (f =? fid); [|exact HInv]. cbn [app].
    apply Inv_set_conts; auto.
    eapply ShFin with (t := None) (k := k); [exact Hp|exact Hau|exact Hco|exact Hor|reflexivity|].
    eapply fin_ok_core; [| |exact Hk]; reflexivity.
  - exact HInv.
  - destruct t as [f|]; [|exact HInv]. destruct (f =? fid); [|exact HInv]. cbn [app].
    apply Inv_set_conts; auto.
    eapply ShRes2 with (t := None) (k := k); [exact Hp|exact Hak|reflexivity|].
    eapply auth_ok_core; [| | | | | |exact Hk]; reflexivity.
  - destruct t as [f|]; [|exact HInv]. destruct (f =? fid); [|exact HInv]. cbn [app].
    apply Inv_set_conts; auto.
    eapply ShRes2 with (t := None) (k := k); [exact Hp|exact Hak|reflexivity|].
    eapply auth_ok_core; [| | | | | |exact Hk]; reflexivity.
Qed.

Lemma run_inv D s i : Inv D s -> Inv D (step w sid true s (Run i)).
Proof.
  intros HInv. unfold step. destruct (dead s) eqn:Hdd; [exact HInv|].
  pose proof HInv as [Hs Hq Hq0 Ha Hd]. destruct Hs as [(H1 & _)|[_ Hs]]; [congruence|].
  assert (Hobj : forall c, auth_obj_ok D (set_conts c s)).
  { intros c. eapply auth_obj_ok_core; [| | | | |exact Ha]; reflexivity. }
  assert (Hdone : forall c, done_ok D (set_conts c s)).
  { intros c. eapply done_ok_core; [| | | | | | |exact Hd]; reflexivity. }
  assert (Hauth : forall c k, auth_ok D s k -> auth_ok D (set_conts c s) k).
  { intros c k Hk. eapply auth_ok_core; [| | | | | |exact Hk]; reflexivity. }
  destruct Hs as [Hp Hak Hc|t k Hp Hak Hc Hk|t k Hp Hau Hco Hor Hc Hk|Hp Hak Hc|t k Hp Hak Hc Hk|t k Hp Hak Hc Hk];
    rewrite Hc.
  - destruct i; exact HInv.
  - destruct i as [|i]; [|destruct i; exact HInv]. cbn [nth_error remove_nth].
    destruct t; [exact HInv|].
    eapply run_authcont_inv with (r := false); [eapply inv_base; eauto|apply Hauth; exact Hk].
  - destruct i as [|i]; [|destruct i; exact HInv]. cbn [nth_error remove_nth].
    destruct t; [exact HInv|].
    eapply run_fin_inv; [eapply inv_finbase; eauto|].
    eapply fin_ok_core; [| |exact Hk]; reflexivity.
  - destruct i as [|i]; [|destruct i; exact HInv]. cbn [nth_error remove_nth].
    apply run_resume_inv; [exact Hdd|exact Hp|exact Hak|left; reflexivity|exact Hq|apply Hobj|apply Hdone].
  - destruct i as [|[|i]]; cbn [nth_error remove_nth].
    + destruct t; [exact HInv|].
      eapply run_authcont_inv with (r := true); [eapply inv_base; eauto|apply Hauth; exact Hk].
    + apply run_resume_inv; [exact Hdd|exact Hp|exact Hak| |exact Hq|apply Hobj|apply Hdone].
      right. exists t, k. split; [reflexivity|apply Hauth; exact Hk].
    + destruct i; exact HInv.
  - destruct i as [|[|i]]; cbn [nth_error remove_nth].
    + apply run_resume_inv; [exact Hdd|exact Hp|exact Hak| |exact Hq|apply Hobj|apply Hdone].
      right. exists t, k. split; [reflexivity|apply Hauth; exact Hk].
    + destruct t; [exact HInv|].
      eapply run_authcont_inv with (r := true); [eapply inv_base; eauto|apply Hauth; exact Hk].
    + destruct i; exact HInv.
Qed.

Lemma deliver_inv D s p : Inv D s -> Inv (p :: D) (step w sid true s (Deliver p)).
Proof.
  intros HInv0. assert (HInv : Inv (p :: D) s) by (eapply Inv_mono; [|exact HInv0]; apply incl_tl, incl_refl).
  unfold step. destruct (dead s) eqn:Hdd; [exact HInv|].
  destruct (paused s) eqn:Hp.
  - apply Inv_set_inq; [exact HInv|exact Hp|]. apply Forall_app. split; [apply HInv|].
    constructor; [left; reflexivity|constructor].
  - apply deliver1_inv; [|left; reflexivity]. apply inv_idle; assumption.
Qed.

Definition evD (e : ev) (D : list bytes) : list bytes := match e with Deliver p => p :: D | _ => D end.

Lemma step_inv D s e : Inv D s -> Inv (evD e D) (step w sid true s e).
Proof.
  intros H. destruct e; cbn [evD].
  - apply deliver_inv. exact H.
  - apply complete_inv. exact H.
  - apply run_inv. exact H.
Qed.

Lemma init_inv : Inv [] init.
Proof.
  apply idle_inv. unfold Idle, init. cbn. repeat split; auto.
  - right. split; reflexivity.
Qed.

Lemma run_inv_all evs : forall D s, Inv D s -> Inv (fold_left (fun d e => evD e d) evs D) (fold_left (step w sid true) evs s).
Proof.
  induction evs as [|e evs IH]; intros D s H; cbn [fold_left]; [exact H|].
  apply IH. apply step_inv. exact H.
Qed.

Lemma evD_incl evs : forall D, incl D (payloads evs ++ D) -> True.
Proof. auto. Qed.

Lemma fold_evD_incl evs : forall D, incl (fold_left (fun d e => evD e d) evs D) (payloads evs ++ D).
Proof.
  induction evs as [|e evs IH]; intros D; cbn [fold_left payloads flat_map].
  - apply incl_refl.
  - intros x Hx. apply IH in Hx. apply in_app_iff in Hx as [Hx|Hx].
    + apply in_app_iff. left. apply in_app_iff. right. exact Hx.
    + destruct e; cbn [evD] in Hx; cbn [app].
      * destruct Hx as [<-|Hx]; [left; reflexivity|right]. apply in_app_iff. right. exact Hx.
      * apply in_app_iff. right. exact Hx.
      * apply in_app_iff. right. exact Hx.
Qed.

Theorem fixed_invariant evs : exists D, incl D (payloads evs) /\ Inv D (run w sid true evs).
Proof.
  exists (fold_left (fun d e => evD e d) evs []). split.
  - intros x Hx. apply fold_evD_incl in Hx. rewrite app_nil_r in Hx. exact Hx.
  - unfold run. apply run_inv_all. apply init_inv.
Qed.


(* ---- consequences for the repaired variant --------------------------------------------------- *)
Theorem sound_fixed evs :
  let s := run w sid true evs in
  complete s = true -> granted w sid (username s) (payloads evs) = true.
Proof.
  intros s Hc. destruct (fixed_invariant evs) as (D & Hi & [_ _ _ _ Hd]). fold s in Hd.
  unfold done_ok in Hd. rewrite Hc in Hd. destruct Hd as (_ & (p & Hp & Hg) & _ & _).
  apply granted_mono with (D := D); [exact Hi|].
  unfold granted. apply existsb_exists. exists p. split; [exact Hp|].
  destruct (grants_via w sid (username s) D p); [destruct Hg|reflexivity].
Qed.

Theorem restrictions_fixed evs :
  let s := run w sid true evs in
  complete s = true -> restrictions_justified w sid (username s) (payloads evs) s = true.
Proof.
  intros s Hc. destruct (fixed_invariant evs) as (D & Hi & [_ _ _ _ Hd]). fold s in Hd.
  unfold done_ok in Hd. rewrite Hc in Hd. destruct Hd as (_ & (p & Hp & Hg) & _ & _).
  unfold restrictions_justified. apply existsb_exists. exists p. split; [apply Hi; exact Hp|].
  apply existsb_exists. exists (key_opts s, cert_opts s). split.
  - eapply grants_via_mono; [exact Hi|exact Hg].
  - apply restr_eqb_refl.
Qed.

Theorem once_fixed evs :
  let s := run w sid true evs in
  (count_success (out s) <= 1)%nat /\
  (complete s = true -> count_success (out s) = 1%nat /\ completed_as s = [username s]) /\
  (complete s = false -> count_success (out s) = 0%nat /\ completed_as s = []).
Proof.
  intros s. destruct (fixed_invariant evs) as (D & Hi & [_ _ _ _ Hd]). fold s in Hd.
  unfold done_ok in Hd. destruct (complete s).
  - destruct Hd as (_ & _ & H1 & H2). rewrite H1. repeat split; auto; discriminate.
  - destruct Hd as (H1 & H2). rewrite H1. repeat split; auto; discriminate.
Qed.

(* the key set in force is never one inherited from another user's attempt: whenever packets are being
   processed (no _finish_userauth task is pending) it is the configured set or the one the application
   installed during begin_auth for the CURRENT user name *)
Theorem keys_for_current_user_fixed evs :
  let s := run w sid true evs in
  dead s = false -> paused s = false ->
  ak_user s = key_src w (username s) \/ (ak_user s = None /\ username s = []).
Proof.
  intros s Hd Hp. destruct (fixed_invariant evs) as (D & _ & HInv). fold s in HInv.
  destruct (inv_idle D s HInv Hd Hp) as (_ & _ & Hak & _). exact Hak.
Qed.

(* everything that is enforced on the authenticated connection is a function of the restrictions of one
   credential that entitles the user *)
Theorem restrictions_enforced_fixed evs :
  let s := run w sid true evs in
  complete s = true ->
  exists p ko co, In p (payloads evs) /\ In (ko, co) (grants_via w sid (username s) (payloads evs) p) /\
    (forall r, start_session s r = start_under ko co r) /\ forced_command s = forced_under ko co /\
    pty_allowed s = pty_under ko co /\ (forall h pt, fwd_allowed s h pt = fwd_under ko co h pt).
Proof.
  intros s Hc. destruct (fixed_invariant evs) as (D & Hi & [_ _ _ _ Hd]). fold s in Hd.
  unfold done_ok in Hd. rewrite Hc in Hd. destruct Hd as (_ & (p & Hp & Hg) & _ & _).
  exists p, (key_opts s), (cert_opts s). split; [apply Hi; exact Hp|].
  split; [eapply grants_via_mono; [exact Hi|exact Hg]|]. repeat split; reflexivity.
Qed.

(* after authentication completed nothing changes the identity or the restrictions *)
Definition ident (s : st) := (username s, key_opts s, cert_opts s, complete s, completed_as s, auth s).

Lemma deliver1_stable p s :
  complete s = true -> auth s = None -> ident (deliver1 w true p s) = ident s.
Proof.
  intros Hc Ha. unfold deliver1, ident. destruct p as [|t r]; [cbn; rewrite Ha; reflexivity|].
  destruct (t =? 50).
  { unfold proc_request. destruct (parse_head (t :: r)) as [[[[ub svc] m] body]|]; [|cbn; rewrite Ha; reflexivity].
    destruct (1024 <=? blen ub); [cbn; rewrite Ha; reflexivity|].
    destruct (negb (zlist_eqb svc S_CONN)); [cbn; rewrite Ha; reflexivity|].
    destruct (prep w ub); [|cbn; rewrite Ha; reflexivity].
    rewrite Hc. destruct (final s); cbn; rewrite ?Ha, ?Hc; reflexivity. }
  destruct (t =? 2).
  { destruct (get_string r) as [[x [|y l]]|]; cbn; rewrite ?Ha; reflexivity. }
  destruct ((60 <=? t) && (t <=? 79)).
  { rewrite Ha. cbn. rewrite ?Ha. reflexivity. }
  destruct (80 <=? t); [|cbn; rewrite ?Ha; reflexivity].
  rewrite Hc. cbn. rewrite ?Ha, ?Hc. reflexivity.
Qed.

Lemma drain_stable q : forall s,
  complete s = true -> auth s = None -> ident (drain w true q s) = ident s.
Proof.
  induction q as [|p q IH]; intros s Hc Ha; cbn [drain]; [reflexivity|].
  pose proof (deliver1_stable p s Hc Ha) as H1.
  destruct (dead (deliver1 w true p s)); [exact H1|].
  destruct (paused (deliver1 w true p s)); [exact H1|].
  unfold ident in H1. inversion H1 as [[E1 E2 E3 E4 E5 E6]].
  rewrite IH; [exact H1|congruence|congruence].
Qed.

Lemma step_stable D s e :
  Inv D s -> complete s = true -> ident (step w sid true s e) = ident s.
Proof.
  intros [Hs Hq Hq0 Ha Hd] Hc. unfold done_ok in Hd. rewrite Hc in Hd. destruct Hd as (Hau & _).
  unfold step. destruct (dead s) eqn:Hdd; [reflexivity|].
  destruct Hs as [(H1 & _)|[_ Hs]]; [congruence|].
  assert (Hnoauth : forall k, auth_ok D s k -> False).
  { intros k (a & _ & _ & _ & _ & Hco & _). congruence. }
  destruct e as [p|fid|i].
  - destruct (paused s); [reflexivity|]. apply deliver1_stable; assumption.
  - destruct Hs as [Hp Hak Hcn|t k Hp Hak Hcn Hk|t k Hp Hau' Hco Hor Hcn Hk|Hp Hak Hcn|t k Hp Hak Hcn Hk|t k Hp Hak Hcn Hk];
      try (exfalso; eapply Hnoauth; eassumption); try congruence; rewrite Hcn; reflexivity.
  - destruct Hs as [Hp Hak Hcn|t k Hp Hak Hcn Hk|t k Hp Hau' Hco Hor Hcn Hk|Hp Hak Hcn|t k Hp Hak Hcn Hk|t k Hp Hak Hcn Hk];
      try (exfalso; eapply Hnoauth; eassumption); try congruence; rewrite Hcn.
    + destruct i; reflexivity.
    + destruct i as [|i]; [|destruct i; reflexivity]. cbn [nth_error remove_nth run_kont].
      rewrite drain_stable; cbn; auto.
Qed.

Lemma stable_from more : forall D s,
  Inv D s -> complete s = true ->
  let s' := fold_left (step w sid true) more s in
  username s' = username s /\ key_opts s' = key_opts s /\ cert_opts s' = cert_opts s /\ complete s' = true /\
  completed_as s' = completed_as s.
Proof.
  induction more as [|e more IH]; intros D s HInv Hc; cbn [fold_left].
  - auto.
  - pose proof (step_stable D s e HInv Hc) as Hst. unfold ident in Hst. inversion Hst as [[E1 E2 E3 E4 E5 E6]].
    pose proof (step_inv D s e HInv) as HInv'.
    assert (Hc' : complete (step w sid true s e) = true) by congruence.
    destruct (IH _ _ HInv' Hc') as (A1 & A2 & A3 & A4 & A5).
    repeat split; congruence.
Qed.

Theorem stable_fixed evs more :
  let s := run w sid true evs in
  complete s = true ->
  let s' := run w sid true (evs ++ more) in
  username s' = username s /\ key_opts s' = key_opts s /\ cert_opts s' = cert_opts s /\ complete s' = true /\
  completed_as s' = completed_as s.
Proof.
  intros s Hc s'. unfold s', run. rewrite fold_left_app. fold (run w sid true evs). fold s.
  destruct (fixed_invariant evs) as (D & _ & HInv). fold s in HInv.
  exact (stable_from more D s HInv Hc).
Qed.

End WithWorld.

(* ------------------------------------------------------------------------------------------- *)
(* Part A: the gate, for both variants *)
Section Gate.
Variable w : world.
Variable sid : bytes.
Variable fixed : bool.

(* either no connection-layer message was processed yet, or authentication is complete *)
Definition P (s : st) : Prop := served s = 0 \/ complete s = true.

Ltac pp := unfold P in *; cbn in *; first [assumption | tauto | (right; reflexivity)].

Lemma P_die s : P s -> P (die s). Proof. intros; pp. Qed.
Lemma P_emit r s : P s -> P (emit r s). Proof. intros; pp. Qed.
Lemma P_spawn k s : P s -> P (spawn k s). Proof. intros; pp. Qed.
Lemma P_block k s : P s -> P (block k s). Proof. intros; pp. Qed.
Lemma P_do_failure s : P s -> P (do_failure w s). Proof. intros; pp. Qed.
Lemma P_do_success s : P s -> P (do_success s). Proof. intros; pp. Qed.
Lemma P_cancel_aid a s : P s -> P (cancel_aid a s). Proof. intros; pp. Qed.
Lemma P_cancel_auth s : P s -> P (cancel_auth s).
Proof. intros. unfold cancel_auth. destruct (auth s); [apply P_cancel_aid|]; assumption. Qed.
Lemma P_fin_done s : P s -> P (fin_done fixed s).
Proof. intros. unfold fin_done. destruct fixed; [apply P_spawn|]; assumption. Qed.

Lemma P_apply_effect e s : P s -> P (apply_effect w e s).
Proof.
  intros H. unfold apply_effect.
  destruct (e_ko e), (e_co e), (e_res e); pp.
Qed.

Lemma P_lookup k full body s : P s -> P (lookup w k full body s).
Proof.
  intros H. unfold lookup. apply P_cancel_auth in H.
  destruct (supported w (ak_of w (ak_user (cancel_auth s))) k).
  - apply P_spawn. pp.
  - apply P_do_failure. exact H.
Qed.

Lemma P_run_auth aid u ce s : P s -> P (run_auth w aid u ce s).
Proof. intros H. unfold run_auth. destruct (is_async w (fst ce)); [apply P_block|apply P_apply_effect]; exact H. Qed.

Lemma P_run_begun asked k full body s : P s -> P (run_begun w fixed asked k full body s).
Proof.
  intros H. unfold run_begun. destruct (needs_auth w asked); apply P_fin_done.
  - apply P_lookup. exact H.
  - apply P_do_success. exact H.
Qed.

Lemma P_proc_request full s : P s -> P (proc_request w fixed full s).
Proof.
  intros H. unfold proc_request.
  destruct (parse_head full) as [[[[ub svc] m] body]|]; [|apply P_die; exact H].
  destruct (1024 <=? blen ub); [apply P_die; exact H|].
  destruct (negb (zlist_eqb svc S_CONN)); [apply P_die; exact H|].
  destruct (prep w ub); [|apply P_die; exact H].
  destruct (complete s) eqn:Hc.
  - destruct (final s); [apply P_die|]; exact H.
  - apply P_spawn. destruct fixed.
    + assert (H1 : P (if negb (zlist_eqb u (username s)) then set_username u s else s)).
      { destruct (negb (zlist_eqb u (username s))); pp. }
      apply P_cancel_auth in H1. pp.
    + destruct (negb (zlist_eqb u (username s))); pp.
Qed.

Lemma P_info_response a r s : P s -> P (info_response w a r s).
Proof.
  intros H. unfold info_response.
  destruct (get_u32 r) as [[n r1]|]; [|apply P_die; exact H].
  destruct (get_nstrings (S (length r1)) n r1) as [[rs [|x l]]|]; try (apply P_die; exact H).
  destruct (forallb (utf8 w) rs); [|apply P_die; exact H].
  apply P_spawn. apply P_cancel_aid. exact H.
Qed.

Lemma P_deliver1 p s : P s -> P (deliver1 w fixed p s).
Proof.
  intros H. unfold deliver1. destruct p as [|t r]; [apply P_die; exact H|].
  destruct (t =? 50); [apply P_proc_request; exact H|].
  destruct (t =? 2). { destruct (get_string r) as [[x [|y l]]|]; try (apply P_die); exact H. }
  destruct ((60 <=? t) && (t <=? 79)).
  { destruct (auth s); [|apply P_die; exact H].
    destruct (a_kbd a && (t =? 61)); [apply P_info_response|apply P_emit]; exact H. }
  destruct (80 <=? t); [|apply P_die; exact H].
  destruct (complete s) eqn:Hc; [|apply P_die; exact H].
  unfold P. cbn. right. exact Hc.
Qed.

Lemma P_drain q : forall s, P s -> P (drain w fixed q s).
Proof.
  induction q as [|p q IH]; intros s H; cbn [drain]; [exact H|].
  pose proof (P_deliver1 p s H) as H1.
  destruct (dead (deliver1 w fixed p s)); [exact H1|].
  destruct (paused (deliver1 w fixed p s)); [pp|apply IH; exact H1].
Qed.

Lemma P_run_kont k s : P s -> P (run_kont w sid fixed k s).
Proof.
  intros H. destruct k; cbn [run_kont].
  - destruct ba; [apply P_block; exact H|apply P_fin_done, P_lookup; exact H].
  - destruct (async_begin w); [apply P_block; pp|apply P_run_begun; pp].
  - apply P_run_begun; exact H.
  - apply P_run_auth; exact H.
  - apply P_apply_effect; exact H.
  - apply P_run_auth; exact H.
  - apply P_drain. pp.
Qed.

Lemma P_step s e : P s -> P (step w sid fixed s e).
Proof.
  intros H. unfold step. destruct (dead s); [exact H|].
  destruct e as [p|fid|i].
  - destruct (paused s); [pp|apply P_deliver1; exact H].
  - destruct (extract fid (conts s)) as [[k rest]|]; pp.
  - destruct (nth_error (conts s) i) as [[[f|] k]|]; try exact H.
    apply P_run_kont. pp.
Qed.

(* a channel open / global request (any message type > 79) is only ever processed on an authenticated
   connection; before that it closes the connection *)
Theorem gate evs : served (run w sid fixed evs) <> 0 -> complete (run w sid fixed evs) = true.
Proof.
  assert (H : P (run w sid fixed evs)).
  { unfold run. assert (H0 : P init) by (left; reflexivity). revert H0. generalize init.
    induction evs as [|e evs IH]; intros s H0; cbn [fold_left]; [exact H0|]. apply IH. apply P_step. exact H0. }
  intros Hs. destruct H as [H|H]; [contradiction|exact H].
Qed.

Lemma deliver_unauth_dies s t r :
  dead s = false -> paused s = false -> complete s = false -> 80 <= t ->
  dead (step w sid fixed s (Deliver (t :: r))) = true.
Proof.
  intros Hd Hp Hc Ht. unfold step. rewrite Hd, Hp. unfold deliver1.
  assert (E1 : (t =? 50) = false) by lia. assert (E2 : (t =? 2) = false) by lia.
  assert (E3 : ((60 <=? t) && (t <=? 79)) = false) by lia. assert (E4 : (80 <=? t) = true) by lia.
  rewrite E1, E2, E3, E4, Hc. reflexivity.
Qed.

Lemma dead_absorbing s e : dead s = true -> step w sid fixed s e = s.
Proof. intros H. unfold step. rewrite H. reflexivity. Qed.

End Gate.

(* ------------------------------------------------------------------------------------------- *)
(* Part C: the code before repair 208592d (fixed = false) violates the statements.  Witnesses by evaluation. *)
Module Witness.

Definition guest : user := [103;117;101;115;116].
Definition root : user := [114;111;111;116].
Definition alice : user := [97;108;105;99;101].
Definition bob : user := [98;111;98].
Definition the_sid : bytes := [1;2;3;4].

Definition req_none (u : user) : bytes := 50 :: sstr u ++ sstr S_CONN ++ sstr S_NONE.
Definition req_pw (u : user) (pw : bytes) : bytes := 50 :: sstr u ++ sstr S_CONN ++ sstr S_PASSWORD ++ [0] ++ sstr pw.
Definition req_pk (u : user) (signed : bool) (blob sg : bytes) : bytes :=
  50 :: sstr u ++ sstr S_CONN ++ sstr S_PUBLICKEY ++ [if signed then 1 else 0] ++ sstr [] ++ sstr blob ++
  (if signed then sstr sg else []).

(* an application in which nobody has any valid credential; guest needs no authentication *)
Definition w_none (abegin apw : bool) : world :=
  mkWorld (fun b => Some b) (fun _ => true) (fun u => negb (zlist_eqb u guest)) (fun _ => None)
          (fun _ _ => PFalse) (fun _ _ _ => PFalse) (fun _ => KFalse) (fun _ _ => KFalse)
          (fun _ _ => false) (fun _ _ => false) (fun _ => BBad) (fun _ _ _ => false) 0
          true TNo false abegin apw false false false (fun _ => true) (fun _ => false).

(* 1. DESIGN 10-3: begin_auth is asynchronous; request for guest, then request for root while
      begin_auth(guest) is pending; its result is applied to self._username = root *)
Definition w1 := w_none true false.
Definition evs1 : list ev :=
  [Deliver (req_none guest); Run 0; Complete 0; Run 0; Deliver (req_none root); Complete 1; Run 1].

Lemma sound_refuted_1 :
  let s := run w1 the_sid false evs1 in
  complete s = true /\ username s = root /\ completed_as s = [root] /\
  granted w1 the_sid root (payloads evs1) = false.
Proof. vm_compute. repeat split; reflexivity. Qed.

Lemma fixed_resists_1 :
  forall more, let s := run w1 the_sid true (evs1 ++ more) in complete s = true -> username s <> root.
Proof.
  intros more s Hc Hu. pose proof (sound_fixed w1 the_sid (evs1 ++ more) Hc) as Hg. fold s in Hg. rewrite Hu in Hg.
  unfold granted in Hg. apply existsb_exists in Hg as (p & Hp & Hg).
  assert (Hnil : grants_via w1 the_sid root (payloads (evs1 ++ more)) p = []).
  { unfold grants_via. destruct (parse_head p) as [[[[ub svc] m] body]|]; [|reflexivity].
    destruct ((blen ub <? 1024) && zlist_eqb svc S_CONN && opt_user_is (prep w1 ub) root); [|reflexivity].
    cbv zeta. cbn [needs_auth w1 w_none]. cbn [zlist_eqb root guest Z.eqb Pos.eqb andb negb app].
    cbn [is_nil root app]. rewrite app_nil_r.
    unfold supported. cbn [ak_of w1 w_none pk_supported pk_cb_supported pw_supported kbd_on kbd_mode kbd_cfg].
    destruct (kind_of m); try reflexivity.
    cbn [auth_start]. unfold pw_start. cbn [prep w1 w_none pw_check pw_change].
    destruct (get_bool body) as [[chg r1]|]; [|reflexivity].
    destruct (get_string r1) as [[pw r2]|]; [|reflexivity].
    destruct chg.
    - destruct (get_string r2) as [[npw [|x l]]|]; reflexivity.
    - destruct r2; reflexivity. }
  rewrite Hnil in Hg. discriminate.
Qed.

(* 2. a synchronous application following the documented keyed-server pattern: begin_auth(u) installs
      u's authorized keys.  alice owns key 1 and can sign anything with it; bob's keys do not contain it.
      none(alice); then none(bob) and publickey(bob, key 1, signed) back to back: the second request of the
      pair names the same user, skips begin_auth and overtakes the first, which waits in reload_config *)
Definition w2 : world :=
  mkWorld (fun b => Some b) (fun _ => true) (fun _ => true)
          (fun src => match src with
                      | Some u => if zlist_eqb u alice then Some [mkAe 1 false ko_empty FrAbsent]
                                  else if zlist_eqb u bob then Some [mkAe 2 false ko_empty FrAbsent] else None
                      | None => None end)
          (fun _ _ => PFalse) (fun _ _ _ => PFalse) (fun _ => KFalse) (fun _ _ => KFalse)
          (fun _ _ => false) (fun _ _ => false)
          (fun b => if zlist_eqb b [7] then BKey 1 else BBad)
          (fun k _ sg => (k =? 1) && zlist_eqb sg [9]) 0
          true TNo false false false false false false (fun _ => true) (fun _ => false).
Definition evs2 : list ev :=
  [Deliver (req_none alice); Run 0; Complete 0; Run 0;
   Deliver (req_none bob); Deliver (req_pk bob true [7] [9]); Run 0; Run 0; Run 1].

Lemma sound_refuted_2 :
  let s := run w2 the_sid false evs2 in
  complete s = true /\ username s = bob /\ begun s = [alice] /\
  granted w2 the_sid bob (payloads evs2) = false.
Proof. vm_compute. repeat split; reflexivity. Qed.

(* 3. alice's password check is asynchronous and completes after the user name was switched to root *)
Definition w3 : world :=
  mkWorld (fun b => Some b) (fun _ => true) (fun _ => true) (fun _ => None)
          (fun u p => if zlist_eqb u alice && zlist_eqb p [1] then PTrue else PFalse)
          (fun _ _ _ => PFalse) (fun _ => KFalse) (fun _ _ => KFalse)
          (fun _ _ => false) (fun _ _ => false) (fun _ => BBad) (fun _ _ _ => false) 0
          true TNo false false true false false false (fun _ => true) (fun _ => false).
Definition evs3 : list ev :=
  [Deliver (req_pw alice [1]); Run 0; Complete 0; Run 0; Run 0; Deliver (req_none root); Complete 1; Run 1].

Lemma sound_refuted_3 :
  let s := run w3 the_sid false evs3 in
  complete s = true /\ username s = root /\ granted w3 the_sid root (payloads evs3) = false.
Proof. vm_compute. repeat split; reflexivity. Qed.

(* 4. once: a second USERAUTH_SUCCESS.  alice's password check is pending when guest (no authentication
      needed) is let in; the orphaned check then completes *)
Definition w4 : world :=
  mkWorld (fun b => Some b) (fun _ => true) (fun u => negb (zlist_eqb u guest)) (fun _ => None)
          (fun u p => if zlist_eqb u alice && zlist_eqb p [1] then PTrue else PFalse)
          (fun _ _ _ => PFalse) (fun _ => KFalse) (fun _ _ => KFalse)
          (fun _ _ => false) (fun _ _ => false) (fun _ => BBad) (fun _ _ _ => false) 0
          true TNo false false true false false false (fun _ => true) (fun _ => false).
Definition evs4 : list ev :=
  [Deliver (req_pw alice [1]); Run 0; Complete 0; Run 0; Run 0; Deliver (req_none guest); Run 1; Complete 2; Run 1;
   Complete 1; Run 0].

Lemma once_refuted :
  let s := run w4 the_sid false evs4 in
  count_success (out s) = 2%nat /\ completed_as s = [guest; guest].
Proof. vm_compute. split; reflexivity. Qed.

(* 5. restrictions: a QUERY (no signature) with a certificate that carries force-command leaves
      _cert_options set; a plain key with its own command= is accepted afterwards; the certificate's
      forced command is the one enforced *)
Definition c9 : cert := mkCert 4 10 true 0 100 [alice] (mkCo (Some [99]) true false false) FrAbsent.
Definition k1opts : kopts := mkKo (Some [107]) false false [] [] false.
Definition w5 : world :=
  mkWorld (fun b => Some b) (fun _ => true) (fun _ => true)
          (fun src => match src with
                      | Some u => if zlist_eqb u alice then Some [mkAe 1 false k1opts FrAbsent; mkAe 10 true ko_empty FrAbsent] else None
                      | None => None end)
          (fun _ _ => PFalse) (fun _ _ _ => PFalse) (fun _ => KFalse) (fun _ _ => KFalse)
          (fun _ _ => false) (fun _ _ => false)
          (fun b => if zlist_eqb b [7] then BKey 1 else if zlist_eqb b [8] then BCert c9 else BBad)
          (fun k _ sg => (k =? 1) && zlist_eqb sg [9]) 50
          true TNo false false false false false false (fun _ => true) (fun _ => false).
Definition evs5 : list ev :=
  [Deliver (req_pk alice false [8] []); Run 0; Complete 0; Run 0; Run 0;
   Deliver (req_pk alice true [7] [9]); Run 0; Run 0].

Lemma restrictions_refuted :
  let s := run w5 the_sid false evs5 in
  complete s = true /\ username s = alice /\ granted w5 the_sid alice (payloads evs5) = true /\
  forced_command s = Some [99] /\
  restrictions_justified w5 the_sid alice (payloads evs5) s = false.
Proof. vm_compute. repeat split; reflexivity. Qed.

End Witness.

(* ------------------------------------------------------------------------------------------- *)
(* Part D: a well-formed request with a valid credential, left alone, is accepted (both variants, every
   combination of synchronous / asynchronous callbacks) *)
Section Honest.
Variable w : world.
Variable sid : bytes.

Lemma get_u32_u32 n r : 0 <= n < 4294967296 -> get_u32 (u32 n ++ r) = Some (n, r).
Proof. intros H. unfold u32. cbn [app get_u32]. f_equal. f_equal. lia. Qed.

Lemma blen_app a b : blen (a ++ b) = blen a + blen b.
Proof. unfold blen. rewrite app_length. lia. Qed.

Lemma blen_nonneg a : 0 <= blen a.
Proof. unfold blen. lia. Qed.

Lemma get_string_sstr x r : blen x < 4294967296 -> get_string (sstr x ++ r) = Some (x, r).
Proof.
  intros H. unfold get_string, sstr. rewrite <- app_assoc.
  rewrite get_u32_u32 by (pose proof (blen_nonneg x); lia).
  rewrite blen_app. pose proof (blen_nonneg x). pose proof (blen_nonneg r).
  replace ((0 <=? blen x) && (blen x <=? blen x + blen r)) with true by lia.
  unfold blen. rewrite Nat2Z.id.
  rewrite firstn_app, Nat.sub_diag, firstn_all. cbn [firstn]. rewrite app_nil_r.
  rewrite skipn_app, Nat.sub_diag, skipn_all. reflexivity.
Qed.

Lemma parse_head_enc ub svc m body :
  blen ub < 4294967296 -> blen svc < 4294967296 -> blen m < 4294967296 ->
  parse_head (50 :: sstr ub ++ sstr svc ++ sstr m ++ body) = Some (ub, svc, m, body).
Proof.
  intros H1 H2 H3. unfold parse_head. rewrite Z.eqb_refl.
  rewrite get_string_sstr by assumption. rewrite get_string_sstr by assumption.
  rewrite get_string_sstr by assumption. reflexivity.
Qed.


Lemma kind_pw : kind_of S_PASSWORD = MPw. Proof. reflexivity. Qed.
Lemma conn_refl : zlist_eqb S_CONN S_CONN = true. Proof. reflexivity. Qed.

Lemma pw_start_enc U pw pw' :
  blen pw < 4294967296 -> prep w pw = Some pw' ->
  pw_start w U ([0] ++ sstr pw) = (CbPw, eff (res_of_pw (pw_check w U pw'))).
Proof.
  intros H1 H2. unfold pw_start. cbn [app get_bool Z.eqb negb].
  replace (sstr pw) with (sstr pw ++ []) by apply app_nil_r.
  rewrite get_string_sstr by assumption. rewrite H2. reflexivity.
Qed.

Ltac norm :=
  cbv beta iota zeta delta
    [step run_kont lookup run_begun run_auth fin_done cancel_auth cancel_aid apply_effect do_success do_failure
     die emit spawn push block first_ready nth_error remove_nth extract drain deliver1 supported pk_supported is_async
     owned owner_of init fst snd app filter negb andb orb eff e_ko e_co e_res mkind_eqb
     Z.eqb Pos.eqb Z.add Pos.add Pos.succ Pos.add_carry
     set_username set_complete set_final set_auth set_next_aid set_next_fid set_conts set_ak_user set_key_opts
     set_cert_opts set_paused set_inq set_out set_served set_begun set_completed_as
     username complete final dead auth next_aid next_fid conts ak_user key_opts cert_opts paused inq out served
     begun completed_as a_id a_user a_kbd].

Lemma drive_S fixed f s :
  drive w sid fixed (S f) s =
  match first_ready (conts s) O with
  | Some i => drive w sid fixed f (step w sid fixed s (Run i))
  | None => match conts s with
            | (Some fid, _) :: _ => drive w sid fixed f (step w sid fixed s (Complete fid))
            | _ => s
            end
  end.
Proof. reflexivity. Qed.

Definition accepted_as (U : user) (s : st) : Prop :=
  dead s = false /\ complete s = true /\ username s = U /\ completed_as s = [U] /\ out s = [RSuccess] /\
  conts s = [].

Lemma accepted_via U s0 n fixed :
  (exists sf, drive w sid fixed n s0 = sf /\ accepted_as U sf) -> accepted_as U (drive w sid fixed n s0).
Proof. intros (sf & -> & H). exact H. Qed.

Theorem accepts_password fixed ub pw U pw' :
  blen ub < 1024 -> blen pw < 4294967296 ->
  prep w ub = Some U -> prep w pw = Some pw' ->
  needs_auth w U = true -> pw_supported w = true -> pw_check w U pw' = PTrue ->
  let p := 50 :: sstr ub ++ sstr S_CONN ++ sstr S_PASSWORD ++ ([0] ++ sstr pw) in
  accepted_as U (drive w sid fixed 12 (step w sid fixed init (Deliver p))).
Proof.
  intros Hub Hpw HU Hpw' Hna Hsup Hck. cbv zeta.
  set (body := [0] ++ sstr pw).
  set (p := 50 :: sstr ub ++ sstr S_CONN ++ sstr S_PASSWORD ++ body).
  assert (Hph : parse_head p = Some (ub, S_CONN, S_PASSWORD, body)).
  { unfold p. apply parse_head_enc; [lia|reflexivity|reflexivity]. }
  assert (Hs1 : forall akl, auth_start w sid akl U MPw p body = (CbPw, eff RsSuccess)).
  { intros akl. cbn [auth_start]. unfold body. rewrite (pw_start_enc U pw pw' Hpw Hpw'), Hck. reflexivity. }
  assert (Hlen : (1024 <=? blen ub) = false) by lia.
  assert (E0 : step w sid fixed init (Deliver p) = proc_request w fixed p init) by reflexivity.
  rewrite E0. unfold proc_request. rewrite Hph, Hlen, conn_refl, HU. cbn [negb complete init username]. rewrite kind_pw.
  clearbody p body. apply accepted_via.
  destruct (zlist_eqb U []) eqn:EU.
  - (* the initial, empty user name: no begin_auth *)
    apply zlist_eqb_true in EU. subst U. cbn [negb].
    destruct fixed, (async_pw w) eqn:Ep; eexists; (split; [
      norm; repeat (rewrite drive_S; norm; rewrite ?Hsup; norm; rewrite ?Hs1; norm; rewrite ?Ep; norm); reflexivity
    | unfold accepted_as; cbn; repeat split; reflexivity ]).
  - cbn [negb].
    destruct fixed, (async_begin w) eqn:Eb, (async_pw w) eqn:Ep; eexists; (split; [
      norm; repeat (rewrite drive_S; norm; rewrite ?Eb; norm; rewrite ?Hna; norm; rewrite ?Hsup; norm;
                    rewrite ?Hs1; norm; rewrite ?Ep; norm); reflexivity
    | unfold accepted_as; cbn; repeat split; reflexivity ]).
Qed.


Lemma kind_pk : kind_of S_PUBLICKEY = MPk. Proof. reflexivity. Qed.

Lemma firstn_app_exact {A} (a b : list A) : firstn (length (a ++ b) - length b) (a ++ b) = a.
Proof.
  rewrite app_length. replace (length a + length b - length b)%nat with (length a) by lia.
  rewrite firstn_app, Nat.sub_diag, firstn_all. cbn [firstn]. apply app_nil_r.
Qed.

(* a signed publickey request with a plain key: the data the signature is checked over is
   string(session id) ++ the request bytes up to and including the key blob *)
Lemma pk_start_enc es U head alg kb sg k o :
  blen alg < 4294967296 -> blen kb < 4294967296 -> blen sg < 4294967296 ->
  decode w kb = BKey k -> ak_validate es k None false = AkSome o ->
  verify w k (sstr sid ++ head) sg = true -> sk_accepts w k (touch_required_key o) sg = true ->
  pk_start w sid (Some es) U (head ++ sstr sg) ([1] ++ sstr alg ++ sstr kb ++ sstr sg) =
  (CbNone, mkEff (Some o) None RsSuccess).
Proof.
  intros H1 H2 H3 Hd Hv Hs Hsk. unfold pk_start. cbn [app get_bool Z.eqb negb].
  rewrite get_string_sstr by assumption. rewrite get_string_sstr by assumption.
  replace (sstr sg) with (sstr sg ++ []) at 1 by apply app_nil_r.
  rewrite get_string_sstr by assumption.
  rewrite firstn_app_exact, Hd. cbn [ak_lookup]. rewrite Hv, Hs, Hsk. reflexivity.
Qed.

Theorem accepts_publickey fixed ub alg kb sg U es k o :
  blen ub < 1024 -> blen alg < 4294967296 -> blen kb < 4294967296 -> blen sg < 4294967296 ->
  prep w ub = Some U -> zlist_eqb U [] = false -> needs_auth w U = true -> installs w U = true ->
  ak_of w (Some U) = Some es -> decode w kb = BKey k -> ak_validate es k None false = AkSome o ->
  sk_accepts w k (touch_required_key o) sg = true ->
  let head := 50 :: sstr ub ++ sstr S_CONN ++ sstr S_PUBLICKEY ++ [1] ++ sstr alg ++ sstr kb in
  verify w k (sstr sid ++ head) sg = true ->
  let s := drive w sid fixed 12 (step w sid fixed init (Deliver (head ++ sstr sg))) in
  accepted_as U s /\ key_opts s = o /\ cert_opts s = None.
Proof.
  intros Hub Halg Hkb Hsg HU EU Hna Hinst Hak Hdec Hval Hsk head Hver. cbv zeta.
  set (body := [1] ++ sstr alg ++ sstr kb ++ sstr sg).
  set (p := head ++ sstr sg).
  assert (Hp : p = 50 :: sstr ub ++ sstr S_CONN ++ sstr S_PUBLICKEY ++ body).
  { unfold p, head, body. cbn [app]. repeat (rewrite <- app_assoc; cbn [app]). reflexivity. }
  assert (Hph : parse_head p = Some (ub, S_CONN, S_PUBLICKEY, body)).
  { rewrite Hp. apply parse_head_enc; [lia|reflexivity|reflexivity]. }
  assert (Hs1 : auth_start w sid (Some es) U MPk p body = (CbNone, mkEff (Some o) None RsSuccess)).
  { cbn [auth_start]. unfold p, body. apply pk_start_enc with (k := k); assumption. }
  assert (Hlen : (1024 <=? blen ub) = false) by lia.
  assert (E0 : step w sid fixed init (Deliver p) = proc_request w fixed p init).
  { rewrite Hp. reflexivity. }
  rewrite E0. unfold proc_request. rewrite Hph, Hlen, conn_refl, HU. cbn [negb complete init username]. rewrite kind_pk.
  rewrite EU. cbn [negb].
  clearbody p body.
  cut (exists sf, drive w sid fixed 12 (spawn (KFin true MPk p body)
           (if fixed then set_cert_opts None (set_key_opts ko_empty (set_paused true (set_auth None (cancel_auth (set_username U init)))))
            else set_username U init)) = sf /\ (accepted_as U sf /\ key_opts sf = o /\ cert_opts sf = None)).
  { intros (sf & -> & H). exact H. }
  destruct fixed, (async_begin w) eqn:Eb; eexists; (split; [
    norm; repeat (rewrite drive_S; norm; rewrite ?Eb; norm; rewrite ?Hna; norm; try unfold key_src;
                  rewrite ?Hinst; norm; rewrite ?Hak; norm; rewrite ?Hs1; norm); reflexivity
  | unfold accepted_as; cbn; repeat split; reflexivity ]).
Qed.

End Honest.

(* ------------------------------------------------------------------------------------------- *)
(* Part E: client-address restrictions and the security-key touch table *)
Section Decisions.
Variable w : world.

(* an authorized_keys entry is only ever matched when its from= restriction is absent or was checked and
   matched; one that cannot be checked (no IP peer address) never matches *)
Lemma ak_validate_from es k cp ca o :
  ak_validate es k cp ca = AkSome o ->
  exists e, In e es /\ ae_opts e = o /\ ae_key e = k /\ ae_ca e = ca /\ (ae_from e = FrAbsent \/ ae_from e = FrOk).
Proof.
  induction es as [|e r IH]; cbn [ak_validate]; [discriminate|].
  destruct (Bool.eqb (ae_ca e) ca && (ae_key e =? k)) eqn:E.
  - apply andb_true_iff in E as [E1 E2]. apply eqb_prop in E1. apply Z.eqb_eq in E2.
    destruct (ae_from e) eqn:Ef; try discriminate.
    + destruct (principals_ok (ko_principals (ae_opts e)) cp).
      * intros H. inversion H. exists e. repeat split; auto. left; reflexivity.
      * intros H. destruct (IH H) as (e' & Hi & Hr). exists e'. split; [right; exact Hi|exact Hr].
    + destruct (principals_ok (ko_principals (ae_opts e)) cp).
      * intros H. inversion H. exists e. repeat split; auto. left; reflexivity.
      * intros H. destruct (IH H) as (e' & Hi & Hr). exists e'. split; [right; exact Hi|exact Hr].
    + intros H. destruct (IH H) as (e' & Hi & Hr). exists e'. split; [right; exact Hi|exact Hr].
  - intros H. destruct (IH H) as (e' & Hi & Hr). exists e'. split; [right; exact Hi|exact Hr].
Qed.

Lemma touch_table k touch sg :
  sk_accepts w k touch sg = true -> is_sk w k = true -> touch = true -> sig_up sg = true.
Proof. unfold sk_accepts. intros H H1 H2. rewrite H1, H2 in H. exact H. Qed.

Lemma touch_waiver_key o : touch_required_key o = false <-> ko_no_touch o = true.
Proof. unfold touch_required_key. destruct (ko_no_touch o); cbn; split; congruence. Qed.

Lemma touch_waiver_cert o c :
  touch_required_cert o c = false <-> ko_no_touch o = true /\ co_no_touch c = true.
Proof.
  unfold touch_required_cert. destruct (ko_no_touch o), (co_no_touch c); cbn; split;
    try congruence; try (intros [? ?]; congruence); auto.
Qed.

End Decisions.
