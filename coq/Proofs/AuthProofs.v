(* Proofs about Model/Auth.v (property C05).
   Part A: facts that hold for BOTH variants (gate, dead is absorbing, delivered packets).
   Part B: the invariant of the REPAIRED variant (fixed = true) and its consequences:
           soundness, restrictions, once, stability.
   Part C: the faithful model of the code as it is (fixed = false) violates soundness, once and
           restrictions: concrete witnesses evaluated by vm_compute.
   Part D: honest single-request sessions are admitted (both variants). *)
From AV Require Import Base.Prelude Model.Auth.

Ltac inv H := inversion H; subst; clear H.

(* ------------------------------------------------------------------------------------------- *)
(* generic *)

Lemma existsb_incl {A} (f : A -> bool) (l l' : list A) :
  incl l l' -> existsb f l = true -> existsb f l' = true.
Proof.
  intros Hi H. apply existsb_exists in H as [x [Hx Hf]]. apply existsb_exists. exists x. auto.
Qed.

Lemma zlist_eqb_true a b : zlist_eqb a b = true -> a = b.
Proof. apply zlist_eqb_spec. Qed.

Lemma list_eqb_refl {A} (eqb : A -> A -> bool) (l : list A) :
  (forall x, eqb x x = true) -> list_eqb eqb l l = true.
Proof. intros H. induction l as [|x l IH]; cbn; [reflexivity|]. rewrite H, IH. reflexivity. Qed.

Lemma option_eqb_refl {A} (eqb : A -> A -> bool) (o : option A) :
  (forall x, eqb x x = true) -> option_eqb eqb o o = true.
Proof. intros H. destruct o; cbn; auto. Qed.

Lemma po_eqb_refl x : po_eqb x x = true.
Proof.
  unfold po_eqb. rewrite zlist_eqb_refl. cbn. apply option_eqb_refl. intros; apply Z.eqb_refl.
Qed.

Lemma ko_eqb_refl k : ko_eqb k k = true.
Proof.
  unfold ko_eqb. rewrite (option_eqb_refl zlist_eqb _ zlist_eqb_refl), !eqb_reflx.
  rewrite (list_eqb_refl po_eqb _ po_eqb_refl), (list_eqb_refl zlist_eqb _ zlist_eqb_refl). reflexivity.
Qed.

Lemma co_eqb_refl c : co_eqb c c = true.
Proof. unfold co_eqb. rewrite (option_eqb_refl zlist_eqb _ zlist_eqb_refl), !eqb_reflx. reflexivity. Qed.

Lemma restr_eqb_refl r : restr_eqb r r = true.
Proof. unfold restr_eqb. rewrite ko_eqb_refl. cbn. apply option_eqb_refl. apply co_eqb_refl. Qed.

(* ------------------------------------------------------------------------------------------- *)
Section WithWorld.
Variable w : world.
Variable sid : bytes.

(* ---- monotonicity of the specification in the set of delivered packets ---------------------- *)
Lemma grants_via_mono U D D' p r :
  incl D D' -> In r (grants_via w sid U D p) -> In r (grants_via w sid U D' p).
Proof.
  intros Hi. unfold grants_via.
  destruct (parse_head p) as [[[[ub svc] m] body]|]; [|auto].
  destruct ((blen ub <? 1024) && zlist_eqb svc S_CONN && opt_user_is (prep w ub) U); [|auto].
  assert (Hd : forall src x,
    In x (if supported w (ak_of w src) (kind_of m)
          then (if is_success (e_res (snd (auth_start w sid (ak_of w src) U (kind_of m) p body)))
                then [restr_of (snd (auth_start w sid (ak_of w src) U (kind_of m) p body))] else []) ++
               (if mkind_eqb (kind_of m) MKbd && existsb (kbd_resp_grants w U) D then [(ko_empty, None)] else [])
          else []) ->
    In x (if supported w (ak_of w src) (kind_of m)
          then (if is_success (e_res (snd (auth_start w sid (ak_of w src) U (kind_of m) p body)))
                then [restr_of (snd (auth_start w sid (ak_of w src) U (kind_of m) p body))] else []) ++
               (if mkind_eqb (kind_of m) MKbd && existsb (kbd_resp_grants w U) D' then [(ko_empty, None)] else [])
          else [])).
  { intros src x. destruct (supported w (ak_of w src) (kind_of m)); [|auto].
    rewrite !in_app_iff. intros [H|H]; [left; exact H|right].
    destruct (mkind_eqb (kind_of m) MKbd); cbn in *; [|exact H].
    destruct (existsb (kbd_resp_grants w U) D) eqn:E; [|destruct H].
    rewrite (existsb_incl _ _ _ Hi E). exact H. }
  cbv zeta. rewrite !in_app_iff. intros [H|[H|H]].
  - left; exact H.
  - right; left. apply Hd. exact H.
  - right; right. destruct (is_nil U); [|exact H]. apply Hd. exact H.
Qed.

Lemma granted_mono U D D' : incl D D' -> granted w sid U D = true -> granted w sid U D' = true.
Proof.
  intros Hi H. unfold granted in *. apply existsb_exists in H as [p [Hp Hn]].
  apply existsb_exists. exists p. split; [auto|].
  destruct (grants_via w sid U D p) as [|r l] eqn:E; [discriminate|].
  assert (In r (grants_via w sid U D' p)) as Hin.
  { apply grants_via_mono with (D := D); [exact Hi|]. rewrite E. left. reflexivity. }
  destruct (grants_via w sid U D' p); [destruct Hin|reflexivity].
Qed.

(* ---- vocabulary of the invariant -------------------------------------------------------------- *)
Definition ak_ok (s : st) : Prop :=
  ak_user s = Some (username s) \/ (ak_user s = None /\ username s = []).
Definition opts_reset (s : st) : Prop := key_opts s = ko_empty /\ cert_opts s = None.

(* [full] is a well-formed USERAUTH_REQUEST for service ssh-connection whose user name is U after
   utf-8 + saslprep, method kind mk, method-specific rest [body] *)
Definition head_ok (full : bytes) (U : user) (mk : mkind) (body : bytes) : Prop :=
  exists ub svc m, parse_head full = Some (ub, svc, m, body) /\ (blen ub <? 1024) = true /\
                   zlist_eqb svc S_CONN = true /\ prep w ub = Some U /\ kind_of m = mk.

Definition granted_r (D : list bytes) (s : st) : Prop :=
  exists p, In p D /\ In (key_opts s, cert_opts s) (grants_via w sid (username s) D p).

Definition eff_ok (D : list bytes) (u : user) (e : effect) : Prop :=
  e_res e = RsSuccess -> exists p, In p D /\ In (restr_of e) (grants_via w sid u D p).

Definition kbd_req_in (D : list bytes) (u : user) : Prop :=
  exists req body, In req D /\ head_ok req u MKbd body.

Definition resp_is (resp : bytes) (rs : list bytes) : Prop :=
  exists r n r1, resp = 61 :: r /\ get_u32 r = Some (n, r1) /\
                 get_nstrings (S (length r1)) n r1 = Some (rs, []) /\ forallb (utf8 w) rs = true.

Lemma opt_user_is_refl U : opt_user_is (Some U) U = true.
Proof. cbn. apply zlist_eqb_refl. Qed.

(* evaluating a delivered request for the user it names, against that user's keys: if the outcome is
   success then the specification lists it, with the restrictions of that outcome *)
Lemma auth_start_grants D U mk full body src :
  head_ok full U mk body -> In full D -> (src = Some U \/ (src = None /\ U = [])) ->
  supported w (ak_of w src) mk = true ->
  e_res (snd (auth_start w sid (ak_of w src) U mk full body)) = RsSuccess ->
  In (restr_of (snd (auth_start w sid (ak_of w src) U mk full body))) (grants_via w sid U D full).
Proof.
  intros (ub & svc & m & Hp & Hl & Hs & Hu & Hk) Hin Hsrc Hsup Hres.
  unfold grants_via. rewrite Hp, Hl, Hs, Hu, opt_user_is_refl. cbn [andb]. cbv zeta. rewrite Hk.
  rewrite !in_app_iff. right.
  destruct Hsrc as [->|[-> ->]].
  - left. rewrite Hsup. rewrite in_app_iff. left. rewrite Hres. cbn. left. reflexivity.
  - right. cbn [is_nil]. rewrite Hsup. rewrite in_app_iff. left. rewrite Hres. cbn. left. reflexivity.
Qed.

Lemma kbd_validate_grants D U rs resp :
  kbd_req_in D U -> In resp D -> resp_is resp rs ->
  e_res (snd (kbd_validate w U rs)) = RsSuccess ->
  exists p, In p D /\ In (ko_empty, None) (grants_via w sid U D p).
Proof.
  intros (req & body & Hreq & (ub & svc & m & Hp & Hl & Hs & Hu & Hk)) Hin (r & n & r1 & -> & Hn & Hg & Hf) Hres.
  exists req. split; [exact Hreq|].
  unfold grants_via. rewrite Hp, Hl, Hs, Hu, opt_user_is_refl. cbn [andb]. cbv zeta. rewrite Hk.
  rewrite !in_app_iff. right; left.
  assert (Hon : kbd_on w = true).
  { unfold kbd_on. unfold kbd_validate in Hres. destruct (kbd_mode w); [discriminate|reflexivity|reflexivity]. }
  cbn [supported]. rewrite Hon. rewrite in_app_iff. right.
  cbn [mkind_eqb andb].
  assert (Hex : existsb (kbd_resp_grants w U) D = true).
  { apply existsb_exists. exists (61 :: r). split; [exact Hin|].
    unfold kbd_resp_grants. rewrite Z.eqb_refl, Hn, Hg, Hf, Hres. reflexivity. }
  rewrite Hex. left. reflexivity.
Qed.

Lemma noauth_grants D U mk full body :
  head_ok full U mk body -> needs_auth w U = false ->
  In (ko_empty, None) (grants_via w sid U D full).
Proof.
  intros (ub & svc & m & Hp & Hl & Hs & Hu & Hk) Hn.
  unfold grants_via. rewrite Hp, Hl, Hs, Hu, opt_user_is_refl. cbn [andb]. cbv zeta.
  rewrite Hn. rewrite !in_app_iff. left. left. reflexivity.
Qed.


(* ------------------------------------------------------------------------------------------- *)
(* Part B: invariant of the repaired variant *)

Definition fin_ok (D : list bytes) (s : st) (k : kont) : Prop :=
  match k with
  | KFin ba mk full body => In full D /\ head_ok full (username s) mk body /\ (ba = false -> ak_ok s)
  | KFinReloaded mk full body => In full D /\ head_ok full (username s) mk body
  | KFinBegun asked mk full body =>
      asked = username s /\ ak_user s = Some asked /\ In full D /\ head_ok full (username s) mk body
  | _ => False
  end.

Definition auth_ok (D : list bytes) (s : st) (k : kont) : Prop :=
  exists a, auth s = Some a /\ owner_of k = Some (a_id a) /\ a_user a = username s /\ opts_reset s /\
            complete s = false /\
  match k with
  | KAuthStart aid u mk full body =>
      u = username s /\ In full D /\ head_ok full u mk body /\
      supported w (ak_of w (ak_user s)) mk = true /\ a_kbd a = mkind_eqb mk MKbd
  | KAuthDone aid u e =>
      u = username s /\ eff_ok D u e /\ (a_kbd a = true -> e_ko e = None /\ e_co e = None)
  | KKbdValidate aid u rs =>
      u = username s /\ a_kbd a = true /\ exists resp, In resp D /\ resp_is resp rs
  | _ => False
  end.

Definition auth_obj_ok (D : list bytes) (s : st) : Prop :=
  match auth s with
  | Some a => a_user a = username s /\ complete s = false /\
              (a_kbd a = true -> kbd_req_in D (username s) /\ opts_reset s)
  | None => True
  end.

Definition done_ok (D : list bytes) (s : st) : Prop :=
  if complete s
  then auth s = None /\ granted_r D s /\ count_success (out s) = 1%nat /\ completed_as s = [username s]
  else count_success (out s) = 0%nat /\ completed_as s = [].

Inductive live_shape (D : list bytes) (s : st) : Prop :=
| ShIdle0 : paused s = false -> ak_ok s -> conts s = [] -> live_shape D s
| ShIdle1 t k : paused s = false -> ak_ok s -> conts s = [(t, k)] -> auth_ok D s k -> live_shape D s
| ShFin t k : paused s = true -> auth s = None -> complete s = false -> opts_reset s ->
              conts s = [(t, k)] -> fin_ok D s k -> live_shape D s
| ShRes0 : paused s = true -> ak_ok s -> conts s = [(None, KResume)] -> live_shape D s
| ShRes1 t k : paused s = true -> ak_ok s -> conts s = [(t, k); (None, KResume)] -> auth_ok D s k -> live_shape D s
| ShRes2 t k : paused s = true -> ak_ok s -> conts s = [(None, KResume); (t, k)] -> auth_ok D s k -> live_shape D s.

Definition shape (D : list bytes) (s : st) : Prop :=
  (dead s = true /\ conts s = [] /\ paused s = false /\ auth s = None) \/ (dead s = false /\ live_shape D s).

Record Inv (D : list bytes) (s : st) : Prop := mkInv {
  inv_shape : shape D s;
  inv_inq : Forall (fun p => In p D) (inq s);
  inv_inq0 : paused s = false -> inq s = [];
  inv_auth : auth_obj_ok D s;
  inv_done : done_ok D s
}.

(* ---- monotonicity in D ---- *)
Lemma eff_ok_mono D D' u e : incl D D' -> eff_ok D u e -> eff_ok D' u e.
Proof.
  intros Hi H Hr. destruct (H Hr) as (p & Hp & Hg). exists p. split; [auto|].
  eapply grants_via_mono; eauto.
Qed.

Lemma kbd_req_in_mono D D' u : incl D D' -> kbd_req_in D u -> kbd_req_in D' u.
Proof. intros Hi (req & body & H1 & H2). exists req, body. auto. Qed.

Lemma fin_ok_mono D D' s k : incl D D' -> fin_ok D s k -> fin_ok D' s k.
Proof.
  intros Hi. destruct k; cbn; try tauto.
  - intros (H1 & H2 & H3). auto.
  - intros (H1 & H2). auto.
  - intros (H1 & H2 & H3 & H4). auto.
Qed.

Lemma auth_ok_mono D D' s k : incl D D' -> auth_ok D s k -> auth_ok D' s k.
Proof.
  intros Hi (a & H1 & H2 & H3 & H4 & H5 & H6). exists a. repeat (split; [assumption|]).
  destruct k; try assumption.
  - destruct H6 as (? & ? & ? & ? & ?). auto 10.
  - destruct H6 as (? & ? & ?). split; [assumption|]. split; [eapply eff_ok_mono; eauto|assumption].
  - destruct H6 as (? & ? & resp & ? & ?). split; [assumption|]. split; [assumption|]. exists resp. auto.
Qed.

Lemma live_shape_mono D D' s : incl D D' -> live_shape D s -> live_shape D' s.
Proof.
  intros Hi H. destruct H.
  - apply ShIdle0; auto.
  - eapply ShIdle1; eauto using auth_ok_mono.
  - eapply ShFin; eauto using fin_ok_mono.
  - apply ShRes0; auto.
  - eapply ShRes1; eauto using auth_ok_mono.
  - eapply ShRes2; eauto using auth_ok_mono.
Qed.

Lemma Inv_mono D D' s : incl D D' -> Inv D s -> Inv D' s.
Proof.
  intros Hi [Hs Hq Hq0 Ha Hd]. split.
  - destruct Hs as [Hs|[Hl Hs]]; [left; exact Hs|right; split; [exact Hl|]]. eapply live_shape_mono; eauto.
  - eapply Forall_impl; [|exact Hq]. cbn. auto.
  - exact Hq0.
  - unfold auth_obj_ok in *. destruct (auth s); [|exact I]. destruct Ha as (Ha1 & Ha2 & H).
    split; [assumption|]. split; [assumption|]. intros Hk. destruct (H Hk) as [Hr Ho].
    split; [eapply kbd_req_in_mono; eauto|assumption].
  - unfold done_ok in *. destruct (complete s); [|exact Hd].
    destruct Hd as (Hd1 & (p & Hp & Hg) & Hd3 & Hd4). split; [assumption|]. split; [|split; assumption].
    exists p. split; [auto|]. eapply grants_via_mono; eauto.
Qed.


(* ---- states from which the running continuation has been removed ---- *)
Definition Base (D : list bytes) (s : st) (r : bool) : Prop :=
  dead s = false /\ paused s = r /\ ak_ok s /\ conts s = (if r then [(None, KResume)] else []) /\
  Forall (fun p => In p D) (inq s) /\ (r = false -> inq s = []) /\ auth_obj_ok D s /\ done_ok D s.

Lemma base_inv D s r : Base D s r -> Inv D s.
Proof.
  intros (Hd & Hp & Hak & Hc & Hq & Hq0 & Ha & Hdn). split; auto.
  - right. split; [exact Hd|]. destruct r; [apply ShRes0|apply ShIdle0]; auto.
  - intros Hpf. apply Hq0. congruence.
Qed.

Definition upd (e : effect) (s : st) : st :=
  let s1 := match e_ko e with Some o => set_key_opts o s | None => s end in
  match e_co e with Some c => set_cert_opts (Some c) s1 | None => s1 end.

Lemma upd_restr e s : opts_reset s -> (key_opts (upd e s), cert_opts (upd e s)) = restr_of e.
Proof.
  intros [Hk Hc]. unfold upd, restr_of. destruct (e_ko e), (e_co e); cbn; congruence.
Qed.

Lemma upd_noopts e s : e_ko e = None -> e_co e = None -> upd e s = s.
Proof. intros H1 H2. unfold upd. rewrite H1, H2. reflexivity. Qed.

Lemma upd_fields e s :
  username (upd e s) = username s /\ complete (upd e s) = complete s /\ dead (upd e s) = dead s /\
  auth (upd e s) = auth s /\ conts (upd e s) = conts s /\ ak_user (upd e s) = ak_user s /\
  paused (upd e s) = paused s /\ inq (upd e s) = inq s /\ out (upd e s) = out s /\
  completed_as (upd e s) = completed_as s.
Proof. unfold upd. destruct (e_ko e), (e_co e); cbn; repeat split; reflexivity. Qed.

Lemma apply_effect_eq e s :
  apply_effect w e s =
  match e_res e with
  | RsSuccess => do_success (upd e s)
  | RsFailure => do_failure w (upd e s)
  | RsPkOk => emit RPkOk (upd e s)
  | RsChangeReq => emit RChangeReq (upd e s)
  | RsInfoReq n => emit (RInfoReq n) (upd e s)
  | RsDie => die (upd e s)
  end.
Proof. reflexivity. Qed.

Lemma dead_inv D s : done_ok D s -> auth s = None \/ complete s = false -> Inv D (die s).
Proof.
  intros Hd Hx. split; cbn; auto.
  - left. auto.
  - unfold done_ok in *. cbn. destruct (complete s); [|exact Hd].
    destruct Hd as (H1 & H2 & H3 & H4). auto.
Qed.

Lemma die_inv D s : Inv D s -> Inv D (die s).
Proof.
  intros [Hs Hq Hq0 Ha Hd]. apply dead_inv; [exact Hd|].
  unfold done_ok in Hd. destruct (complete s); [left; apply Hd|right; reflexivity].
Qed.

Ltac base_split := unfold Base; split; [|split; [|split; [|split; [|split; [|split; [|split]]]]]].

Lemma apply_effect_inv D s r e a :
  Base D s r -> auth s = Some a -> a_user a = username s ->
  (a_kbd a = true -> e_ko e = None /\ e_co e = None) ->
  opts_reset s -> complete s = false -> eff_ok D (username s) e ->
  Inv D (apply_effect w e s).
Proof.
  intros (Hd & Hp & Hak & Hc & Hq & Hq0 & Ha & Hdn) Hau Hus Hkb Hor Hco Heff.
  rewrite apply_effect_eq.
  destruct (upd_fields e s) as (Fu & Fc & Fd & Fa & Fk & Fak & Fp & Fq & Fo & Fca).
  unfold done_ok in Hdn. rewrite Hco in Hdn. destruct Hdn as [Hcs Hca].
  unfold auth_obj_ok in Ha. rewrite Hau in Ha. destruct Ha as (_ & _ & Hakbd).
  assert (Hak' : forall x y z v, ak_ok (set_completed_as x (set_complete y (set_auth z (set_out v (upd e s)))))).
  { intros. unfold ak_ok in *. cbn. rewrite Fak, Fu. exact Hak. }
  assert (Hak2 : forall z v, ak_ok (set_auth z (set_out v (upd e s)))).
  { intros. unfold ak_ok in *. cbn. rewrite Fak, Fu. exact Hak. }
  assert (Hak3 : forall v, ak_ok (set_out v (upd e s))).
  { intros. unfold ak_ok in *. cbn. rewrite Fak, Fu. exact Hak. }
  assert (Hobj : forall v, auth_obj_ok D (set_out v (upd e s))).
  { intros. unfold auth_obj_ok. cbn. rewrite Fa, Hau, Fu, Fc. split; [exact Hus|]. split; [exact Hco|].
    intros Hk. destruct (Hkb Hk) as [K1 K2]. rewrite (upd_noopts e s K1 K2). split; [apply Hakbd; exact Hk|exact Hor]. }
  assert (Hdone : forall v, count_success v = count_success (out s) -> done_ok D (set_out v (upd e s))).
  { intros v Hv. unfold done_ok. cbn. rewrite Fc, Hco, Fca, Hv. auto. }
  destruct (e_res e) eqn:Er.
  - (* success *)
    apply base_inv with (r := r). unfold do_success, emit. base_split.
    + cbn. congruence.
    + cbn. congruence.
    + apply Hak'.
    + cbn. congruence.
    + cbn. rewrite Fq. exact Hq.
    + cbn. rewrite Fq. exact Hq0.
    + unfold auth_obj_ok. cbn. exact I.
    + unfold done_ok. cbn. rewrite Fo, Fca, Fu, Hcs, Hca. split; [reflexivity|]. split; [|split; reflexivity].
      destruct (Heff Er) as (p & Hp1 & Hp2). exists p. split; [exact Hp1|]. cbn.
      rewrite Fu. pose proof (upd_restr e s Hor) as Hr. inversion Hr as [[Hr1 Hr2]]. rewrite Hr1, Hr2.
      exact Hp2.
  - (* failure *)
    apply base_inv with (r := r). unfold do_failure, emit. base_split.
    + cbn. congruence.
    + cbn. congruence.
    + apply Hak2.
    + cbn. congruence.
    + cbn. rewrite Fq. exact Hq.
    + cbn. rewrite Fq. exact Hq0.
    + unfold auth_obj_ok. cbn. exact I.
    + unfold done_ok. cbn. rewrite Fc, Hco, Fo, Fca. cbn. auto.
  - (* PK_OK *)
    apply base_inv with (r := r). unfold emit. base_split.
    + cbn. congruence.
    + cbn. congruence.
    + apply Hak3.
    + cbn. congruence.
    + cbn. rewrite Fq. exact Hq.
    + cbn. rewrite Fq. exact Hq0.
    + apply Hobj.
    + apply Hdone. cbn. rewrite Fo. reflexivity.
  - (* CHANGEREQ *)
    apply base_inv with (r := r). unfold emit. base_split.
    + cbn. congruence.
    + cbn. congruence.
    + apply Hak3.
    + cbn. congruence.
    + cbn. rewrite Fq. exact Hq.
    + cbn. rewrite Fq. exact Hq0.
    + apply Hobj.
    + apply Hdone. cbn. rewrite Fo. reflexivity.
  - (* INFO_REQUEST *)
    apply base_inv with (r := r). unfold emit. base_split.
    + cbn. congruence.
    + cbn. congruence.
    + apply Hak3.
    + cbn. congruence.
    + cbn. rewrite Fq. exact Hq.
    + cbn. rewrite Fq. exact Hq0.
    + apply Hobj.
    + apply Hdone. cbn. rewrite Fo. reflexivity.
  - (* die *)
    apply dead_inv.
    + unfold done_ok. rewrite Fc, Hco, Fo, Fca. auto.
    + right. rewrite Fc. exact Hco.
Qed.


(* a continuation of the current auth object is added to a Base state *)
Lemma base_add_auth D s r t k c' :
  Base D s r -> auth_ok D s k ->
  conts c' = conts s ++ [(t, k)] ->
  dead c' = dead s -> paused c' = paused s -> username c' = username s -> ak_user c' = ak_user s ->
  auth c' = auth s -> complete c' = complete s -> key_opts c' = key_opts s -> cert_opts c' = cert_opts s ->
  inq c' = inq s -> out c' = out s -> completed_as c' = completed_as s ->
  Inv D c'.
Proof.
  intros (Hd & Hp & Hak & Hc & Hq & Hq0 & Ha & Hdn) Hok E1 E2 E3 E4 E5 E6 E7 E8 E9 E10 E11 E12.
  assert (Hak' : ak_ok c') by (unfold ak_ok in *; rewrite E4, E5; exact Hak).
  assert (Hok' : auth_ok D c' k).
  { destruct Hok as (a & H1 & H2 & H3 & H4 & H5 & H6). exists a.
    split; [congruence|]. split; [exact H2|]. split; [congruence|].
    split; [unfold opts_reset in *; rewrite E8, E9; exact H4|]. split; [congruence|].
    destruct k; try exact H6; rewrite ?E4, ?E5; exact H6. }
  split.
  - right. split; [congruence|]. rewrite Hc in E1. destruct r; cbn in E1.
    + eapply ShRes2; eauto; congruence.
    + eapply ShIdle1; eauto; congruence.
  - rewrite E10. exact Hq.
  - rewrite E3, E10. intros Hpf. apply Hq0. congruence.
  - unfold auth_obj_ok in *. rewrite E6, E4, E7. unfold opts_reset in *. rewrite E8, E9. exact Ha.
  - unfold done_ok, granted_r in *. rewrite E7, E6, E11, E12, E4, E8, E9. exact Hdn.
Qed.

Lemma run_auth_inv D s r aid u ce a :
  Base D s r -> auth s = Some a -> a_id a = aid -> a_user a = username s -> u = username s ->
  (a_kbd a = true -> e_ko (snd ce) = None /\ e_co (snd ce) = None) ->
  opts_reset s -> complete s = false -> eff_ok D u (snd ce) ->
  Inv D (run_auth w aid u ce s).
Proof.
  intros HB Hau Hid Hus Hu Hkb Hor Hco Heff. unfold run_auth.
  destruct (is_async w (fst ce)).
  - eapply base_add_auth with (s := s) (t := Some (next_fid s)) (k := KAuthDone aid u (snd ce)); try reflexivity; eauto.
    exists a. cbn. subst aid. split; [assumption|]. split; [reflexivity|]. split; [assumption|]. split; [assumption|].
    split; [assumption|]. split; [assumption|]. split; assumption.
  - subst u. eapply apply_effect_inv; eauto.
Qed.


Lemma kbd_start_noopts u body : e_ko (snd (kbd_start w u body)) = None /\ e_co (snd (kbd_start w u body)) = None.
Proof.
  unfold kbd_start. destruct (get_string body) as [[lang r1]|]; [|split; reflexivity].
  destruct (get_string r1) as [[subm [|x r2]]|]; try (split; reflexivity).
  destruct (is_ascii lang && utf8 w subm); [|split; reflexivity].
  destruct (kbd_mode w); split; reflexivity.
Qed.

Lemma kbd_validate_noopts u rs :
  e_ko (snd (kbd_validate w u rs)) = None /\ e_co (snd (kbd_validate w u rs)) = None.
Proof.
  unfold kbd_validate. destruct (kbd_mode w); try (split; reflexivity).
  destruct rs as [|r [|r2 rs]]; split; reflexivity.
Qed.

Lemma mkind_eqb_true a b : mkind_eqb a b = true -> a = b.
Proof. destruct a, b; cbn; congruence. Qed.

Lemma run_authcont_inv D s r k :
  Base D s r -> auth_ok D s k -> Inv D (run_kont w sid true k s).
Proof.
  intros HB (a & Hau & Hown & Hus & Hor & Hco & Hk).
  pose proof HB as (Hd & Hp & Hak & Hc & Hq & Hq0 & Ha & Hdn).
  destruct k; try (exfalso; exact Hk); cbn [run_kont]; cbn in Hown; inversion Hown as [Hid].
  - (* KAuthStart *)
    destruct Hk as (Hu & Hin & Hhd & Hsup & Hkbd).
    eapply run_auth_inv; eauto.
    + intros Hkb. rewrite Hkb in Hkbd. symmetry in Hkbd. apply mkind_eqb_true in Hkbd. subst k.
      cbn [auth_start]. apply kbd_start_noopts.
    + intros Hres. exists full. split; [exact Hin|].
      destruct Hak as [Hak|[Hak1 Hak2]].
      * rewrite Hak in *. rewrite <- Hu in *.
        apply auth_start_grants with (src := Some u); auto.
      * rewrite Hak1 in *. rewrite <- Hu in Hak2.
        apply auth_start_grants with (src := None); auto.
  - (* KAuthDone *)
    destruct Hk as (Hu & Heff & Hkb). subst u. eapply apply_effect_inv; eauto.
  - (* KKbdValidate *)
    destruct Hk as (Hu & Hkb & resp & Hin & Hresp).
    eapply run_auth_inv; eauto.
    + intros _. apply kbd_validate_noopts.
    + intros Hres.
      unfold auth_obj_ok in Ha. rewrite Hau in Ha. destruct Ha as (_ & _ & Ha). destruct (Ha Hkb) as [Hreq _].
      rewrite <- Hu in Hreq.
      destruct (kbd_validate_grants D u rs resp Hreq Hin Hresp Hres) as (p & Hp1 & Hp2).
      exists p. split; [exact Hp1|].
      destruct (kbd_validate_noopts u rs) as [K1 K2]. unfold restr_of. rewrite K1, K2. exact Hp2.
Qed.


(* ---- the invariant only looks at some fields ---- *)
Definition same_core (s s' : st) : Prop :=
  username s' = username s /\ complete s' = complete s /\ dead s' = dead s /\ auth s' = auth s /\
  conts s' = conts s /\ ak_user s' = ak_user s /\ key_opts s' = key_opts s /\ cert_opts s' = cert_opts s /\
  paused s' = paused s /\ inq s' = inq s /\ completed_as s' = completed_as s /\
  count_success (out s') = count_success (out s).

Lemma ak_ok_core s s' : username s' = username s -> ak_user s' = ak_user s -> ak_ok s -> ak_ok s'.
Proof. unfold ak_ok. intros -> ->. auto. Qed.

Lemma opts_reset_core s s' : key_opts s' = key_opts s -> cert_opts s' = cert_opts s -> opts_reset s -> opts_reset s'.
Proof. unfold opts_reset. intros -> ->. auto. Qed.

Lemma auth_ok_core D s s' k :
  username s' = username s -> complete s' = complete s -> auth s' = auth s -> ak_user s' = ak_user s ->
  key_opts s' = key_opts s -> cert_opts s' = cert_opts s -> auth_ok D s k -> auth_ok D s' k.
Proof.
  intros E1 E2 E3 E4 E5 E6 (a & H1 & H2 & H3 & H4 & H5 & H6). exists a.
  split; [congruence|]. split; [exact H2|]. split; [congruence|].
  split; [eapply opts_reset_core; eauto|]. split; [congruence|].
  destruct k; try exact H6; rewrite ?E1, ?E4; exact H6.
Qed.

Lemma fin_ok_core D s s' k :
  username s' = username s -> ak_user s' = ak_user s -> fin_ok D s k -> fin_ok D s' k.
Proof.
  intros E1 E2. destruct k; cbn; try tauto.
  - intros (H1 & H2 & H3). rewrite E1. split; [auto|]. split; [auto|]. intros Hb. eapply ak_ok_core; eauto.
  - rewrite E1. auto.
  - rewrite E1, E2. auto.
Qed.

Lemma auth_obj_ok_core D s s' :
  username s' = username s -> complete s' = complete s -> auth s' = auth s ->
  key_opts s' = key_opts s -> cert_opts s' = cert_opts s -> auth_obj_ok D s -> auth_obj_ok D s'.
Proof.
  intros E1 E2 E3 E4 E5. unfold auth_obj_ok, opts_reset. rewrite E1, E2, E3, E4, E5. auto.
Qed.

Lemma done_ok_core D s s' :
  username s' = username s -> complete s' = complete s -> auth s' = auth s ->
  key_opts s' = key_opts s -> cert_opts s' = cert_opts s -> completed_as s' = completed_as s ->
  count_success (out s') = count_success (out s) -> done_ok D s -> done_ok D s'.
Proof.
  intros E1 E2 E3 E4 E5 E6 E7. unfold done_ok, granted_r. rewrite E1, E2, E3, E4, E5, E6, E7. auto.
Qed.

Lemma Inv_same_core D s s' : same_core s s' -> Inv D s -> Inv D s'.
Proof.
  intros (E1 & E2 & E3 & E4 & E5 & E6 & E7 & E8 & E9 & E10 & E11 & E12) [Hs Hq Hq0 Ha Hd]. split.
  - destruct Hs as [(H1 & H2 & H3 & H4)|[Hl Hs]].
    + left. repeat split; congruence.
    + right. split; [congruence|]. destruct Hs.
      * apply ShIdle0; try congruence. eapply ak_ok_core; eauto.
      * eapply ShIdle1; try congruence; [eapply ak_ok_core; eauto | rewrite E5; eassumption | eapply auth_ok_core; eauto].
      * eapply ShFin; try congruence; [eapply opts_reset_core; eauto | rewrite E5; eassumption | eapply fin_ok_core; eauto].
      * apply ShRes0; try congruence. eapply ak_ok_core; eauto.
      * eapply ShRes1; try congruence; [eapply ak_ok_core; eauto | rewrite E5; eassumption | eapply auth_ok_core; eauto].
      * eapply ShRes2; try congruence; [eapply ak_ok_core; eauto | rewrite E5; eassumption | eapply auth_ok_core; eauto].
  - rewrite E10. exact Hq.
  - rewrite E9, E10. exact Hq0.
  - eapply auth_obj_ok_core; eauto.
  - eapply done_ok_core; eauto.
Qed.


(* ---- the _finish_userauth task ---- *)
Definition FinBase (D : list bytes) (s : st) : Prop :=
  dead s = false /\ paused s = true /\ auth s = None /\ complete s = false /\ opts_reset s /\
  conts s = [] /\ Forall (fun p => In p D) (inq s) /\ done_ok D s.

Lemma done_ok_false D s : complete s = false -> done_ok D s -> count_success (out s) = 0%nat /\ completed_as s = [].
Proof. intros H. unfold done_ok. rewrite H. auto. Qed.

Lemma lookup_resume_inv D s mk full body :
  FinBase D s -> ak_ok s -> In full D -> head_ok full (username s) mk body ->
  Inv D (fin_done true (lookup w mk full body s)).
Proof.
  intros (Hd & Hp & Hau & Hco & Hor & Hc & Hq & Hdn) Hak Hin Hhd.
  destruct (done_ok_false D s Hco Hdn) as [Hcs Hca].
  unfold fin_done, lookup, cancel_auth. rewrite Hau.
  destruct (supported w (ak_of w (ak_user s)) mk) eqn:Hsup.
  - split.
    + right. split; [cbn; exact Hd|].
      eapply ShRes1 with (t := None) (k := KAuthStart (next_aid s) (username s) mk full body).
      * cbn. exact Hp.
      * unfold ak_ok in *. cbn. exact Hak.
      * cbn. rewrite Hc. reflexivity.
      * exists (mkAuth (next_aid s) (username s) (mkind_eqb mk MKbd)). cbn.
        split; [reflexivity|]. split; [reflexivity|]. split; [reflexivity|]. split; [exact Hor|].
        split; [exact Hco|]. split; [reflexivity|]. split; [exact Hin|]. split; [exact Hhd|].
        split; [exact Hsup|reflexivity].
    + cbn. exact Hq.
    + cbn. rewrite Hp. discriminate.
    + unfold auth_obj_ok. cbn. split; [reflexivity|]. split; [exact Hco|]. intros Hk.
      apply mkind_eqb_true in Hk. subst mk. split; [|exact Hor]. exists full, body. split; assumption.
    + unfold done_ok. cbn. rewrite Hco. auto.
  - apply base_inv with (r := true). unfold do_failure, emit, spawn, push. base_split.
    + cbn. exact Hd.
    + cbn. exact Hp.
    + unfold ak_ok in *. cbn. exact Hak.
    + cbn. rewrite Hc. reflexivity.
    + cbn. exact Hq.
    + discriminate.
    + unfold auth_obj_ok. cbn. exact I.
    + unfold done_ok. cbn. rewrite Hco. auto.
Qed.

Lemma success_resume_inv D s mk full body :
  FinBase D s -> ak_ok s -> In full D -> head_ok full (username s) mk body ->
  needs_auth w (username s) = false ->
  Inv D (fin_done true (do_success s)).
Proof.
  intros (Hd & Hp & Hau & Hco & Hor & Hc & Hq & Hdn) Hak Hin Hhd Hna.
  destruct (done_ok_false D s Hco Hdn) as [Hcs Hca].
  apply base_inv with (r := true). unfold fin_done, do_success, emit, spawn, push. base_split.
  - cbn. exact Hd.
  - cbn. exact Hp.
  - unfold ak_ok in *. cbn. exact Hak.
  - cbn. rewrite Hc. reflexivity.
  - cbn. exact Hq.
  - discriminate.
  - unfold auth_obj_ok. cbn. exact I.
  - unfold done_ok. cbn. rewrite Hcs, Hca. split; [reflexivity|]. split; [|split; reflexivity].
    exists full. split; [exact Hin|]. cbn. destruct Hor as [-> ->].
    eapply noauth_grants; eauto.
Qed.

Lemma run_begun_inv D s mk full body :
  FinBase D s -> ak_ok s -> In full D -> head_ok full (username s) mk body ->
  Inv D (run_begun w true (username s) mk full body s).
Proof.
  intros HB Hak Hin Hhd. unfold run_begun.
  destruct (needs_auth w (username s)) eqn:Hn.
  - apply lookup_resume_inv; assumption.
  - eapply success_resume_inv; eassumption.
Qed.

Lemma fin_block_inv D s k :
  FinBase D s -> fin_ok D s k -> Inv D (block k s).
Proof.
  intros (Hd & Hp & Hau & Hco & Hor & Hc & Hq & Hdn) Hk. split.
  - right. split; [cbn; exact Hd|].
    eapply ShFin with (t := Some (next_fid s)) (k := k); cbn; auto.
    all: try (rewrite Hc; reflexivity).
    all: try (eapply fin_ok_core; [| |exact Hk]; reflexivity).
  - cbn. exact Hq.
  - cbn. rewrite Hp. discriminate.
  - unfold auth_obj_ok. cbn. rewrite Hau. exact I.
  - eapply done_ok_core; [| | | | | | |exact Hdn]; reflexivity.
Qed.

Lemma run_fin_inv D s k :
  FinBase D s -> fin_ok D s k -> Inv D (run_kont w sid true k s).
Proof.
  intros HB Hk. pose proof HB as (Hd & Hp & Hau & Hco & Hor & Hc & Hq & Hdn).
  destruct k; try (exfalso; exact Hk); cbn [run_kont].
  - (* KFin *)
    destruct Hk as (Hin & Hhd & Hba). destruct ba.
    + apply fin_block_inv; [exact HB|]. cbn. auto.
    + apply lookup_resume_inv; auto.
  - (* KFinReloaded *)
    destruct Hk as (Hin & Hhd).
    set (s1 := set_begun (username s :: begun s) (set_ak_user (Some (username s)) s)).
    assert (HB1 : FinBase D s1).
    { unfold s1. unfold FinBase. cbn. repeat (split; [assumption|]).
      eapply done_ok_core; [| | | | | | |exact Hdn]; reflexivity. }
    assert (Hak1 : ak_ok s1) by (left; reflexivity).
    destruct (async_begin w).
    + apply fin_block_inv; [exact HB1|]. cbn. auto.
    + change (username s) with (username s1). apply run_begun_inv; auto.
  - (* KFinBegun *)
    destruct Hk as (Has & Hak & Hin & Hhd). subst asked.
    apply run_begun_inv; auto. left. exact Hak.
Qed.

End WithWorld.
