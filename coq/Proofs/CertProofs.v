(* Proofs about Model/Cert.v: wire codecs are exact inverses (so the signed region of a
   certificate determines every field), the verify gate, certificate import/validate
   characterisations, option parsing follows (name, data) pairs, SSHSIG decisions. *)
From AV Require Import Base.Prelude Model.Cert.

(* ------------------------------------------------------------------------------------------ *)
(* bytes_ok *)

Lemma bytes_ok_app a b : bytes_ok (a ++ b) = true <-> bytes_ok a = true /\ bytes_ok b = true.
Proof. unfold bytes_ok. rewrite forallb_app, andb_true_iff. reflexivity. Qed.

Lemma byte_ok_iff x : byte_ok x = true <-> 0 <= x < 256.
Proof. unfold byte_ok. rewrite andb_true_iff, Z.leb_le, Z.ltb_lt. reflexivity. Qed.

Lemma zlen_app a b : zlen (a ++ b) = zlen a + zlen b.
Proof. unfold zlen. rewrite app_length. lia. Qed.

Lemma zlen_nonneg a : 0 <= zlen a.
Proof. unfold zlen. lia. Qed.

(* ------------------------------------------------------------------------------------------ *)
(* big-endian integers *)

Lemma be_dec_app l x : be_dec (l ++ [x]) = be_dec l * 256 + x.
Proof. unfold be_dec. rewrite fold_left_app. reflexivity. Qed.

Lemma be_enc_length n : forall v, length (be_enc n v) = n.
Proof.
  induction n as [|n IH]; intros v; simpl; [reflexivity|].
  rewrite app_length, IH. simpl. lia.
Qed.

Lemma pow256_succ n : 256 ^ Z.of_nat (S n) = 256 * 256 ^ Z.of_nat n.
Proof. rewrite Nat2Z.inj_succ, Z.pow_succ_r by lia. reflexivity. Qed.

Lemma pow256_pos n : 0 < 256 ^ Z.of_nat n.
Proof. apply Z.pow_pos_nonneg; lia. Qed.

Lemma be_dec_enc n : forall v, 0 <= v < 256 ^ Z.of_nat n -> be_dec (be_enc n v) = v.
Proof.
  induction n as [|n IH]; intros v Hv.
  - simpl in *. unfold be_dec. simpl. lia.
  - cbn [be_enc]. rewrite be_dec_app. rewrite pow256_succ in Hv.
    pose proof (pow256_pos n) as Hp.
    rewrite IH.
    + pose proof (Z.div_mod v 256). lia.
    + split; [apply Z.div_pos; lia|]. apply Z.div_lt_upper_bound; lia.
Qed.

Lemma be_dec_bound l : bytes_ok l = true -> 0 <= be_dec l < 256 ^ Z.of_nat (length l).
Proof.
  induction l as [|x l IH] using rev_ind; intros Hok.
  - unfold be_dec. simpl. lia.
  - apply bytes_ok_app in Hok as [Hl Hx]. specialize (IH Hl).
    unfold bytes_ok in Hx. simpl in Hx. rewrite andb_true_r in Hx. apply byte_ok_iff in Hx.
    rewrite be_dec_app, app_length. simpl length.
    replace (length l + 1)%nat with (S (length l)) by lia. rewrite pow256_succ. lia.
Qed.

Lemma be_enc_dec l : bytes_ok l = true -> be_enc (length l) (be_dec l) = l.
Proof.
  induction l as [|x l IH] using rev_ind; intros Hok.
  - reflexivity.
  - apply bytes_ok_app in Hok as [Hl Hx]. specialize (IH Hl).
    unfold bytes_ok in Hx. simpl in Hx. rewrite andb_true_r in Hx. apply byte_ok_iff in Hx.
    rewrite be_dec_app, app_length. simpl length.
    replace (length l + 1)%nat with (S (length l)) by lia. cbn [be_enc].
    replace ((be_dec l * 256 + x) / 256) with (be_dec l) by lia.
    replace ((be_dec l * 256 + x) mod 256) with x by lia.
    rewrite IH. reflexivity.
Qed.

(* ------------------------------------------------------------------------------------------ *)
(* get_bytes / get_uint / get_string *)

Lemma get_bytes_app a r : get_bytes (zlen a) (a ++ r) = Some (a, r).
Proof.
  unfold get_bytes. rewrite zlen_app.
  pose proof (zlen_nonneg a). pose proof (zlen_nonneg r).
  destruct ((0 <=? zlen a) && (zlen a <=? zlen a + zlen r)) eqn:E.
  - unfold zlen. rewrite Nat2Z.id.
    rewrite firstn_app, Nat.sub_diag, firstn_all. simpl. rewrite app_nil_r.
    rewrite skipn_app, Nat.sub_diag, skipn_all. reflexivity.
  - apply andb_false_iff in E as [E|E]; [apply Z.leb_gt in E | apply Z.leb_gt in E]; lia.
Qed.

Lemma get_bytes_inv n l h r : get_bytes n l = Some (h, r) -> l = h ++ r /\ zlen h = n.
Proof.
  unfold get_bytes. destruct ((0 <=? n) && (n <=? zlen l)) eqn:E; [|discriminate].
  intros H. inversion H; subst; clear H.
  apply andb_true_iff in E as [E1 E2]. apply Z.leb_le in E1. apply Z.leb_le in E2.
  split; [symmetry; apply firstn_skipn|].
  unfold zlen in *. rewrite firstn_length_le by lia. lia.
Qed.

Lemma get_uint_enc k v r : 0 <= v < 256 ^ Z.of_nat k -> get_uint k (be_enc k v ++ r) = Some (v, r).
Proof.
  intros Hv. unfold get_uint.
  replace (Z.of_nat k) with (zlen (be_enc k v)) by (unfold zlen; rewrite be_enc_length; reflexivity).
  rewrite get_bytes_app. rewrite be_dec_enc by exact Hv. reflexivity.
Qed.

Lemma get_uint_inv k l v r :
  bytes_ok l = true -> get_uint k l = Some (v, r) -> l = be_enc k v ++ r /\ 0 <= v < 256 ^ Z.of_nat k.
Proof.
  intros Hok. unfold get_uint. destruct (get_bytes (Z.of_nat k) l) as [[h t]|] eqn:E; [|discriminate].
  intros H. inversion H; subst; clear H.
  apply get_bytes_inv in E as [-> Hlen].
  apply bytes_ok_app in Hok as [Hh _].
  assert (length h = k) as Hk by (unfold zlen in Hlen; lia).
  split.
  - rewrite <- Hk. rewrite be_enc_dec by exact Hh. reflexivity.
  - rewrite <- Hk. apply be_dec_bound. exact Hh.
Qed.

Lemma pow_4 : 256 ^ Z.of_nat 4 = 2 ^ 32.
Proof. reflexivity. Qed.
Lemma pow_8 : 256 ^ Z.of_nat 8 = 2 ^ 64.
Proof. reflexivity. Qed.

Lemma get_string_enc s r : zlen s < 2 ^ 32 -> get_string (enc_string s ++ r) = Some (s, r).
Proof.
  intros Hs. unfold get_string, enc_string, get_u32, enc_u32. rewrite <- app_assoc.
  rewrite get_uint_enc by (rewrite pow_4; pose proof (zlen_nonneg s); lia).
  apply get_bytes_app.
Qed.

Lemma get_string_enc_nil s : zlen s < 2 ^ 32 -> get_string (enc_string s) = Some (s, []).
Proof. intros Hs. rewrite <- (app_nil_r (enc_string s)). apply get_string_enc. exact Hs. Qed.

Lemma get_string_inv l s r :
  bytes_ok l = true -> get_string l = Some (s, r) -> l = enc_string s ++ r /\ zlen s < 2 ^ 32.
Proof.
  intros Hok. unfold get_string, get_u32.
  destruct (get_uint 4 l) as [[n t]|] eqn:E; [|discriminate].
  intros H. apply get_uint_inv in E as [-> Hn]; [|exact Hok].
  apply get_bytes_inv in H as [-> Hlen]. rewrite pow_4 in Hn.
  unfold enc_string, enc_u32. rewrite Hlen, <- app_assoc. split; [reflexivity | lia].
Qed.

Lemma get_string_shorter l s r : get_string l = Some (s, r) -> (length r + 4 <= length l)%nat.
Proof.
  unfold get_string, get_u32, get_uint.
  destruct (get_bytes (Z.of_nat 4) l) as [[h t]|] eqn:E; [|discriminate].
  intros H. apply get_bytes_inv in E as [-> Hh]. apply get_bytes_inv in H as [-> _].
  rewrite !app_length. unfold zlen in Hh. lia.
Qed.

(* ------------------------------------------------------------------------------------------ *)
(* field lists *)

Lemma dec_val_enc v r : wf_val v -> dec_val (kind_of v) (enc_val v ++ r) = Some (v, r).
Proof.
  destruct v as [s|n|n]; cbn [kind_of dec_val enc_val wf_val]; intros Hwf.
  - rewrite get_string_enc by exact Hwf. reflexivity.
  - unfold get_u32, enc_u32. rewrite get_uint_enc by (rewrite pow_4; exact Hwf). reflexivity.
  - unfold get_u64, enc_u64. rewrite get_uint_enc by (rewrite pow_8; exact Hwf). reflexivity.
Qed.

Lemma dec_val_inv k l v r :
  bytes_ok l = true -> dec_val k l = Some (v, r) -> l = enc_val v ++ r /\ kind_of v = k /\ wf_val v.
Proof.
  intros Hok. destruct k; simpl.
  - destruct (get_string l) as [[s t]|] eqn:E; [|discriminate]. intros H; inversion H; subst.
    apply get_string_inv in E as [-> Hs]; [|exact Hok]. simpl. auto.
  - destruct (get_u32 l) as [[n t]|] eqn:E; [|discriminate]. intros H; inversion H; subst.
    apply get_uint_inv in E as [-> Hn]; [|exact Hok]. rewrite pow_4 in Hn. simpl. auto.
  - destruct (get_u64 l) as [[n t]|] eqn:E; [|discriminate]. intros H; inversion H; subst.
    apply get_uint_inv in E as [-> Hn]; [|exact Hok]. rewrite pow_8 in Hn. simpl. auto.
Qed.

Lemma dec_vals_enc vs : forall r,
  Forall wf_val vs -> dec_vals (map kind_of vs) (enc_vals vs ++ r) = Some (vs, r).
Proof.
  induction vs as [|v vs IH]; intros r Hwf; simpl; [reflexivity|].
  inversion Hwf as [|? ? Hv Hvs]; subst.
  rewrite <- app_assoc. rewrite dec_val_enc by exact Hv. rewrite IH by exact Hvs. reflexivity.
Qed.

Lemma dec_vals_inv ks : forall l vs r,
  bytes_ok l = true -> dec_vals ks l = Some (vs, r) ->
  l = enc_vals vs ++ r /\ map kind_of vs = ks /\ Forall wf_val vs.
Proof.
  induction ks as [|k ks IH]; intros l vs r Hok; simpl.
  - intros H; inversion H; subst. simpl. auto.
  - destruct (dec_val k l) as [[v t]|] eqn:E; [|discriminate].
    destruct (dec_vals ks t) as [[vs' r']|] eqn:E2; [|discriminate].
    intros H; inversion H; subst; clear H.
    apply dec_val_inv in E as (-> & Hk & Hv); [|exact Hok].
    apply bytes_ok_app in Hok as [_ Hokt].
    apply IH in E2 as (-> & Hks & Hvs); [|exact Hokt].
    simpl. rewrite <- app_assoc. subst. auto.
Qed.

Lemma enc_vals_app a b : enc_vals (a ++ b) = enc_vals a ++ enc_vals b.
Proof. induction a as [|x a IH]; simpl; [reflexivity|]. rewrite IH, app_assoc. reflexivity. Qed.

(* a field list is determined by its bytes: any field change changes the encoding *)
Lemma enc_vals_inj vs vs' r r' :
  Forall wf_val vs -> Forall wf_val vs' -> map kind_of vs = map kind_of vs' ->
  enc_vals vs ++ r = enc_vals vs' ++ r' -> vs = vs' /\ r = r'.
Proof.
  intros H1 H2 Hk He.
  pose proof (dec_vals_enc vs r H1) as D1. pose proof (dec_vals_enc vs' r' H2) as D2.
  rewrite He, Hk in D1. rewrite D1 in D2. inversion D2. auto.
Qed.

Lemma enc_string_inj a b r r' :
  zlen a < 2 ^ 32 -> zlen b < 2 ^ 32 -> enc_string a ++ r = enc_string b ++ r' -> a = b /\ r = r'.
Proof.
  intros Ha Hb He. pose proof (get_string_enc a r Ha) as D1. pose proof (get_string_enc b r' Hb) as D2.
  rewrite He in D1. rewrite D1 in D2. inversion D2. auto.
Qed.

(* ------------------------------------------------------------------------------------------ *)
(* SSHKey.verify *)

Lemma existsb_zlist_In x l : existsb (zlist_eqb x) l = true <-> In x l.
Proof.
  rewrite existsb_exists. split.
  - intros [y [Hin He]]. apply zlist_eqb_spec in He. subst. exact Hin.
  - intros Hin. exists x. split; [exact Hin | apply zlist_eqb_refl].
Qed.

Theorem key_verify_iff algs vssh data sig :
  bytes_ok sig = true ->
  (key_verify algs vssh data sig = true <->
   exists alg rest, sig = enc_string alg ++ rest /\ zlen alg < 2 ^ 32 /\ In alg algs /\
                    vssh data alg rest = true).
Proof.
  intros Hok. unfold key_verify. split.
  - destruct (get_string sig) as [[alg rest]|] eqn:E; [|discriminate].
    destruct (existsb (zlist_eqb alg) algs) eqn:Ein; [|discriminate].
    intros Hv. apply get_string_inv in E as [-> Hl]; [|exact Hok].
    exists alg, rest. rewrite existsb_zlist_In in Ein. auto.
  - intros (alg & rest & -> & Hl & Hin & Hv). rewrite get_string_enc by exact Hl.
    apply existsb_zlist_In in Hin. rewrite Hin. exact Hv.
Qed.

(* ------------------------------------------------------------------------------------------ *)
(* certificate layout *)

Definition wf_cert (c : cert_fields) : Prop :=
  zlen (cf_alg c) < 2 ^ 32 /\ Forall wf_val (fields_vals c).

Lemma kinds_map_VStr l : map kind_of (map VStr l) = repeat FStr (length l).
Proof. induction l as [|x l IH]; simpl; [reflexivity|]. rewrite IH. reflexivity. Qed.

Lemma fields_vals_kinds c : map kind_of (fields_vals c) = cert_fmt (length (cf_key c)).
Proof.
  unfold fields_vals, cert_fmt. cbn [map kind_of]. rewrite map_app, kinds_map_VStr. reflexivity.
Qed.

Lemma strs_of_map l : strs_of (map VStr l) = Some l.
Proof. induction l as [|x l IH]; simpl; [reflexivity|]. rewrite IH. reflexivity. Qed.

Lemma strs_of_inv vs : forall l, strs_of vs = Some l -> vs = map VStr l.
Proof.
  induction vs as [|v vs IH]; intros l; simpl.
  - intros H; inversion H. reflexivity.
  - destruct v as [s|n|n]; try discriminate.
    destruct (strs_of vs) as [t|] eqn:E; [|discriminate].
    intros H; inversion H; subst. simpl. rewrite (IH t eq_refl). reflexivity.
Qed.

Lemma vals_fields_of c : vals_fields (cf_alg c) (length (cf_key c)) (fields_vals c) = Some c.
Proof.
  unfold vals_fields, fields_vals.
  rewrite firstn_app, map_length, Nat.sub_diag. cbn [firstn]. rewrite app_nil_r.
  rewrite <- (map_length VStr (cf_key c)) at 1. rewrite firstn_all, strs_of_map.
  rewrite skipn_app, map_length, Nat.sub_diag. cbn [skipn].
  rewrite <- (map_length VStr (cf_key c)) at 1. rewrite skipn_all. cbn [app].
  destruct c; reflexivity.
Qed.

Lemma vals_fields_inv alg nk vs c :
  vals_fields alg nk vs = Some c -> vs = fields_vals c /\ cf_alg c = alg.
Proof.
  unfold vals_fields. destruct vs as [|[nonce|?|?] rest]; try discriminate.
  destruct (strs_of (firstn nk rest)) as [key|] eqn:Ek; [|discriminate].
  apply strs_of_inv in Ek.
  pose proof (firstn_skipn nk rest) as Hsplit.
  destruct (skipn nk rest) as [|v1 t1] eqn:Es; [discriminate|].
  destruct v1 as [?|?|serial]; try discriminate.
  destruct t1 as [|[?|typ|?] t2]; try discriminate.
  destruct t2 as [|[kid|?|?] t3]; try discriminate.
  destruct t3 as [|[princ|?|?] t4]; try discriminate.
  destruct t4 as [|[?|?|va] t5]; try discriminate.
  destruct t5 as [|[?|?|vb] t6]; try discriminate.
  destruct t6 as [|[opts|?|?] t7]; try discriminate.
  destruct t7 as [|[exts|?|?] t8]; try discriminate.
  destruct t8 as [|[rsv|?|?] t9]; try discriminate.
  destruct t9 as [|[cak|?|?] t10]; try discriminate.
  destruct t10; try discriminate.
  intros H; inversion H; subst; clear H.
  unfold fields_vals. cbn [cf_nonce cf_key cf_serial cf_type cf_keyid cf_princ cf_va cf_vb cf_opts cf_exts cf_rsv cf_cakey cf_alg].
  rewrite <- Ek, Hsplit. auto.
Qed.

Lemma firstn_prefix {A} (a b : list A) : firstn (length (a ++ b) - length b) (a ++ b) = a.
Proof.
  rewrite app_length. replace (length a + length b - length b)%nat with (length a) by lia.
  rewrite firstn_app, Nat.sub_diag, firstn_all. simpl. apply app_nil_r.
Qed.

Lemma cert_fmt_length nk : length (cert_fmt nk) = (nk + 11)%nat.
Proof. unfold cert_fmt. cbn [length]. rewrite app_length, repeat_length. simpl. lia. Qed.

Lemma fields_vals_length c : length (fields_vals c) = (length (cf_key c) + 11)%nat.
Proof. unfold fields_vals. cbn [length]. rewrite app_length, map_length. simpl. lia. Qed.

(* construct() accepts exactly the encodings of well-formed field records, and the bytes it hands
   to the signature check are exactly enc_tbs of those fields *)
Lemma cert_parse_enc c sig ka :
  wf_cert c -> zlen sig < 2 ^ 32 -> cert_alg_lookup (cf_alg c) = Some (ka, length (cf_key c)) ->
  cert_parse (enc_cert c sig) = Some (c, enc_tbs c, sig).
Proof.
  intros [Halg Hwf] Hsig Hl. unfold cert_parse, enc_cert, enc_tbs.
  rewrite <- !app_assoc. rewrite get_string_enc by exact Halg. rewrite Hl.
  rewrite <- fields_vals_kinds. rewrite dec_vals_enc by exact Hwf.
  rewrite vals_fields_of.
  rewrite get_string_enc_nil by exact Hsig.
  rewrite app_assoc. rewrite firstn_prefix. reflexivity.
Qed.

Lemma cert_parse_inv blob c signed sig :
  bytes_ok blob = true -> cert_parse blob = Some (c, signed, sig) ->
  blob = enc_cert c sig /\ signed = enc_tbs c /\ wf_cert c /\ zlen sig < 2 ^ 32 /\
  exists ka, cert_alg_lookup (cf_alg c) = Some (ka, length (cf_key c)).
Proof.
  intros Hok. unfold cert_parse.
  destruct (get_string blob) as [[alg r0]|] eqn:E0; [|discriminate].
  destruct (cert_alg_lookup alg) as [[ka nk]|] eqn:El; [|discriminate].
  destruct (dec_vals (cert_fmt nk) r0) as [[vs r1]|] eqn:Ev; [|discriminate].
  destruct (vals_fields alg nk vs) as [c'|] eqn:Ef; [|discriminate].
  destruct (get_string r1) as [[sig' r2]|] eqn:Es; [|discriminate].
  destruct r2; [|discriminate].
  intros H; inversion H; subst; clear H.
  apply get_string_inv in E0 as [Hb Halg]; [|exact Hok].
  assert (bytes_ok r0 = true) as Hok0 by (rewrite Hb in Hok; apply bytes_ok_app in Hok; tauto).
  apply dec_vals_inv in Ev as (Hr0 & Hk & Hwf); [|exact Hok0].
  assert (bytes_ok r1 = true) as Hok1 by (rewrite Hr0 in Hok0; apply bytes_ok_app in Hok0; tauto).
  apply get_string_inv in Es as [Hr1 Hsig]; [|exact Hok1].
  apply vals_fields_inv in Ef as [Hvs Ha]. subst vs alg.
  assert (length (cf_key c) = nk) as Hnk.
  { pose proof (f_equal (@length _) Hk) as Hlen. rewrite map_length, fields_vals_length, cert_fmt_length in Hlen. lia. }
  rewrite app_nil_r in Hr1. subst r1 r0.
  split; [|split; [|split; [|split]]].
  - rewrite Hb. unfold enc_cert, enc_tbs. rewrite <- app_assoc. reflexivity.
  - rewrite Hb.
    replace (enc_string (cf_alg c) ++ enc_vals (fields_vals c) ++ enc_string sig)
      with ((enc_string (cf_alg c) ++ enc_vals (fields_vals c)) ++ enc_string sig)
      by (rewrite <- app_assoc; reflexivity).
    rewrite firstn_prefix. reflexivity.
  - split; assumption.
  - exact Hsig.
  - exists ka. rewrite Hnk. exact El.
Qed.

(* any change of any field (or of the signature) changes the certificate bytes; in particular
   the signed region determines every field the CA vouches for *)
Theorem enc_tbs_inj c c' ka ka' :
  wf_cert c -> wf_cert c' ->
  cert_alg_lookup (cf_alg c) = Some (ka, length (cf_key c)) ->
  cert_alg_lookup (cf_alg c') = Some (ka', length (cf_key c')) ->
  enc_tbs c = enc_tbs c' -> c = c'.
Proof.
  intros [Ha Hw] [Ha' Hw'] Hl Hl' He. unfold enc_tbs in He.
  apply enc_string_inj in He as [Halg He]; [|assumption|assumption].
  rewrite <- Halg in Hl'. rewrite Hl in Hl'. inversion Hl' as [[Hka Hlen]].
  assert (fields_vals c = fields_vals c') as Hf.
  { rewrite <- (app_nil_r (enc_vals (fields_vals c))), <- (app_nil_r (enc_vals (fields_vals c'))) in He.
    apply enc_vals_inj in He as [Hf _]; try assumption.
    rewrite !fields_vals_kinds, Hlen. reflexivity. }
  pose proof (vals_fields_of c) as V1. pose proof (vals_fields_of c') as V2.
  rewrite Hf, Halg, Hlen in V1. rewrite V1 in V2. inversion V2. reflexivity.
Qed.

Theorem enc_cert_inj c c' sig sig' ka ka' :
  wf_cert c -> wf_cert c' -> zlen sig < 2 ^ 32 -> zlen sig' < 2 ^ 32 ->
  cert_alg_lookup (cf_alg c) = Some (ka, length (cf_key c)) ->
  cert_alg_lookup (cf_alg c') = Some (ka', length (cf_key c')) ->
  enc_cert c sig = enc_cert c' sig' -> c = c' /\ sig = sig'.
Proof.
  intros Hw Hw' Hs Hs' Hl Hl' He.
  pose proof (cert_parse_enc c sig ka Hw Hs Hl) as P1.
  pose proof (cert_parse_enc c' sig' ka' Hw' Hs' Hl') as P2.
  rewrite He in P1. rewrite P1 in P2. inversion P2. auto.
Qed.

(* ------------------------------------------------------------------------------------------ *)
(* loops never run out of fuel *)

Lemma dec_principals_fuel : forall fuel p, (length p <= fuel)%nat -> dec_principals fuel p <> RFuel.
Proof.
  induction fuel as [|f IH]; intros p Hlen.
  - destruct p; simpl in *; [discriminate | lia].
  - destruct p as [|b p']; [simpl; discriminate|].
    cbn [dec_principals]. destruct (get_string (b :: p')) as [[s r]|] eqn:E; [|discriminate].
    destruct (utf8_decode s); [|discriminate].
    apply get_string_shorter in E.
    specialize (IH r ltac:(simpl in *; lia)).
    destruct (dec_principals f r); try discriminate. congruence.
Qed.

Section OptsGen.
  Variable addrs_ok : bytes -> bool.
  Variable cu : bool.

  Notation dec_options := (dec_options_gen addrs_ok cu).
  Notation dec_optval := (dec_optval addrs_ok).

  Lemma dec_options_fuel known critical : forall fuel p,
    (length p <= fuel)%nat -> dec_options fuel known critical p <> RFuel.
  Proof.
    induction fuel as [|f IH]; intros p Hlen.
    - destruct p; simpl in *; [discriminate | lia].
    - destruct p as [|b p']; [simpl; discriminate|].
      cbn [dec_options_gen]. destruct (get_string (b :: p')) as [[name r]|] eqn:E; [|discriminate].
      apply get_string_shorter in E.
      destruct (assoc name known) as [k|].
      + destruct (get_string r) as [[data r']|] eqn:E2; [|discriminate].
        apply get_string_shorter in E2.
        destruct (dec_optval k data); [|discriminate].
        specialize (IH r' ltac:(simpl in *; lia)).
        destruct (dec_options f known critical r'); try discriminate. congruence.
      + destruct critical; [discriminate|]. destruct cu.
        * destruct (get_string r) as [[data r']|] eqn:E2; [|discriminate].
          apply get_string_shorter in E2. apply IH. simpl in *; lia.
        * apply IH. simpl in *; lia.
  Qed.

  (* -------------------------------------------------------------------------------------- *)
  (* option parsing against the (name, data) pair reading of the field *)

  Fixpoint enc_pairs (pairs : list (bytes * bytes)) : bytes :=
    match pairs with
    | [] => []
    | (n, d) :: t => enc_string n ++ enc_string d ++ enc_pairs t
    end.

  Definition wf_pair (p : bytes * bytes) : Prop := zlen (fst p) < 2 ^ 32 /\ zlen (snd p) < 2 ^ 32.

  (* reference semantics: walk the pairs; a known name must carry well-formed data; an unknown
     name is an error when critical and is skipped (with its data) otherwise *)
  Fixpoint spec_options (known : list (bytes * okind)) (critical : bool) (pairs : list (bytes * bytes))
    : option (list (bytes * oval)) :=
    match pairs with
    | [] => Some []
    | (n, d) :: t =>
        match assoc n known with
        | Some k =>
            match dec_optval k d with
            | Some v => match spec_options known critical t with
                        | Some l => Some ((n, v) :: l)
                        | None => None
                        end
            | None => None
            end
        | None => if critical then None else spec_options known critical t
        end
    end.

  Lemma dec_options_pairs_sound known critical : critical = true \/ cu = true ->
    forall fuel p l, bytes_ok p = true -> dec_options fuel known critical p = ROk l ->
    exists pairs, p = enc_pairs pairs /\ Forall wf_pair pairs /\ spec_options known critical pairs = Some l.
  Proof.
    intros Hmode. induction fuel as [|f IH]; intros p l Hok.
    - destruct p; simpl; [|discriminate]. intros H; inversion H. exists []. simpl. auto.
    - destruct p as [|b p']; [simpl; intros H; inversion H; exists []; simpl; auto|].
      cbn [dec_options_gen].
      destruct (get_string (b :: p')) as [[name r]|] eqn:E; [|discriminate].
      apply get_string_inv in E as [Hp Hn]; [|exact Hok].
      assert (bytes_ok r = true) as Hokr by (rewrite Hp in Hok; apply bytes_ok_app in Hok; tauto).
      destruct (assoc name known) as [k|] eqn:Ea.
      + destruct (get_string r) as [[data r']|] eqn:E2; [|discriminate].
        apply get_string_inv in E2 as [Hr Hd]; [|exact Hokr].
        assert (bytes_ok r' = true) as Hokr' by (rewrite Hr in Hokr; apply bytes_ok_app in Hokr; tauto).
        destruct (dec_optval k data) as [v|] eqn:Ev; [|discriminate].
        destruct (dec_options f known critical r') as [t| |] eqn:Et; try discriminate.
        intros H; inversion H; subst l; clear H.
        destruct (IH r' t Hokr' Et) as (pairs & Hr' & Hwf & Hs).
        exists ((name, data) :: pairs). cbn [enc_pairs spec_options]. rewrite Ea, Ev, Hs.
        split; [rewrite Hp, Hr, Hr'; reflexivity|]. split; [|reflexivity].
        constructor; [split; assumption | exact Hwf].
      + destruct critical; [discriminate|].
        destruct Hmode as [Hc|Hcu]; [discriminate|].
        assert (Hif : forall A (x y : A), (if cu then x else y) = x) by (intros; rewrite Hcu; reflexivity).
        rewrite Hif.
        destruct (get_string r) as [[data r']|] eqn:E2; [|discriminate].
        apply get_string_inv in E2 as [Hr Hd]; [|exact Hokr].
        assert (bytes_ok r' = true) as Hokr' by (rewrite Hr in Hokr; apply bytes_ok_app in Hokr; tauto).
        intros Et. destruct (IH r' l Hokr' Et) as (pairs & Hr' & Hwf & Hs).
        exists ((name, data) :: pairs). cbn [enc_pairs spec_options]. rewrite Ea, Hs.
        split; [rewrite Hp, Hr, Hr'; reflexivity|]. split; [|reflexivity].
        constructor; [split; assumption | exact Hwf].
  Qed.

  Lemma enc_pairs_length n d t :
    length (enc_pairs ((n, d) :: t)) = (8 + length n + length d + length (enc_pairs t))%nat.
  Proof.
    cbn [enc_pairs]. unfold enc_string, enc_u32. rewrite !app_length, !be_enc_length. lia.
  Qed.

  Lemma enc_string_cons s r : exists b t, enc_string s ++ r = b :: t.
  Proof. unfold enc_string, enc_u32. cbn [be_enc]. rewrite <- !app_assoc. simpl. eauto. Qed.

  Lemma dec_options_pairs_complete known critical : critical = true \/ cu = true ->
    forall pairs fuel l, Forall wf_pair pairs -> (length (enc_pairs pairs) <= fuel)%nat ->
    spec_options known critical pairs = Some l -> dec_options fuel known critical (enc_pairs pairs) = ROk l.
  Proof.
    intros Hmode. induction pairs as [|[n d] t IH]; intros fuel l Hwf Hfuel.
    - simpl. intros H; inversion H. destruct fuel; reflexivity.
    - inversion Hwf as [|? ? [Hn Hd] Hwft]; subst. simpl in Hn, Hd.
      rewrite enc_pairs_length in Hfuel. destruct fuel as [|f]; [lia|].
      cbn [enc_pairs spec_options].
      destruct (enc_string_cons n (enc_string d ++ enc_pairs t)) as (b & tl & Hcons).
      rewrite Hcons. cbn [dec_options_gen]. rewrite <- Hcons.
      rewrite get_string_enc by exact Hn.
      destruct (assoc n known) as [k|] eqn:Ea.
      + rewrite get_string_enc by exact Hd.
        destruct (dec_optval k d) as [v|]; [|discriminate].
        destruct (spec_options known critical t) as [lt|] eqn:Es; [|discriminate].
        intros H; inversion H; subst.
        rewrite (IH f lt Hwft ltac:(lia) eq_refl). reflexivity.
      + destruct critical; [discriminate|].
        destruct Hmode as [Hc|Hcu]; [discriminate|].
        assert (Hif : forall A (x y : A), (if cu then x else y) = x) by (intros; rewrite Hcu; reflexivity).
        rewrite Hif.
        rewrite get_string_enc by exact Hd.
        intros Hs. apply IH; [exact Hwft | lia | exact Hs].
  Qed.

End OptsGen.

Section WithOpts.
  Variable addrs_ok : bytes -> bool.

  Notation dec_options := (dec_options_gen addrs_ok true).
  Notation dec_optval := (dec_optval addrs_ok).
  Notation cert_options := (cert_options addrs_ok).
  Notation spec_options := (spec_options addrs_ok).

  (* the model of record consumes the data of unknown options: decoding = walking the pairs *)
  Theorem dec_options_pairs_iff known critical p l : bytes_ok p = true ->
    (Cert.dec_options addrs_ok (length p) known critical p = ROk l <->
     exists pairs, p = enc_pairs pairs /\ Forall wf_pair pairs /\ spec_options known critical pairs = Some l).
  Proof.
    intros Hok. unfold Cert.dec_options. split.
    - apply (dec_options_pairs_sound addrs_ok true known critical (or_intror eq_refl)). exact Hok.
    - intros (pairs & -> & Hwf & Hs).
      apply (dec_options_pairs_complete addrs_ok true known critical (or_intror eq_refl)); auto.
  Qed.

  Lemma cert_options_fuel typ o e : cert_options typ o e <> RFuel.
  Proof.
    unfold Cert.cert_options, Cert.dec_options.
    destruct (typ =? CERT_TYPE_USER); [|destruct (typ =? CERT_TYPE_HOST); [|discriminate]].
    - pose proof (dec_options_fuel addrs_ok true user_option_kinds true (length o) o (le_n _)).
      destruct (dec_options (length o) user_option_kinds true o); try discriminate; try congruence.
      pose proof (dec_options_fuel addrs_ok true user_extension_kinds false (length e) e (le_n _)).
      destruct (dec_options (length e) user_extension_kinds false e); try discriminate; congruence.
    - pose proof (dec_options_fuel addrs_ok true [] true (length o) o (le_n _)).
      destruct (dec_options (length o) [] true o); try discriminate; try congruence.
      pose proof (dec_options_fuel addrs_ok true [] false (length e) e (le_n _)).
      destruct (dec_options (length e) [] false e); try discriminate; congruence.
  Qed.

  Lemma cert_options_type typ o e l : cert_options typ o e = ROk l -> typ = CERT_TYPE_USER \/ typ = CERT_TYPE_HOST.
  Proof.
    unfold Cert.cert_options.
    destruct (typ =? CERT_TYPE_USER) eqn:E1; [apply Z.eqb_eq in E1; auto|].
    destruct (typ =? CERT_TYPE_HOST) eqn:E2; [apply Z.eqb_eq in E2; auto|]. discriminate.
  Qed.

  Definition known_critical (typ : Z) : list (bytes * okind) :=
    if typ =? CERT_TYPE_USER then user_option_kinds else [].

  (* every critical option of an imported certificate is understood: the options field is a
     sequence of (name, data) pairs, every name is in the table for the certificate type and its
     data is well-formed for that option *)
  Theorem cert_options_critical_understood typ o e l :
    bytes_ok o = true -> cert_options typ o e = ROk l ->
    exists pairs lo, o = enc_pairs pairs /\ spec_options (known_critical typ) true pairs = Some lo /\
      Forall (fun p => exists k v, assoc (fst p) (known_critical typ) = Some k /\ dec_optval k (snd p) = Some v) pairs.
  Proof.
    intros Hok. unfold Cert.cert_options, Cert.dec_options, known_critical.
    assert (Hgen : forall known lo, dec_options (length o) known true o = ROk lo ->
             exists pairs, o = enc_pairs pairs /\ spec_options known true pairs = Some lo /\
               Forall (fun p => exists k v, assoc (fst p) known = Some k /\ dec_optval k (snd p) = Some v) pairs).
    { intros known lo Hd.
      destruct (dec_options_pairs_sound addrs_ok true known true (or_introl eq_refl) _ _ _ Hok Hd) as (pairs & Hp & _ & Hs).
      exists pairs. split; [exact Hp|]. split; [exact Hs|].
      clear Hp Hd. revert lo Hs. induction pairs as [|[n d] t IH]; intros lo Hs; [constructor|].
      cbn [CertProofs.spec_options] in Hs.
      destruct (assoc n known) as [k|] eqn:Ea; [|discriminate].
      destruct (dec_optval k d) as [v|] eqn:Ev; [|discriminate].
      destruct (spec_options known true t) as [lt|] eqn:Et; [|discriminate].
      constructor; [exists k, v; simpl; auto | apply (IH lt eq_refl)]. }
    destruct (typ =? CERT_TYPE_USER).
    - destruct (dec_options (length o) user_option_kinds true o) as [lo| |] eqn:Eo; try discriminate.
      intros _. destruct (Hgen _ _ Eo) as (pairs & ? & ? & ?). exists pairs, lo. auto.
    - destruct (typ =? CERT_TYPE_HOST); [|discriminate].
      destruct (dec_options (length o) [] true o) as [lo| |] eqn:Eo; try discriminate.
      intros _. destruct (Hgen _ _ Eo) as (pairs & ? & ? & ?). exists pairs, lo. auto.
  Qed.

End WithOpts.

Section WithLib.
  Variable sigok : bytes -> bytes -> bytes -> bool.
  Variable pubkey_ok : bytes -> bool.
  Variable keyfields_ok : bytes -> list bytes -> bool.
  Variable addrs_ok : bytes -> bool.
  Variable hash : bytes -> bytes -> bytes.

  Notation dec_optval := (dec_optval addrs_ok).
  Notation cert_options := (cert_options addrs_ok).
  Notation cert_import := (cert_import sigok pubkey_ok keyfields_ok addrs_ok).
  Notation cert_accept := (cert_accept sigok pubkey_ok keyfields_ok addrs_ok).
  Notation sshsig_validate := (sshsig_validate_gen sigok pubkey_ok keyfields_ok addrs_ok hash).
  Notation signed_data := (signed_data hash).

  Theorem cert_import_no_fuel blob : cert_import blob <> RFuel.
  Proof.
    unfold Cert.cert_import.
    destruct (cert_parse blob) as [[[c signed] sig]|]; [|discriminate].
    destruct (cert_alg_lookup (cf_alg c)) as [[kalg nk]|]; [|discriminate].
    destruct (negb (pubkey_ok (cf_cakey c))); [discriminate|].
    destruct (negb (sigok (cf_cakey c) signed sig)); [discriminate|].
    destruct (negb (keyfields_ok (cf_alg c) (cf_key c))); [discriminate|].
    destruct (utf8_decode (cf_keyid c)); [|discriminate].
    pose proof (dec_principals_fuel (length (cf_princ c)) (cf_princ c) (le_n _)).
    destruct (dec_principals (length (cf_princ c)) (cf_princ c)); try discriminate; try congruence.
    pose proof (cert_options_fuel addrs_ok (cf_type c) (cf_opts c) (cf_exts c)).
    destruct (cert_options (cf_type c) (cf_opts c) (cf_exts c)); try discriminate; congruence.
  Qed.

  (* -------------------------------------------------------------------------------------- *)
  (* import and validate *)

  Definition cert_spec (blob : bytes) (ci : cert_info) : Prop :=
    let c := ci_fields ci in
    blob = enc_cert c (ci_sig ci) /\ ci_signed ci = enc_tbs c /\ wf_cert c /\ zlen (ci_sig ci) < 2 ^ 32 /\
    cert_alg_lookup (cf_alg c) = Some (ci_kalg ci, length (cf_key c)) /\
    pubkey_ok (cf_cakey c) = true /\
    sigok (cf_cakey c) (enc_tbs c) (ci_sig ci) = true /\
    keyfields_ok (cf_alg c) (cf_key c) = true /\
    utf8_decode (cf_keyid c) = Some (ci_keyid ci) /\
    dec_principals (length (cf_princ c)) (cf_princ c) = ROk (ci_principals ci) /\
    cert_options (cf_type c) (cf_opts c) (cf_exts c) = ROk (ci_options ci).

  Theorem cert_import_iff blob ci :
    bytes_ok blob = true -> (cert_import blob = ROk ci <-> cert_spec blob ci).
  Proof.
    intros Hok. unfold Cert.cert_import, cert_spec. split.
    - destruct (cert_parse blob) as [[[c signed] sig]|] eqn:Ep; [|discriminate].
      apply cert_parse_inv in Ep as (Hb & Hs & Hwf & Hsig & ka & Hl); [|exact Hok].
      rewrite Hl.
      destruct (pubkey_ok (cf_cakey c)) eqn:Epk; [|discriminate]. cbn [negb].
      destruct (sigok (cf_cakey c) signed sig) eqn:Esig; [|discriminate]. cbn [negb].
      destruct (keyfields_ok (cf_alg c) (cf_key c)) eqn:Ekf; [|discriminate]. cbn [negb].
      destruct (utf8_decode (cf_keyid c)) as [kid|] eqn:Ekid; [|discriminate].
      destruct (dec_principals (length (cf_princ c)) (cf_princ c)) as [ps| |] eqn:Eps; try discriminate.
      destruct (cert_options (cf_type c) (cf_opts c) (cf_exts c)) as [os| |] eqn:Eos; try discriminate.
      intros H; inversion H; subst ci; clear H. cbn [ci_fields ci_sig ci_signed ci_kalg ci_keyid ci_principals ci_options].
      subst signed. repeat split; auto; apply Hwf.
    - intros (Hb & Hs & Hwf & Hsig & Hl & Hpk & Hsok & Hkf & Hkid & Hps & Hos).
      rewrite Hb. rewrite (cert_parse_enc _ _ _ Hwf Hsig Hl). rewrite Hl, Hpk, Hsok, Hkf, Hkid, Hps, Hos.
      cbn [negb]. destruct ci; simpl in *. subst. reflexivity.
  Qed.

  Theorem cert_validate_ok_iff ci want principal now :
    cert_validate ci want principal now = VOk <->
    (want = CERT_TYPE_ANY \/ want = cf_type (ci_fields ci)) /\
    cf_va (ci_fields ci) <= now < cf_vb (ci_fields ci) /\
    match principal with
    | None => True
    | Some p => ci_principals ci = [] \/ In p (ci_principals ci)
    end.
  Proof.
    unfold cert_validate.
    destruct ((want =? CERT_TYPE_ANY) || (want =? cf_type (ci_fields ci))) eqn:Et; cbn [negb].
    2:{ split; [discriminate|]. intros [[H|H] _]; subst; rewrite ?Z.eqb_refl, ?orb_true_r in Et; discriminate. }
    apply orb_true_iff in Et. rewrite !Z.eqb_eq in Et.
    destruct (now <? cf_va (ci_fields ci)) eqn:E1.
    { apply Z.ltb_lt in E1. split; [discriminate|]. intros (_ & ? & _). lia. }
    apply Z.ltb_ge in E1.
    destruct (cf_vb (ci_fields ci) <=? now) eqn:E2.
    { apply Z.leb_le in E2. split; [discriminate|]. intros (_ & ? & _). lia. }
    apply Z.leb_gt in E2.
    destruct principal as [p|]; [|split; [intros _; repeat split; auto; lia | reflexivity]].
    destruct (ci_principals ci) as [|q qs] eqn:Eps.
    { split; [intros _; repeat split; auto; lia | reflexivity]. }
    destruct (existsb (zlist_eqb p) (q :: qs)) eqn:Ein.
    - apply existsb_zlist_In in Ein. split; [intros _; repeat split; auto; lia | reflexivity].
    - split; [discriminate|]. intros (_ & _ & [H|H]); [discriminate|].
      apply existsb_zlist_In in H. congruence.
  Qed.

  Theorem cert_accept_iff blob want principal now :
    bytes_ok blob = true ->
    (cert_accept blob want principal now = true <->
     exists ci, cert_spec blob ci /\
       (want = CERT_TYPE_ANY \/ want = cf_type (ci_fields ci)) /\
       cf_va (ci_fields ci) <= now < cf_vb (ci_fields ci) /\
       match principal with
       | None => True
       | Some p => ci_principals ci = [] \/ In p (ci_principals ci)
       end).
  Proof.
    intros Hok. unfold Cert.cert_accept. split.
    - destruct (cert_import blob) as [ci| |] eqn:Ei; try discriminate.
      intros Hv. exists ci. split; [apply cert_import_iff; assumption|].
      apply cert_validate_ok_iff. destruct (cert_validate ci want principal now); try discriminate. reflexivity.
    - intros (ci & Hs & Hv). apply cert_import_iff in Hs; [|exact Hok]. rewrite Hs.
      apply cert_validate_ok_iff in Hv. rewrite Hv. reflexivity.
  Qed.

  (* -------------------------------------------------------------------------------------- *)
  (* allowed signers *)

  Theorem entry_matches_iff e principal ns now :
    entry_matches e principal ns now = true <->
    patlist_matches (e_princ e) principal = true /\
    (forall pl, e_ns e = Some pl -> patlist_matches pl ns = true) /\
    (forall t, e_va e = Some t -> t <= now) /\ (forall t, e_vb e = Some t -> now < t).
  Proof.
    unfold entry_matches. rewrite !andb_true_iff. split.
    - intros [[[H1 H2] H3] H4]. split; [exact H1|]. split; [|split].
      + intros pl Hpl. rewrite Hpl in H2. exact H2.
      + intros t Ht. rewrite Ht in H3. apply negb_true_iff, Z.ltb_ge in H3. exact H3.
      + intros t Ht. rewrite Ht in H4. apply negb_true_iff, Z.leb_gt in H4. exact H4.
    - intros (H1 & H2 & H3 & H4). repeat split; [exact H1| | |].
      + destruct (e_ns e); [apply H2; reflexivity | reflexivity].
      + destruct (e_va e) as [t|]; [|reflexivity]. apply negb_true_iff, Z.ltb_ge. apply H3. reflexivity.
      + destruct (e_vb e) as [t|]; [|reflexivity]. apply negb_true_iff, Z.leb_gt. apply H4. reflexivity.
  Qed.

  Theorem as_validate_iff entries key principal ns now ca :
    as_validate entries key principal ns now ca = true <->
    exists e, In e entries /\ e_ca e = ca /\ e_key e = key /\ entry_matches e principal ns now = true.
  Proof.
    unfold as_validate. rewrite existsb_exists. split.
    - intros (e & Hin & H). apply andb_true_iff in H as [H Hm]. apply andb_true_iff in H as [Hc Hk].
      apply eqb_prop in Hc. apply zlist_eqb_spec in Hk. exists e. auto.
    - intros (e & Hin & Hc & Hk & Hm). exists e. split; [exact Hin|].
      rewrite Hc, Hk, Hm, eqb_reflx, zlist_eqb_refl. reflexivity.
  Qed.

  (* -------------------------------------------------------------------------------------- *)
  (* SSHSIG *)

  Definition sshsig_tbs (nsb hname digest : bytes) : bytes :=
    SSHSIG_MAGIC ++ enc_vals [VStr nsb; VStr []; VStr hname; VStr digest].

  Definition the_digest (msg : bytes) (is_hashed : bool) (hname : bytes) : bytes :=
    if is_hashed then msg else hash hname msg.

  Lemma signed_data_some msg ih hname nsb tbs :
    signed_data msg ih hname nsb = Some tbs ->
    tbs = sshsig_tbs nsb hname (the_digest msg ih hname) /\ nsb <> [] /\
    exists sz, hash_size hname = Some sz /\ (ih = true -> zlen msg = sz).
  Proof.
    unfold Cert.signed_data, sshsig_tbs, the_digest.
    destruct (hash_size hname) as [sz|]; [|discriminate].
    destruct nsb as [|b t]; [discriminate|].
    destruct ih.
    - destruct (zlen msg =? sz) eqn:E; [|discriminate]. apply Z.eqb_eq in E.
      intros H; inversion H. cbn [enc_vals enc_val]. rewrite app_nil_r. repeat split; try discriminate.
      exists sz. auto.
    - intros H; inversion H. cbn [enc_vals enc_val]. rewrite app_nil_r. repeat split; try discriminate.
      exists sz. split; [reflexivity | discriminate].
  Qed.

  (* the signed bytes determine namespace, hash algorithm and message digest *)
  Theorem sshsig_tbs_inj ns h d ns' h' d' :
    zlen ns < 2 ^ 32 -> zlen h < 2 ^ 32 -> zlen d < 2 ^ 32 ->
    zlen ns' < 2 ^ 32 -> zlen h' < 2 ^ 32 -> zlen d' < 2 ^ 32 ->
    sshsig_tbs ns h d = sshsig_tbs ns' h' d' -> ns = ns' /\ h = h' /\ d = d'.
  Proof.
    intros H1 H2 H3 H4 H5 H6 He. unfold sshsig_tbs in He. apply app_inv_head in He.
    rewrite <- (app_nil_r (enc_vals [VStr ns; _; _; _])) in He.
    rewrite <- (app_nil_r (enc_vals [VStr ns'; _; _; _])) in He.
    apply enc_vals_inj in He as [He _].
    - inversion He. auto.
    - repeat constructor; simpl; auto; reflexivity.
    - repeat constructor; simpl; auto; reflexivity.
    - reflexivity.
  Qed.

  Lemma sshsig_parse_inv raw pub nsb hname sig :
    bytes_ok raw = true -> sshsig_parse raw = Some (pub, nsb, hname, sig) ->
    exists rsv, raw = enc_sshsig pub nsb rsv hname sig /\
      zlen pub < 2 ^ 32 /\ zlen nsb < 2 ^ 32 /\ zlen rsv < 2 ^ 32 /\ zlen hname < 2 ^ 32 /\ zlen sig < 2 ^ 32.
  Proof.
    intros Hok. unfold sshsig_parse.
    destruct (get_bytes 6 raw) as [[m r]|] eqn:Eg; [|discriminate].
    apply get_bytes_inv in Eg as [Hraw _].
    destruct (zlist_eqb m SSHSIG_MAGIC) eqn:Em; [|discriminate]. cbn [negb].
    apply zlist_eqb_spec in Em. subst m.
    assert (bytes_ok r = true) as Hokr by (rewrite Hraw in Hok; apply bytes_ok_app in Hok; tauto).
    destruct (dec_vals sshsig_fmt r) as [[vs r']|] eqn:Ev; [|discriminate].
    apply dec_vals_inv in Ev as (Hr & Hk & Hwf); [|exact Hokr].
    destruct vs as [|[?|ver|?] vs]; try discriminate.
    destruct vs as [|[pub'|?|?] vs]; try discriminate.
    destruct vs as [|[nsb'|?|?] vs]; try discriminate.
    destruct vs as [|[rsv|?|?] vs]; try discriminate.
    destruct vs as [|[hname'|?|?] vs]; try discriminate.
    destruct vs as [|[sig'|?|?] vs]; try discriminate.
    destruct vs; try discriminate.
    destruct r'; try discriminate.
    destruct (ver =? 1) eqn:E1; [|discriminate]. apply Z.eqb_eq in E1. subst ver.
    intros H; inversion H; subst; clear H.
    exists rsv. unfold enc_sshsig. rewrite app_nil_r. split; [reflexivity|].
    repeat match goal with H : Forall _ (_ :: _) |- _ => inversion H; clear H; subst end.
    simpl in *. auto 10.
  Qed.

  Lemma sshsig_parse_enc pub nsb rsv hname sig :
    zlen pub < 2 ^ 32 -> zlen nsb < 2 ^ 32 -> zlen rsv < 2 ^ 32 -> zlen hname < 2 ^ 32 -> zlen sig < 2 ^ 32 ->
    sshsig_parse (enc_sshsig pub nsb rsv hname sig) = Some (pub, nsb, hname, sig).
  Proof.
    intros H1 H2 H3 H4 H5. unfold sshsig_parse, enc_sshsig.
    change 6 with (zlen SSHSIG_MAGIC). rewrite get_bytes_app. rewrite zlist_eqb_refl. cbn [negb].
    rewrite <- (app_nil_r (enc_vals _)).
    change sshsig_fmt with (map kind_of [VU32 1; VStr pub; VStr nsb; VStr rsv; VStr hname; VStr sig]).
    rewrite dec_vals_enc; [reflexivity|].
    repeat constructor; simpl; auto; lia.
  Qed.

  (* who signed: a certificate that imports (subject key, CA vouching) or a bare public key *)
  Definition signer_ok (pub : bytes) (cert : option cert_info) (key : bytes) : Prop :=
    match cert with
    | Some ci => cert_import pub = ROk ci /\ key = key_blob (ci_kalg ci) (cf_key (ci_fields ci))
    | None => cert_import pub = RErr /\ pubkey_ok pub = true /\ key = pub
    end.

  Definition sshsig_spec (want : Z) (msg : bytes) (is_hashed : bool) (raw : bytes) (principal : list Z)
             (entries : list as_entry) (now : Z) : Prop :=
    exists pub nsb rsv hname sig ns tbs cert key,
      raw = enc_sshsig pub nsb rsv hname sig /\
      zlen pub < 2 ^ 32 /\ zlen nsb < 2 ^ 32 /\ zlen rsv < 2 ^ 32 /\ zlen hname < 2 ^ 32 /\ zlen sig < 2 ^ 32 /\
      signer_ok pub cert key /\
      utf8_decode nsb = Some ns /\
      signed_data msg is_hashed hname nsb = Some tbs /\
      sigok key tbs sig = true /\
      (as_validate entries key principal ns now false = true \/
       exists ci, cert = Some ci /\
         as_validate entries (cf_cakey (ci_fields ci)) principal ns now true = true /\
         cert_validate ci want (Some principal) now = VOk).

  Theorem sshsig_accept_iff want msg ih raw principal entries now :
    bytes_ok raw = true ->
    (sshsig_validate want msg ih raw principal entries now = SAccept <->
     sshsig_spec want msg ih raw principal entries now).
  Proof.
    intros Hok. unfold Cert.sshsig_validate_gen, sshsig_spec. split.
    - destruct (sshsig_parse raw) as [[[[pub nsb] hname] sig]|] eqn:Ep; [|discriminate].
      apply sshsig_parse_inv in Ep as (rsv & Hraw & L1 & L2 & L3 & L4 & L5); [|exact Hok].
      destruct (cert_import pub) as [ci| |] eqn:Ei.
      + destruct (utf8_decode nsb) as [ns|] eqn:Eu; [|discriminate].
        destruct (signed_data msg ih hname nsb) as [tbs|] eqn:Es; [|discriminate].
        destruct (sigok (key_blob (ci_kalg ci) (cf_key (ci_fields ci))) tbs sig) eqn:Esig; [|discriminate]. cbn [negb].
        destruct entries as [|e0 es] eqn:Een; [discriminate|]. rewrite <- Een.
        destruct (as_validate entries _ principal ns now false) eqn:Ek.
        * intros _. exists pub, nsb, rsv, hname, sig, ns, tbs, (Some ci), (key_blob (ci_kalg ci) (cf_key (ci_fields ci))).
          simpl. auto 20.
        * destruct (as_validate entries (cf_cakey (ci_fields ci)) principal ns now true) eqn:Eca; [|discriminate].
          destruct (cert_validate ci want (Some principal) now) eqn:Ev; try discriminate.
          intros _. exists pub, nsb, rsv, hname, sig, ns, tbs, (Some ci), (key_blob (ci_kalg ci) (cf_key (ci_fields ci))).
          simpl. repeat split; auto. right. exists ci. auto.
      + destruct (pubkey_ok pub) eqn:Epk; [|discriminate].
        destruct (utf8_decode nsb) as [ns|] eqn:Eu; [|discriminate].
        destruct (signed_data msg ih hname nsb) as [tbs|] eqn:Es; [|discriminate].
        destruct (sigok pub tbs sig) eqn:Esig; [|discriminate]. cbn [negb].
        destruct entries as [|e0 es] eqn:Een; [discriminate|]. rewrite <- Een.
        destruct (as_validate entries pub principal ns now false) eqn:Ek; [|discriminate].
        intros _. exists pub, nsb, rsv, hname, sig, ns, tbs, None, pub. simpl. auto 20.
      + discriminate.
    - intros (pub & nsb & rsv & hname & sig & ns & tbs & cert & key & Hraw & L1 & L2 & L3 & L4 & L5 & Hwho & Hu & Hs & Hsig & Hauth).
      rewrite Hraw, (sshsig_parse_enc _ _ _ _ _ L1 L2 L3 L4 L5).
      assert (entries <> []) as Hne.
      { destruct Hauth as [H|(ci & _ & H & _)]; intros ->; unfold as_validate in H; simpl in H; discriminate. }
      destruct cert as [ci|]; simpl in Hwho.
      + destruct Hwho as [Hi ->]. rewrite Hi, Hu, Hs, Hsig. cbn [negb].
        destruct entries as [|e0 es]; [congruence|].
        destruct Hauth as [H|(ci' & Hc & Hca & Hv)]; [rewrite H; reflexivity|].
        inversion Hc; subst ci'.
        destruct (as_validate (e0 :: es) _ principal ns now false); [reflexivity|].
        rewrite Hca, Hv. reflexivity.
      + destruct Hwho as (Hi & Hpk & ->). rewrite Hi, Hpk, Hu, Hs, Hsig. cbn [negb].
        destruct entries as [|e0 es]; [congruence|].
        destruct Hauth as [H|(ci' & Hc & _)]; [rewrite H; reflexivity | discriminate].
  Qed.

  Theorem sshsig_no_fuel want msg ih raw principal entries now :
    sshsig_validate want msg ih raw principal entries now <> SFuel.
  Proof.
    unfold Cert.sshsig_validate_gen.
    destruct (sshsig_parse raw) as [[[[pub nsb] hname] sig]|]; [|discriminate].
    pose proof (cert_import_no_fuel pub) as Hnf.
    destruct (cert_import pub) as [ci| |]; [| |congruence].
    - destruct (utf8_decode nsb); [|discriminate].
      destruct (signed_data msg ih hname nsb); [|discriminate].
      destruct (negb _); [discriminate|].
      destruct entries; [discriminate|].
      destruct (as_validate _ _ _ _ _ false); [discriminate|].
      destruct (as_validate _ _ _ _ _ true); [|discriminate].
      destruct (vres_ok _); discriminate.
    - destruct (pubkey_ok pub); [|discriminate].
      destruct (utf8_decode nsb); [|discriminate].
      destruct (signed_data msg ih hname nsb); [|discriminate].
      destruct (negb _); [discriminate|].
      destruct entries; [discriminate|].
      destruct (as_validate _ _ _ _ _ false); discriminate.
  Qed.

  (* when validate_sshsig asks for a user certificate, a signature accepted through a
     cert-authority line was made with a user certificate valid now for the principal *)
  Theorem sshsig_ca_path_cert_checked want msg ih raw principal entries now :
    bytes_ok raw = true ->
    sshsig_validate want msg ih raw principal entries now = SAccept ->
    forall pub nsb rsv hname sig, raw = enc_sshsig pub nsb rsv hname sig ->
      zlen pub < 2 ^ 32 -> zlen nsb < 2 ^ 32 -> zlen rsv < 2 ^ 32 -> zlen hname < 2 ^ 32 -> zlen sig < 2 ^ 32 ->
    forall ci ns, cert_import pub = ROk ci -> utf8_decode nsb = Some ns ->
      as_validate entries (key_blob (ci_kalg ci) (cf_key (ci_fields ci))) principal ns now false = false ->
      (want = CERT_TYPE_ANY \/ want = cf_type (ci_fields ci)) /\
      cf_va (ci_fields ci) <= now < cf_vb (ci_fields ci) /\
      (ci_principals ci = [] \/ In principal (ci_principals ci)).
  Proof.
    intros Hok Hacc pub nsb rsv hname sig Hraw L1 L2 L3 L4 L5 ci ns Hi Hu Hnokey.
    unfold Cert.sshsig_validate_gen in Hacc.
    rewrite Hraw, (sshsig_parse_enc _ _ _ _ _ L1 L2 L3 L4 L5), Hi, Hu in Hacc.
    destruct (signed_data msg ih hname nsb); [|discriminate].
    destruct (negb _); [discriminate|].
    destruct entries as [|e0 es] eqn:Een; [discriminate|]. rewrite <- Een in *.
    rewrite Hnokey in Hacc.
    destruct (as_validate entries (cf_cakey (ci_fields ci)) principal ns now true); [|discriminate].
    destruct (cert_validate ci want (Some principal) now) eqn:Ev; try discriminate.
    apply cert_validate_ok_iff in Ev. exact Ev.
  Qed.

  (* the model of record: validate_sshsig asks for a USER certificate *)
  Theorem sshsig_user_accept_iff msg ih raw principal entries now :
    bytes_ok raw = true ->
    (Cert.sshsig_validate sigok pubkey_ok keyfields_ok addrs_ok hash msg ih raw principal entries now = SAccept <->
     sshsig_spec CERT_TYPE_USER msg ih raw principal entries now).
  Proof. intros Hok. unfold Cert.sshsig_validate. apply sshsig_accept_iff. exact Hok. Qed.

  Theorem sshsig_user_no_fuel msg ih raw principal entries now :
    Cert.sshsig_validate sigok pubkey_ok keyfields_ok addrs_ok hash msg ih raw principal entries now <> SFuel.
  Proof. unfold Cert.sshsig_validate. apply sshsig_no_fuel. Qed.

  (* "type matches the use": a signature accepted through a cert-authority entry (the signer's key
     is not itself listed) was made with a USER certificate valid now for the principal *)
  Theorem sshsig_ca_path_user_cert msg ih raw principal entries now :
    bytes_ok raw = true ->
    Cert.sshsig_validate sigok pubkey_ok keyfields_ok addrs_ok hash msg ih raw principal entries now = SAccept ->
    forall pub nsb rsv hname sig, raw = enc_sshsig pub nsb rsv hname sig ->
      zlen pub < 2 ^ 32 -> zlen nsb < 2 ^ 32 -> zlen rsv < 2 ^ 32 -> zlen hname < 2 ^ 32 -> zlen sig < 2 ^ 32 ->
    forall ci ns, cert_import pub = ROk ci -> utf8_decode nsb = Some ns ->
      as_validate entries (key_blob (ci_kalg ci) (cf_key (ci_fields ci))) principal ns now false = false ->
      cf_type (ci_fields ci) = CERT_TYPE_USER /\
      cf_va (ci_fields ci) <= now < cf_vb (ci_fields ci) /\
      (ci_principals ci = [] \/ In principal (ci_principals ci)).
  Proof.
    intros Hok Hacc pub nsb rsv hname sig Hraw L1 L2 L3 L4 L5 ci ns Hi Hu Hk.
    unfold Cert.sshsig_validate in Hacc.
    destruct (sshsig_ca_path_cert_checked _ _ _ _ _ _ _ Hok Hacc _ _ _ _ _ Hraw L1 L2 L3 L4 L5 _ _ Hi Hu Hk)
      as ([Ht|Ht] & Hw & Hp).
    - discriminate.
    - split; [symmetry; exact Ht | split; assumption].
  Qed.

End WithLib.

(* ------------------------------------------------------------------------------------------ *)
(* The code before /repo commit d13f6e7 (dec_options_old) did not read extensions as (name, data)
   pairs: the data of an unknown extension was parsed as the next extension name. *)

Definition quirk_pairs : list (bytes * bytes) := [([102;111;111], N_permit_pty); ([], [])].

Lemma extensions_quirk :
  exists l, dec_options_old (fun _ => true) 100 user_extension_kinds false (enc_pairs quirk_pairs) = ROk l /\
            In (N_permit_pty, OTrue) l /\ ~ In N_permit_pty (map fst quirk_pairs).
Proof.
  exists [(N_permit_pty, OTrue)]. split; [vm_compute; reflexivity|]. split; [left; reflexivity|].
  simpl. intros [H|[H|[]]]; discriminate.
Qed.

(* With CERT_TYPE_ANY (sshsig_validate_old, the code before /repo commit 0617eca) validate_sshsig
   accepted a signature made with a HOST certificate through a cert-authority line.  Witness over
   trivial crypto (everything verifies); the model of record rejects the same input. *)
Definition w_alg : bytes :=
  [115;115;104;45;101;100;50;53;53;49;57;45;99;101;114;116;45;118;48;49;64;111;112;101;110;115;115;104;46;99;111;109].
Definition w_fields : cert_fields := mkCF w_alg [1] [[2]] 0 2 [105] [] 0 100 [] [] [] [9].
Definition w_entry : as_entry := mkAS [(false, [42])] true None None None [9].
Definition w_raw : bytes := enc_sshsig (enc_cert w_fields [7]) [102] [] N_sha512 [8].

Lemma sshsig_host_cert_any :
  sshsig_validate_old (fun _ _ _ => true) (fun _ => true) (fun _ _ => true) (fun _ => true) (fun _ _ => [])
                      [] false w_raw [97] [w_entry] 50 = SAccept.
Proof. vm_compute. reflexivity. Qed.

Lemma sshsig_host_cert_user :
  sshsig_validate (fun _ _ _ => true) (fun _ => true) (fun _ _ => true) (fun _ => true) (fun _ _ => [])
                  [] false w_raw [97] [w_entry] 50 = SReject.
Proof. vm_compute. reflexivity. Qed.

(* ------------------------------------------------------------------------------------------ *)
(* time values: a trailing Z names the UTC instant whatever the process time zone is; a
   zone-less value is local time, i.e. the UTC reading shifted by the zone offset *)

Lemma parse_time_abs_Z ds off : parse_time_abs ds true off = parse_time_abs ds true 0.
Proof. unfold parse_time_abs. destruct (civil_seconds ds); reflexivity. Qed.

Lemma parse_time_abs_local ds off :
  parse_time_abs ds false off =
  match parse_time_abs ds true 0 with Some t => Some (t + off) | None => None end.
Proof. unfold parse_time_abs. destruct (civil_seconds ds); reflexivity. Qed.

Lemma parse_time_zone_independent s off off' now :
  match s with TAbs _ false => False | _ => True end ->
  parse_time s off now = parse_time s off' now.
Proof.
  destruct s as [t|ds z|d|]; simpl; try reflexivity.
  destruct z; [intros _; rewrite parse_time_abs_Z, (parse_time_abs_Z ds off'); reflexivity | intros []].
Qed.

(* the window decision of an allowed-signers entry / a generated certificate whose limits are
   Z-times does not depend on the zone, and is the comparison with the UTC instants *)
Lemma window_decision_Z dsa dsb off pnow now ta tb :
  parse_time_abs dsa true 0 = Some ta -> parse_time_abs dsb true 0 = Some tb ->
  (window_decision (Some (TAbs dsa true)) (Some (TAbs dsb true)) off pnow now = 0 <-> ta <= now < tb).
Proof.
  intros Ha Hb. unfold window_decision, parse_time. rewrite (parse_time_abs_Z dsa off), (parse_time_abs_Z dsb off), Ha, Hb.
  destruct (now <? ta) eqn:E1; destruct (tb <=? now) eqn:E2; cbn [negb andb];
    rewrite ?Z.ltb_lt, ?Z.ltb_ge, ?Z.leb_le, ?Z.leb_gt in *; split; intros; try lia; try discriminate; reflexivity.
Qed.

Lemma civil_epoch : civil_seconds [49;57;55;48;48;49;48;49] = Some 0.
Proof. vm_compute. reflexivity. Qed.
Lemma civil_T0 : civil_seconds [50;48;50;51;49;49;49;52;50;50;49;51;50;48] = Some 1700000000.
Proof. vm_compute. reflexivity. Qed.

(* ------------------------------------------------------------------------------------------ *)
(* the SSHSIG signed data depends only on the message bytes, not on how they are supplied *)
Lemma signed_data_src_bytes hash s s' hname nsb :
  source_bytes s = source_bytes s' ->
  signed_data_src hash s false hname nsb = signed_data_src hash s' false hname nsb.
Proof. destruct s, s'; simpl; intros ->; reflexivity. Qed.

Lemma signed_data_path_chunking hash chunks chunks' ih ih' hname nsb :
  concat chunks = concat chunks' ->
  signed_data_src hash (MPath chunks) ih hname nsb = signed_data_src hash (MPath chunks') ih' hname nsb.
Proof. simpl. intros ->. reflexivity. Qed.

(* principal / namespace patterns: a pattern without '*' and '?' matches exactly itself (every code
   point compared as is: matching is case-sensitive, no folding, no trimming) *)
Lemma wmatch_literal p : (forall c, In c p -> c <> 42 /\ c <> 63) -> forall s, wmatch p s = true <-> p = s.
Proof.
  induction p as [|c p IH]; intros Hlit s.
  - simpl. destruct s; split; intros H; try reflexivity; discriminate.
  - assert (Hc : c <> 42 /\ c <> 63) by (apply Hlit; left; reflexivity).
    assert (Hp : forall x, In x p -> x <> 42 /\ x <> 63) by (intros x Hx; apply Hlit; right; exact Hx).
    cbn [wmatch]. destruct (c =? 42) eqn:E42; [apply Z.eqb_eq in E42; tauto|].
    destruct s as [|x s']; [split; intros H; discriminate|].
    destruct (c =? 63) eqn:E63; [apply Z.eqb_eq in E63; tauto|]. cbn [orb].
    rewrite andb_true_iff, Z.eqb_eq, (IH Hp s'). split; [intros [-> ->]; reflexivity | intros H; inversion H; auto].
Qed.

(* option names are case-insensitive: the classification depends only on the lower-cased name *)
Lemma as_opt_kind_case n n' : map ascii_lower n = map ascii_lower n' -> as_opt_kind n = as_opt_kind n'.
Proof. unfold as_opt_kind. intros ->. reflexivity. Qed.

Lemma ascii_lower_idem c : ascii_lower (ascii_lower c) = ascii_lower c.
Proof.
  unfold ascii_lower. destruct ((65 <=? c) && (c <=? 90)) eqn:E.
  - apply andb_true_iff in E as [E1 E2]. apply Z.leb_le in E1. apply Z.leb_le in E2.
    destruct ((65 <=? c + 32) && (c + 32 <=? 90)) eqn:E'; [|reflexivity].
    apply andb_true_iff in E' as [_ E3]. apply Z.leb_le in E3. lia.
  - rewrite E. reflexivity.
Qed.

Lemma as_opt_kind_lower n : as_opt_kind (map ascii_lower n) = as_opt_kind n.
Proof.
  apply as_opt_kind_case. rewrite map_map. apply map_ext. intros c. apply ascii_lower_idem.
Qed.
