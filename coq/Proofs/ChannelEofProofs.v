(* EOF ordering for Model/Channel.v: EOF reaches the session only after all data, only if the sender
   signalled it, and only the close notification can follow it. *)
From AV Require Import Base.Prelude Model.Channel Proofs.ChannelProofs.

Local Arguments Z.mul : simpl never.
Local Arguments Z.add : simpl never.
Local Arguments Z.sub : simpl never.

Definition eof_in (l : list tok) : Prop := In TEof l.

Lemma not_eof_toks_of dt d : ~ In TEof (toks_of dt d).
Proof. unfold toks_of. induction d as [|x d IH]; simpl; [tauto|]. intros [H|H]; [discriminate|auto]. Qed.

Lemma eof_app_toks l dt d : In TEof (l ++ toks_of dt d) <-> In TEof l.
Proof.
  rewrite in_app_iff. split; [intros [H|H]; [exact H|exfalso; eapply not_eof_toks_of; eauto]|auto].
Qed.

(* tokens after the first EOF *)
Fixpoint after_eof (l : list tok) : list tok :=
  match l with
  | [] => []
  | TEof :: r => r
  | _ :: r => after_eof r
  end.

Definition only_close (l : list tok) : Prop := Forall (fun t => t = TClose) l.

Lemma after_eof_app_no l m : ~ In TEof l -> after_eof (l ++ m) = after_eof m.
Proof.
  induction l as [|t l IH]; intros H; simpl; [reflexivity|].
  destruct t; try (apply IH; intros X; apply H; right; exact X).
  exfalso. apply H. left. reflexivity.
Qed.

Lemma after_eof_app_yes l m : In TEof l -> after_eof (l ++ m) = after_eof l ++ m.
Proof.
  induction l as [|t l IH]; intros H; simpl; [destruct H|].
  destruct t; try reflexivity; (destruct H as [H|H]; [discriminate|apply IH; exact H]).
Qed.

Lemma after_eof_none l : ~ In TEof l -> after_eof l = [].
Proof.
  induction l as [|t l IH]; intros H; simpl; [reflexivity|].
  destruct t; try (apply IH; intros X; apply H; right; exact X).
  exfalso. apply H. left. reflexivity.
Qed.

(* the receiver-side invariant *)
Record RInv (r : receiver) : Prop := {
  ri_buf : In TEof (r_out r) -> r_buf r = [];
  ri_stage : In TEof (r_out r) -> (1 <= stage_r (r_state r))%nat;
  ri_pending : r_state r = REofPending -> ~ In TEof (r_out r);
  ri_open : r_state r = ROpen -> ~ In TEof (r_out r);
  ri_tail : only_close (after_eof (r_out r)) }.

Lemma deliver_out r dt d : r_out (fst (r_deliver r dt d)) = r_out r ++ toks_of dt d.
Proof. unfold r_deliver. destruct (_ <? _); reflexivity. Qed.

Lemma deliver_state r dt d : r_state (fst (r_deliver r dt d)) = r_state r /\ r_buf (fst (r_deliver r dt d)) = r_buf r.
Proof. unfold r_deliver. destruct (_ <? _); split; reflexivity. Qed.

(* draining delivers only data tokens *)
Lemma drain_out buf : forall r k bk r' rest bk',
  r_drain r buf k bk = (r', rest, bk') ->
  (In TEof (r_out r') <-> In TEof (r_out r)) /\ r_state r' = r_state r /\
  (exists ds, r_out r' = r_out r ++ ds /\ ~ In TEof ds) /\
  (rest = [] \/ exists j, k = Some j) /\ (buf = [] -> rest = []).
Proof.
  induction buf as [|[dt d] b IH]; intros r k bk r' rest bk' H.
  - simpl in H. inversion H; subst.
    split. { tauto. }
    split. { reflexivity. }
    split. { exists []. rewrite app_nil_r. split; [reflexivity|intros []]. }
    split. { left. reflexivity. }
    reflexivity.
  - simpl in H. destruct k as [[|j]|].
    + inversion H; subst.
      split. { tauto. }
      split. { reflexivity. }
      split. { exists []. rewrite app_nil_r. split; [reflexivity|intros []]. }
      split. { right. exists 0%nat. reflexivity. }
      discriminate.
    + destruct (r_deliver r dt d) as [r1 adj] eqn:E.
      pose proof (deliver_out r dt d) as Ho. pose proof (deliver_state r dt d) as [Hs _]. rewrite E in Ho, Hs. simpl in Ho, Hs.
      apply IH in H. destruct H as (A & B & (ds & C1 & C2) & D & _).
      split. { rewrite A, Ho, eof_app_toks. tauto. }
      split. { congruence. }
      split. { exists (toks_of dt d ++ ds). rewrite C1, Ho, app_assoc. split; [reflexivity|].
               rewrite in_app_iff. intros [X|X]; [eapply not_eof_toks_of; eauto|auto]. }
      split. { right. exists (S j). reflexivity. }
      discriminate.
    + destruct (r_deliver r dt d) as [r1 adj] eqn:E.
      pose proof (deliver_out r dt d) as Ho. pose proof (deliver_state r dt d) as [Hs _]. rewrite E in Ho, Hs. simpl in Ho, Hs.
      apply IH in H. destruct H as (A & B & (ds & C1 & C2) & D & _).
      split. { rewrite A, Ho, eof_app_toks. tauto. }
      split. { congruence. }
      split. { exists (toks_of dt d ++ ds). rewrite C1, Ho, app_assoc. split; [reflexivity|].
               rewrite in_app_iff. intros [X|X]; [eapply not_eof_toks_of; eauto|auto]. }
      split. { destruct D as [D|[j D]]; [left; exact D|discriminate]. }
      discriminate.
Qed.

(* a receiver whose output gained only data tokens, while no EOF had been delivered *)
Lemma rinv_data r m ds :
  RInv r -> ~ In TEof (r_out r) -> r_out m = r_out r ++ ds -> ~ In TEof ds -> r_state m = r_state r -> RInv m.
Proof.
  intros [A B C D E] Hn Ho Hds Hs.
  assert (Hm : ~ In TEof (r_out m)) by (rewrite Ho, in_app_iff; tauto).
  constructor; try (intros X; exfalso; tauto); try (intros _; exact Hm).
  rewrite after_eof_none by exact Hm. constructor.
Qed.

(* same output, same state, buffer emptied or kept *)
Lemma rinv_same r m :
  RInv r -> r_out m = r_out r -> r_state m = r_state r -> (r_buf m = r_buf r \/ r_buf m = []) -> RInv m.
Proof.
  intros [A B C D E] Ho Hs Hb. constructor; rewrite ?Ho, ?Hs; auto.
  intros X. destruct Hb as [Hb|Hb]; rewrite Hb; auto.
Qed.

Lemma rinv_finish r : RInv r -> RInv (r_finish r).
Proof.
  intros I. unfold r_finish. destruct (r_buf r) eqn:Eb; [|exact I].
  destruct (r_state r) eqn:Es; try exact I; destruct I as [A B C D E].
  - (* EOF becomes visible *)
    specialize (C Es).
    constructor; simpl; auto; try discriminate.
    rewrite after_eof_app_no by exact C. simpl. constructor.
  - (* close becomes visible *)
    constructor; simpl; auto; try discriminate.
    destruct (in_dec (fun a b : tok => ltac:(decide equality; apply Z.eq_dec)) TEof (r_out r)) as [Hin|Hnin].
    + rewrite after_eof_app_yes by exact Hin. apply Forall_app. split; [exact E|repeat constructor].
    + rewrite after_eof_app_no by exact Hnin. simpl. constructor.
Qed.

Lemma rinv_flush r k r' adj : RInv r -> r_flush r k = (r', adj) -> RInv r'.
Proof.
  intros I H. unfold r_flush in H.
  destruct (r_drain _ _ _ _) as [[r1 rest] bk] eqn:E.
  pose proof (drain_out _ _ _ _ _ _ _ E) as (Hiff & Hst & (ds & Ho & Hds) & _ & Hnil). simpl in *.
  inversion H; subst. apply rinv_finish.
  destruct (r_buf r) eqn:Eb.
  - (* nothing buffered: nothing delivered *)
    simpl in E. inversion E; subst. simpl.
    eapply rinv_same; [exact I| | |]; simpl; auto.
  - assert (Hn : ~ In TEof (r_out r)).
    { intros X. pose proof (ri_buf _ I X) as Y. congruence. }
    eapply (rinv_data r _ ds I Hn); simpl; auto.
Qed.

Lemma rinv_state r st :
  RInv r ->
  (st = REofPending -> ~ In TEof (r_out r)) -> (st = ROpen -> ~ In TEof (r_out r)) ->
  (In TEof (r_out r) -> (1 <= stage_r st)%nat) ->
  RInv (mkR (r_buf r) (r_win r) (r_init r) (r_paused r) st (r_err r) (r_out r)).
Proof. intros [A B C D E] H1 H2 H3. constructor; simpl; auto. Qed.

Lemma rinv_core r m : RInv r -> r_out m = r_out r -> r_state m = r_state r -> r_buf m = r_buf r -> RInv m.
Proof. intros I A B C. eapply rinv_same; eauto. Qed.

(* receiver operations as used by honest runs *)
Lemma rinv_r_data strict r dt d : RInv r -> r_state r = ROpen -> RInv (fst (r_data strict r dt d)).
Proof.
  intros I Hs. unfold r_data. destruct (r_err r); [exact I|]. rewrite Hs.
  destruct (zlen d >? _); [apply (rinv_core r); [exact I|reflexivity|reflexivity|reflexivity]|].
  destruct d as [|x d']; [exact I|].
  pose proof (ri_open _ I Hs) as Hn.
  destruct (r_paused r).
  - simpl. eapply (rinv_data r _ [] I Hn); simpl; auto. rewrite app_nil_r. reflexivity.
  - pose proof (deliver_out r dt (x :: d')) as Ho. pose proof (deliver_state r dt (x :: d')) as [Hst _].
    eapply (rinv_data r _ _ I Hn Ho); [apply not_eof_toks_of|exact Hst].
Qed.

Lemma rinv_r_eof r : RInv r -> r_state r = ROpen -> RInv (fst (r_eof r)).
Proof.
  intros I Hs. unfold r_eof. destruct (r_err r); [exact I|]. rewrite Hs.
  pose proof (ri_open _ I Hs) as Hn.
  assert (I0 : RInv (mkR (r_buf r) (r_win r) (r_init r) (r_paused r) REofPending (r_err r) (r_out r))).
  { apply rinv_state; auto; intros; tauto. }
  destruct (r_paused r) eqn:Ep; simpl.
  - apply rinv_finish.
    eapply rinv_core; [exact I0| | |]; reflexivity.
  - destruct (r_flush _ None) as [r' adj] eqn:E. simpl.
    eapply rinv_flush; [|exact E]. eapply rinv_core; [exact I0| | |]; reflexivity.
Qed.

Lemma rinv_r_close r : RInv r -> RInv (fst (r_close r)).
Proof.
  intros I. unfold r_close. destruct (r_err r); [exact I|].
  assert (I0 : RInv (mkR (r_buf r) (r_win r) (r_init r) (r_paused r) RClosePending (r_err r) (r_out r))).
  { apply rinv_state; auto; try discriminate. simpl. lia. }
  assert (Hgo : RInv (fst (if r_paused r
                           then (r_finish (mkR (r_buf r) (r_win r) (r_init r) (r_paused r) RClosePending false (r_out r)), [])
                           else r_flush (mkR (r_buf r) (r_win r) (r_init r) (r_paused r) RClosePending false (r_out r)) None))).
  { destruct (r_paused r) eqn:Ep; simpl.
    - apply rinv_finish. eapply rinv_core; [exact I0| | |]; reflexivity.
    - destruct (r_flush _ None) as [r' adj] eqn:E. simpl.
      eapply rinv_flush; [|exact E]. eapply rinv_core; [exact I0| | |]; reflexivity. }
  destruct (r_state r); try exact Hgo; (apply (rinv_core r); [exact I|reflexivity|reflexivity|reflexivity]).
Qed.

Lemma rinv_r_resume r k : RInv r -> RInv (fst (r_resume r k)).
Proof.
  intros I. unfold r_resume.
  assert (Hfl : RInv (fst (if r_paused r then r_flush r k else (r, [])))).
  { destruct (r_paused r); [|exact I]. destruct (r_flush r k) as [r' adj] eqn:E. simpl. eapply rinv_flush; eauto. }
  destruct k as [[|n]|]; try exact I; exact Hfl.
Qed.

Lemma rinv_init w : RInv (mkR [] w w false ROpen false []).
Proof. constructor; simpl; try tauto. constructor. Qed.

(* ---------- lifting to the system ------------------------------------------------------------ *)

Lemma rcv_upd_rcv y res fwd' : rcv_ (upd_rcv y res fwd') = fst res.
Proof. unfold upd_rcv. destruct res. reflexivity. Qed.

Lemma rcv_upd_snd strict y res w : rcv_ (upd_snd strict y res w) = rcv_ y.
Proof. unfold upd_snd. destruct res as [[? ?]|]; reflexivity. Qed.

Lemma step_rinv strict y o : Inv y -> honest o -> RInv (rcv_ y) -> RInv (rcv_ (step strict y o)).
Proof.
  intros I Ho R. unfold step. rewrite (inv_nostuck _ I).
  destruct o as [dt d| | | |k| | |dt d]; try contradiction.
  - destruct (s_state (snd_ y)); try exact R; rewrite rcv_upd_snd; exact R.
  - destruct (s_state (snd_ y)); try exact R; rewrite rcv_upd_snd; exact R.
  - destruct (s_state (snd_ y)); try exact R; rewrite rcv_upd_snd; exact R.
  - simpl. eapply rinv_core; [exact R| | |]; reflexivity.
  - rewrite rcv_upd_rcv. apply rinv_r_resume. exact R.
  - destruct (fwd y) as [|p rest] eqn:Ef; [exact R|].
    pose proof (inv_walk _ I) as Hw. rewrite Ef in Hw.
    destruct p as [dt d| | |n]; simpl in Hw.
    + destruct (stage_r (r_state (rcv_ y))) eqn:Es; [|discriminate].
      assert (Hopen : r_state (rcv_ y) = ROpen) by (destruct (r_state (rcv_ y)); simpl in Es; congruence).
      rewrite rcv_upd_rcv. apply rinv_r_data; assumption.
    + destruct (stage_r (r_state (rcv_ y))) eqn:Es; [|discriminate].
      assert (Hopen : r_state (rcv_ y) = ROpen) by (destruct (r_state (rcv_ y)); simpl in Es; congruence).
      rewrite rcv_upd_rcv. apply rinv_r_eof; assumption.
    + rewrite rcv_upd_rcv. apply rinv_r_close. exact R.
    + exact R.
  - destruct (back y) as [|p rest]; [exact R|]. destruct p as [dt d| | |n]; try exact R.
    destruct (s_adjust _ _) as [[? ?]|]; exact R.
Qed.

Lemma run_both strict ops : forall y, Inv y -> RInv (rcv_ y) -> Forall honest ops ->
  Inv (fold_left (step strict) ops y) /\ RInv (rcv_ (fold_left (step strict) ops y)).
Proof.
  induction ops as [|o ops IH]; intros y I R H; simpl; [split; assumption|].
  inversion H; subst. apply IH; [apply step_inv; assumption|apply step_rinv; assumption|assumption].
Qed.

(* EOF is handed to the session only after ALL data the sender wrote (nothing is left buffered, in
   flight or unsent), and after it only the close notification can follow *)
Theorem eof_last strict window pktsize ops :
  1 <= window -> 1 <= pktsize -> Forall honest ops ->
  let y := run strict window pktsize ops in
  In TEof (r_out (rcv_ y)) ->
  toks_data (r_out (rcv_ y)) = toks_data (written y) /\ only_close (after_eof (r_out (rcv_ y))).
Proof.
  intros Hw Hp H y Hin.
  destruct (run_both strict ops (init_sys window pktsize) (init_inv _ _ Hw Hp) (rinv_init window) H) as [I R].
  fold (run strict window pktsize ops) in I, R. fold y in I, R.
  split; [|apply (ri_tail _ R)].
  pose proof (ri_buf _ R Hin) as Hb. pose proof (ri_stage _ R Hin) as Hs.
  (* the receiver is past EOF: the wire carries no data and the sender has nothing buffered *)
  pose proof (inv_walk _ I) as Hwalk.
  assert (Hfw : forall st l st', walk st l = Some st' -> (1 <= st)%nat -> pkts_data l = [] /\ (1 <= st')%nat).
  { intros st l. revert st. induction l as [|p l IH]; intros st st' Hwk Hst; simpl in *.
    - inversion Hwk; subst. split; [reflexivity|exact Hst].
    - destruct p as [dt d| | |n]; simpl.
      + destruct st; [lia|discriminate].
      + destruct st; [lia|discriminate].
      + destruct st as [|[|st]]; try lia; try discriminate. apply (IH 2%nat); [exact Hwk|lia].
      + apply (IH st); assumption. }
  destruct (Hfw _ _ _ Hwalk Hs) as [Hfd Hss].
  assert (Hsb : s_buf (snd_ y) = []).
  { apply (inv_sdone _ I). destruct (s_state (snd_ y)); simpl in Hss; try lia; auto. }
  pose proof (inv_data _ I) as Hd. rewrite Hb, Hfd, Hsb in Hd. simpl in Hd. rewrite app_nil_r in Hd. exact Hd.
Qed.
