(* EOF ordering for Model/Channel.v: EOF reaches the session only after all data, only if the sender
   signalled it, and only the close notification can follow it. *)
From AV Require Import Base.Prelude Model.Channel Proofs.ChannelProofs.

Local Arguments Z.mul : simpl never.
Local Arguments Z.add : simpl never.
Local Arguments Z.sub : simpl never.

Definition eof_in (l : list tok) : Prop := In TEof l.

Lemma not_eof_toks_of dt d : ~ In TEof (toks_of dt d).
Proof. unfold toks_of. induction d as [|x d IH]; simpl; [tauto|]. intros [H|H]; [discriminate|auto]. Qed.

Lemma eof_app_toks l dt d : In TEof (l ++ toks_of dt d) <-> In TEof l.
Proof.
  rewrite in_app_iff. split; [intros [H|H]; [exact H|exfalso; eapply not_eof_toks_of; eauto]|auto].
Qed.

(* tokens after the first EOF *)
Fixpoint after_eof (l : list tok) : list tok :=
  match l with
  | [] => []
  | TEof :: r => r
  | _ :: r => after_eof r
  end.

Definition only_close (l : list tok) : Prop := Forall (fun t => t = TClose) l.

Lemma after_eof_app_no l m : ~ In TEof l -> after_eof (l ++ m) = after_eof m.
Proof.
  induction l as [|t l IH]; intros H; simpl; [reflexivity|].
  destruct t; try (apply IH; intros X; apply H; right; exact X).
  exfalso. apply H. left. reflexivity.
Qed.

Lemma after_eof_app_yes l m : In TEof l -> after_eof (l ++ m) = after_eof l ++ m.
Proof.
  induction l as [|t l IH]; intros H; simpl; [destruct H|].
  destruct t; try reflexivity; (destruct H as [H|H]; [discriminate|apply IH; exact H]).
Qed.

Lemma after_eof_none l : ~ In TEof l -> after_eof l = [].
Proof.
  induction l as [|t l IH]; intros H; simpl; [reflexivity|].
  destruct t; try (apply IH; intros X; apply H; right; exact X).
  exfalso. apply H. left. reflexivity.
Qed.

(* the receiver-side invariant *)
Record RInv (r : receiver) : Prop := {
  ri_buf : In TEof (r_out r) -> r_buf r = [];
  ri_stage : In TEof (r_out r) -> (1 <= stage_r (r_state r))%nat;
  ri_pending : r_state r = REofPending -> ~ In TEof (r_out r);
  ri_open : r_state r = ROpen -> ~ In TEof (r_out r);
  ri_tail : only_close (after_eof (r_out r)) }.

Lemma deliver_out r dt d : r_out (fst (r_deliver r dt d)) = r_out r ++ toks_of dt d.
Proof. unfold r_deliver. destruct (_ <? _); reflexivity. Qed.

Lemma deliver_state r dt d : r_state (fst (r_deliver r dt d)) = r_state r /\ r_buf (fst (r_deliver r dt d)) = r_buf r.
Proof. unfold r_deliver. destruct (_ <? _); split; reflexivity. Qed.

(* draining delivers only data tokens *)
Lemma drain_out buf : forall r k bk r' rest bk',
  r_drain r buf k bk = (r', rest, bk') ->
  (In TEof (r_out r') <-> In TEof (r_out r)) /\ r_state r' = r_state r /\
  (exists ds, r_out r' = r_out r ++ ds /\ ~ In TEof ds) /\
  (rest = [] \/ exists j, k = Some j) /\ (buf = [] -> rest = []).
Proof.
  induction buf as [|[dt d] b IH]; intros r k bk r' rest bk' H.
  - simpl in H. inversion H; subst.
    split. { tauto. }
    split. { reflexivity. }
    split. { exists []. rewrite app_nil_r. split; [reflexivity|intros []]. }
    split. { left. reflexivity. }
    reflexivity.
  - simpl in H. destruct k as [[|j]|].
    + inversion H; subst.
      split. { tauto. }
      split. { reflexivity. }
      split. { exists []. rewrite app_nil_r. split; [reflexivity|intros []]. }
      split. { right. exists 0%nat. reflexivity. }
      discriminate.
    + destruct (r_deliver r dt d) as [r1 adj] eqn:E.
      pose proof (deliver_out r dt d) as Ho. pose proof (deliver_state r dt d) as [Hs _]. rewrite E in Ho, Hs. simpl in Ho, Hs.
      apply IH in H. destruct H as (A & B & (ds & C1 & C2) & D & _).
      split. { rewrite A, Ho, eof_app_toks. tauto. }
      split. { congruence. }
      split. { exists (toks_of dt d ++ ds). rewrite C1, Ho, app_assoc. split; [reflexivity|].
               rewrite in_app_iff. intros [X|X]; [eapply not_eof_toks_of; eauto|auto]. }
      split. { right. exists (S j). reflexivity. }
      discriminate.
    + destruct (r_deliver r dt d) as [r1 adj] eqn:E.
      pose proof (deliver_out r dt d) as Ho. pose proof (deliver_state r dt d) as [Hs _]. rewrite E in Ho, Hs. simpl in Ho, Hs.
      apply IH in H. destruct H as (A & B & (ds & C1 & C2) & D & _).
      split. { rewrite A, Ho, eof_app_toks. tauto. }
      split. { congruence. }
      split. { exists (toks_of dt d ++ ds). rewrite C1, Ho, app_assoc. split; [reflexivity|].
               rewrite in_app_iff. intros [X|X]; [eapply not_eof_toks_of; eauto|auto]. }
      split. { destruct D as [D|[j D]]; [left; exact D|discriminate]. }
      discriminate.
Qed.

(* a receiver whose output gained only data tokens, while no EOF had been delivered *)
Lemma rinv_data r m ds :
  RInv r -> ~ In TEof (r_out r) -> r_out m = r_out r ++ ds -> ~ In TEof ds -> r_state m = r_state r -> RInv m.
Proof.
  intros [A B C D E] Hn Ho Hds Hs.
  assert (Hm : ~ In TEof (r_out m)) by (rewrite Ho, in_app_iff; tauto).
  constructor; try (intros X; exfalso; tauto); try (intros _; exact Hm).
  rewrite after_eof_none by exact Hm. constructor.
Qed.

(* same output, same state, buffer emptied or kept *)
Lemma rinv_same r m :
  RInv r -> r_out m = r_out r -> r_state m = r_state r -> (r_buf m = r_buf r \/ r_buf m = []) -> RInv m.
Proof.
  intros [A B C D E] Ho Hs Hb. constructor; rewrite ?Ho, ?Hs; auto.
  intros X. destruct Hb as [Hb|Hb]; rewrite Hb; auto.
Qed.

Lemma rinv_finish r : RInv r -> RInv (r_finish r).
Proof.
  intros I. unfold r_finish. destruct (r_buf r) eqn:Eb; [|exact I].
  destruct (r_state r) eqn:Es; try exact I; destruct I as [A B C D E].
  - (* EOF becomes visible *)
    specialize (C Es).
    constructor; simpl; auto; try discriminate.
    rewrite after_eof_app_no by exact C. simpl. constructor.
  - (* close becomes visible *)
    constructor; simpl; auto; try discriminate.
    destruct (in_dec (fun a b : tok => ltac:(decide equality; apply Z.eq_dec)) TEof (r_out r)) as [Hin|Hnin].
    + rewrite after_eof_app_yes by exact Hin. apply Forall_app. split; [exact E|repeat constructor].
    + rewrite after_eof_app_no by exact Hnin. simpl. constructor.
Qed.

Lemma rinv_flush r k r' adj : RInv r -> r_flush r k = (r', adj) -> RInv r'.
Proof.
  intros I H. unfold r_flush in H.
  destruct (r_drain _ _ _ _) as [[r1 rest] bk] eqn:E.
  pose proof (drain_out _ _ _ _ _ _ _ E) as (Hiff & Hst & (ds & Ho & Hds) & _ & Hnil). simpl in *.
  inversion H; subst. apply rinv_finish.
  destruct (r_buf r) eqn:Eb.
  - (* nothing buffered: nothing delivered *)
    simpl in E. inversion E; subst. simpl.
    eapply rinv_same; [exact I| | |]; simpl; auto.
  - assert (Hn : ~ In TEof (r_out r)).
    { intros X. pose proof (ri_buf _ I X) as Y. congruence. }
    eapply (rinv_data r _ ds I Hn); simpl; auto.
Qed.

Lemma rinv_state r st :
  RInv r ->
  (st = REofPending -> ~ In TEof (r_out r)) -> (st = ROpen -> ~ In TEof (r_out r)) ->
  (In TEof (r_out r) -> (1 <= stage_r st)%nat) ->
  RInv (mkR (r_buf r) (r_win r) (r_init r) (r_paused r) st (r_err r) (r_out r)).
Proof. intros [A B C D E] H1 H2 H3. constructor; simpl; auto. Qed.

Lemma rinv_core r m : RInv r -> r_out m = r_out r -> r_state m = r_state r -> r_buf m = r_buf r -> RInv m.
Proof. intros I A B C. eapply rinv_same; eauto. Qed.

(* receiver operations as used by honest runs *)
Lemma rinv_r_data strict r dt d : RInv r -> r_state r = ROpen -> RInv (fst (r_data strict r dt d)).
Proof.
  intros I Hs. unfold r_data. destruct (r_err r); [exact I|]. rewrite Hs.
  destruct (zlen d >? _); [apply (rinv_core r); [exact I|reflexivity|reflexivity|reflexivity]|].
  destruct d as [|x d']; [exact I|].
  pose proof (ri_open _ I Hs) as Hn.
  destruct (r_paused r).
  - simpl. eapply (rinv_data r _ [] I Hn); simpl; auto. rewrite app_nil_r. reflexivity.
  - pose proof (deliver_out r dt (x :: d')) as Ho. pose proof (deliver_state r dt (x :: d')) as [Hst _].
    eapply (rinv_data r _ _ I Hn Ho); [apply not_eof_toks_of|exact Hst].
Qed.

Lemma rinv_r_eof r : RInv r -> r_state r = ROpen -> RInv (fst (r_eof r)).
Proof.
  intros I Hs. unfold r_eof. destruct (r_err r); [exact I|]. rewrite Hs.
  pose proof (ri_open _ I Hs) as Hn.
  assert (I0 : RInv (mkR (r_buf r) (r_win r) (r_init r) (r_paused r) REofPending (r_err r) (r_out r))).
  { apply rinv_state; auto; intros; tauto. }
  destruct (r_paused r) eqn:Ep; simpl.
  - apply rinv_finish.
    eapply rinv_core; [exact I0| | |]; reflexivity.
  - destruct (r_flush _ None) as [r' adj] eqn:E. simpl.
    eapply rinv_flush; [|exact E]. eapply rinv_core; [exact I0| | |]; reflexivity.
Qed.

Lemma rinv_r_close r : RInv r -> RInv (fst (r_close r)).
Proof.
  intros I. unfold r_close. destruct (r_err r); [exact I|].
  assert (I0 : RInv (mkR (r_buf r) (r_win r) (r_init r) (r_paused r) RClosePending (r_err r) (r_out r))).
  { apply rinv_state; auto; try discriminate. simpl. lia. }
  assert (Hgo : RInv (fst (if r_paused r
                           then (r_finish (mkR (r_buf r) (r_win r) (r_init r) (r_paused r) RClosePending false (r_out r)), [])
                           else r_flush (mkR (r_buf r) (r_win r) (r_init r) (r_paused r) RClosePending false (r_out r)) None))).
  { destruct (r_paused r) eqn:Ep; simpl.
    - apply rinv_finish. eapply rinv_core; [exact I0| | |]; reflexivity.
    - destruct (r_flush _ None) as [r' adj] eqn:E. simpl.
      eapply rinv_flush; [|exact E]. eapply rinv_core; [exact I0| | |]; reflexivity. }
  destruct (r_state r); try exact Hgo; (apply (rinv_core r); [exact I|reflexivity|reflexivity|reflexivity]).
Qed.

Lemma rinv_r_resume r k : RInv r -> RInv (fst (r_resume r k)).
Proof.
  intros I. unfold r_resume.
  assert (Hfl : RInv (fst (if r_paused r then r_flush r k else (r, [])))).
  { destruct (r_paused r); [|exact I]. destruct (r_flush r k) as [r' adj] eqn:E. simpl. eapply rinv_flush; eauto. }
  destruct k as [[|n]|]; try exact I; exact Hfl.
Qed.

Lemma rinv_init w : RInv (mkR [] w w false ROpen false []).
Proof. constructor; simpl; try tauto. constructor. Qed.

(* ---------- lifting to the system ------------------------------------------------------------ *)

Lemma rcv_upd_rcv y res fwd' : rcv_ (upd_rcv y res fwd') = fst res.
Proof. unfold upd_rcv. destruct res. reflexivity. Qed.

Lemma rcv_upd_snd strict y res w : rcv_ (upd_snd strict y res w) = rcv_ y.
Proof. unfold upd_snd. destruct res as [[? ?]|]; reflexivity. Qed.

Lemma step_rinv strict y o : Inv y -> honest o -> RInv (rcv_ y) -> RInv (rcv_ (step strict y o)).
Proof.
  intros I Ho R. unfold step. rewrite (inv_nostuck _ I).
  destruct o as [dt d| | | |k| | |dt d]; try contradiction.
  - destruct (s_state (snd_ y)); try exact R; rewrite rcv_upd_snd; exact R.
  - destruct (s_state (snd_ y)); try exact R; rewrite rcv_upd_snd; exact R.
  - destruct (s_state (snd_ y)); try exact R; rewrite rcv_upd_snd; exact R.
  - simpl. eapply rinv_core; [exact R| | |]; reflexivity.
  - rewrite rcv_upd_rcv. apply rinv_r_resume. exact R.
  - destruct (fwd y) as [|p rest] eqn:Ef; [exact R|].
    pose proof (inv_walk _ I) as Hw. rewrite Ef in Hw.
    destruct p as [dt d| | |n]; simpl in Hw.
    + destruct (stage_r (r_state (rcv_ y))) eqn:Es; [|discriminate].
      assert (Hopen : r_state (rcv_ y) = ROpen) by (destruct (r_state (rcv_ y)); simpl in Es; congruence).
      rewrite rcv_upd_rcv. apply rinv_r_data; assumption.
    + destruct (stage_r (r_state (rcv_ y))) eqn:Es; [|discriminate].
      assert (Hopen : r_state (rcv_ y) = ROpen) by (destruct (r_state (rcv_ y)); simpl in Es; congruence).
      rewrite rcv_upd_rcv. apply rinv_r_eof; assumption.
    + rewrite rcv_upd_rcv. apply rinv_r_close. exact R.
    + exact R.
  - destruct (back y) as [|p rest]; [exact R|]. destruct p as [dt d| | |n]; try exact R.
    destruct (s_adjust _ _) as [[? ?]|]; exact R.
Qed.

Lemma run_both strict ops : forall y, Inv y -> RInv (rcv_ y) -> Forall honest ops ->
  Inv (fold_left (step strict) ops y) /\ RInv (rcv_ (fold_left (step strict) ops y)).
Proof.
  induction ops as [|o ops IH]; intros y I R H; simpl; [split; assumption|].
  inversion H; subst. apply IH; [apply step_inv; assumption|apply step_rinv; assumption|assumption].
Qed.

(* EOF is handed to the session only after ALL data the sender wrote (nothing is left buffered, in
   flight or unsent), and after it only the close notification can follow *)
Theorem eof_last strict window pktsize ops :
  1 <= window -> 1 <= pktsize -> Forall honest ops ->
  let y := run strict window pktsize ops in
  In TEof (r_out (rcv_ y)) ->
  toks_data (r_out (rcv_ y)) = toks_data (written y) /\ only_close (after_eof (r_out (rcv_ y))).
Proof.
  intros Hw Hp H y Hin.
  destruct (run_both strict ops (init_sys window pktsize) (init_inv _ _ Hw Hp) (rinv_init window) H) as [I R].
  fold (run strict window pktsize ops) in I, R. fold y in I, R.
  split; [|apply (ri_tail _ R)].
  pose proof (ri_buf _ R Hin) as Hb. pose proof (ri_stage _ R Hin) as Hs.
  (* the receiver is past EOF: the wire carries no data and the sender has nothing buffered *)
  pose proof (inv_walk _ I) as Hwalk.
  assert (Hfw : forall st l st', walk st l = Some st' -> (1 <= st)%nat -> pkts_data l = [] /\ (1 <= st')%nat).
  { intros st l. revert st. induction l as [|p l IH]; intros st st' Hwk Hst; simpl in *.
    - inversion Hwk; subst. split; [reflexivity|exact Hst].
    - destruct p as [dt d| | |n]; simpl.
      + destruct st; [lia|discriminate].
      + destruct st; [lia|discriminate].
      + destruct st as [|[|st]]; try lia; try discriminate. apply (IH 2%nat); [exact Hwk|lia].
      + apply (IH st); assumption. }
  destruct (Hfw _ _ _ Hwalk Hs) as [Hfd Hss].
  assert (Hsb : s_buf (snd_ y) = []).
  { apply (inv_sdone _ I). destruct (s_state (snd_ y)); simpl in Hss; try lia; auto. }
  pose proof (inv_data _ I) as Hd. rewrite Hb, Hfd, Hsb in Hd. simpl in Hd. rewrite app_nil_r in Hd. exact Hd.
Qed.

(* ---------- EOF is delivered only if the sender signalled it -------------------------------- *)

Fixpoint eofs_t (l : list tok) : Z :=
  match l with [] => 0 | TEof :: r => 1 + eofs_t r | _ :: r => eofs_t r end.
Fixpoint eofs_p (l : list pkt) : Z :=
  match l with [] => 0 | PEof :: r => 1 + eofs_p r | _ :: r => eofs_p r end.
Definition pend_s (s : sender) : Z := match s_state s with SEofPending => 1 | _ => 0 end.
Definition pend_r (r : receiver) : Z := match r_state r with REofPending => 1 | _ => 0 end.

Lemma eofs_t_app a b : eofs_t (a ++ b) = eofs_t a + eofs_t b.
Proof. induction a as [|t a IH]; simpl; [reflexivity|]. destruct t; lia. Qed.
Lemma eofs_p_app a b : eofs_p (a ++ b) = eofs_p a + eofs_p b.
Proof. induction a as [|t a IH]; simpl; [reflexivity|]. destruct t; lia. Qed.
Lemma eofs_t_nonneg l : 0 <= eofs_t l.
Proof. induction l as [|t l IH]; simpl; [lia|]. destruct t; lia. Qed.
Lemma eofs_t_toks_of dt d : eofs_t (toks_of dt d) = 0.
Proof. unfold toks_of. induction d; simpl; auto. Qed.
Lemma eofs_t_in l : In TEof l -> 1 <= eofs_t l.
Proof.
  induction l as [|t l IH]; intros H; [destruct H|]. simpl.
  destruct t; try (destruct H as [H|H]; [discriminate|specialize (IH H); lia]).
  pose proof (eofs_t_nonneg l). lia.
Qed.
Lemma eofs_t_pos_in l : 1 <= eofs_t l -> In TEof l.
Proof.
  induction l as [|t l IH]; simpl; intros H; [lia|].
  destruct t; try (right; apply IH; exact H). left. reflexivity.
Qed.
Lemma eofs_p_data l : Forall good_data l -> eofs_p l = 0.
Proof. induction 1 as [|p l Hp _ IH]; simpl; [reflexivity|]. destruct p; simpl in *; try contradiction; exact IH. Qed.

Lemma flush_send_eofs s s' out :
  flush_send s = Some (s', out) -> 1 <= s_pkt s -> 0 <= s_win s -> nonempty_entries (s_buf s) ->
  eofs_p out + pend_s s' = pend_s s.
Proof.
  unfold flush_send, pend_s. intros H Hp Hw Hne.
  destruct (flush_loop _ _ _ _ _) as [[[buf win] o]|] eqn:E; [|discriminate].
  apply flush_loop_spec in E; try assumption.
  destruct E as (new & Ho & _ & _ & _ & _ & Hall & _). simpl in Ho. subst o.
  assert (Hz : eofs_p new = 0).
  { apply eofs_p_data. eapply Forall_impl; [|exact Hall]. intros p [Hg _]. exact Hg. }
  destruct buf; destruct (s_state s); inversion H; subst; simpl; rewrite ?eofs_p_app, ?Hz; simpl; lia.
Qed.

Lemma finish_eofs r : eofs_t (r_out (r_finish r)) + pend_r (r_finish r) = eofs_t (r_out r) + pend_r r.
Proof.
  unfold r_finish, pend_r. destruct (r_buf r); [|reflexivity].
  destruct (r_state r) eqn:Es; simpl; rewrite ?Es, ?eofs_t_app; simpl; lia.
Qed.

Lemma deliver_eofs r dt d :
  eofs_t (r_out (fst (r_deliver r dt d))) = eofs_t (r_out r) /\ r_state (fst (r_deliver r dt d)) = r_state r.
Proof.
  rewrite deliver_out, eofs_t_app, eofs_t_toks_of. split; [lia|apply deliver_state].
Qed.

Lemma drain_eofs buf : forall r k bk r' rest bk',
  r_drain r buf k bk = (r', rest, bk') -> eofs_t (r_out r') = eofs_t (r_out r) /\ r_state r' = r_state r.
Proof.
  induction buf as [|[dt d] b IH]; intros r k bk r' rest bk' H.
  - simpl in H. inversion H; subst. split; reflexivity.
  - simpl in H. destruct k as [[|j]|].
    + inversion H; subst. split; reflexivity.
    + destruct (r_deliver r dt d) as [r1 adj] eqn:E. destruct (deliver_eofs r dt d) as [A B]. rewrite E in A, B. simpl in A, B.
      apply IH in H. destruct H as [C D]. split; congruence.
    + destruct (r_deliver r dt d) as [r1 adj] eqn:E. destruct (deliver_eofs r dt d) as [A B]. rewrite E in A, B. simpl in A, B.
      apply IH in H. destruct H as [C D]. split; congruence.
Qed.

Lemma flush_eofs r k r' adj :
  r_flush r k = (r', adj) -> eofs_t (r_out r') + pend_r r' = eofs_t (r_out r) + pend_r r.
Proof.
  intros H. unfold r_flush in H. destruct (r_drain _ _ _ _) as [[r1 rest] bk] eqn:E.
  apply drain_eofs in E. destruct E as [A B]. simpl in A, B. inversion H; subst.
  rewrite finish_eofs. unfold pend_r. simpl. rewrite A, B. reflexivity.
Qed.

Definition eof_budget (y : sys) : Z :=
  eofs_t (r_out (rcv_ y)) + pend_r (rcv_ y) + eofs_p (fwd y) + pend_s (snd_ y).

Lemma step_budget strict y o : Inv y -> honest o ->
  eofs_t (written y) - eof_budget y <= eofs_t (written (step strict y o)) - eof_budget (step strict y o).
Proof.
  intros I Ho. unfold step. rewrite (inv_nostuck _ I).
  pose proof (inv_pkt _ I) as Hp. pose proof (inv_swin _ I) as Hw. pose proof (inv_ne _ I) as Hne.
  destruct o as [dt d| | | |k| | |dt d]; try contradiction.
  - (* write *)
    destruct (s_state (snd_ y)) eqn:Est; try lia.
    unfold upd_snd, s_write. rewrite Est. destruct d as [|x d']; [unfold eof_budget; simpl; rewrite !app_nil_r; lia|].
    destruct (flush_send _) as [[s' out]|] eqn:E; [|unfold eof_budget; simpl; lia].
    apply flush_send_eofs in E; simpl; auto.
    + unfold eof_budget, pend_s in *. simpl in *. rewrite Est, eofs_p_app, eofs_t_app.
      change (TB dt x :: toks_of dt d') with (toks_of dt (x :: d')). rewrite eofs_t_toks_of. lia.
    + apply Forall_app. split; [exact Hne|constructor; [simpl; discriminate|constructor]].
  - (* eof *)
    destruct (s_state (snd_ y)) eqn:Est; try lia.
    unfold upd_snd, s_eof. rewrite Est.
    destruct (flush_send _) as [[s' out]|] eqn:E; [|unfold eof_budget; simpl; lia].
    apply flush_send_eofs in E; simpl; auto.
    unfold eof_budget, pend_s in *. simpl in *. rewrite Est, eofs_p_app, eofs_t_app. simpl. lia.
  - (* close *)
    assert (Hgen : forall s' out, flush_send (mkS (s_buf (snd_ y)) (s_win (snd_ y)) (s_pkt (snd_ y)) SClosePending) = Some (s', out) ->
              eofs_p out + pend_s s' = 0).
    { intros s' out E. apply flush_send_eofs in E; simpl; auto. }
    assert (Hps : 0 <= pend_s (snd_ y)) by (unfold pend_s; destruct (s_state (snd_ y)); lia).
    destruct (s_state (snd_ y)) eqn:Est; try lia; unfold upd_snd, s_close; rewrite Est;
      (destruct (flush_send _) as [[s' out]|] eqn:E; [|unfold eof_budget; simpl; lia]);
      specialize (Hgen _ _ eq_refl); unfold eof_budget in *; simpl in *;
      rewrite eofs_p_app, eofs_t_app; simpl; lia.
  - (* pause *)
    unfold eof_budget, pend_r. simpl. lia.
  - (* resume *)
    assert (Hid : eof_budget (upd_rcv y (rcv_ y, []) (fwd y)) = eof_budget y /\
                  written (upd_rcv y (rcv_ y, []) (fwd y)) = written y).
    { unfold upd_rcv, eof_budget. simpl. split; reflexivity. }
    assert (Hfl : eof_budget (upd_rcv y (r_flush (rcv_ y) k) (fwd y)) = eof_budget y /\
                  written (upd_rcv y (r_flush (rcv_ y) k) (fwd y)) = written y).
    { unfold upd_rcv. destruct (r_flush (rcv_ y) k) as [r' adj] eqn:E. apply flush_eofs in E.
      unfold eof_budget. simpl. split; [lia|reflexivity]. }
    unfold r_resume. destruct k as [[|n]|];
      try (destruct Hid as [A B]; rewrite A, B; lia);
      (destruct (r_paused (rcv_ y)); [destruct Hfl as [A B]|destruct Hid as [A B]]; rewrite A, B; lia).
  - (* deliver forward *)
    destruct (fwd y) as [|p rest] eqn:Ef; [lia|].
    pose proof (inv_walk _ I) as Hwk. rewrite Ef in Hwk.
    destruct p as [dt d| | |n]; simpl in Hwk.
    + destruct (stage_r (r_state (rcv_ y))) eqn:Es; [|discriminate].
      assert (Hopen : r_state (rcv_ y) = ROpen) by (destruct (r_state (rcv_ y)); simpl in Es; congruence).
      unfold upd_rcv. destruct (r_data strict (rcv_ y) dt d) as [r' adj] eqn:E.
      assert (Hr : eofs_t (r_out r') = eofs_t (r_out (rcv_ y)) /\ r_state r' = ROpen).
      { unfold r_data in E. rewrite (inv_noerr _ I), Hopen in E.
        destruct (zlen d >? _); [inversion E; subst; simpl; auto|].
        destruct d as [|x d']; [inversion E; subst; auto|].
        destruct (r_paused (rcv_ y)); [inversion E; subst; simpl; auto|].
        destruct (deliver_eofs (rcv_ y) dt (x :: d')) as [A B]. rewrite E in A, B. simpl in A, B. split; congruence. }
      destruct Hr as [A B]. unfold eof_budget, pend_r. simpl. rewrite Ef, A, B, Hopen. simpl. lia.
    + destruct (stage_r (r_state (rcv_ y))) eqn:Es; [|discriminate].
      assert (Hopen : r_state (rcv_ y) = ROpen) by (destruct (r_state (rcv_ y)); simpl in Es; congruence).
      unfold upd_rcv. destruct (r_eof (rcv_ y)) as [r' adj] eqn:E.
      assert (Hr : eofs_t (r_out r') + pend_r r' = eofs_t (r_out (rcv_ y)) + 1).
      { unfold r_eof in E. rewrite (inv_noerr _ I), Hopen in E.
        destruct (r_paused (rcv_ y)).
        - inversion E; subst. rewrite finish_eofs. unfold pend_r. simpl. lia.
        - apply flush_eofs in E. unfold pend_r in *. simpl in *. lia. }
      unfold eof_budget at 2. simpl. unfold eof_budget. rewrite Ef. simpl.
      assert (pend_r (rcv_ y) = 0) by (unfold pend_r; rewrite Hopen; reflexivity). lia.
    + unfold upd_rcv. destruct (r_close (rcv_ y)) as [r' adj] eqn:E.
      assert (Hr : eofs_t (r_out r') + pend_r r' <= eofs_t (r_out (rcv_ y)) + pend_r (rcv_ y)).
      { assert (H0 : 0 <= pend_r (rcv_ y)) by (unfold pend_r; destruct (r_state (rcv_ y)); lia).
        unfold r_close in E. rewrite (inv_noerr _ I) in E.
        assert (Hgo : forall r1 a1,
                  (if r_paused (rcv_ y)
                   then (r_finish (mkR (r_buf (rcv_ y)) (r_win (rcv_ y)) (r_init (rcv_ y)) (r_paused (rcv_ y)) RClosePending false (r_out (rcv_ y))), [])
                   else r_flush (mkR (r_buf (rcv_ y)) (r_win (rcv_ y)) (r_init (rcv_ y)) (r_paused (rcv_ y)) RClosePending false (r_out (rcv_ y))) None) = (r1, a1) ->
                  eofs_t (r_out r1) + pend_r r1 = eofs_t (r_out (rcv_ y))).
        { intros r1 a1 G. destruct (r_paused (rcv_ y)).
          - inversion G; subst. rewrite finish_eofs. unfold pend_r. simpl. lia.
          - apply flush_eofs in G. unfold pend_r in *. simpl in *. lia. }
        destruct (r_state (rcv_ y)) eqn:Es;
          try (specialize (Hgo _ _ E); lia);
          (inversion E; subst; unfold pend_r, r_fail; simpl; rewrite Es; lia). }
      unfold eof_budget. simpl. rewrite Ef. simpl. lia.
    + unfold eof_budget. simpl. rewrite Ef. simpl. lia.
  - (* deliver back *)
    destruct (back y) as [|p rest] eqn:Eb; [lia|].
    destruct p as [dt d| | |n]; try (unfold eof_budget; simpl; lia).
    unfold s_adjust. destruct (flush_send _) as [[s' out]|] eqn:E; [|unfold eof_budget; simpl; lia].
    apply flush_send_eofs in E; simpl; auto.
    + unfold eof_budget, pend_s in *. simpl in *. rewrite eofs_p_app. lia.
    + pose proof (inv_back_pos _ I) as Hbp. rewrite Eb in Hbp. inversion Hbp; subst. simpl in *. lia.
Qed.

Lemma run_budget strict ops : forall y, Inv y -> Forall honest ops ->
  eofs_t (written y) - eof_budget y <=
  eofs_t (written (fold_left (step strict) ops y)) - eof_budget (fold_left (step strict) ops y).
Proof.
  induction ops as [|o ops IH]; intros y I H; simpl; [lia|].
  inversion H; subst.
  pose proof (step_budget strict y o I H2).
  pose proof (IH _ (step_inv strict y o I H2) H3). lia.
Qed.

(* EOF reaches the receiving session only if the sending application signalled it *)
Theorem eof_only_if_signalled strict window pktsize ops :
  1 <= window -> 1 <= pktsize -> Forall honest ops ->
  let y := run strict window pktsize ops in
  In TEof (r_out (rcv_ y)) -> In TEof (written y).
Proof.
  intros Hw Hp H y Hin.
  pose proof (run_budget strict ops (init_sys window pktsize) (init_inv _ _ Hw Hp) H) as Hb.
  fold (run strict window pktsize ops) in Hb. fold y in Hb.
  change (eofs_t (written (init_sys window pktsize))) with 0 in Hb.
  change (eof_budget (init_sys window pktsize)) with 0 in Hb.
  apply eofs_t_pos_in.
  pose proof (eofs_t_in _ Hin).
  unfold eof_budget in Hb.
  assert (0 <= pend_r (rcv_ y)) by (unfold pend_r; destruct (r_state (rcv_ y)); lia).
  assert (0 <= pend_s (snd_ y)) by (unfold pend_s; destruct (s_state (snd_ y)); lia).
  assert (0 <= eofs_p (fwd y)).
  { clear. induction (fwd y) as [|p l IH]; simpl; [lia|]. destruct p; lia. }
  lia.
Qed.
