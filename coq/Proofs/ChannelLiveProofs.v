(* Liveness for Model/Channel.v: while the receiving application keeps reading, every delivery step
   strictly decreases an explicit measure, so pumping the two wires reaches quiescence within a bounded
   number of deliveries - and at quiescence everything written has been delivered. *)
From AV Require Import Base.Prelude Model.Channel Proofs.ChannelProofs.

Local Arguments Z.mul : simpl never.
Local Arguments Z.add : simpl never.
Local Arguments Z.sub : simpl never.

(* weight of the forward wire: a data packet weighs 2, a control packet 1 *)
Fixpoint wfwd (l : list pkt) : Z :=
  match l with
  | [] => 0
  | PData _ _ :: r => 2 + wfwd r
  | _ :: r => 1 + wfwd r
  end.

Definition wpend (s : sender) : Z :=
  match s_state s with SEofPending | SClosePending => 2 | _ => 0 end.

Definition plen (l : list pkt) : Z := Z.of_nat (length l).

Definition measure (y : sys) : Z :=
  2 * buf_len (s_buf (snd_ y)) + wfwd (fwd y) + plen (back y) + wpend (snd_ y).

Lemma wfwd_app a b : wfwd (a ++ b) = wfwd a + wfwd b.
Proof. induction a as [|p a IH]; simpl; [lia|]. destruct p; lia. Qed.

Lemma wfwd_nonneg l : 0 <= wfwd l.
Proof. induction l as [|p l IH]; simpl; [lia|]. destruct p; lia. Qed.

Lemma wfwd_pos p l : 1 <= wfwd (p :: l).
Proof. simpl. pose proof (wfwd_nonneg l). destruct p; lia. Qed.

Lemma wpend_nonneg s : 0 <= wpend s.
Proof. unfold wpend. destruct (s_state s); lia. Qed.

Lemma measure_nonneg y : 0 <= measure y.
Proof.
  unfold measure. pose proof (buf_len_nonneg (s_buf (snd_ y))). pose proof (wfwd_nonneg (fwd y)).
  assert (0 <= plen (back y)) by (unfold plen; lia). pose proof (wpend_nonneg (snd_ y)). lia.
Qed.

(* data packets carry at least one byte, so their weight is covered by twice their length *)
Lemma wfwd_data l : Forall (fun p => good_data p /\ True) l -> wfwd l <= 2 * pkts_len l.
Proof.
  induction 1 as [|p l [Hp _] _ IH]; simpl; [lia|].
  destruct p; simpl in *; try contradiction. lia.
Qed.

Lemma flush_send_measure s s' out :
  flush_send s = Some (s', out) -> 1 <= s_pkt s -> 0 <= s_win s -> nonempty_entries (s_buf s) ->
  2 * buf_len (s_buf s') + wfwd out + wpend s' <= 2 * buf_len (s_buf s) + wpend s.
Proof.
  unfold flush_send, wpend. intros H Hp Hw Hne.
  destruct (flush_loop _ _ _ _ _) as [[[buf win] o]|] eqn:E; [|discriminate].
  apply flush_loop_spec in E; try assumption.
  destruct E as (new & Ho & _ & _ & _ & _ & Hall & _ & Hbl & _). simpl in Ho. subst o.
  assert (Hwn : wfwd new <= 2 * pkts_len new).
  { apply wfwd_data. eapply Forall_impl; [|exact Hall]. intros p [Hg _]. split; [exact Hg|exact I]. }
  destruct buf; destruct (s_state s); inversion H; subst; simpl in *; rewrite ?wfwd_app; simpl; lia.
Qed.

Lemma zlen_cons {A} (x : A) (l : list A) : Z.of_nat (length (x :: l)) = 1 + Z.of_nat (length l).
Proof. simpl length. lia. Qed.

(* delivering a data packet to a receiver that is reading produces at most one adjust *)
Lemma r_deliver_adj r dt d : plen (snd (r_deliver r dt d)) <= 1.
Proof.
  unfold r_deliver. destruct (_ <? _); simpl; [|unfold plen; simpl; lia].
  destruct (r_sclosed r); unfold plen; simpl; lia.
Qed.

Lemma r_finish_paused r : r_paused (r_finish r) = r_paused r.
Proof. apply (r_finish_facts r). Qed.

(* a reading receiver with nothing buffered: flushing delivers nothing *)
Lemma r_flush_empty r : r_buf r = [] ->
  r_flush r None = (r_finish (mkR [] (r_win r) (r_init r) false (r_state r) (r_err r) (r_out r)), []).
Proof. intros E. unfold r_flush. rewrite E. reflexivity. Qed.

Definition reading (y : sys) : Prop := r_paused (rcv_ y) = false.

(* one delivery on a non-empty wire: the measure drops by at least 1, the reader keeps reading,
   nothing new is written *)
Lemma deliver_fwd_measure strict y :
  Inv y -> reading y -> fwd y <> [] ->
  let y' := step strict y ODeliverFwd in
  measure y' + 1 <= measure y /\ reading y' /\ written y' = written y.
Proof.
  intros I Hr Hf y'. subst y'.
  pose proof (inv_unpaused _ I Hr) as Hbuf.
  unfold measure, reading in *.
  unfold step. rewrite (inv_nostuck _ I).
  destruct (fwd y) as [|p rest] eqn:Ef; [congruence|].
  pose proof (inv_walk _ I) as Hwk. rewrite Ef in Hwk.
  unfold upd_rcv.
  destruct p as [dt d| | |n]; simpl in Hwk.
  - destruct (stage_r (r_state (rcv_ y))) eqn:Es; [|discriminate].
    assert (Hopen : r_state (rcv_ y) = ROpen) by (destruct (r_state (rcv_ y)); simpl in Es; congruence).
    destruct (r_data strict (rcv_ y) dt d) as [r' adj] eqn:E. cbn [snd_ rcv_ fwd back written].
    assert (Hadj : plen adj <= 1 /\ r_paused r' = false).
    { unfold r_data in E. rewrite (inv_noerr _ I), Hopen in E.
      destruct (zlen d >? _); [inversion E; subst; simpl; split; [unfold plen; simpl; lia|exact Hr]|].
      destruct d as [|x d']; [inversion E; subst; split; [unfold plen; simpl; lia|exact Hr]|].
      rewrite Hr in E. pose proof (r_deliver_adj (rcv_ y) dt (x :: d')) as Ha. rewrite E in Ha. simpl in Ha.
      split; [exact Ha|].
      unfold r_deliver in E. destruct (_ <? _); inversion E; subst; simpl; exact Hr. }
    destruct Hadj as [Ha Hp]. simpl wfwd. unfold plen in *. rewrite app_length. repeat split; auto. lia.
  - destruct (stage_r (r_state (rcv_ y))) eqn:Es; [|discriminate].
    assert (Hopen : r_state (rcv_ y) = ROpen) by (destruct (r_state (rcv_ y)); simpl in Es; congruence).
    destruct (r_eof (rcv_ y)) as [r' adj] eqn:E. cbn [snd_ rcv_ fwd back written].
    unfold r_eof in E. rewrite (inv_noerr _ I), Hopen, Hr in E.
    rewrite r_flush_empty in E by exact Hbuf. inversion E; subst.
    rewrite r_finish_paused. simpl. rewrite app_nil_r. repeat split; auto. lia.
  - destruct (r_close (rcv_ y)) as [r' adj] eqn:E. cbn [snd_ rcv_ fwd back written].
    assert (Hgo : adj = [] /\ r_paused r' = false).
    { unfold r_close in E. rewrite (inv_noerr _ I), Hr in E.
      assert (Hfl : forall st, r_flush (mkR (r_buf (rcv_ y)) (r_win (rcv_ y)) (r_init (rcv_ y)) false st false (r_out (rcv_ y))) None
                       = (r_finish (mkR [] (r_win (rcv_ y)) (r_init (rcv_ y)) false st false (r_out (rcv_ y))), [])).
      { intros st. rewrite r_flush_empty by exact Hbuf. reflexivity. }
      destruct (r_state (rcv_ y)); try (rewrite Hfl in E; inversion E; subst; rewrite r_finish_paused; split; reflexivity);
        (inversion E; subst; split; [reflexivity|exact Hr]). }
    destruct Hgo as [-> Hp]. simpl. rewrite app_nil_r. repeat split; auto. lia.
  - cbn [snd_ rcv_ fwd back written]. simpl. repeat split; auto. lia.
Qed.

Lemma deliver_back_measure strict y :
  Inv y -> reading y -> back y <> [] ->
  let y' := step strict y ODeliverBack in
  measure y' + 1 <= measure y /\ reading y' /\ written y' = written y.
Proof.
  intros I Hr Hb y'. subst y'.
  unfold measure, reading in *.
  unfold step. rewrite (inv_nostuck _ I).
  destruct (back y) as [|p rest] eqn:Eb; [congruence|].
  pose proof (inv_back_pos _ I) as Hbp. rewrite Eb in Hbp. inversion Hbp as [|? ? Hp0 _]; subst.
  destruct p as [dt d| | |n]; try (cbn [snd_ rcv_ fwd back written]; unfold plen; rewrite zlen_cons; repeat split; auto; lia).
  unfold s_adjust.
  destruct (flush_send _) as [[s' out]|] eqn:E.
  - cbn [snd_ rcv_ fwd back written].
    apply flush_send_measure in E; simpl; [|apply (inv_pkt _ I)|simpl in Hp0; pose proof (inv_swin _ I); lia|apply (inv_ne _ I)].
    simpl in E. unfold wpend in *. simpl in E. unfold plen. rewrite wfwd_app, zlen_cons. repeat split; auto. lia.
  - exfalso. revert E. apply flush_send_total; simpl;
      [apply (inv_pkt _ I)|simpl in Hp0; pose proof (inv_swin _ I); lia|apply (inv_ne _ I)].
Qed.

(* pump: deliver the head of the forward wire if there is one, else of the backward wire *)
Fixpoint pump (strict : bool) (fuel : nat) (y : sys) : sys :=
  match fuel with
  | O => y
  | S f =>
      match fwd y, back y with
      | _ :: _, _ => pump strict f (step strict y ODeliverFwd)
      | [], _ :: _ => pump strict f (step strict y ODeliverBack)
      | [], [] => y
      end
  end.

Lemma measure_zero_quiet y : measure y <= 0 -> fwd y = [] /\ back y = [].
Proof.
  unfold measure, plen. intros H.
  pose proof (buf_len_nonneg (s_buf (snd_ y))). pose proof (wpend_nonneg (snd_ y)).
  pose proof (wfwd_nonneg (fwd y)).
  destruct (fwd y) as [|p l].
  - destruct (back y) as [|q m]; [split; reflexivity|]. rewrite zlen_cons in H. simpl wfwd in *. lia.
  - pose proof (wfwd_pos p l). lia.
Qed.

Theorem pump_quiescent strict fuel : forall y,
  Inv y -> reading y -> measure y <= Z.of_nat fuel ->
  let y' := pump strict fuel y in
  fwd y' = [] /\ back y' = [] /\ Inv y' /\ reading y' /\ written y' = written y.
Proof.
  induction fuel as [|f IH]; intros y I Hr Hm y'; subst y'.
  - simpl. destruct (measure_zero_quiet y ltac:(lia)) as [A B].
    refine (conj A (conj B (conj I (conj Hr eq_refl)))).
  - cbn [pump]. destruct (fwd y) as [|p l] eqn:Ef.
    + destruct (back y) as [|q m] eqn:Eb; [refine (conj Ef (conj Eb (conj I (conj Hr eq_refl))))|].
      destruct (deliver_back_measure strict y I Hr) as (Hd & Hr' & Hw); [rewrite Eb; discriminate|].
      pose proof (step_inv strict y ODeliverBack I Logic.I) as I'.
      destruct (IH _ I' Hr') as (A & B & C & D & E); [lia|].
      refine (conj A (conj B (conj C (conj D _)))). congruence.
    + destruct (deliver_fwd_measure strict y I Hr) as (Hd & Hr' & Hw); [rewrite Ef; discriminate|].
      pose proof (step_inv strict y ODeliverFwd I Logic.I) as I'.
      destruct (IH _ I' Hr') as (A & B & C & D & E); [lia|].
      refine (conj A (conj B (conj C (conj D _)))). congruence.
Qed.

(* quiescent + reading: everything written has been delivered (for any state satisfying Inv) *)
Lemma inv_quiescent y :
  Inv y -> fwd y = [] -> back y = [] -> reading y ->
  toks_data (r_out (rcv_ y)) = toks_data (written y) /\ s_buf (snd_ y) = [].
Proof.
  intros I Hf Hb Hpa.
  pose proof (inv_unpaused _ I Hpa) as Hrb.
  assert (Hs : s_buf (snd_ y) = []).
  { destruct (Nat.eq_dec (stage_r (r_state (rcv_ y))) 2) as [E2|E2].
    - pose proof (inv_walk _ I) as Hwk. rewrite Hf in Hwk. simpl in Hwk. rewrite E2 in Hwk.
      apply (inv_sdone _ I). right. destruct (s_state (snd_ y)); simpl in Hwk; try discriminate; reflexivity.
    - destruct (inv_flushed _ I) as [E|E]; [exact E|].
      pose proof (inv_credit_eq _ I E2) as Hc. unfold eff_win in Hc. rewrite Hf, Hb, Hrb, E in Hc. simpl in Hc.
      pose proof (inv_half _ I). pose proof (inv_init _ I). lia. }
  split; [|exact Hs].
  pose proof (inv_data _ I) as Hd. rewrite Hf, Hrb, Hs in Hd. simpl in Hd. rewrite app_nil_r in Hd. exact Hd.
Qed.

(* Eventually delivered: after ANY honest history, once the reader resumes reading, pumping the wires
   for at most [measure] deliveries empties both wires, and then the receiving session has been handed
   exactly what the sending application wrote. *)
Theorem eventually_delivered strict window pktsize ops :
  1 <= window -> 1 <= pktsize -> Forall honest ops ->
  let y0 := run strict window pktsize ops in
  let y1 := step strict y0 (OResume None) in
  let y2 := pump strict (Z.to_nat (measure y1)) y1 in
  fwd y2 = [] /\ back y2 = [] /\ toks_data (r_out (rcv_ y2)) = toks_data (written y0) /\ s_buf (snd_ y2) = [].
Proof.
  intros Hw Hp H y0 y1 y2.
  pose proof (run_inv strict _ _ _ Hw Hp H) as I0. fold y0 in I0.
  assert (I1 : Inv y1) by (apply step_inv; [exact I0|exact I]).
  assert (Hw1 : written y1 = written y0).
  { unfold y1, step. rewrite (inv_nostuck _ I0). unfold upd_rcv.
    destruct (r_resume (rcv_ y0) None); reflexivity. }
  assert (Hr1 : reading y1).
  { unfold y1, reading, step. rewrite (inv_nostuck _ I0). unfold upd_rcv, r_resume.
    destruct (r_paused (rcv_ y0)) eqn:Ep; [|simpl; exact Ep].
    destruct (r_flush (rcv_ y0) None) as [r' adj] eqn:E. simpl.
    unfold r_flush in E. destruct (r_drain _ _ _ _) as [[r1 rest] bk]. inversion E; subst.
    rewrite r_finish_paused. reflexivity. }
  destruct (pump_quiescent strict (Z.to_nat (measure y1)) y1 I1 Hr1) as (A & B & C & D & E).
  { pose proof (measure_nonneg y1). lia. }
  fold y2 in A, B, C, D, E.
  destruct (inv_quiescent y2 C A B D) as [F G].
  refine (conj A (conj B (conj _ G))). rewrite F, E, Hw1. reflexivity.
Qed.
